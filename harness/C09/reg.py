TARGETS = {
    "c09_log_tsan": {"src": "C09/logging.cpp", "variant": "tsan", "engine": "rc", "libs": ["log", "util", "base"]},
    "c09_log_asan": {"src": "C09/logging.cpp", "variant": "asan", "engine": "rc", "libs": ["log", "util", "base"]},
}
PROP = {
    "subchecks": [
        {"target": "c09_log_tsan", "sub": "logging",
         "quick": {"cases": 700, "max_size": 60, "workers": 8, "case_alarm": 60},
         "thorough": {"cases": 8000, "max_size": 150, "workers": 10, "case_alarm": 60}},
        {"target": "c09_log_asan", "sub": "logging",
         "quick": {"cases": 1000, "max_size": 60, "workers": 4, "case_alarm": 60},
         "thorough": {"cases": 8000, "max_size": 150, "workers": 6, "case_alarm": 60}},
    ],
    "assumptions": ["filters and the maximum length are configured before the logging threads start (re-configuring concurrently with logging is not claimed)",
                    "at most one sink per scenario writes to fd 1",
                    "record identity is carried by func_name ('t<k>') and line (per-thread sequence number) passed to LogPrintfFunc, text is a generated pattern without blanks or newlines",
                    "timestamps are checked for format only; colour is off",
                    "interleavings are sampled (real threads + generated yields), not enumerated"],
}
META = {
    "design_ref": "DESIGN.md section 4, C09",
    "technique": "PBT over generated multi-thread logging scenarios and sink configurations (rapidcheck); oracle = expected multiset per sink from the filter model, per-thread order, byte-exact text/truncation, whole-line parsing of async/file/stdout output, file roll-over rules; ThreadSanitizer + ASan builds",
    "level_text": "Generated maximum lengths (0..100 KiB incl. the 2 KiB stack-buffer boundary), 1-3 sinks (recording Sink and AsyncSink subclasses with generated pipe configurations, the in-tree AsyncFileSink with file limits from 1 byte, Sync/AsyncStdoutSink with fd 1 redirected), per-sink default and per-module thresholds, 1-6 logging threads with generated levels, modules, boundary-biased text lengths, printf- and puts-style calls and yields. After disable() every sink's content is compared with the filter model: each expected record exactly once, nothing else, per-thread order, all header fields and every text byte intact, truncation to exactly the maximum plus mark, one record per line, files whole and in order. Exploration: interleavings are sampled. Later additions (seeding rounds): module and global thresholds as real setLevel()/unsetLevel() call sequences in any order, a second life of the same sink object, file sinks ended by cleanup() or destruction while enabled, record texts with embedded line feeds, maxima above 100 KiB, and generated record time stamps (gettimeofday() interposed for the logging thread, jumps across second boundaries in both directions) with an exact check of the time field.",
    "level_note": "Trusted: TSan/ASan, the line parser of the harness (format of the in-tree sinks), the filter model (level <= per-module threshold, else <= default). Limit L2 of DESIGN.md section 1 applies.",
}
