// C09 — logging: every log call that passes a sink's filter yields exactly one complete record in that sink,
// none otherwise; concurrent records are never interleaved/corrupted and keep per-thread order; over-long text is
// cut to exactly the maximum and marked; the file sink never loses/splits a record at roll-over and everything is
// on disk when disable() returns.  Real logging threads; TSan and ASan builds.
//
// Record identity does not depend on the text: func_name = "t<k>" (thread index), line = per-thread sequence number.
#define VERIF_MAIN
#include "../common/verif.h"
#include <tbox/base/log.h>
#include <tbox/base/log_impl.h>
#include <tbox/log/sink.h>
#include <tbox/log/async_sink.h>
#include <tbox/log/async_file_sink.h>
#include <tbox/log/async_stdout_sink.h>
#include <tbox/log/sync_stdout_sink.h>
#include <thread>
#include <atomic>
#include <mutex>
#include <memory>
#include <algorithm>
#include <dirent.h>
#include <sys/syscall.h>

using namespace verif;

namespace {
enum { CFG, SINK, MODLVL, LOG, YIELD, SPLIT, NOPS };
const int kMaxThreads = 6, kMaxSinks = 3;
const int64_t kMaxLens[] = {0, 1, 10, 2047, 2048, 2049, 5000, 100 << 10, 300 << 10};   // the last one is above the default maximum (100 KiB)
const int64_t kFileMax[] = {1, 50, 300, 4096, 1 << 20};
const int64_t kPipeBuf[] = {1, 7, 64, 1024, 10240};
const int64_t kPipeIntv[] = {1, 5, 100};
const char *kModules[] = {"mod.a", "mod.b", "net", "x"};
const char kAlphabet[] = "ABCDEFGHIJKLMNOPQRSTUVWXYZabcdefghijklmnopqrstuvwxyz0123456789_.,;:!?#$%&*+=<>@^|~/";

struct Rec {           // one record as seen by a sink
  int t = -1; long seq = -1; int level_code = 0; long tid = 0; std::string module, file, text; bool trunc = false;
  std::string when;   // "YYYY-MM-DD HH:MM:SS.uuuuuu" as the sink wrote it (RecSyncSink: formatted from LogContent::timestamp)
};
struct Call { int t; long seq; int level; int module; size_t len; bool puts; int round; bool multiline; long stamp_sec; long stamp_usec; };

// multiline: about every 9th character is a line feed (a dumped JSON document, a back trace ...): still ONE record
std::string text_of(int t, long seq, size_t len, bool multiline = false) {
  std::string s(len, 'x');
  uint32_t g = (uint32_t)(t * 7919 + seq * 104729 + 17);
  for (size_t i = 0; i < len; ++i) { g = g * 1664525u + 1013904223u; s[i] = kAlphabet[(g >> 16) % (sizeof(kAlphabet) - 1)]; if (multiline && (g >> 8) % 9 == 0) s[i] = '\n'; }
  return s;
}

// ---- the wall clock LogPrintfFunc() stamps a record with: gettimeofday(), interposed for the calling thread only while it logs
// (the harness executable's definition takes precedence over libc's for the statically linked tbox libraries)
thread_local bool tl_stamp_set = false; thread_local struct timeval tl_stamp;
std::string when_of(long sec, long usec) { time_t t = sec; struct tm tm; localtime_r(&t, &tm); char b[40]; size_t n = strftime(b, sizeof b, "%F %H:%M:%S", &tm); snprintf(b + n, sizeof b - n, ".%06ld", usec); return b; }

// ---- recording sinks through the public Sink API
struct RecSyncSink : public tbox::log::Sink {
  std::mutex mu; std::vector<Rec> recs; std::atomic<int> in_cb{0}; std::atomic<bool> overlap{false};
  void onLogFrontEnd(const LogContent *c) override {
    if (in_cb.fetch_add(1) != 0) overlap = true;
    Rec r; r.level_code = LOG_LEVEL_LEVEL_CODE[c->level]; r.tid = c->thread_id; r.module = c->module_id ? c->module_id : "";
    r.file = c->file_name ? c->file_name : ""; r.seq = c->line; r.t = (c->func_name && c->func_name[0] == 't') ? atoi(c->func_name + 1) : -1;
    r.text.assign(c->text_ptr ? c->text_ptr : "", c->text_len); r.trunc = c->text_trunc; r.when = when_of(c->timestamp.sec, c->timestamp.usec);
    { std::lock_guard<std::mutex> lg(mu); recs.push_back(std::move(r)); }
    in_cb.fetch_sub(1);
  }
  ~RecSyncSink() { disable(); }
};
struct RecAsyncSink : public tbox::log::AsyncSink {
  std::mutex mu; std::string out;
  void endline() override { cache_.push_back('\n'); }
  void flush() override { std::lock_guard<std::mutex> lg(mu); out.append(cache_.data(), cache_.size()); cache_.clear(); }
  ~RecAsyncSink() { disable(); }
};

// parse one formatted line "L YYYY-MM-DD HH:MM:SS.uuuuuu TID MODULE tK() [TEXT ][(TRUNCATED) ]-- FILE:LINE"
bool parse_line(const std::string &ln, Rec &r, std::string &why) {
  size_t p = 0;
  auto tok = [&](std::string &o) { size_t e = ln.find(' ', p); if (e == std::string::npos) return false; o = ln.substr(p, e - p); p = e + 1; return true; };
  std::string lv, date, tm, tid, mod, fn;
  if (!tok(lv) || !tok(date) || !tok(tm) || !tok(tid) || !tok(mod) || !tok(fn)) { why = "too few fields"; return false; }
  if (lv.size() != 1) { why = "level code"; return false; }
  if (date.size() != 10 || date[4] != '-' || date[7] != '-') { why = "date format"; return false; }
  if (tm.size() != 15 || tm[2] != ':' || tm[5] != ':' || tm[8] != '.') { why = "time format"; return false; }
  for (char ch : tid) if (ch < '0' || ch > '9') { why = "thread id"; return false; }
  if (fn.size() < 4 || fn[0] != 't' || fn.substr(fn.size() - 2) != "()") { why = "function field"; return false; }
  size_t tail = ln.rfind("-- ");
  if (tail == std::string::npos || tail < p) { why = "no file:line tail"; return false; }
  std::string fl = ln.substr(tail + 3); size_t colon = fl.rfind(':');
  if (colon == std::string::npos) { why = "file:line"; return false; }
  for (size_t i = colon + 1; i < fl.size(); ++i) if (fl[i] < '0' || fl[i] > '9') { why = "line number"; return false; }
  if (colon + 1 >= fl.size()) { why = "line number empty"; return false; }
  std::string mid = ln.substr(p, tail - p);          // "" | "TEXT " | "TEXT (TRUNCATED) " | "(TRUNCATED) "
  r.trunc = false;
  const std::string mark = "(TRUNCATED) ";
  if (mid.size() >= mark.size() && mid.compare(mid.size() - mark.size(), mark.size(), mark) == 0) { r.trunc = true; mid.erase(mid.size() - mark.size()); }
  if (!mid.empty()) { if (mid.back() != ' ') { why = "text not followed by a space"; return false; } mid.pop_back(); }
  r.when = date + " " + tm; r.text = mid; r.level_code = lv[0]; r.tid = atol(tid.c_str()); r.module = mod; r.t = atoi(fn.c_str() + 1);
  r.file = fl.substr(0, colon); r.seq = atol(fl.c_str() + colon + 1);
  return true;
}
bool parse_stream(const std::string &s, std::vector<Rec> &out, std::string &err) {
  size_t p = 0;
  while (p < s.size()) {
    // a record ends at the line feed behind its "-- file:line" tail (the text itself may contain line feeds, never "-- ")
    size_t tl = s.find("-- ", p);
    size_t e = tl == std::string::npos ? std::string::npos : s.find('\n', tl);
    if (e == std::string::npos) { err = "output does not end with a complete record (record cut short): '" + s.substr(p, std::min<size_t>(s.size() - p, 120)) + "'"; return false; }
    Rec r; std::string why;
    if (!parse_line(s.substr(p, e - p), r, why)) { err = "unparsable record line (" + why + "): '" + s.substr(p, std::min<size_t>(e - p, 160)) + "'"; return false; }
    out.push_back(std::move(r)); p = e + 1;
  }
  return true;
}

std::string read_file(const std::string &p) { std::ifstream f(p, std::ios::binary); std::stringstream ss; ss << f.rdbuf(); return ss.str(); }
void rm_rf(const std::string &d) {
  DIR *dir = opendir(d.c_str()); if (!dir) return;
  while (dirent *e = readdir(dir)) { std::string n = e->d_name; if (n == "." || n == "..") continue; unlink((d + "/" + n).c_str()); }
  closedir(dir); rmdir(d.c_str());
}

struct SinkSpec { int endmode = 0;   // how the sink's life ends: 0,1 disable(); 2 cleanup() of the still enabled file sink; 3 the enabled file sink is destroyed
  int kind = 0; int deflevel = 8; int modlevel[4] = {-1, -1, -1, -1}; int buf = 3, mn = 2, mx = 4, intv = 1, fmax = 4;
  std::vector<std::pair<int, int>> level_calls;   // (module, level) in call order; level -1 = unsetLevel(module); modlevel[] is the resulting model
  int redefinitions = 0, global_resets = 0, deflevel0 = 8; };

std::string run(const Scenario &s, CaseInfo &info) {
  // ---- decode
  size_t maxlen = 100 << 10; int nthreads = 2;
  std::vector<SinkSpec> specs;
  std::vector<std::pair<int, Call>> script[kMaxThreads];   // (0 log | 1 yield us)
  long seqs[kMaxThreads] = {0};
  long clock_sec = 1790000000, clock_usec = 0; bool stamp_back = false;   // the generated wall clock of the records
  int cur_round = 0; unsigned early_mask = 0, reen_mask = 0; bool early_reverse = false;   // SPLIT: sinks in early_mask are disabled between round 0 and round 1;
                                                                                            // those also in reen_mask are enabled again (second life of the same sink object) before round 1
  for (auto &op : s.ops) {
    switch (op.code) {
      case CFG: maxlen = (size_t)kMaxLens[op.in(0, 0, 8)]; nthreads = (int)op.in(1, 1, kMaxThreads); break;
      case SINK: if ((int)specs.size() < kMaxSinks) { SinkSpec sp; sp.kind = (int)op.in(0, 0, 4); sp.deflevel = (int)op.in(1, -1, 8); sp.deflevel0 = sp.deflevel;
          sp.buf = (int)op.in(2, 0, 4); sp.mn = (int)op.in(3, 1, 3); sp.mx = sp.mn + (int)op.in(4, 0, 3); sp.intv = (int)op.in(5, 0, 2); sp.fmax = (int)op.in(6, 0, 4); sp.endmode = (int)op.in(7, 0, 3);
          bool has_stdout = false; for (auto &x : specs) if (x.kind >= 3) has_stdout = true;
          if (sp.kind >= 3 && has_stdout) sp.kind = 0;      // at most one sink may own fd 1
          specs.push_back(sp); } break;
      case MODLVL: if (!specs.empty()) {   // every op is a real setLevel()/unsetLevel() call, in order: a module may be re-configured several times
          SinkSpec &sp = specs[op.in(0, 0, (int64_t)specs.size() - 1)]; int m = (int)op.in(1, 0, 4); int lv = (int)op.in(2, -1, 7);
          if (m == 4) {   // the GLOBAL threshold of the sink is set again, after module thresholds have been set: they must stay what they are
            if (sp.level_calls.size() < 12) { sp.level_calls.push_back({4, lv}); sp.deflevel = lv; sp.global_resets++; }
          } else
          if (sp.level_calls.size() < 12) { if (sp.modlevel[m] >= 0) sp.redefinitions++; sp.level_calls.push_back({m, lv}); sp.modlevel[m] = lv; } } break;
      case LOG: { int t = (int)op.in(0, 0, kMaxThreads - 1); Call c; c.t = t; c.seq = 0; c.level = (int)op.in(1, 0, 7); c.module = (int)op.in(2, 0, 3);
        size_t L; int64_t k = op.in(4, 0, 3000);
        switch (op.in(3, 0, 9)) { case 0: L = 0; break; case 1: L = 1; break; case 2: L = maxlen ? maxlen - 1 : 0; break; case 3: L = maxlen; break; case 4: L = maxlen + 1; break;
          case 5: L = 2047 + (size_t)(k % 4); break; case 6: L = 3 * maxlen + 1; break; default: L = (size_t)k % 200; }
        if (L > 400000) L = 400000;
        c.len = L; c.puts = (op.in(5, 0, 3) & 1) == 1; c.multiline = (op.in(5, 0, 3) & 2) != 0; c.round = cur_round;
        { // time stamp of the record: mostly advancing by microseconds, sometimes jumping across second/minute/day boundaries in either direction
          // (several threads stamp before they take the log lock, and the wall clock may be stepped back)
          static const long kJump[] = {0, 0, 0, 0, 1, -1, 2, -2, 59, -59, 60, -61, 3600, -3601, 86400, -86399};
          int64_t tm_ = op.in(6, 0, 15); clock_sec += kJump[tm_]; clock_usec = (clock_usec + 1 + (long)(op.in(4, 0, 3000) * 331) % 999983) % 1000000;
          if (tm_ >= 4 && kJump[tm_] < 0) stamp_back = true;
          c.stamp_sec = clock_sec; c.stamp_usec = clock_usec; } script[t].push_back({0, c}); break; }
      case SPLIT: if (cur_round == 0) { cur_round = 1; early_mask = (unsigned)op.in(0, 0, 7); early_reverse = op.in(1, 0, 1) == 1; reen_mask = (unsigned)op.in(2, 0, 7); } break;
      case YIELD: { Call c{}; c.len = (size_t)op.in(1, 0, 500); c.round = cur_round; script[op.in(0, 0, kMaxThreads - 1)].push_back({1, c}); break; }
      default: break;
    }
  }
  if (specs.empty()) specs.push_back(SinkSpec());
  // keep the cost of a case bounded: every byte that goes through an async pipe with tiny buffers costs a buffer
  // hand-over (two context switches when the buffer count is at its limit), so text lengths are capped at
  // 300 x the smallest pipe buffer of the scenario (100 KiB texts through 1-byte buffers took > 60 s under TSan)
  {
    size_t min_buf = 1 << 20;
    for (auto &sp : specs) if (sp.kind == 1 || sp.kind == 2 || sp.kind == 4) min_buf = std::min(min_buf, (size_t)kPipeBuf[sp.buf]);
    size_t cap = std::max<size_t>(64, min_buf * 300);
    for (int t = 0; t < kMaxThreads; ++t) for (auto &st : script[t]) if (st.first == 0 && st.second.len > cap) st.second.len = cap;
  }
  for (int t = 0; t < kMaxThreads; ++t) for (auto &st : script[t]) if (st.first == 0) st.second.seq = ++seqs[t];

  // ---- set up
  size_t old_max = LogSetMaxLength(maxlen);
  char dirbuf[64]; snprintf(dirbuf, sizeof dirbuf, "c09-%d", (int)getpid());
  std::string base = dirbuf; mkdir(base.c_str(), 0755);
  std::vector<std::unique_ptr<tbox::log::Sink>> sinks;
  std::vector<std::string> fdirs(specs.size());
  int saved_stdout = -1; std::string stdout_path;
  for (size_t i = 0; i < specs.size(); ++i) {
    SinkSpec &sp = specs[i];
    tbox::log::AsyncSink::Config pc; pc.buff_size = (size_t)kPipeBuf[sp.buf]; pc.buff_min_num = sp.mn; pc.buff_max_num = sp.mx; pc.interval = (size_t)kPipeIntv[sp.intv];
    tbox::log::Sink *sk = nullptr;
    switch (sp.kind) {
      case 0: sk = new RecSyncSink; break;
      case 1: { auto *a = new RecAsyncSink; a->setConfig(pc); sk = a; break; }
      case 2: { auto *f = new tbox::log::AsyncFileSink; f->setConfig(pc); fdirs[i] = base + "/f" + std::to_string(i); f->setFilePath(fdirs[i]); f->setFilePrefix("p"); f->setFileMaxSize((size_t)kFileMax[sp.fmax]); sk = f; break; }
      case 3: sk = new tbox::log::SyncStdoutSink; break;
      default: { auto *a = new tbox::log::AsyncStdoutSink; a->setConfig(pc); sk = a; break; }
    }
    if (sp.kind >= 3) {
      stdout_path = base + "/stdout.txt"; fflush(stdout);
      int fd = open(stdout_path.c_str(), O_WRONLY | O_CREAT | O_TRUNC, 0644);
      saved_stdout = dup(1); dup2(fd, 1); close(fd);
    }
    sk->setLevel(sp.deflevel0);   // the later global setLevel() calls are part of level_calls, in order
    for (auto &lc : sp.level_calls) { if (lc.first == 4) sk->setLevel(lc.second); else if (lc.second >= 0) sk->setLevel(kModules[lc.first], lc.second); else sk->unsetLevel(kModules[lc.first]); }
    sk->enable();
    sinks.emplace_back(sk);
  }

  // ---- what a sink has got so far (no waiting)
  std::string err;
  bool any_big = false, any_trunc = false, any_roll = false, cross_boundary = false, any_multiline = false, ended_without_disable = false;
  char buf[400];
  auto collect = [&](size_t i, std::vector<Rec> &got) {
    SinkSpec &sp = specs[i];
    if (sp.kind == 0) { auto *r = static_cast<RecSyncSink *>(sinks[i].get()); got = r->recs; if (r->overlap) err = "sink callbacks overlapped (records dispatched concurrently to one sink)"; }
    else if (sp.kind == 1) { auto *r = static_cast<RecAsyncSink *>(sinks[i].get()); std::string e2; if (!parse_stream(r->out, got, e2)) err = "async sink: " + e2; }
    else if (sp.kind >= 3) { std::string e2; if (!parse_stream(read_file(stdout_path), got, e2)) err = "stdout sink: " + e2; }
    else {
      // log files in creation order: p.<YYYYmmdd_HHMMSS>.<pid>.log[.N]
      std::vector<std::pair<std::pair<std::string, int>, std::string>> files;
      if (DIR *d = opendir(fdirs[i].c_str())) {
        while (dirent *e = readdir(d)) { std::string n = e->d_name; if (n == "." || n == ".." || n == "p.latest.log") continue;
          size_t lp = n.find(".log"); int post = 0; if (lp != std::string::npos && lp + 4 < n.size()) post = atoi(n.c_str() + lp + 5);
          files.push_back({{n.substr(0, 17), post}, n}); }
        closedir(d);
      }
      std::sort(files.begin(), files.end());
      for (size_t k = 0; k < files.size() && err.empty(); ++k) {
        std::string content = read_file(fdirs[i] + "/" + files[k].second), e2;
        size_t before = got.size();
        if (!parse_stream(content, got, e2)) { err = "file sink, file " + files[k].second + ": " + e2 + " (a record was split or lost at roll-over)"; break; }
        if (k + 1 < files.size() && content.size() < (size_t)kFileMax[sp.fmax]) { snprintf(buf, sizeof buf, "file sink: file %s was closed at %zu bytes, below the %ld byte limit", files[k].second.c_str(), content.size(), (long)kFileMax[sp.fmax]); err = buf; }
        if (got.size() == before && !content.empty()) err = "file sink: non-empty file without a record";
      }
      if (files.size() >= 2) any_roll = true;
    }
  };

  // ---- run the logging threads
  long tids[kMaxThreads] = {0};
  std::atomic<int> go{0}, at_barrier{0}; std::atomic<bool> release{false};
  std::vector<std::thread> th;
  for (int t = 0; t < nthreads; ++t) {
    th.emplace_back([&, t] {
      tids[t] = syscall(SYS_gettid);
      // func_name / file_name travel through async sinks as pointers: they must have static storage (like __func__)
      static const char *const kFn[kMaxThreads] = {"t0", "t1", "t2", "t3", "t4", "t5"};
      const char *fn = kFn[t];
      go.fetch_add(1); while (go.load() < nthreads) std::this_thread::yield();
      bool passed_barrier = false;
      auto barrier = [&] { if (passed_barrier) return; passed_barrier = true; at_barrier.fetch_add(1); while (!release.load()) std::this_thread::yield(); };
      for (auto &st : script[t]) {
        if (st.second.round == 1) barrier();
        if (st.first == 1) { if (st.second.len < 50) std::this_thread::yield(); else std::this_thread::sleep_for(std::chrono::microseconds(st.second.len)); continue; }
        const Call &c = st.second;
        std::string txt = text_of(t, c.seq, c.len, c.multiline);
        tl_stamp.tv_sec = c.stamp_sec; tl_stamp.tv_usec = c.stamp_usec; tl_stamp_set = true;
        if (c.puts) LogPrintfFunc(kModules[c.module], fn, "/some/dir/h.cpp", (int)c.seq, c.level, 0, txt.c_str());
        else LogPrintfFunc(kModules[c.module], fn, "/some/dir/h.cpp", (int)c.seq, c.level, 1, "%s", txt.c_str());
        tl_stamp_set = false;
      }
      barrier();
    });
  }
  // between the rounds: disable the "early" sinks (in creation or reverse order) while the others stay enabled
  while (at_barrier.load() < nthreads) std::this_thread::yield();
  std::vector<bool> early(specs.size(), false), reenabled(specs.size(), false);
  if (cur_round == 1) {
    std::vector<size_t> order; for (size_t i = 0; i < specs.size(); ++i) if (early_mask >> i & 1) order.push_back(i);
    if (early_reverse) std::reverse(order.begin(), order.end());
    for (size_t i : order) { sinks[i]->disable(); early[i] = true; }
    fflush(stdout);   // SyncStdoutSink prints through stdio (the final check flushes likewise)
    // everything of round 0 must be delivered / on disk now that disable() has returned (checked before a second life can flush it)
    for (size_t i : order) {
      if (!err.empty()) break;
      std::vector<Rec> got; collect(i, got); if (!err.empty()) break;
      SinkSpec &sp = specs[i]; size_t want = 0;
      for (int t = 0; t < nthreads; ++t) for (auto &st : script[t]) if (st.first == 0 && st.second.round == 0 && st.second.level <= (sp.modlevel[st.second.module] >= 0 ? sp.modlevel[st.second.module] : sp.deflevel)) ++want;
      if (got.size() != want) { snprintf(buf, sizeof buf, "sink %zu (kind %d): %zu of the %zu records logged before disable() are delivered when the (early) disable() returned", i, sp.kind, got.size(), want); err = buf; }
    }
    // second life of the same sink object
    for (size_t i : order) if (reen_mask >> i & 1) { sinks[i]->enable(); early[i] = false; reenabled[i] = true; }
  }
  release = true;
  for (auto &t : th) t.join();
  // everything must be delivered / on disk when this returns; a file sink may also end its life by cleanup() or by being destroyed while enabled
  for (size_t i = 0; i < sinks.size(); ++i) {
    if (specs[i].kind == 2 && specs[i].endmode == 2 && !early[i]) { static_cast<tbox::log::AsyncFileSink *>(sinks[i].get())->cleanup(); ended_without_disable = true; }
    else if (specs[i].kind == 2 && specs[i].endmode == 3 && !early[i]) { sinks[i].reset(); ended_without_disable = true; }
    else sinks[i]->disable();
  }
  if (saved_stdout >= 0) { fflush(stdout); dup2(saved_stdout, 1); close(saved_stdout); }
  LogSetMaxLength(old_max);

  // ---- collect what every sink got (no waiting)
  for (size_t i = 0; i < specs.size() && err.empty(); ++i) {
    SinkSpec &sp = specs[i];
    std::vector<Rec> got;
    collect(i, got);
    if (!err.empty()) break;
    // expected records of this sink
    auto passes = [&](const Call &c) { int th_ = sp.modlevel[c.module] >= 0 ? sp.modlevel[c.module] : sp.deflevel; return c.level <= th_; };
    std::map<std::pair<int, long>, const Call *> expect;
    for (int t = 0; t < nthreads; ++t) for (auto &st : script[t]) if (st.first == 0 && passes(st.second) && !(early[i] && st.second.round == 1)) expect[{t, st.second.seq}] = &st.second;
    std::map<std::pair<int, long>, int> seen; long last_seq[kMaxThreads]; for (auto &x : last_seq) x = 0;
    for (auto &r : got) {
      auto it = expect.find({r.t, r.seq});
      if (it == expect.end()) { snprintf(buf, sizeof buf, "sink %zu (kind %d): unexpected record of thread %d seq %ld (filtered out, duplicated identity or invented)", i, sp.kind, r.t, r.seq); err = buf; break; }
      if (++seen[{r.t, r.seq}] > 1) { snprintf(buf, sizeof buf, "sink %zu (kind %d): record of thread %d seq %ld delivered twice", i, sp.kind, r.t, r.seq); err = buf; break; }
      if (r.seq <= last_seq[r.t]) { snprintf(buf, sizeof buf, "sink %zu (kind %d): thread %d's records out of order (seq %ld after %ld)", i, sp.kind, r.t, r.seq, last_seq[r.t]); err = buf; break; }
      last_seq[r.t] = r.seq;
      const Call &c = *it->second;
      std::string full = text_of(c.t, c.seq, c.len, c.multiline); if (c.multiline && full.find('\n') != std::string::npos) any_multiline = true;
      bool want_trunc = c.len > maxlen; std::string want = want_trunc ? full.substr(0, maxlen) : full;
      if (want_trunc) any_trunc = true;
      if (want.size() > (100u << 10)) any_big = true;
      if (r.text != want) { snprintf(buf, sizeof buf, "sink %zu (kind %d): text of thread %d seq %ld is damaged: got %zu bytes, expected %zu (original %zu, max %zu)", i, sp.kind, r.t, r.seq, r.text.size(), want.size(), c.len, maxlen); err = buf; break; }
      if (r.trunc != want_trunc) { snprintf(buf, sizeof buf, "sink %zu (kind %d): thread %d seq %ld (len %zu, max %zu): truncation mark %s", i, sp.kind, r.t, r.seq, c.len, maxlen, want_trunc ? "missing" : "present on an uncut text"); err = buf; break; }
      if (r.when != when_of(c.stamp_sec, c.stamp_usec)) { snprintf(buf, sizeof buf, "sink %zu (kind %d): time field of thread %d seq %ld is '%s', but the record was stamped %s", i, sp.kind, r.t, r.seq, r.when.c_str(), when_of(c.stamp_sec, c.stamp_usec).c_str()); err = buf; break; }
      if (r.level_code != LOG_LEVEL_LEVEL_CODE[c.level] || r.module != kModules[c.module] || r.file != "h.cpp" || r.tid != tids[c.t]) {
        snprintf(buf, sizeof buf, "sink %zu (kind %d): header fields of thread %d seq %ld damaged (level '%c' module '%s' file '%s' tid %ld, expected '%c' '%s' 'h.cpp' %ld)", i, sp.kind, r.t, r.seq, r.level_code, r.module.c_str(), r.file.c_str(), r.tid, LOG_LEVEL_LEVEL_CODE[c.level], kModules[c.module], tids[c.t]); err = buf; break; }
      if ((sp.kind == 1 || sp.kind == 2 || sp.kind == 4) && sizeof(LogContent) + c.len > (size_t)kPipeBuf[sp.buf]) cross_boundary = true;
    }
    if (!err.empty()) break;
    if (seen.size() != expect.size()) {
      for (auto &kv : expect) if (!seen.count(kv.first)) { snprintf(buf, sizeof buf, "sink %zu (kind %d): record of thread %d seq %ld (level %d, module %s, len %zu) is missing after disable() returned (%zu of %zu delivered)", i, sp.kind, kv.first.first, kv.first.second, kv.second->level, kModules[kv.second->module], kv.second->len, seen.size(), expect.size()); err = buf; break; }
    }
  }
  sinks.clear();
  for (auto &d : fdirs) if (!d.empty()) rm_rf(d);
  if (!stdout_path.empty()) unlink(stdout_path.c_str());
  rmdir(base.c_str());
  if (!err.empty()) return err;

  bool has_async = false; for (auto &sp : specs) if (sp.kind == 1 || sp.kind == 2 || sp.kind == 4) has_async = true;
  info.cls_if(nthreads >= 2, "multi_thread");
  info.cls_if(has_async, "async_sink");
  info.cls_if(cross_boundary, "record_crosses_pipe_buffer");
  info.cls_if(any_trunc, "truncated_record");
  info.cls_if(any_big, "record_text_longer_than_100KiB_delivered");
  info.cls_if(any_roll, "file_rollover");
  info.cls_if(ended_without_disable, "enabled_file_sink_cleaned_up_or_destroyed_without_disable");
  info.cls_if(stamp_back, "record_stamped_in_an_earlier_second_than_its_predecessor");
  info.cls_if(any_multiline, "record_text_with_embedded_line_feeds");
  info.cls_if(any_multiline && any_roll, "multi_line_records_with_file_rollover");
  info.cls_if(saved_stdout >= 0, "in_tree_stdout_sink");
  { bool some_early = false, some_late = false; for (size_t i = 0; i < specs.size(); ++i) (early[i] ? some_early : some_late) = true; info.cls_if(cur_round == 1 && some_early && some_late, "sink_disabled_while_others_stay_enabled"); }
  { bool re = false; for (size_t i = 0; i < specs.size(); ++i) if (reenabled[i]) re = true; info.cls_if(re, "sink_object_enabled_again_after_disable"); }
  { bool gr = false; for (auto &sp : specs) if (sp.global_resets) gr = true; info.cls_if(gr, "global_level_set_again_after_module_levels"); }
  { bool redef = false; for (auto &sp : specs) if (sp.redefinitions) redef = true; info.cls_if(redef, "module_level_reconfigured"); }
  info.nontrivial = (nthreads >= 2 && has_async && cross_boundary) || any_trunc || any_roll;
  return "";
}

SubDef def = [] {
  SubDef d; d.name = "logging";
  d.op_names = {"cfg", "sink", "modlvl", "log", "yield", "split"};
  d.op_arity = {2, 8, 3, 7, 2, 3};
  d.nt_rule = ">= 2 threads logging concurrently to an async sink with a record crossing a pipe-buffer boundary, or a truncated record, or a file roll-over inside the run";
  d.run = run;
#ifndef VERIF_ENGINE_FUZZ
  d.gen = [] {
    auto th = range(0, kMaxThreads - 1);
    auto cfg = mkop(CFG, {range(0, 8), range(1, kMaxThreads)});
    auto sink = mkop(SINK, {range(0, 4), rc::gen::weightedOneOf<int64_t>({{3, rc::gen::just<int64_t>(8)}, {3, range(-1, 8)}}), range(0, 4), range(1, 3), range(0, 3), range(0, 2), range(0, 4), range(0, 3)});
    auto sinks = rc::gen::resize(3, rc::gen::container<std::vector<Op>>(sink));
    auto opg = rc::gen::weightedOneOf<Op>({
      {12, mkop(LOG, {th, range(0, 7), range(0, 3), range(0, 9), range(0, 3000), rc::gen::weightedOneOf<int64_t>({{3, range(0, 1)}, {1, range(2, 3)}}), rc::gen::weightedOneOf<int64_t>({{3, range(0, 3)}, {2, range(4, 15)}})})},
      {2, mkop(YIELD, {th, rc::gen::weightedOneOf<int64_t>({{3, range(0, 49)}, {1, range(50, 500)}})})},
      {2, mkop(MODLVL, {range(0, 2), range(0, 4), range(-1, 7)})},
      {1, mkop(SPLIT, {range(0, 7), range(0, 1), range(0, 7)})},
    });
    return rc::gen::apply([](std::vector<Op> h, std::vector<Op> p, std::vector<Op> b) {
      Scenario s; s.ops = std::move(h); for (auto &o : p) s.ops.push_back(o); for (auto &o : b) s.ops.push_back(o); return s; },
      fixedOps({cfg, sink}), sinks, opsOf(opg));
  };
#endif
  return d;
}();
VERIF_REGISTER(&def);
}  // namespace

// Interposed wall clock (see tl_stamp above): only the thread that is inside a harness log call gets the generated stamp.
#include <dlfcn.h>
#include <sys/time.h>
extern "C" int gettimeofday(struct timeval *tv, void *tz) noexcept {
  if (tl_stamp_set && tv) { *tv = tl_stamp; return 0; }
  using Fn = int (*)(struct timeval *, void *);
  static Fn real = (Fn)dlsym(RTLD_NEXT, "gettimeofday");
  return real ? real(tv, tz) : -1;
}
