// C01 — deferred tasks of the event loop: exactly once, on the loop thread, per-submitter order,
// nothing dropped on exit / re-run / destruction, cancel semantics, no lost wake-up, no data races.
// Real threads (submitters + a controller per run phase); TSan and ASan builds; both back-ends.
#define VERIF_MAIN
#include "../common/verif.h"
#include <tbox/event/loop.h>
#include <tbox/event/timer_event.h>
#include <thread>
#include <atomic>
#include <memory>

using namespace verif;
using tbox::event::Loop;

namespace {
enum { CFG, PHASE, SUB, SPIN, NOPS };
enum Entry { E_RUNINLOOP = 0, E_RUNNEXT = 1, E_RUN = 2 };
enum Beh { B_NONE = 0, B_CHILD_NEXT, B_CHILD_INLOOP, B_CHILD_RUN, B_CANCEL, B_EXIT, B_BUSY, B_NBEH,
           // later additions, only reachable through the SUB op (the derived behaviours below keep using B_NBEH so that old replay files keep their meaning)
           B_CANCEL_SELF = B_NBEH, B_CHAIN, B_NBEH2 };
const int kMaxThreads = 4;      // submitter threads
const int kMaxTasks = 6000;
const int kCtlThread = kMaxThreads + 1;   // pseudo submitter index of controller threads

void spin_us(unsigned us) {
  if (us == 0) { std::this_thread::yield(); return; }
  if (us >= 300) { std::this_thread::sleep_for(std::chrono::microseconds(us)); return; }
  auto end = std::chrono::steady_clock::now() + std::chrono::microseconds(us);
  while (std::chrono::steady_clock::now() < end) { }
}

struct TaskRec {
  std::atomic<int> exec_count{0};
  std::atomic<uint64_t> run_id{0};
  std::atomic<uint64_t> exec_stamp{0};
  std::atomic<bool> cancelled{false};      // a cancel() for it returned true
  std::atomic<bool> wrong_thread{false};
  std::atomic<int> submitter{-1};   // 0 = the loop-running (main) thread, 1..kMaxThreads submitters, kCtlThread controllers
  int entry = 0;
  int beh = 0, arg = 0, depth = 0;
  uint64_t submit_seq = 0;     // per (submitter, entry)
  bool is_exit_of_phase = false;
};

struct Ctx {
  Loop *loop = nullptr;
  std::thread::id main_tid;
  std::unique_ptr<TaskRec[]> tasks{new TaskRec[kMaxTasks]};
  std::atomic<int> ntasks{0};
  std::atomic<uint64_t> stamp{0};
  uint64_t seq_main[3] = {0, 0, 0};           // only touched by the main thread
  std::atomic<int> phase_no{0};
  std::atomic<bool> loop_alive{true};
  // statistics
  std::atomic<int> cancels_true{0}, cancels_false{0}, late_after_exit{0};
  std::string error;                          // set by the main thread only

  int alloc(int submitter, int entry, int beh, int arg, int depth, uint64_t seq) {
    int i = ntasks.fetch_add(1);
    if (i >= kMaxTasks) { ntasks.fetch_sub(1); return -1; }
    TaskRec &t = tasks[i];
    t.submitter = submitter; t.entry = entry; t.beh = beh; t.arg = arg; t.depth = depth; t.submit_seq = seq;
    return i;
  }

  // submission from the loop-running thread (main thread or inside a task)
  int submit_main(int entry, int beh, int arg, int depth) {
    int i = alloc(0, entry, beh, arg, depth, seq_main[entry]++);
    if (i < 0) return -1;
    auto fn = [this, i] { exec(i); };
    uint64_t id = entry == E_RUNINLOOP ? loop->runInLoop(fn, "t") : entry == E_RUNNEXT ? loop->runNext(fn, "t") : loop->run(fn, "t");
    tasks[i].run_id.store(id);
    return i;
  }

  void exec(int i) {
    TaskRec &t = tasks[i];
    if (std::this_thread::get_id() != main_tid) t.wrong_thread = true;
    t.exec_stamp.store(stamp.fetch_add(1) + 1);
    t.exec_count.fetch_add(1);
    int child_beh = (t.arg % 3 == 0) ? B_NONE : (t.arg % (int)B_NBEH);
    if (child_beh == B_EXIT) child_beh = B_NONE;
    switch (t.beh) {
      case B_CHILD_NEXT:   if (t.depth < 2) submit_main(E_RUNNEXT, child_beh, t.arg / 7, t.depth + 1); break;
      case B_CHILD_INLOOP: if (t.depth < 2) submit_main(E_RUNINLOOP, child_beh, t.arg / 7, t.depth + 1); break;
      case B_CHILD_RUN:    if (t.depth < 2) submit_main(E_RUN, child_beh, t.arg / 7, t.depth + 1); break;
      case B_CANCEL: {
        // choose a target among all tasks allocated so far (any thread), scanning from a generated start
        int n = ntasks.load();
        if (n <= 0) break;
        int mode = t.arg % 3;
        int tgt = -1;
        if (mode == 0) { int c = submit_main(t.arg & 8 ? E_RUNNEXT : E_RUNINLOOP, B_NONE, 0, 3); tgt = c; }   // a child just created
        else {
          int start = (t.arg / 3) % n;
          for (int k = 0; k < n && k < 64; ++k) {   // first not-yet-executed task at/after start (mode 1) or anything (mode 2)
            int j = (start + k) % n;
            if (j == i) continue;
            if (mode == 2 || tasks[j].exec_count.load() == 0) { tgt = j; break; }
          }
        }
        if (tgt < 0) break;
        uint64_t id = tasks[tgt].run_id.load();
        if (id == 0) break;                               // submission still in flight on another thread (fields not yet published)
        if (tasks[tgt].is_exit_of_phase) break;          // never cancel the phase's exit task (keeps scenarios terminating)
        bool was_done = tasks[tgt].exec_count.load() > 0;
        bool r = loop->cancel(id);
        if (r) { tasks[tgt].cancelled = true; cancels_true++; if (was_done) error_from_task = "cancel() returned true for a task that had already been executed"; }
        else cancels_false++;
        break; }
      case B_EXIT: if (!exit_blocked.load()) loop->exitLoop(); break;   // (blocked while a controller relies on the loop staying up, see xrun)
      case B_CANCEL_SELF: {   // a task cancels its own id while it is being invoked: it is not pending any more, so this must not succeed
        uint64_t id = t.run_id.load(); if (id == 0) break;
        self_cancels++;
        if (loop->cancel(id)) error_from_task = "cancel() of the id of the task that is being invoked returned true";
        break; }
      case B_CHAIN: if (chain_allowed.load() && !chain_active) { chain_active = true; chains_started++; loop->runNext([this] { chain_step(); }, "chain"); } break;
      case B_BUSY: spin_us((unsigned)(t.arg % 60)); break;
      default: break;
    }
  }
  const char *error_from_task = nullptr;   // written on the loop thread only, read by main after joins
  // B_CHAIN: a task that keeps re-posting itself with runNext() for as long as the current runLoop(kForever) phase waits for
  // its exit task - the loop never goes idle, yet callables handed in through runInLoop() must still be invoked
  std::atomic<bool> chain_allowed{false}; bool chain_active = false; std::atomic<uint64_t> chain_steps{0}; int chains_started = 0;
  int self_cancels = 0;
  std::atomic<bool> exit_blocked{false};
  void chain_step() { chain_steps++; if (chain_allowed.load()) loop->runNext([this] { chain_step(); }, "chain"); else chain_active = false; }
};

struct SubStep { int kind; int entry; int count; int beh; int arg; unsigned us; };   // kind 0 submit, 1 spin
struct Phase { int kind; int a, b, c, d; };   // 0 preload, 1 run_forever, 2 run_once, 3 cleanup

std::string run(const Scenario &s, CaseInfo &info) {
  int backend = 0, nthreads = 2;
  std::vector<Phase> phases;
  std::vector<SubStep> script[kMaxThreads];
  int start_phase[kMaxThreads] = {0, 0, 0, 0};
  for (auto &op : s.ops) {
    switch (op.code) {
      case CFG: backend = (int)op.in(0, 0, 1); nthreads = (int)op.in(1, 0, kMaxThreads);
        for (int t = 0; t < kMaxThreads; ++t) start_phase[t] = (int)op.in(2 + t, 0, 6); break;
      case PHASE: if (phases.size() < 8) phases.push_back({(int)op.in(0, 0, 3), (int)op.in(1, 0, 1000), (int)op.in(2, 0, 1000), (int)op.in(3, 0, 1000), (int)op.in(4, 0, 1000)}); break;
      case SUB: script[op.in(0, 0, kMaxThreads - 1)].push_back({0, 0, (int)op.in(1, 1, 40), (int)op.in(2, 0, B_NBEH2 - 1), (int)op.in(3, 0, 100000), 0}); break;
      case SPIN: script[op.in(0, 0, kMaxThreads - 1)].push_back({1, 0, 0, 0, 0, (unsigned)op.in(1, 0, 2000)}); break;
      default: break;
    }
  }
  int nphases = (int)phases.size();
  Ctx c;
  c.main_tid = std::this_thread::get_id();
  c.loop = Loop::New(backend == 0 ? "epoll" : "select");
  if (!c.loop) return "Loop::New failed";

  // ---- submitter threads (thread-safe entry point only)
  std::vector<std::thread> subs;
  std::atomic<bool> sub_done[kMaxThreads];
  int sp_of[kMaxThreads];
  for (int t = 0; t < kMaxThreads; ++t) { sub_done[t] = false; sp_of[t] = nphases ? start_phase[t] % (nphases + 1) : 0; }
  for (int t = 0; t < nthreads; ++t) {
    subs.emplace_back([&, t] {
      int sp = sp_of[t];
      while (c.phase_no.load() < sp) std::this_thread::sleep_for(std::chrono::microseconds(30));
      uint64_t seq = 0;
      for (auto &st : script[t]) {
        if (st.kind == 1) { spin_us(st.us); continue; }
        for (int k = 0; k < st.count; ++k) {
          int i = c.alloc(t + 1, E_RUNINLOOP, st.beh, st.arg + k, 0, seq++);
          if (i < 0) break;
          uint64_t id = c.loop->runInLoop([&c, i] { c.exec(i); }, "s");
          c.tasks[i].run_id.store(id);
        }
      }
      sub_done[t] = true;
    });
  }

  // ---- phases on the main (= loop) thread
  bool lost_wakeup = false; std::string lost_msg;
  // "a callable still pending when the loop stops is run during loop shutdown": everything the loop thread itself
  // submitted before runLoop() returned must have been executed (or cancelled) by the time it returns
  auto check_drained = [&](int pi) -> std::string {
    int n = c.ntasks.load();
    for (int i = 0; i < n; ++i) {
      TaskRec &t = c.tasks[i];
      if (t.submitter != 0 || t.cancelled.load() || t.exec_count.load() > 0) continue;
      char b[200]; snprintf(b, sizeof b, "task %d submitted by the loop thread (entry %d, depth %d) was still pending when runLoop() returned in phase %d: not run during loop shutdown", i, t.entry, t.depth, pi);
      return b;
    }
    return "";
  };
  std::string drain_err;
  bool reran = false; int runs = 0;
  uint64_t ctl_seq = 0, xrun_seq = 0; std::atomic<bool> xrun_late{false}; std::atomic<int> xruns{0}, nested_self{0};
  for (int pi = 0; pi < nphases; ++pi) {
    Phase &ph = phases[pi];
    c.phase_no.store(pi + 1);
    switch (ph.kind) {
      case 0: {   // preload from the thread that will run the loop, loop not running
        int n = ph.a % 12 + 1, entry = ph.b % 3;
        for (int k = 0; k < n; ++k) c.submit_main(entry, (ph.c + k) % B_NBEH == B_EXIT ? B_NONE : (ph.c + k) % B_NBEH, ph.d + k, 0);
        break; }
      case 1: {   // runLoop(kForever) with a controller thread that eventually submits the exit task
        std::atomic<int64_t> exit_submitted_at{0};
        auto exit_executed_p = std::make_shared<std::atomic<bool>>(false);   // the exit task may run after this phase
        std::atomic<bool> &exit_executed = *exit_executed_p;
        unsigned delay_us = (unsigned)(ph.a % 4 == 0 ? 0 : ph.a * 3);
        int wait_subs = ph.b % 2, late_before = ph.c % 4, late_after = ph.d % 4;
        // xrun: while the loop is certainly running (and idle unless a chain is going) the controller hands callables to Loop::run()
        // and to the const& overloads from its own thread; run() must route them through the thread-safe path, wake-up included
        bool xrun = (ph.d / 4) % 3 == 2;
        // only in phases in which every submitter thread has been released already: the controller waits for all of them and for a marker
        // task, so the loop is idle (apart from a runNext() chain) when run() is called and the latency measured is wake-up latency only
        for (int t = 0; t < nthreads; ++t) if (sp_of[t] > pi + 1) xrun = false;
        if (xrun) wait_subs = 1;
        c.exit_blocked = xrun;   // Loop::run() from another thread is only thread-safe while the loop runs: B_EXIT tasks must not stop it under the controller's feet
        std::thread ctl([&] {
          // wait only for submitters that have been released by this or an earlier phase
          if (wait_subs) for (int t = 0; t < nthreads; ++t) if (sp_of[t] <= pi + 1) while (!sub_done[t].load()) std::this_thread::sleep_for(std::chrono::microseconds(50));
          spin_us(delay_us);
          if (xrun) {
            auto marker = std::make_shared<std::atomic<bool>>(false);
            c.loop->runInLoop([marker] { *marker = true; }, "marker");
            int64_t t0 = steady_ms(); while (!marker->load() && steady_ms() - t0 < 5000) std::this_thread::sleep_for(std::chrono::microseconds(50));
            if (marker->load()) {   // the loop is running now and stays so until this thread posts the exit task
              int n = ph.a % 3 + 1, last = -1;
              for (int k = 0; k < n; ++k) {
                int i = c.alloc(kCtlThread, E_RUN, B_NONE, pi, 0, xrun_seq++);
                if (i < 0) break;
                std::function<void()> fn = [&c, i] { c.exec(i); };
                uint64_t id;
                switch ((ph.a / 3 + k) % 3) { case 0: id = c.loop->run(fn, "xrun-lvalue"); break; case 1: id = c.loop->run(std::move(fn), "xrun-rvalue"); break; default: id = c.loop->runInLoop(fn, "xinloop-lvalue"); break; }
                c.tasks[i].run_id.store(id); last = i; xruns++;
              }
              if (last >= 0) { int64_t t1 = steady_ms(); auto settled = [&] { return c.tasks[last].exec_count.load() > 0 || c.tasks[last].cancelled.load(); };   // (a B_CANCEL task may legitimately cancel it)
                while (!settled() && steady_ms() - t1 < 2500) std::this_thread::sleep_for(std::chrono::microseconds(50));
                if (!settled()) xrun_late = true; }
              // and the loop thread delegating to itself from inside a runNext() task: P (runInLoop, from this thread) -> Q (runNext) -> R (runInLoop).
              // R is handed in on the loop thread while nothing else is due: the loop must not go to sleep on it
              if (!xrun_late.load() && (ph.a / 9) % 2 == 1) {
                auto r_idx = std::make_shared<std::atomic<int>>(-2);
                c.loop->runInLoop([&c, r_idx] { c.loop->runNext([&c, r_idx] { r_idx->store(c.submit_main(E_RUNINLOOP, B_NONE, 0, 3)); }, "Q"); }, "P");
                nested_self++;
                int64_t t2 = steady_ms();
                auto done = [&] { int ri = r_idx->load(); return ri == -1 || (ri >= 0 && (c.tasks[ri].exec_count.load() > 0 || c.tasks[ri].cancelled.load())); };
                while (!done() && steady_ms() - t2 < 2500) std::this_thread::sleep_for(std::chrono::microseconds(50));
                if (!done()) xrun_late = true;
              }
            }
            c.exit_blocked = false;
          }
          auto post = [&](bool is_exit) {
            int i = c.alloc(kCtlThread, E_RUNINLOOP, B_NONE, pi, 0, ctl_seq++);
            if (i < 0) return;
            c.tasks[i].is_exit_of_phase = is_exit;
            uint64_t id;
            if (is_exit) id = c.loop->runInLoop([&c, exit_executed_p, i] { c.exec(i); *exit_executed_p = true; c.chain_allowed = false; if (!c.exit_blocked.load()) c.loop->exitLoop(); /* a stale exit task of an earlier phase must not stop the loop during an xrun window either */ }, "exit");
            else id = c.loop->runInLoop([&c, i] { c.exec(i); }, "late");
            c.tasks[i].run_id.store(id);
          };
          for (int k = 0; k < late_before; ++k) post(false);
          post(true);
          exit_submitted_at.store(steady_ms());
          for (int k = 0; k < late_after; ++k) { post(false); c.late_after_exit++; }
        });
        // sentinel: fires every 400 ms; a cross-thread exit task not run 2 s after submission while the loop is
        // otherwise idle - or kept busy by a runNext() chain - is a lost wake-up (timers wake the loop but do not process runInLoop tasks)
        tbox::event::TimerEvent *sentinel = c.loop->newTimerEvent("sentinel");
        sentinel->initialize(std::chrono::milliseconds(xrun ? 3000 : 400), tbox::event::Event::Mode::kPersist);   // xrun phases: no other wake-up source for 3 s
        sentinel->setCallback([&] {
          int64_t at = exit_submitted_at.load();
          if (at != 0 && !exit_executed.load() && steady_ms() - at > 2000) { lost_wakeup = true; c.chain_allowed = false; c.loop->exitLoop(); }
        });
        sentinel->enable();
        if (runs++ > 0) reran = true;
        c.chain_allowed = true;
        // a third of the phases start the runNext() chain before the loop runs, so that the controller's exit task always arrives while the chain is going
        if ((ph.c / 4) % 3 == 2 && !c.chain_active) { c.chain_active = true; c.chains_started++; c.loop->runNext([&c] { c.chain_step(); }, "chain"); }
        c.loop->runLoop(Loop::Mode::kForever);
        c.chain_allowed = false;
        if (drain_err.empty()) drain_err = check_drained(pi);
        sentinel->disable();
        delete sentinel;
        ctl.join();
        if (xrun_late.load() && !lost_wakeup) { lost_wakeup = true; lost_msg = "TIMING: a callable handed to Loop::run()/runInLoop(const&) from another thread while the loop was running (or a callable the loop thread handed to runInLoop() from inside a runNext() task) was not invoked within 2.5 s by an otherwise idle loop (phase " + std::to_string(pi) + "): no wake-up"; }
        else if (lost_wakeup) { lost_msg = "TIMING: lost wake-up: exit task submitted through runInLoop() from another thread was not run within 2 s by a loop in runLoop(kForever) (phase " + std::to_string(pi) + (c.chains_started ? ", a runNext() chain kept the loop busy" : ", loop idle") + ")"; }
        break; }
      case 2: {   // runLoop(kOnce); make sure the pass cannot block
        c.submit_main(E_RUNNEXT, B_NONE, 0, 0);
        if (runs++ > 0) reran = true;
        c.loop->runLoop(Loop::Mode::kOnce);
        if (drain_err.empty()) drain_err = check_drained(pi);
        break; }
      case 3:
        // explicit cleanup() is treated like destruction: not concurrent with submissions (it drains the queues
        // without the lock; the statement only promises race-freedom for submissions against a live loop)
        for (int t = 0; t < nthreads; ++t) if (sp_of[t] <= pi + 1) while (!sub_done[t].load()) std::this_thread::sleep_for(std::chrono::microseconds(50));
        c.loop->cleanup(); break;
    }
    if (lost_wakeup) break;
  }
  c.phase_no.store(1000);
  for (auto &t : subs) t.join();
  delete c.loop;       // must run everything still pending, on this thread
  c.loop = nullptr;

  if (lost_wakeup) return lost_msg;
  if (!drain_err.empty()) return drain_err;
  if (c.error_from_task) return c.error_from_task;

  // ---- oracle over the history
  int n = c.ntasks.load();
  char buf[300];
  for (int i = 0; i < n; ++i) {
    TaskRec &t = c.tasks[i];
    int cnt = t.exec_count.load();
    const char *who = t.submitter == 0 ? "loop thread" : t.submitter == kCtlThread ? "controller thread" : "submitter thread";
    const char *en = t.entry == E_RUNINLOOP ? "runInLoop" : t.entry == E_RUNNEXT ? "runNext" : "run";
    if (t.run_id.load() == 0) { snprintf(buf, sizeof buf, "task %d (%s via %s) got RunId 0", i, who, en); return buf; }
    if (t.cancelled.load()) {
      if (cnt != 0) { snprintf(buf, sizeof buf, "task %d (%s via %s): cancel() returned true but the task was executed %d time(s)", i, who, en, cnt); return buf; }
      continue;
    }
    if (cnt != 1) { snprintf(buf, sizeof buf, "task %d (%s via %s, seq %llu): executed %d times by the time the loop was destroyed (expected exactly once)", i, who, en, (unsigned long long)t.submit_seq, cnt); return buf; }
    if (t.wrong_thread.load()) { snprintf(buf, sizeof buf, "task %d (%s via %s) was executed on a thread other than the one running/destroying the loop", i, who, en); return buf; }
  }
  // per (submitter, entry): execution order == submission order
  {
    std::map<std::pair<int, int>, std::pair<uint64_t, uint64_t>> last;   // -> (last seq, last stamp)
    std::vector<int> idx(n); for (int i = 0; i < n; ++i) idx[i] = i;
    std::sort(idx.begin(), idx.end(), [&](int x, int y) { return c.tasks[x].exec_stamp.load() < c.tasks[y].exec_stamp.load(); });
    for (int i : idx) {
      TaskRec &t = c.tasks[i];
      if (t.cancelled.load()) continue;
      int sub_key = t.submitter == kCtlThread ? kCtlThread + t.arg : t.submitter.load();   // controllers are distinct threads, but all use seq ctl_seq in creation order
      auto key = std::make_pair(sub_key, t.entry);
      auto it = last.find(key);
      if (it != last.end() && t.submit_seq < it->second.first) {
        snprintf(buf, sizeof buf, "order violated for submitter %d via entry %d: submission #%llu ran after submission #%llu", t.submitter.load(), t.entry, (unsigned long long)t.submit_seq, (unsigned long long)it->second.first);
        return buf;
      }
      last[key] = {t.submit_seq, t.exec_stamp.load()};
    }
  }
  bool any_cancel = c.cancels_true.load() + c.cancels_false.load() > 0;
  info.cls_if(nthreads >= 2 && runs > 0, "multi_submitter_with_running_loop");
  info.cls_if(any_cancel, "cancel_from_task");
  info.cls_if(c.cancels_true.load() > 0, "cancel_succeeded");
  info.cls_if(c.late_after_exit.load() > 0, "submission_after_exit_requested");
  info.cls_if(reran, "rerun_after_exit");
  info.cls_if(backend == 1, "select_backend");
  info.cls_if(runs == 0, "never_run_only_destroyed");
  info.cls_if(c.self_cancels > 0, "task_cancels_its_own_id_while_running");
  info.cls_if(xruns.load() > 0, "run_or_lvalue_overload_called_from_another_thread_while_loop_runs");
  info.cls_if(nested_self.load() > 0, "runInLoop_called_on_the_loop_thread_from_inside_a_runNext_task_on_an_idle_loop");
  info.cls_if(c.chains_started > 0 && c.chain_steps.load() > 10, "runNext_chain_keeps_loop_busy_while_exit_task_arrives");
  info.nontrivial = n > 0 && ((nthreads >= 2 && runs > 0) || any_cancel || c.late_after_exit.load() > 0 || reran);
  return "";
}

SubDef def = [] {
  SubDef d; d.name = "tasks";
  d.op_names = {"cfg", "phase", "sub", "spin"};
  d.op_arity = {6, 5, 4, 2};
  d.nt_rule = "scenario with tasks and (>= 2 submitter threads overlapping a running loop, or a cancel issued from inside a task, or a submission landing after exitLoop was requested, or a re-run after exit)";
  d.run = run;
#ifndef VERIF_ENGINE_FUZZ
  d.gen = [] {
    auto th = range(0, kMaxThreads - 1);
    auto cfg = mkop(CFG, {range(0, 1), range(0, kMaxThreads), range(0, 6), range(0, 6), range(0, 6), range(0, 6)});
    auto phase = mkop(PHASE, {rc::gen::weightedOneOf<int64_t>({{2, rc::gen::just<int64_t>(0)}, {5, rc::gen::just<int64_t>(1)}, {2, rc::gen::just<int64_t>(2)}, {1, rc::gen::just<int64_t>(3)}}), range(0, 1000), range(0, 1000), range(0, 1000), range(0, 1000)});
    auto phases = rc::gen::resize(6, rc::gen::container<std::vector<Op>>(phase));
    auto subop = rc::gen::weightedOneOf<Op>({
      {6, mkop(SUB, {th, range(1, 40), range(0, B_NBEH2 - 1), range(0, 100000)})},
      {2, mkop(SPIN, {th, rc::gen::weightedOneOf<int64_t>({{3, range(0, 60)}, {1, range(0, 2000)}})})},
    });
    return rc::gen::apply([](std::vector<Op> h, std::vector<Op> p, std::vector<Op> b) {
      Scenario s; s.ops = std::move(h); for (auto &o : p) s.ops.push_back(o); for (auto &o : b) s.ops.push_back(o); return s; },
      fixedOps({cfg}), phases, opsOf(subop));
  };
#endif
  return d;
}();
VERIF_REGISTER(&def);
}  // namespace
