TARGETS = {
    "c01_tasks_tsan": {"src": "C01/loop_tasks.cpp", "variant": "tsan", "engine": "rc", "libs": ["event", "base"]},
    "c01_tasks_asan": {"src": "C01/loop_tasks.cpp", "variant": "asan", "engine": "rc", "libs": ["event", "base"]},
}
PROP = {
    "subchecks": [
        {"target": "c01_tasks_tsan", "sub": "tasks",
         "quick": {"cases": 1500, "max_size": 50, "workers": 8, "case_alarm": 60},
         "thorough": {"cases": 40000, "max_size": 120, "workers": 10, "case_alarm": 60}},
        {"target": "c01_tasks_asan", "sub": "tasks",
         "quick": {"cases": 1500, "max_size": 50, "workers": 4, "case_alarm": 60},
         "thorough": {"cases": 40000, "max_size": 120, "workers": 6, "case_alarm": 60}},
    ],
    "assumptions": ["other threads submit only through runInLoop() (the thread-safe entry point); runNext()/run() are used by the thread that runs the loop",
                    "cancel() is issued only from the loop thread (inside tasks)",
                    "the loop is run, cleaned up and destroyed by one thread; exitLoop() is always called on the loop thread (from a task)",
                    "task recursion depth <= 3 (cleanupDeferredTasks documents a 100-round limit)",
                    "lost wake-up is checked as bounded liveness (2 s sentinel, must reproduce in 2 of 3 isolated replays)"],
}
META = {
    "design_ref": "DESIGN.md section 4, C01",
    "technique": "PBT over generated multi-thread submission/phase scenarios (rapidcheck), history invariants (exactly-once, thread, per-submitter order, cancel consistency, nothing dropped), bounded-liveness sentinel for lost wake-ups, ThreadSanitizer + ASan builds, both back-ends",
    "level_text": "Generated scenarios: 0-4 submitter threads using runInLoop with generated pauses, loop-thread phases (preload via runInLoop/runNext/run, runLoop(kForever) ended by a cross-thread exit task, runLoop(kOnce), cleanup(), re-runs, destruction), task behaviours (children via the three entry points, cancel of pending/executing-batch/foreign tasks, exitLoop, busy). The oracle checks the history after the loop is destroyed. Exploration: interleavings are sampled, not enumerated. Later additions (seeding rounds): tasks that cancel their own id while running, a perpetual runNext() chain that keeps the loop busy while the cross-thread exit task arrives, Loop::run() and the const& overloads called from another thread while the loop is certainly running and otherwise idle (bounded wake-up latency, no other wake-up source for 3 s), and the loop thread handing a callable to runInLoop() from inside a runNext() task on an idle loop.",
    "level_note": "Trusted: TSan/ASan, the harness's atomics-based event log. Limits L2/L3 of DESIGN.md section 1 apply (lost wake-ups are detected as a 2 s bound that must reproduce in isolation).",
}
