"""Per-property MANIFEST texts (kept next to the registry so that MANIFEST.json can be regenerated)."""
HOOK_COMMITS = []
NOTES = ("Technique family: property-based testing and fuzzing (rapidcheck, libFuzzer, sanitizers). "
         "Every check is ./check <id>; it rebuilds /repo's working tree incrementally with hooks on, runs a replay tier "
         "(corpus/<id>/regress, known-finding probes) and a generated-input search tier, and rewrites evidence/<id>.json. "
         "Known findings and fixes are listed in known_findings.json.")
NOT_APPLICABLE = {}
META = {
    "C07": {
        "design_ref": "DESIGN.md section 4, C07",
        "technique": "model-based stateful PBT (rapidcheck) + coverage-guided fuzzing (libFuzzer) of the same op-stream against a std::string FIFO reference model, under ASan/UBSan",
        "level_text": "Generated operation histories on up to 4 Buffer variables (all public operations, boundary-biased sizes, all initial capacities) are compared after every step with a FIFO reference model (size and full content, fetch results, copy independence, moved-from/reset emptiness); ASan with exact-size source/destination blocks catches out-of-storage accesses. Exploration only: no counter-example among N generated histories.",
        "level_note": "Trusted: the reference model (std::string per variable), ASan/UBSan instrumentation, the harness's clamp of over-committed hasWritten() to writableSize() as documented in the header. Sizes are bounded to 1 MiB per operation. memcpy(_, nullptr, 0) is not flagged.",
    },
}
