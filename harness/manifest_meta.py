"""Per-property MANIFEST texts (kept next to the registry so that MANIFEST.json can be regenerated)."""
HOOK_COMMITS = ["b6d926e", "30f5128", "ca0b5bf", "b10ca6f"]
NOTES = ("Technique family: property-based testing and fuzzing (rapidcheck, libFuzzer, sanitizers). "
         "Every check is ./check <id>; it rebuilds /repo's working tree incrementally with hooks on, runs a replay tier "
         "(corpus/<id>/regress, known-finding probes) and a generated-input search tier, and rewrites evidence/<id>.json. "
         "Known findings and fixes are listed in known_findings.json.")
NOT_APPLICABLE = {}
