// Virtual-clock loop driver (DESIGN.md 3.1).  Requires hook H1 (tbox::event::verif_steady_ms_hook).
//
//   vloop::Clock clk;                     // installs the hook; clk.now is the loop's monotonic time in ms
//   vloop::drive(loop, [&](int pass) { ...; clk.now += 5; return pass < 10; });
//
// drive() runs loop->runLoop(kForever) on the calling thread; a driver task re-posts itself with
// runNext() at the end of every pass, so the loop never blocks in epoll_wait/select, and calls
// step(pass) once per pass (inside the loop thread, outside any event callback).  When step returns
// false the loop is told to exit.  Everything (timers, fd events, deferred tasks) is dispatched by the
// production loop code.
#pragma once
#include <cstdint>
#include <functional>
#include <memory>
#include <tbox/event/loop.h>

namespace tbox { namespace event { extern uint64_t (*verif_steady_ms_hook)(); } }

namespace vloop {

struct Clock {
  static uint64_t &ref() { static uint64_t v = 1000000; return v; }
  static uint64_t read() { return ref(); }
  uint64_t &now;
  explicit Clock(uint64_t start = 1000000) : now(ref()) { now = start; tbox::event::verif_steady_ms_hook = &Clock::read; }
  ~Clock() { tbox::event::verif_steady_ms_hook = nullptr; }
  Clock(const Clock &) = delete;
};

// Runs the loop until step() returns false.  Returns the number of passes driven.
inline int drive(tbox::event::Loop *loop, std::function<bool(int)> step) {
  auto pass = std::make_shared<int>(0);
  auto tick = std::make_shared<std::function<void()>>();
  *tick = [loop, pass, tick, step]() {
    if (step((*pass)++)) loop->runNext(*tick, "vloop::tick");
    else loop->exitLoop();
  };
  loop->runNext(*tick, "vloop::tick");
  loop->runLoop(tbox::event::Loop::Mode::kForever);
  int n = *pass;
  *tick = nullptr;   // break the self-reference cycle
  return n;
}

// n passes without harness activity
inline void passes(tbox::event::Loop *loop, int n) {
  drive(loop, [n](int p) { return p + 1 < n; });
}

}  // namespace vloop
