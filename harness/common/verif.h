// Common harness scaffolding: scenario representation, (de)serialisation, statistics, replay,
// crash capture, and the rapidcheck / libFuzzer / replay entry points.
//
// A *scenario* is a flat list of ops; an op is an opcode plus a few integers.  Every harness
// interprets the integers defensively (modulo table sizes etc.) so that ANY op list is a valid
// scenario: that keeps rapidcheck shrinking, libFuzzer byte decoding and line-based delta-debugging
// of replay files all closed over the scenario space.
//
// A harness translation unit defines one or more subs with VERIF_SUB(...) and includes this header
// exactly once.  Build with -DVERIF_ENGINE_FUZZ for a libFuzzer binary, otherwise a rapidcheck binary.
#pragma once
#include <cstdint>
#include <atomic>
#include <cstdio>
#include <cstdlib>
#include <cstring>
#include <csignal>
#include <string>
#include <vector>
#include <map>
#include <set>
#include <unordered_set>
#include <functional>
#include <sstream>
#include <fstream>
#include <exception>
#include <unistd.h>
#include <thread>
#include <chrono>
#include <fcntl.h>
#include <sys/stat.h>

#ifndef VERIF_ENGINE_FUZZ
#include <rapidcheck.h>
#endif

#include <sys/syscall.h>
#if defined(__has_feature)
#  if __has_feature(address_sanitizer)
#    define VERIF_HAVE_ASAN 1
#  endif
#  if __has_feature(thread_sanitizer)
#    define VERIF_HAVE_TSAN 1
#  endif
#endif
#if defined(__SANITIZE_ADDRESS__)
#  define VERIF_HAVE_ASAN 1
#endif
#if defined(__SANITIZE_THREAD__)
#  define VERIF_HAVE_TSAN 1
#endif
#ifdef VERIF_HAVE_ASAN
extern "C" void __sanitizer_set_death_callback(void (*)(void));
#endif
#ifdef VERIF_HAVE_TSAN
// ThreadSanitizer runs with halt_on_error=0; every report bumps this counter (the hook is called from inside the
// TSan runtime, so it must not do anything else), and execute_case() turns "a report happened during this case"
// into an ordinary failure of that case — which also lets rapidcheck shrink it.
namespace verif { inline std::atomic<unsigned> &tsan_reports() { static std::atomic<unsigned> n{0}; return n; } }
extern "C" __attribute__((no_sanitize("thread"))) void __tsan_on_report(void *) { verif::tsan_reports().fetch_add(1, std::memory_order_relaxed); }
#endif

namespace verif {

struct Op {
  int code = 0;
  std::vector<int64_t> a;
  int64_t arg(size_t i, int64_t dflt = 0) const { return i < a.size() ? a[i] : dflt; }
  // arg reduced into [lo, hi]
  int64_t in(size_t i, int64_t lo, int64_t hi) const {
    int64_t v = arg(i, lo);
    if (hi <= lo) return lo;
    uint64_t span = (uint64_t)(hi - lo) + 1;
    uint64_t u = v < 0 ? (uint64_t)(-(v + 1)) : (uint64_t)v;
    return lo + (int64_t)(u % span);
  }
};
inline bool operator==(const Op &x, const Op &y) { return x.code == y.code && x.a == y.a; }

struct Scenario {
  std::vector<Op> ops;
};

struct SubDef;
inline std::vector<SubDef*> &registry() { static std::vector<SubDef*> r; return r; }

// What one executed case reports back besides pass/fail.
struct CaseInfo {
  bool nontrivial = false;
  std::vector<const char*> classes;
  void cls(const char *c) { for (auto p : classes) if (p == c || !strcmp(p, c)) return; classes.push_back(c); }
  void cls_if(bool b, const char *c) { if (b) cls(c); }
  std::string note;   // optional canonical description used instead of the scenario text for hashing
};

struct SubDef {
  const char *name;
  std::vector<const char*> op_names;
#ifndef VERIF_ENGINE_FUZZ
  std::function<rc::Gen<Scenario>()> gen;
#endif
  std::function<std::string(const Scenario&, CaseInfo&)> run;
  // optional: byte-level decode for the fuzz engine; default decoder below is used when empty
  std::function<Scenario(const uint8_t*, size_t)> decode;
  // arity hint for the default byte decoder: number of int args per opcode
  std::vector<int> op_arity;
  const char *nt_rule = "";
};

inline std::string to_text(const SubDef &d, const Scenario &s) {
  std::string out;
  out.reserve(s.ops.size() * 16);
  char buf[32];
  for (auto &op : s.ops) {
    if (op.code >= 0 && (size_t)op.code < d.op_names.size()) out += d.op_names[op.code];
    else { snprintf(buf, sizeof buf, "op%d", op.code); out += buf; }
    for (auto v : op.a) { snprintf(buf, sizeof buf, " %lld", (long long)v); out += buf; }
    out += '\n';
  }
  return out;
}

inline bool from_text(const SubDef &d, const std::string &txt, Scenario &s) {
  std::istringstream is(txt);
  std::string line;
  while (std::getline(is, line)) {
    if (line.empty() || line[0] == '#') continue;
    std::istringstream ls(line);
    std::string name; ls >> name;
    Op op; op.code = -1;
    for (size_t i = 0; i < d.op_names.size(); ++i) if (name == d.op_names[i]) op.code = (int)i;
    if (op.code < 0) { if (sscanf(name.c_str(), "op%d", &op.code) != 1) return false; }
    long long v; while (ls >> v) op.a.push_back(v);
    s.ops.push_back(op);
  }
  return true;
}

inline uint64_t fnv1a(const std::string &s) {
  uint64_t h = 1469598103934665603ull;
  for (unsigned char c : s) { h ^= c; h *= 1099511628211ull; }
  return h;
}

struct Stats {
  uint64_t evaluations = 0;
  uint64_t nontrivial = 0;
  std::unordered_set<uint64_t> nt_hashes;
  size_t nt_cap = 200000;
  std::map<std::string, uint64_t> classes;
  std::vector<std::string> samples;
  std::vector<std::string> failures;   // replay paths
  std::vector<std::string> failure_msgs;
  std::map<std::string, uint64_t> counters;   // free-form numeric counters from harnesses
};
inline Stats &stats() { static Stats s; return s; }

inline std::string json_escape(const std::string &s) {
  std::string o; o.reserve(s.size() + 8);
  for (unsigned char c : s) {
    switch (c) {
      case '"': o += "\\\""; break; case '\\': o += "\\\\"; break;
      case '\n': o += "\\n"; break; case '\r': o += "\\r"; break; case '\t': o += "\\t"; break;
      default: if (c < 0x20 || c >= 0x7f) { char b[8]; snprintf(b, sizeof b, "\\u%04x", c); o += b; } else o += (char)c;
    }
  }
  return o;
}

struct Runtime {
  SubDef *sub = nullptr;
  std::string out_path, replay_dir = ".", tag;
  std::string current_text;      // serialised scenario of the case being executed
  std::string last_fail_text, last_fail_msg;
  unsigned case_alarm_s = 0;     // per-case watchdog (0 = none)
  bool in_case = false;
};
inline Runtime &rt() { static Runtime r; return r; }

inline void write_file(const std::string &p, const std::string &content) {
  int fd = ::open(p.c_str(), O_WRONLY | O_CREAT | O_TRUNC, 0644);
  if (fd < 0) return;
  size_t off = 0; while (off < content.size()) { ssize_t n = ::write(fd, content.data() + off, content.size() - off); if (n <= 0) break; off += n; }
  ::close(fd);
}

inline void write_stats() {
  auto &r = rt(); auto &s = stats();
  if (r.out_path.empty()) return;
  std::string o = "{";
  char b[64];
  snprintf(b, sizeof b, "\"evaluations\": %llu, ", (unsigned long long)s.evaluations); o += b;
  snprintf(b, sizeof b, "\"nontrivial\": %llu, ", (unsigned long long)s.nontrivial); o += b;
  o += "\"sub\": \""; o += r.sub ? r.sub->name : ""; o += "\", ";
  o += "\"nt_rule\": \""; o += json_escape(r.sub ? r.sub->nt_rule : ""); o += "\", ";
  o += "\"nt_hashes\": [";
  bool first = true;
  for (auto h : s.nt_hashes) { if (!first) o += ","; first = false; snprintf(b, sizeof b, "%llu", (unsigned long long)(h >> 11)); o += b; }
  o += "], \"classes\": {";
  first = true;
  for (auto &kv : s.classes) { if (!first) o += ", "; first = false; o += "\"" + json_escape(kv.first) + "\": "; snprintf(b, sizeof b, "%llu", (unsigned long long)kv.second); o += b; }
  o += "}, \"counters\": {";
  first = true;
  for (auto &kv : s.counters) { if (!first) o += ", "; first = false; o += "\"" + json_escape(kv.first) + "\": "; snprintf(b, sizeof b, "%llu", (unsigned long long)kv.second); o += b; }
  o += "}, \"samples\": [";
  first = true;
  for (auto &x : s.samples) { if (!first) o += ", "; first = false; o += "\"" + json_escape(x) + "\""; }
  o += "], \"failures\": [";
  for (size_t i = 0; i < s.failures.size(); ++i) {
    if (i) o += ", ";
    o += "{\"replay\": \"" + json_escape(s.failures[i]) + "\", \"msg\": \"" + json_escape(s.failure_msgs[i]) + "\"}";
  }
  o += "]}\n";
  write_file(r.out_path, o);
}

// Called on sanitizer death / fatal signal / watchdog: persist the case under execution.
inline void dump_current_case(const char *kind) {
  auto &r = rt();
  if (!r.in_case) return;
  char name[512];
  snprintf(name, sizeof name, "%s/%s-%s-%d.txt", r.replay_dir.c_str(), kind, r.sub ? r.sub->name : "x", (int)getpid());
  write_file(name, r.current_text);
  // async-signal-unsafe in theory (stdio); we are dying anyway
  fprintf(stderr, "\nVERIF-CRASH kind=%s replay=%s\n", kind, name);
  if (!strcmp(kind, "hang")) {
    // called from the watchdog thread while the main thread may still be running: do not touch stats(),
    // leave a marker next to the stats file instead (the driver picks it up)
    if (!r.out_path.empty()) write_file(r.out_path + ".hang", name);
    return;
  }
  stats().failures.push_back(name);
  stats().failure_msgs.push_back(std::string("process died: ") + kind);
  write_stats();
}
inline void on_death() { dump_current_case("crash"); }
inline void on_fatal_signal(int sig) {
  if (sig == SIGALRM) { dump_current_case("hang"); _exit(3); }
  dump_current_case("crash");
  signal(sig, SIG_DFL);
  raise(sig);
  _exit(128 + sig);
}
inline void install_crash_capture() {
#ifdef VERIF_HAVE_ASAN
  __sanitizer_set_death_callback(on_death);
#else
  for (int sg : {SIGSEGV, SIGBUS, SIGFPE, SIGILL}) {
    static char altstack[1 << 16];
    stack_t ss; ss.ss_sp = altstack; ss.ss_size = sizeof altstack; ss.ss_flags = 0; sigaltstack(&ss, nullptr);
    struct sigaction sa; memset(&sa, 0, sizeof sa); sa.sa_handler = on_fatal_signal; sa.sa_flags = SA_ONSTACK;
    sigaction(sg, &sa, nullptr);
  }
#endif
  struct sigaction sa; memset(&sa, 0, sizeof sa); sa.sa_handler = on_fatal_signal;
  sigaction(SIGABRT, &sa, nullptr);
  sigaction(SIGALRM, &sa, nullptr);
}

// Per-case watchdog: a helper thread (SIGALRM is useless under TSan, which defers async signals while the
// main thread blocks in pthread_join).  deadline = steady-clock ms at which the running case is declared hung.
inline std::atomic<int64_t> &watchdog_deadline() { static std::atomic<int64_t> d{0}; return d; }
inline int64_t steady_ms() { return std::chrono::duration_cast<std::chrono::milliseconds>(std::chrono::steady_clock::now().time_since_epoch()).count(); }
inline void watchdog_arm(unsigned seconds) {
  static bool started = false;
  if (!started) {
    started = true;
    std::thread([] {
      for (;;) {
        std::this_thread::sleep_for(std::chrono::milliseconds(100));
        int64_t d = watchdog_deadline().load();
        if (d != 0 && steady_ms() > d) { dump_current_case("hang"); syscall(SYS_exit_group, 3); }   // raw exit: TSan's _exit interceptor can deadlock
      }
    }).detach();
  }
  watchdog_deadline().store(steady_ms() + (int64_t)seconds * 1000);
}
inline void watchdog_disarm() { watchdog_deadline().store(0); }

inline std::string save_failure(const std::string &text, const std::string &msg) {
  auto &r = rt();
  char name[512];
  snprintf(name, sizeof name, "%s/fail-%s-%016llx.txt", r.replay_dir.c_str(), r.sub->name, (unsigned long long)fnv1a(text));
  write_file(name, "# " + std::string(r.sub->name) + ": " + [&]{ std::string m = msg; for (auto &c : m) if (c == '\n') c = ' '; return m; }() + "\n" + text);
  return name;
}

// Execute one case with bookkeeping.  Returns the error message ("" = property held).
inline std::string execute_case(const Scenario &scn) {
  auto &r = rt(); auto &s = stats();
  r.current_text = to_text(*r.sub, scn);
  r.in_case = true;
  if (r.case_alarm_s) watchdog_arm(r.case_alarm_s);
  CaseInfo info;
  std::string err;
#ifdef VERIF_HAVE_TSAN
  // a report that arrived between two cases (a thread of the previous case still winding down) belongs to the previous case
  static unsigned tsan_at_prev_end = 0; static std::string prev_text;
  if (tsan_reports().load() != tsan_at_prev_end && !prev_text.empty()) {
    std::string p = save_failure(prev_text, "ThreadSanitizer reported a data race right after this case ended (report text is in the worker log)");
    s.failures.push_back(p); s.failure_msgs.push_back("ThreadSanitizer reported a data race right after this case ended (report text is in the worker log)");
  }
  unsigned tsan_before = tsan_reports().load();
#endif
  try {
    err = r.sub->run(scn, info);
  } catch (const std::exception &e) {
    err = std::string("C++ exception escaped into the harness: ") + e.what();
  } catch (...) {
    err = "unknown C++ exception escaped into the harness";
  }
#ifdef VERIF_HAVE_TSAN
  if (err.empty() && tsan_reports().load() != tsan_before)
    err = "ThreadSanitizer reported a data race during this case (report text is in the worker log)";
#endif
#ifdef VERIF_HAVE_TSAN
  tsan_at_prev_end = tsan_reports().load(); prev_text = r.current_text;
#endif
  if (r.case_alarm_s) watchdog_disarm();
  r.in_case = false;
  s.evaluations++;
  for (auto c : info.classes) s.classes[c]++;
  if (info.nontrivial) {
    s.nontrivial++;
    if (s.nt_hashes.size() < s.nt_cap) s.nt_hashes.insert(fnv1a(info.note.empty() ? r.current_text : info.note));
  }
  // samples: first 2 nontrivial cases and cases at evaluation index 10^k
  bool pow10 = false; for (uint64_t p = 1; p <= s.evaluations; p *= 10) if (p == s.evaluations) pow10 = true;
  size_t nts = 0; for (auto &x : s.samples) if (x.compare(0, 4, "#nt\n") == 0) nts++;
  if ((info.nontrivial && nts < 2) || (pow10 && s.samples.size() < 8)) {
    std::string t = r.current_text; if (t.size() > 1500) t = t.substr(0, 1500) + "...(truncated)\n";
    s.samples.push_back((info.nontrivial ? "#nt\n" : "#plain\n") + t);
  }
  return err;
}

struct Registrar { Registrar(SubDef *d) { registry().push_back(d); } };

inline SubDef *find_sub(const std::string &n) {
  for (auto d : registry()) if (n == d->name) return d;
  if (n.empty() && registry().size() == 1) return registry()[0];
  return nullptr;
}

// Default byte decoder: [opcode byte][arity × varint-ish 1..8 bytes chosen by a width byte]...
inline Scenario default_decode(const SubDef &d, const uint8_t *data, size_t size) {
  Scenario s; size_t i = 0;
  size_t nops = d.op_names.size();
  while (i < size && s.ops.size() < 4096) {
    Op op; op.code = data[i++] % nops;
    int ar = (size_t)op.code < d.op_arity.size() ? d.op_arity[op.code] : 2;
    for (int k = 0; k < ar && i < size; ++k) {
      uint8_t w = data[i++];
      int nbytes = (w & 0x80) ? 1 + ((w >> 4) & 7) : 0;   // small values inline, else 1..8 bytes
      int64_t v;
      if (!nbytes) v = w & 0x7f;
      else { uint64_t u = 0; for (int j = 0; j < nbytes && i < size; ++j) u = (u << 8) | data[i++]; v = (int64_t)((w & 1) ? (0 - u) : u); }
      op.a.push_back(v);
    }
    s.ops.push_back(op);
  }
  return s;
}

#ifndef VERIF_ENGINE_FUZZ
// ---- generator helpers -------------------------------------------------------------------------
// integer in [lo,hi] that does not collapse at small sizes
inline rc::Gen<int64_t> range(int64_t lo, int64_t hi) {
  return rc::gen::resize(1000, rc::gen::inRange<int64_t>(lo, hi + 1));
}
inline rc::Gen<int64_t> oneOfValues(std::vector<int64_t> v) { return rc::gen::elementOf(std::move(v)); }
inline rc::Gen<Op> mkop(int code, std::vector<rc::Gen<int64_t>> args) {
  // build a vector<int64_t> from heterogeneous gens
  rc::Gen<std::vector<int64_t>> acc = rc::gen::just(std::vector<int64_t>());
  for (auto &g : args) {
    acc = rc::gen::apply([](std::vector<int64_t> v, int64_t x) { v.push_back(x); return v; }, acc, g);
  }
  return rc::gen::map(acc, [code](std::vector<int64_t> v) { Op o; o.code = code; o.a = std::move(v); return o; });
}
inline rc::Gen<Scenario> scenarioOf(rc::Gen<std::vector<Op>> head, rc::Gen<std::vector<Op>> body) {
  return rc::gen::apply([](std::vector<Op> h, std::vector<Op> b) { Scenario s; s.ops = std::move(h); for (auto &o : b) s.ops.push_back(std::move(o)); return s; }, head, body);
}
inline rc::Gen<std::vector<Op>> opsOf(rc::Gen<Op> g) { return rc::gen::container<std::vector<Op>>(g); }
inline rc::Gen<std::vector<Op>> fixedOps(std::vector<rc::Gen<Op>> gs) {
  rc::Gen<std::vector<Op>> acc = rc::gen::just(std::vector<Op>());
  for (auto &g : gs) acc = rc::gen::apply([](std::vector<Op> v, Op x) { v.push_back(std::move(x)); return v; }, acc, g);
  return acc;
}
#endif

inline int replay_file(const std::string &path) {
  auto &r = rt();
  std::ifstream f(path); std::stringstream ss; ss << f.rdbuf();
  Scenario s;
  if (!from_text(*r.sub, ss.str(), s)) { fprintf(stderr, "cannot parse replay file %s\n", path.c_str()); return 2; }
  std::string err = execute_case(s);
  if (!err.empty()) { printf("REPLAY-FAIL sub=%s file=%s: %s\n", r.sub->name, path.c_str(), err.c_str()); return 1; }
  printf("REPLAY-OK sub=%s file=%s\n", r.sub->name, path.c_str());
  return 0;
}

}  // namespace verif

#define VERIF_CAT2(a, b) a##b
#define VERIF_CAT(a, b) VERIF_CAT2(a, b)
#define VERIF_REGISTER(defptr) static ::verif::Registrar VERIF_CAT(verif_reg_, __LINE__)(defptr)

// Show instance so rapidcheck can print counter-examples
#ifndef VERIF_ENGINE_FUZZ
namespace rc {
template <> struct Arbitrary<verif::Op> {
  static Gen<verif::Op> arbitrary() { return gen::just(verif::Op()); }
};
}
namespace verif {
inline void showValue(const Op &op, std::ostream &os) { os << "op" << op.code; for (auto v : op.a) os << ' ' << v; }
inline void showValue(const Scenario &s, std::ostream &os) { os << "scenario(" << s.ops.size() << " ops)"; }
}
#endif

// ---- entry points ---------------------------------------------------------------------------------
#ifdef VERIF_MAIN
#ifdef VERIF_ENGINE_FUZZ
static void verif_fuzz_atexit() { verif::write_stats(); }
extern "C" int LLVMFuzzerInitialize(int *, char ***) {
  auto &r = verif::rt();
  const char *sub = getenv("VERIF_SUB"); r.sub = verif::find_sub(sub ? sub : "");
  if (!r.sub) { fprintf(stderr, "unknown sub\n"); exit(2); }
  if (const char *o = getenv("VERIF_OUT")) r.out_path = o;
  if (const char *d = getenv("VERIF_REPLAY_DIR")) r.replay_dir = d;
  verif::stats().nt_cap = 100000;
  atexit(verif_fuzz_atexit);
  return 0;
}
extern "C" int LLVMFuzzerTestOneInput(const uint8_t *data, size_t size) {
  auto &r = verif::rt();
  verif::Scenario s = r.sub->decode ? r.sub->decode(data, size) : verif::default_decode(*r.sub, data, size);
  std::string err = verif::execute_case(s);
  if (!err.empty()) {
    std::string p = verif::save_failure(r.current_text, err);
    fprintf(stderr, "\nVERIF-FAIL sub=%s replay=%s\n%s\n", r.sub->name, p.c_str(), err.c_str());
    verif::stats().failures.push_back(p); verif::stats().failure_msgs.push_back(err);
    verif::write_stats();
    __builtin_trap();
  }
  return 0;
}
#else
int main(int argc, char **argv) {
  auto &r = verif::rt();
  std::string sub, replay;
  for (int i = 1; i < argc; ++i) {
    std::string a = argv[i];
    auto next = [&]() -> std::string { return i + 1 < argc ? argv[++i] : ""; };
    if (a == "--sub") sub = next();
    else if (a == "--out") r.out_path = next();
    else if (a == "--replay-dir") r.replay_dir = next();
    else if (a == "--replay") replay = next();
    else if (a == "--case-alarm") r.case_alarm_s = (unsigned)atoi(next().c_str());
    else if (a == "--list") { for (auto d : verif::registry()) printf("%s\n", d->name); return 0; }
  }
  r.sub = verif::find_sub(sub);
  if (!r.sub) { fprintf(stderr, "unknown sub '%s'\n", sub.c_str()); return 2; }
  verif::install_crash_capture();
  if (!replay.empty()) { int rcx = verif::replay_file(replay); verif::write_stats(); return rcx; }
  // Shrinking effort is bounded (default 60 s after the first failure, VERIF_SHRINK_BUDGET_S): once it is used up every
  // further shrink candidate is answered "passes" without being run, so rapidcheck settles on the smallest failing case
  // found so far.  This bounds only the minimisation; the verdict (a failing case exists) is already fixed by then.
  double shrink_budget = getenv("VERIF_SHRINK_BUDGET_S") ? atof(getenv("VERIF_SHRINK_BUDGET_S")) : 60.0;
  bool failed_once = false; std::chrono::steady_clock::time_point first_fail;
  bool ok = rc::check(std::string("sub ") + r.sub->name, [&]() {
    verif::Scenario s = *r.sub->gen();
    if (failed_once && std::chrono::duration<double>(std::chrono::steady_clock::now() - first_fail).count() > shrink_budget) return;
    std::string err = verif::execute_case(s);
    if (!err.empty()) {
      if (!failed_once) { failed_once = true; first_fail = std::chrono::steady_clock::now(); }
      r.last_fail_text = r.current_text; r.last_fail_msg = err; RC_FAIL(err); }
  });
  if (!ok) {
    std::string p = verif::save_failure(r.last_fail_text, r.last_fail_msg);
    printf("VERIF-FAIL sub=%s replay=%s\n%s\n", r.sub->name, p.c_str(), r.last_fail_msg.c_str());
    verif::stats().failures.push_back(p); verif::stats().failure_msgs.push_back(r.last_fail_msg);
  }
  verif::write_stats();
  return ok ? 0 : 1;
}
#endif
#endif
