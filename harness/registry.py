"""Registry of harness binaries (TARGETS) and per-property sub-checks (PROPS).

TARGETS[name] = {src (relative to harness/), variant: asan|tsan|plain, engine: rc|fuzz|plain, libs: [modules]}
PROPS[id] = {subchecks: [{target, sub, quick: {...}, thorough: {...}}], assumptions: [...]}
 rc tiers:   cases (per worker), max_size, workers
 fuzz tiers: runs (per worker), max_len, workers
"""

TARGETS = {
    "c07_buffer_rc":   {"src": "C07/buffer.cpp", "variant": "asan", "engine": "rc",   "libs": ["util", "base"]},
    "c07_buffer_fuzz": {"src": "C07/buffer.cpp", "variant": "asan", "engine": "fuzz", "libs": ["util", "base"]},
}

PROPS = {
    "C07": {
        "subchecks": [
            {"target": "c07_buffer_rc", "sub": "buffer",
             "quick": {"cases": 5000, "max_size": 120, "workers": 4},
             "thorough": {"cases": 150000, "max_size": 300, "workers": 14}},
            {"target": "c07_buffer_fuzz", "sub": "buffer",
             "quick": {"runs": 150000, "max_len": 600, "workers": 2},
             "thorough": {"runs": 20000000, "max_len": 2000, "workers": 2}},
        ],
        "assumptions": ["memcpy(dst, nullptr, 0) (formally UB) is not flagged: no listed property claims UB-freedom",
                        "hasWritten() beyond writableSize() is clamped as the header documents"],
    },
}
