"""Registry of harness binaries (TARGETS), per-property sub-checks (PROPS) and MANIFEST texts (META).

Every property directory harness/Cxx/ contributes a fragment harness/Cxx/reg.py that defines
  TARGETS = {name: {src (relative to harness/), variant: asan|tsan|plain, engine: rc|fuzz|plain, libs: [modules],
                    cxxflags?, ldflags?}}
  PROP    = {subchecks: [{target, sub, quick: {...}, thorough: {...}, env?, dict?}], assumptions: [...]}
            rc tiers:   cases (per worker), max_size, workers, case_alarm?
            fuzz tiers: runs (per worker), max_len, workers, unit_timeout?
  META    = {design_ref, technique, level_text, level_note}
"""
import glob, importlib.util, os

TARGETS, PROPS, META = {}, {}, {}
_here = os.path.dirname(os.path.abspath(__file__))
# a property is registered when it is listed in harness/enabled.txt, or named in VERIF_EXTRA_PROPS (work in progress)
_enabled = {l.strip() for l in open(os.path.join(_here, "enabled.txt")) if l.strip() and not l.startswith("#")}
_enabled |= {x for x in os.environ.get("VERIF_EXTRA_PROPS", "").split(",") if x}
import re as _re, sys as _sys
_enabled |= {a for a in _sys.argv[1:] if _re.fullmatch(r"C[0-9][0-9]", a)}   # ./check Cxx works for unfinished checks too
for _p in sorted(glob.glob(os.path.join(_here, "C[0-9][0-9]", "reg.py"))):
    _pid = os.path.basename(os.path.dirname(_p))
    _spec = importlib.util.spec_from_file_location("reg_" + _pid, _p)
    _m = importlib.util.module_from_spec(_spec)
    try:
        _spec.loader.exec_module(_m)
        _m.TARGETS, _m.PROP, _m.META
    except Exception as _e:  # a fragment under construction must not break the other properties
        import sys
        print(f"warning: ignoring broken registry fragment {_p}: {_e}", file=sys.stderr)
        continue
    for _k, _v in _m.TARGETS.items():
        assert _k not in TARGETS, "duplicate target " + _k
        TARGETS[_k] = _v
    if _pid in _enabled:
        PROPS[_pid] = _m.PROP
        META[_pid] = _m.META
