// C18 — coroutine primitives: FIFO delivery, mutual exclusion, no lost wake-ups, cancel/cleanup/join.
//
// One sub-check `coroutines`: 2..6 routines on one Scheduler / one event Loop, each running a generated script over
// yield / wait / send / recv / lock / unlock / acquire / release / broadcast / condition / join / create / cancel, plus a
// main-context script (run passes until idle, resume, cancel, send, release, post, create, cleanup) that is executed from
// a loop task once per loop pass.  The scheduler is cooperative and single-threaded, so a case is a pure function of
// its op list.  Every call goes through an instrumented wrapper that updates a small reference model (FIFO of values per
// channel, holder per mutex, count per semaphore, outstanding condition set) and checks
//   safety      at every return of recv / lock / acquire,
//   quiescence  each time the loop went idle (nobody suspended on an available resource, every owed wake-up delivered),
//   cancel / cleanup / join obligations.
// See NOTES.md for the encoding and for what is deliberately left free.
#define VERIF_MAIN
#include "../common/verif.h"
#include <tbox/event/loop.h>
#include <tbox/coroutine/scheduler.h>
#include <tbox/coroutine/channel.hpp>
#include <tbox/coroutine/mutex.hpp>
#include <tbox/coroutine/semaphore.hpp>
#include <tbox/coroutine/condition.hpp>
#include <tbox/coroutine/broadcast.hpp>
#include <cstdarg>
#include <deque>
#include <memory>

using namespace verif;
using tbox::coroutine::Scheduler;
using tbox::coroutine::RoutineToken;
using tbox::coroutine::Channel;
using tbox::coroutine::Mutex;
using tbox::coroutine::Semaphore;
using tbox::coroutine::Broadcast;
typedef tbox::coroutine::Condition<int> Cond;

namespace {
enum Opc { CFG, RT, YIELD, WAIT, SEND, RECV, LOCK, UNLOCK, ACQ, REL, BWAIT, BPOST, CADD, CWAIT, CPOST, JOIN, CREATE, CANCEL, END,
           MRUN, MPASS, MRESUME, MCANCEL, MCLEANUP, MSEND, MRELEASE, MBPOST, MCPOST, MCREATE, MBREAK, LIFE, NOPS };
const char *kOpNames[NOPS] = {"cfg", "rt", "yield", "wait", "send", "recv", "lock", "unlock", "acquire", "release", "bwait", "bpost",
                              "cadd", "cwait", "cpost", "join", "create", "cancel", "end",
                              "mrun", "mpass", "mresume", "mcancel", "mcleanup", "msend", "mrelease", "mbpost", "mcpost", "mcreate", "mbreak", "life"};
const int kArity[NOPS] = {7, 3, 1, 1, 2, 2, 2, 2, 2, 2, 1, 1, 2, 1, 2, 2, 3, 2, 1,
                          0, 1, 1, 1, 0, 1, 1, 0, 1, 2, 0, 1};
const size_t kStack = 256 * 1024;
const int kMaxR = 6, kMaxObj = 2, kCondVals = 4;
const int kMaxSteps = 40;        // per routine script (longer tails of an op list are ignored)
const int kMaxMain = 60;
const int kMaxLives = 3;        // lives of the ONE Scheduler object of a case (a life ends with cleanup())
const int kMaxPasses = 4000;     // per "run until idle" (scripts are finite, so this is never reached on a working scheduler)

enum Call { NONE = 0, C_YIELD, C_WAIT, C_RECV, C_LOCK, C_ACQ, C_BWAIT, C_CWAIT, C_JOIN };
inline bool value_call(int c) { return c >= C_RECV; }            // blocking calls that report success / failure
const char *call_name(int c) { static const char *n[] = {"-", "yield", "wait", "recv", "lock", "acquire", "bcast.wait", "cond.wait", "join"}; return n[c]; }

struct Step { int code, a, b; };

struct RState {
  std::vector<Step> script;
  int mode = 0;                  // 0 created by main at start (run_now), 1 created by main suspended, 2 created only by a create step
  int style = 0;                 // 0 polls isCanceled() before every step; 1 never polls, returns when a blocking call fails; 2 / 3 never polls and
                                 // tries 1 / 2 more blocking steps after a failed one before it gives up (all legal: only a FAILED call obliges to return)
  bool created = false, started = false, ended = false, cancel_req = false, tainted = false;
  bool made_ready = false;       // created with run_now=true, or resumed before it started: it has to be run
  RoutineToken tok;
  int call = NONE, obj = -1;     // blocking call the routine is inside of
  uint64_t call_seq = 0, call_mark = 0, must_fail_seq = 0;
  bool owed_b = false, owed_c = false;
};

// what one life of the scheduler consists of (decoded from the ops between two `life` markers)
struct LifeSpec {
  std::vector<Step> script[kMaxR];
  int mode[kMaxR] = {0}, style[kMaxR] = {0};
  bool have_rt[kMaxR] = {false};
  std::vector<Step> mainscript;
  int flags = 0;                 // bit0: keep the primitives (and what they hold) of the previous life, bit1: start right after cleanup() without running the loop idle first
};

struct Ctx {
  std::vector<LifeSpec> lives;
  int life = 0;
  int hid(int r) const { return life * 8 + r; }   // identity of a mutex holder across lives
  tbox::event::Loop *loop = nullptr;
  std::unique_ptr<Scheduler> sch;
  std::unique_ptr<Channel<int>> ch[kMaxObj];
  std::unique_ptr<Mutex> mx[kMaxObj];
  std::unique_ptr<Semaphore> sem[kMaxObj];
  std::unique_ptr<Broadcast> bc;
  std::unique_ptr<Cond> cond;
  int nr = 2, nch = 1, nmx = 1, nsem = 1, logic_any = 0;
  RState R[kMaxR];
  std::vector<Step> mainscript;
  // reference model
  std::deque<int> mq[kMaxObj];   // values sent and not yet received
  int sent[kMaxObj] = {0, 0}, rcvd[kMaxObj] = {0, 0};
  int holder[kMaxObj] = {-1, -1};
  int count[kMaxObj] = {0, 0}, init[kMaxObj] = {0, 0}, rels[kMaxObj] = {0, 0}, acqs[kMaxObj] = {0, 0};
  std::set<int> mset; int cw = -1;   // outstanding conditions, registered condition waiter
  bool pre_posted = false;           // kAll: an add()ed value was posted (and struck off) while nobody was inside wait(), and no wait() has completed since
  int next_val = 0;
  uint64_t marks = 0, seq = 0;   // marks: bumped by every wrapper entry/exit, main op and pass boundary
  // statistics
  int burst_ch[kMaxObj] = {0, 0}, burst_sem[kMaxObj] = {0, 0};
  bool unlock_pending[kMaxObj] = {false, false};
  CaseInfo *info = nullptr;
  std::string err;
  bool cleaned = false, requeued = false, in_cleanup = false;
  int idle_checks = 0;
  void fail(const std::string &m) { if (err.empty()) err = m; }
};

std::string fmt(const char *f, ...) __attribute__((format(printf, 1, 2)));
std::string fmt(const char *f, ...) { char b[400]; va_list ap; va_start(ap, f); vsnprintf(b, sizeof b, f, ap); va_end(ap); return b; }

int waiters(Ctx &c, int call, int obj, int except = -1) {
  int n = 0;
  for (int i = 0; i < c.nr; ++i) if (i != except && c.R[i].started && !c.R[i].ended && c.R[i].call == call && c.R[i].obj == obj) ++n;
  return n;
}

void begin_call(Ctx &c, RState &R, int call, int obj) { R.call = call; R.obj = obj; R.call_seq = ++c.seq; R.call_mark = ++c.marks; }
// returns true when other code ran between begin_call and now, i.e. the routine had really been suspended
bool end_call(Ctx &c, RState &R) { bool blocked = c.marks != R.call_mark; R.call = NONE; R.obj = -1; ++c.marks; return blocked; }

void routine_main(Ctx *c, int r, Scheduler &sch);

// ---- operations shared by routine scripts (by = routine index) and the main context (by = -1) ----------------------
void do_create(Ctx &c, int t, bool run_now) {
  RState &T = c.R[t];
  if (T.created || c.cleaned) return;
  ++c.marks;
  Ctx *cp = &c;
  T.created = true; T.made_ready = run_now;
  T.tok = c.sch->create([cp, t](Scheduler &s) { routine_main(cp, t, s); }, run_now, "r" + std::to_string(t), kStack);
}

void do_cancel(Ctx &c, int by, int t) {
  RState &T = c.R[t];
  if (!T.created) return;
  ++c.marks;
  if (!T.ended) {
    T.cancel_req = true;
    if (T.started && t != by && T.call != NONE) {
      if (value_call(T.call)) T.must_fail_seq = T.call_seq;
      if (T.call == C_RECV || T.call == C_LOCK || T.call == C_ACQ) {
        c.info->cls("cancel_of_queued_waiter");
        bool avail = (T.call == C_RECV && !c.mq[T.obj].empty()) || (T.call == C_LOCK && c.holder[T.obj] < 0) || (T.call == C_ACQ && c.count[T.obj] > 0);
        if (avail) c.info->cls("cancel_of_waiter_already_woken");
        if (waiters(c, T.call, T.obj) >= 2) c.info->cls("cancel_of_queued_waiter_with_others_behind_or_ahead");
      }
      if (T.call == C_JOIN) c.info->cls("cancel_of_joiner");
      if (T.call == C_BWAIT || T.call == C_CWAIT) c.info->cls("cancel_of_bcast_or_cond_waiter");
    }
    if (!T.started) {
      c.info->cls("cancel_of_unstarted_routine");
      if (waiters(c, C_JOIN, t, by) >= 1) { c.info->cls("cancel_of_unstarted_join_target"); c.info->cls(by < 0 ? "cancel_of_unstarted_join_target_by_main" : "cancel_of_unstarted_join_target_by_routine"); }
    }
  }
  c.sch->cancel(T.tok);
}

void do_send(Ctx &c, int by, int k) {
  ++c.marks;
  int v = ++c.next_val;
  int w = waiters(c, C_RECV, k, by);
  if (w >= 2) { if (++c.burst_ch[k] >= 2) c.info->cls("chan_two_waiters_two_posts"); } else c.burst_ch[k] = 0;
  if (w >= 1 && !c.mq[k].empty()) c.info->cls("chan_send_on_nonempty_with_waiter");
  *c.ch[k] << v;
  c.mq[k].push_back(v); c.sent[k]++;
}

void do_release(Ctx &c, int by, int k) {
  ++c.marks;
  int w = waiters(c, C_ACQ, k, by);
  if (w >= 2) { if (++c.burst_sem[k] >= 2) c.info->cls("sem_two_waiters_two_posts"); } else c.burst_sem[k] = 0;
  c.sem[k]->release();
  c.count[k]++; c.rels[k]++;
}

void do_bpost(Ctx &c, int by) {
  ++c.marks;
  int n = 0;
  for (int i = 0; i < c.nr; ++i) if (i != by && c.R[i].started && !c.R[i].ended && c.R[i].call == C_BWAIT) { c.R[i].owed_b = true; ++n; }
  if (n >= 2) c.info->cls("bcast_post_with_two_or_more_waiters"); else if (n == 1) c.info->cls("bcast_post_with_one_waiter");
  c.bc->post();
}

void do_cpost(Ctx &c, int by, int v) {
  (void)by;
  ++c.marks;
  bool waiting = c.cw >= 0 && c.R[c.cw].call == C_CWAIT;
  if (c.mset.count(v)) {
    // the code records a post of an add()ed value whether or not a routine is inside wait() already (kAll: the value is struck off, kAny: the set is cleared)
    if (!waiting) c.info->cls(c.logic_any ? "cond_any_post_of_added_value_before_wait" : "cond_all_post_of_added_value_before_wait");
    bool sat;
    if (c.logic_any) { c.mset.clear(); sat = true; } else { c.mset.erase(v); sat = c.mset.empty(); }
    if (!waiting && !c.logic_any) c.pre_posted = true;
    if (sat) {
      if (waiting) {
        c.R[c.cw].owed_c = true; c.info->cls("cond_satisfied_with_waiter");
        if (c.pre_posted) c.info->cls("cond_all_completed_by_posts_before_and_during_wait");
      } else c.info->cls("cond_satisfied_before_anybody_waits");
      c.cw = -1; if (waiting) c.pre_posted = false;
    }
  } else c.info->cls(c.mset.empty() ? "cond_post_with_nothing_added" : "cond_post_of_value_not_added");
  c.cond->post(v);
}

// ---- routine side ------------------------------------------------------------------------------------------------
enum { ST_STOP = 0, ST_OK = 1, ST_FAIL = 2, ST_REFUSED = 3 };   // ST_FAIL: blocking call failed (cancelled); ST_REFUSED: cond.wait / join said no to a routine that is not cancelled

// A blocking call is being entered by a routine that has already been cancelled (only routines that do not poll isCanceled() get here).
// would_suspend: the call would have to suspend the routine if it were not cancelled.
void enter_cancelled(Ctx &c, bool pre, bool would_suspend) {
  if (pre && would_suspend) c.info->cls(c.in_cleanup ? "blocking_call_entered_during_cleanup" : "blocking_call_entered_after_cancellation");
}
// ... and has returned.  If it suspended the routine and something (cleanup(), a stale token, the ready queue after a self-cancel) woke it again,
// the call still "returned with failure" in the end, so that is only counted; a routine that stays suspended is caught by the idle check
// ("was cancelled but has not terminated").
void leave_cancelled(Ctx &c, int r, bool pre, bool blocked, const char *what) {
  (void)r; (void)what;
  if (pre && blocked) c.info->cls("call_entered_after_cancellation_suspended_then_woken");
}

int exec_step(Ctx &c, int r, Scheduler &sch, const Step &st) {
  RState &R = c.R[r];
  bool pre = false;   // cancelled before the call (harness-side peek; the script itself only looks at it in style 0)
  switch (st.code) {
    case YIELD: begin_call(c, R, C_YIELD, -1); sch.yield(); end_call(c, R); return ST_OK;
    case WAIT: {
      pre = sch.isCanceled(); enter_cancelled(c, pre, true);
      begin_call(c, R, C_WAIT, -1); sch.wait(); bool blocked = end_call(c, R);
      leave_cancelled(c, r, pre, blocked, "wait()");
      return ST_OK; }
    case SEND: do_send(c, r, st.a % c.nch); return ST_OK;
    case RECV: {
      int k = st.a % c.nch, out = -1;
      pre = sch.isCanceled(); enter_cancelled(c, pre, c.mq[k].empty());
      begin_call(c, R, C_RECV, k); uint64_t sq = R.call_seq;
      bool ok = (*c.ch[k] >> out);
      bool blocked = end_call(c, R);
      leave_cancelled(c, r, pre, blocked, "recv");
      c.burst_ch[k] = 0;
      if (ok) {
        if (R.must_fail_seq == sq) c.fail(fmt("routine %d was cancelled while suspended in recv(ch%d), but the call returned success", r, k));
        if (c.mq[k].empty()) c.fail(fmt("routine %d received value %d from ch%d although all %d sent values had already been received (value delivered twice / never sent)", r, out, k, c.sent[k]));
        else {
          if (out != c.mq[k].front()) c.fail(fmt("routine %d received value %d from ch%d, but the oldest undelivered value is %d (FIFO order / exactly once broken)", r, out, k, c.mq[k].front()));
          c.mq[k].pop_front();
        }
        c.rcvd[k]++;
        if (blocked) c.info->cls("recv_blocked_then_served");
        return ST_OK;
      }
      if (!sch.isCanceled()) c.info->cls("recv_failed_without_cancel");
      return ST_FAIL; }
    case LOCK: {
      int k = st.a % c.nmx;
      pre = sch.isCanceled(); enter_cancelled(c, pre, c.holder[k] >= 0 && c.holder[k] != c.hid(r));
      begin_call(c, R, C_LOCK, k); uint64_t sq = R.call_seq;
      bool ok = c.mx[k]->lock();
      bool blocked = end_call(c, R);
      leave_cancelled(c, r, pre, blocked, "lock");
      if (ok) {
        if (R.must_fail_seq == sq) c.fail(fmt("routine %d was cancelled while suspended in lock(m%d), but the call returned success", r, k));
        if (c.holder[k] >= 0 && c.holder[k] != c.hid(r)) c.fail(fmt("mutual exclusion broken: lock(m%d) succeeded for routine %d while routine %d%s holds it", k, r, c.holder[k] % 8, c.holder[k] / 8 != c.life ? " of an earlier life" : ""));
        if (c.holder[k] == c.hid(r)) c.info->cls("mutex_recursive_lock");
        if (c.unlock_pending[k] && !blocked) c.info->cls("mutex_retaken_before_woken_waiter_ran");
        if (blocked) { c.unlock_pending[k] = false; c.info->cls("lock_blocked_then_served"); }
        c.holder[k] = c.hid(r);
        return ST_OK;
      }
      if (!sch.isCanceled()) c.info->cls("lock_failed_without_cancel");
      return ST_FAIL; }
    case UNLOCK: {
      int k = st.a % c.nmx;
      ++c.marks;
      if (c.holder[k] == c.hid(r)) { c.holder[k] = -1; if (waiters(c, C_LOCK, k, r) >= 1) c.unlock_pending[k] = true; }
      else c.info->cls("unlock_by_non_holder");
      c.mx[k]->unlock();
      return ST_OK; }
    case ACQ: {
      int k = st.a % c.nsem;
      pre = sch.isCanceled(); enter_cancelled(c, pre, c.count[k] <= 0);
      begin_call(c, R, C_ACQ, k); uint64_t sq = R.call_seq;
      bool ok = c.sem[k]->acquire();
      bool blocked = end_call(c, R);
      leave_cancelled(c, r, pre, blocked, "acquire");
      c.burst_sem[k] = 0;
      if (ok) {
        if (R.must_fail_seq == sq) c.fail(fmt("routine %d was cancelled while suspended in acquire(s%d), but the call returned success", r, k));
        if (c.count[k] <= 0) c.fail(fmt("semaphore s%d granted an acquisition to routine %d beyond releases + initial count (initial %d, releases %d, earlier acquisitions %d)", k, r, c.init[k], c.rels[k], c.acqs[k]));
        else c.count[k]--;
        c.acqs[k]++;
        if (blocked) c.info->cls("acquire_blocked_then_served");
        return ST_OK;
      }
      if (!sch.isCanceled()) c.info->cls("acquire_failed_without_cancel");
      return ST_FAIL; }
    case REL: do_release(c, r, st.a % c.nsem); return ST_OK;
    case BWAIT: {
      pre = sch.isCanceled(); enter_cancelled(c, pre, true);
      begin_call(c, R, C_BWAIT, 0); uint64_t sq = R.call_seq;
      bool ok = c.bc->wait();
      bool blocked = end_call(c, R);
      leave_cancelled(c, r, pre, blocked, "bcast.wait");
      if (pre && ok) c.fail(fmt("routine %d entered bcast.wait after it had been cancelled and the call reported success", r));
      if (ok && R.owed_b) c.info->cls("bcast_wait_released_by_post");
      R.owed_b = false;
      if (ok && R.must_fail_seq == sq) c.fail(fmt("routine %d was cancelled while suspended in bcast.wait, but the call returned success", r));
      return ok ? ST_OK : ST_FAIL; }
    case BPOST: do_bpost(c, r); return ST_OK;
    case CADD: ++c.marks; c.cond->add(st.a % kCondVals); c.mset.insert(st.a % kCondVals); return ST_OK;
    case CWAIT: {
      bool accept = c.cw < 0 && !c.mset.empty();
      if (accept) c.cw = r;
      pre = sch.isCanceled(); enter_cancelled(c, pre, accept);
      begin_call(c, R, C_CWAIT, 0); uint64_t sq = R.call_seq;
      bool ok = c.cond->wait();
      bool blocked = end_call(c, R);
      leave_cancelled(c, r, pre, blocked, "cond.wait");
      if (pre && ok && accept) c.fail(fmt("routine %d entered cond.wait after it had been cancelled and the call reported success", r));
      if (ok && R.owed_c) c.info->cls("cond_wait_released_by_post");
      R.owed_c = false;
      // a refused wait() leaves the condition set alone; an accepted one that ends (satisfied elsewhere excepted) withdraws it — also
      // when the routine was cancelled already and the accepted wait() fails at once
      if (c.cw == r) { c.cw = -1; if (blocked || ok || pre) { c.mset.clear(); c.pre_posted = false; } }
      if (ok && R.must_fail_seq == sq) c.fail(fmt("routine %d was cancelled while suspended in cond.wait, but the call returned success", r));
      if (!ok && !sch.isCanceled()) { c.info->cls("cond_wait_refused"); return ST_REFUSED; }
      return ok ? ST_OK : ST_FAIL; }
    case CPOST: do_cpost(c, r, st.a % kCondVals); return ST_OK;
    case JOIN: {
      int t = st.a % c.nr; if (t == r) t = (t + 1) % c.nr;
      RState &T = c.R[t];
      bool ended_before = T.created && T.ended;
      pre = sch.isCanceled(); if (pre) c.info->cls("join_entered_after_cancellation");
      begin_call(c, R, C_JOIN, t); uint64_t sq = R.call_seq;
      bool ok = sch.join(T.created ? T.tok : RoutineToken());
      bool blocked = end_call(c, R);
      bool canceled = sch.isCanceled();
      leave_cancelled(c, r, pre, blocked, "join");
      if (ok && R.must_fail_seq == sq) c.fail(fmt("routine %d was cancelled while suspended in join(%d), but the call returned success", r, t));
      // a target that was cancelled before it ever ran may be run once (cancelled) or removed directly: the value join() then reports is left free
      bool removed_unstarted = T.created && T.cancel_req && !T.started;
      if (ok && !(T.created && T.ended) && !removed_unstarted && !R.tainted) c.fail(fmt("join(%d) returned true to routine %d although the target has not finished", t, r));
      if (!ok && !canceled && blocked && T.ended && !T.cancel_req) c.fail(fmt("join(%d) returned false to routine %d although the target finished while it waited and neither of them was cancelled", t, r));
      if (ok && blocked) c.info->cls("join_blocked_until_target_finished");
      if (blocked && T.cancel_req && !canceled) c.info->cls("join_released_by_cancel_of_target");
      if (ended_before) c.info->cls(ok ? "join_of_finished_target_true" : "join_of_finished_target_false");
      if (!ok && !canceled) { c.info->cls("join_refused"); return ST_REFUSED; }
      return ok ? ST_OK : ST_FAIL; }
    case CREATE:
      // domain restriction: a routine that has been cancelled does not create routines any more (inside cleanup() that would add routines
      // to the table cleanup() is iterating over, and they would be started un-cancelled)
      if (sch.isCanceled()) { c.info->cls("create_skipped_in_cancelled_routine"); return ST_OK; }
      if (!c.R[st.a % c.nr].created) { c.info->cls("create_from_routine"); do_create(c, st.a % c.nr, st.b & 1); }
      return ST_OK;
    case CANCEL: if (st.a % c.nr == r) c.info->cls("cancel_self"); do_cancel(c, r, st.a % c.nr); return ST_OK;
    case END: return ST_STOP;
  }
  return ST_OK;
}

void routine_main(Ctx *cp, int r, Scheduler &sch) {
  Ctx &c = *cp; RState &R = c.R[r];
  R.started = true; ++c.marks;
  if (!sch.getToken().equal(R.tok) && !R.tok.isNull()) c.fail(fmt("getToken() inside routine %d differs from the token returned by create()", r));
  int giveup = R.style >= 2 ? R.style - 1 : 0;   // failed blocking calls a non-polling routine shrugs off before it gives up
  for (size_t pc = 0; pc < R.script.size(); ++pc) {
    if (R.style == 0 && sch.isCanceled()) break;
    int res = exec_step(c, r, sch, R.script[pc]);
    if (res == ST_STOP) break;
    if (res == ST_FAIL || (res == ST_REFUSED && R.style != 0)) {   // a routine that does not poll cannot tell "refused" from "cancelled"
      if (R.style == 0 || giveup-- <= 0) break;
      c.info->cls("routine_continues_after_failed_blocking_call");
    }
  }
  if (R.cancel_req && !sch.isCanceled()) c.fail(fmt("routine %d was cancelled but isCanceled() is false inside it", r));
  R.ended = true; R.call = NONE; ++c.marks;
}

// ---- main side ---------------------------------------------------------------------------------------------------
void quiescence(Ctx &c, const char *when) {
  c.idle_checks++;
  for (int r = 0; r < c.nr; ++r) {
    RState &R = c.R[r];
    // a routine that was made ready (create with run_now / resume) is run in the next pass.  A cancel of a routine that never started may run it
    // once or remove it (left free), hence the exception
    if (R.created && R.made_ready && !R.started && !R.cancel_req)
      c.fail(fmt("%s: routine %d was made ready (created with run_now / resumed) but has never been run although the loop has nothing left to do", when, r));
    if (!R.started || R.ended) continue;
    if (R.cancel_req) { c.fail(fmt("%s: routine %d was cancelled but has not terminated (it is still inside %s)", when, r, call_name(R.call))); continue; }
    switch (R.call) {
      case C_YIELD: c.fail(fmt("%s: routine %d yielded and was never scheduled again", when, r)); break;
      case C_RECV: if (!c.mq[R.obj].empty()) c.fail(fmt("%s: lost wake-up: routine %d is suspended in recv(ch%d) although the channel holds %zu undelivered value(s)", when, r, R.obj, c.mq[R.obj].size())); break;
      case C_LOCK: if (c.holder[R.obj] < 0) c.fail(fmt("%s: lost wake-up: routine %d is suspended in lock(m%d) although nobody holds the mutex", when, r, R.obj)); break;
      case C_ACQ: if (c.count[R.obj] > 0) c.fail(fmt("%s: lost wake-up: routine %d is suspended in acquire(s%d) although the count is %d", when, r, R.obj, c.count[R.obj])); break;
      case C_BWAIT: if (R.owed_b) c.fail(fmt("%s: lost wake-up: routine %d was inside bcast.wait when post() ran and is still suspended", when, r)); break;
      case C_CWAIT: if (R.owed_c) c.fail(fmt("%s: lost wake-up: routine %d was waiting on the condition when it became satisfied and is still suspended", when, r)); break;
      case C_JOIN: {
        RState &T = c.R[R.obj];
        if (T.ended) c.fail(fmt("%s: routine %d is still suspended in join(%d) although the target has finished", when, r, R.obj));
        else if (T.created && T.cancel_req && !T.started) {
          // The target was cancelled before it ever ran and, the loop being idle, has not run since.  Whether it still exists is only
          // observable through the API: cancel() of a live suspended routine succeeds (harmless here: it is cancelled already), cancel()
          // of a removed one fails.  A removed target is gone for good, so its joiner must not be left suspended.
          if (!c.sch->cancel(T.tok)) c.fail(fmt("%s: routine %d is still suspended in join(%d) although the target was cancelled before it started and no longer exists", when, r, R.obj));
          else c.requeued = true;   // still alive and made ready again: let it run, then check again
        }
        break; }
      default: break;
    }
  }
}

void do_cleanup(Ctx &c) {
  if (c.cleaned) return;
  ++c.marks;
  int blocked = 0, ready_or_new = 0;
  for (int r = 0; r < c.nr; ++r) {
    RState &R = c.R[r];
    if (R.created && R.started && !R.ended) {
      R.cancel_req = true;
      if (value_call(R.call)) { R.must_fail_seq = R.call_seq; ++blocked; }
    }
    if (R.created && !R.started) ++ready_or_new;
  }
  if (blocked >= 1) c.info->cls("cleanup_with_blocked_routines");
  if (blocked >= 3) c.info->cls("cleanup_with_three_or_more_blocked");
  if (ready_or_new) c.info->cls("cleanup_with_unstarted_routines");
  for (int r = 0; r < c.nr; ++r) {
    RState &R = c.R[r];
    if (R.created && !R.ended && ((R.made_ready && !R.started) || (R.started && R.call == C_YIELD))) {
      c.info->cls("cleanup_with_routine_ready_but_not_run");
      if (c.life + 1 < (int)c.lives.size()) c.info->cls("cleanup_with_ready_routine_then_scheduler_reused");
    }
  }
  c.in_cleanup = true;
  c.sch->cleanup();
  c.in_cleanup = false;
  c.cleaned = true;
  for (int r = 0; r < c.nr; ++r) {
    RState &R = c.R[r];
    if (!R.created) continue;
    if (R.started && !R.ended) c.fail(fmt("cleanup() returned but started routine %d has not terminated (inside %s)", r, call_name(R.call)));
    if (c.sch->resume(R.tok)) c.fail(fmt("cleanup() returned but routine %d still exists (resume() of its token succeeded)", r));
  }
}

// Start life k of the scheduler: fresh routine table and scripts; fresh primitives and model unless the life keeps those of the previous one
// (every routine of the previous life has terminated in cleanup(), so nothing refers to the old objects any more; tokens kept inside re-used
// primitives are dead and, since Cabinet::clear() keeps its id counter, can never match a routine of the new life).
void setup_life(Ctx &c, int k) {
  const LifeSpec &L = c.lives[k];
  c.life = k;
  bool keep = k > 0 && (L.flags & 1);
  for (int r = 0; r < kMaxR; ++r) { c.R[r] = RState(); c.R[r].script = L.script[r]; c.R[r].mode = L.mode[r]; c.R[r].style = L.style[r]; }
  c.mainscript = L.mainscript;
  c.cleaned = false; c.cw = -1;
  for (int i = 0; i < kMaxObj; ++i) { c.burst_ch[i] = c.burst_sem[i] = 0; c.unlock_pending[i] = false; }
  if (keep) {
    c.info->cls("life_reuses_primitives_of_previous_life");
    for (int i = 0; i < c.nmx; ++i) if (c.holder[i] >= 0) c.info->cls("reused_mutex_still_held_by_dead_routine");
    for (int i = 0; i < c.nch; ++i) if (!c.mq[i].empty()) c.info->cls("reused_channel_holds_values");
  } else {
    for (int i = 0; i < kMaxObj; ++i) { c.mq[i].clear(); c.sent[i] = c.rcvd[i] = 0; c.holder[i] = -1; c.count[i] = c.init[i]; c.rels[i] = c.acqs[i] = 0; }
    c.mset.clear(); c.pre_posted = false;
    for (int i = 0; i < c.nch; ++i) c.ch[i].reset(new Channel<int>(*c.sch));
    for (int i = 0; i < c.nmx; ++i) c.mx[i].reset(new Mutex(*c.sch));
    for (int i = 0; i < c.nsem; ++i) c.sem[i].reset(new Semaphore(*c.sch, c.init[i]));
    c.bc.reset(new Broadcast(*c.sch));
    c.cond.reset(new Cond(*c.sch, c.logic_any ? Cond::Logic::kAny : Cond::Logic::kAll));
  }
  if (k == 1) c.info->cls("scheduler_reused_after_cleanup");
  if (k == 2) c.info->cls("scheduler_third_life");
  for (int r = 0; r < c.nr; ++r) if (c.R[r].mode != 2) do_create(c, r, c.R[r].mode == 0);
}

struct Driver {
  Ctx &c;
  size_t mpc = 0;
  bool brk = false;         // leave runLoop() after this pass and enter it again
  int phase = 0;            // 0 = executing main ops, 1 = running until idle, 2 = letting N passes go by, 3 = final idle, 4 = flush after the last cleanup, 5 = flush between two lives
  int quiet = 0, passes = 0, remaining = 0;
  uint64_t last_marks = 0;
  bool done = false;
  std::function<void()> tick;
  explicit Driver(Ctx &cc) : c(cc) {}

  void start_idle(int next_phase) { phase = next_phase; quiet = 0; passes = 0; }

  // one main op; returns true when the op needs loop passes before the next one
  bool main_op(const Step &st) {
    switch (st.code) {
      case MRUN: start_idle(1); return true;
      case MPASS: phase = 2; remaining = 1 + st.a % 3; return true;
      case MRESUME: {
        RState &T = c.R[st.a % c.nr];
        if (!T.created) return false;
        ++c.marks;
        if (T.started && !T.ended && T.call != NONE && T.call != C_WAIT && T.call != C_YIELD) { T.tainted = true; c.info->cls("main_resume_of_routine_blocked_in_primitive"); }
        else if (T.started && !T.ended && T.call == C_WAIT) c.info->cls("main_resume_of_waiting_routine");
        else if (!T.started) { T.made_ready = true; c.info->cls("main_resume_starts_routine"); if (waiters(c, C_JOIN, st.a % c.nr) >= 1) c.info->cls("main_resume_starts_join_target"); }
        c.sch->resume(T.tok);
        return false; }
      case MCANCEL: do_cancel(c, -1, st.a % c.nr); return false;
      case MCLEANUP: c.info->cls("explicit_cleanup"); do_cleanup(c); return false;
      case MSEND: c.info->cls("main_send"); do_send(c, -1, st.a % c.nch); return false;
      case MRELEASE: c.info->cls("main_release"); do_release(c, -1, st.a % c.nsem); return false;
      case MBPOST: do_bpost(c, -1); return false;
      case MCPOST: do_cpost(c, -1, st.a % kCondVals); return false;
      case MCREATE: do_create(c, st.a % c.nr, st.b & 1); return false;
      case MBREAK: {
        // leave runLoop() (Loop drains its deferred tasks on the way out) and enter it again: the loop run in pieces
        c.info->cls("loop_left_and_entered_again");
        for (int r = 0; r < c.nr; ++r) if (c.R[r].started && !c.R[r].ended && c.R[r].call == C_YIELD) c.info->cls("loop_left_while_a_routine_was_yielding");
        ++c.marks; brk = true; return true; }
    }
    return false;
  }

  void next_life() { setup_life(c, c.life + 1); mpc = 0; phase = 0; }

  void on_pass() {
    bool progress = c.marks != last_marks;
    ++c.marks;   // pass boundary
    if (phase == 1 || phase == 3 || phase == 4 || phase == 5) {
      quiet = progress ? 0 : quiet + 1;
      if (++passes > kMaxPasses) { c.fail("the loop did not become idle within the pass bound although all scripts are finite"); quiet = 2; }
      if (quiet >= 2) {
        if (phase == 1) { quiescence(c, "loop idle"); if (c.requeued) { c.requeued = false; quiet = 0; } else phase = 0; }
        else if (phase == 3) { quiescence(c, "final idle"); if (c.requeued) { c.requeued = false; quiet = 0; } else { do_cleanup(c); phase = 0; } }
        else if (phase == 5) next_life();
        else { done = true; }
      }
    } else if (phase == 2) {
      if (--remaining <= 0) phase = 0;
    }
    while (phase == 0 && !done) {
      if (c.cleaned) {
        // this life is over (explicit cleanup at an arbitrary point, or the implicit one after the final idle check)
        if (c.life + 1 >= (int)c.lives.size()) { start_idle(4); break; }
        if (c.lives[c.life + 1].flags & 2) { c.info->cls("next_life_starts_right_after_cleanup"); next_life(); continue; }
        start_idle(5); break;
      }
      if (mpc >= c.mainscript.size()) { start_idle(3); break; }
      if (main_op(c.mainscript[mpc++])) break;
    }
    last_marks = c.marks;
    if (done || brk) c.loop->exitLoop(); else c.loop->runNext(tick, "verif::tick");
  }
};

std::string run(const Scenario &s, CaseInfo &info) {
  std::unique_ptr<Ctx> cp(new Ctx);
  Ctx &c = *cp; c.info = &info;
  // ---- decode
  for (const Op &op : s.ops) {
    if (op.code == CFG) {
      c.nr = (int)op.in(0, 2, kMaxR); c.nch = (int)op.in(1, 1, kMaxObj); c.nmx = (int)op.in(2, 1, kMaxObj); c.nsem = (int)op.in(3, 1, kMaxObj);
      c.init[0] = (int)op.in(4, 0, 2); c.init[1] = (int)op.in(5, 0, 2); c.logic_any = (int)op.in(6, 0, 1);
      break;
    }
  }
  c.lives.emplace_back();
  for (const Op &op : s.ops) {
    LifeSpec &L = c.lives.back();
    if (op.code == LIFE) { if ((int)c.lives.size() < kMaxLives) { c.lives.emplace_back(); c.lives.back().flags = (int)op.in(0, 0, 3); } }
    else if (op.code == RT) { int r = (int)op.in(0, 0, c.nr - 1); if (!L.have_rt[r]) { L.have_rt[r] = true; L.mode[r] = (int)op.in(1, 0, 2); L.style[r] = (int)op.in(2, 0, 3); } }
    else if (op.code >= YIELD && op.code <= END) {
      int r = (int)op.in(0, 0, c.nr - 1);
      if ((int)L.script[r].size() < kMaxSteps) L.script[r].push_back(Step{op.code, (int)op.in(1, 0, 1023), (int)op.in(2, 0, 1023)});
    } else if (op.code >= MRUN && op.code <= MBREAK) {
      if ((int)L.mainscript.size() < kMaxMain) L.mainscript.push_back(Step{op.code, (int)op.in(0, 0, 1023), (int)op.in(1, 0, 1023)});
    }
  }
  // ---- set up real objects: ONE loop and ONE scheduler for all lives of the case
  c.loop = tbox::event::Loop::New();
  if (!c.loop) return "Loop::New() failed";
  c.sch.reset(new Scheduler(c.loop));
  setup_life(c, 0);
  // ---- drive
  {
    Driver d(c);
    d.tick = [&d] { d.on_pass(); };
    d.last_marks = c.marks;
    do {
      d.brk = false;
      c.loop->runNext(d.tick, "verif::tick");
      c.loop->runLoop(tbox::event::Loop::Mode::kForever);
    } while (!d.done);
    d.tick = nullptr;
  }
  // ---- statistics
  int started = 0; for (int r = 0; r < c.nr; ++r) if (c.R[r].started) ++started;
  info.cls_if(started >= 4, "four_or_more_routines_started");
  info.cls_if(c.rcvd[0] + c.rcvd[1] >= 3, "three_or_more_values_delivered");
  info.cls_if(c.idle_checks >= 3, "three_or_more_idle_checks");
  bool nt = false;
  for (auto p : info.classes)
    if (!strcmp(p, "chan_two_waiters_two_posts") || !strcmp(p, "sem_two_waiters_two_posts") || !strcmp(p, "mutex_retaken_before_woken_waiter_ran") || !strcmp(p, "cancel_of_queued_waiter") || !strcmp(p, "cancel_of_unstarted_join_target") || !strcmp(p, "blocking_call_entered_after_cancellation") || !strcmp(p, "cond_all_completed_by_posts_before_and_during_wait") || !strcmp(p, "cleanup_with_ready_routine_then_scheduler_reused")) nt = true;
  info.nontrivial = nt;
  // ---- tear down (cleanup() has run; nothing is left inside the scheduler)
  for (int i = 0; i < kMaxObj; ++i) { c.ch[i].reset(); c.mx[i].reset(); c.sem[i].reset(); }
  c.bc.reset(); c.cond.reset();
  c.sch.reset();
  delete c.loop; c.loop = nullptr;
  return c.err;
}

#ifndef VERIF_ENGINE_FUZZ
Scenario expand(int64_t seed) {
  uint64_t st = (uint64_t)seed * 0x9E3779B97F4A7C15ull + 0x7654321ull;
  auto next = [&st]() -> uint64_t { uint64_t z = (st += 0x9E3779B97F4A7C15ull); z = (z ^ (z >> 30)) * 0xBF58476D1CE4E5B9ull; z = (z ^ (z >> 27)) * 0x94D049BB133111EBull; return z ^ (z >> 31); };
  auto rng = [&next](int64_t lo, int64_t hi) -> int64_t { return lo + (int64_t)(next() % (uint64_t)(hi - lo + 1)); };
  auto pick = [&rng](std::initializer_list<std::pair<int, int64_t>> w) -> int64_t {
    int total = 0; for (auto &p : w) total += p.first;
    int64_t x = rng(0, total - 1);
    for (auto &p : w) { if (x < p.first) return p.second; x -= p.first; }
    return 0;
  };
  Scenario sc; auto &v = sc.ops;
  auto mk = [&v](int code, std::vector<int64_t> a) { Op o; o.code = code; o.a = std::move(a); v.push_back(std::move(o)); };
  int n = (int)pick({{2, 2}, {6, 3}, {6, 4}, {3, 5}, {2, 6}});
  int nch = (int)pick({{3, 1}, {1, 2}}), nmx = (int)pick({{3, 1}, {1, 2}}), nsem = (int)pick({{3, 1}, {1, 2}});
  mk(CFG, {n, nch, nmx, nsem, pick({{5, 0}, {2, 1}, {1, 2}}), pick({{5, 0}, {2, 1}, {1, 2}}), rng(0, 1)});
  // 1-3 lives of the one scheduler: each life has its own routines and main script and ends with cleanup() (explicit, at an arbitrary
  // point, or implicit after the final idle check); the next life then creates new routines on the SAME scheduler
  enum { T_CHAN, T_SEM, T_MUTEX, T_BCAST, T_COND, T_JOIN, T_MIX };
  int nlives = (int)pick({{5, 1}, {4, 2}, {1, 3}});
  for (int li = 0; li < nlives; ++li) {
  bool last_life = li == nlives - 1;
  if (li) mk(LIFE, {pick({{4, 0}, {2, 1}, {3, 2}, {1, 3}})});   // bit0: keep the old primitives, bit1: no idle run between cleanup() and the new life
  // theme: the primitive most routines of this life work on (so that waiters and posters meet)
  int theme = (int)pick({{5, T_CHAN}, {4, T_SEM}, {5, T_MUTEX}, {2, T_BCAST}, {5, T_COND}, {5, T_JOIN}, {4, T_MIX}});
  auto obj = [&]() -> int64_t { return pick({{5, 0}, {1, 1}}); };
  auto other = [&](int r) -> int64_t { int64_t t = rng(0, n - 2); return t >= r ? t + 1 : t; };
  auto yields = [&](int r, int64_t k) { for (int64_t i = 0; i < k; ++i) mk(YIELD, {r}); };
  // creation modes first (so that create / resume steps can aim at routines that need them)
  int modes[kMaxR] = {0}, late = 0, late_r = -1;
  for (int r = 2; r < n; ++r) { modes[r] = (int)pick({{theme == T_JOIN ? 4 : 10, 0}, {1, 1}, {1, 2}}); if (modes[r]) { ++late; late_r = r; } }
  // planned shape: routines 0..k-1 queue up on one primitive, the last routine posts back to back after they are all suspended
  bool planned = (theme == T_CHAN || theme == T_SEM) && n >= 3 && rng(0, 1);
  int pw = planned ? (int)pick({{3, 2}, {1, 3}}) : 0; if (pw > n - 1) pw = n - 1;
  int64_t po = obj();
  // planned join shape: routine 0 (and sometimes routine 1) joins a target that has not started yet — created suspended by main
  // or by the joiner itself, or created run_now and still queued behind the joiner — and the target is then cancelled by a
  // routine in the same or a later pass, cancelled or resumed by main, or left alone for ever
  bool pjoin = theme == T_JOIN && n >= 3 && rng(0, 2) != 0;
  int pj_t = n - 1, pj_create = 0, pj_rn = 0, pj_who = 0;
  if (pjoin) {
    pj_create = (int)pick({{3, 0}, {2, 1}, {2, 2}});   // 0 = main creates it suspended, 1 = the joiner creates it suspended, 2 = the joiner creates it run_now (still queued)
    modes[pj_t] = pj_create == 0 ? 1 : 2; late = 1; late_r = pj_t; pj_rn = pj_create == 2;
    pj_who = pj_create == 2 ? (int)pick({{5, 1}, {1, 4}}) : (int)pick({{4, 1}, {4, 2}, {2, 3}, {1, 4}});   // 1 = routine cancels, 2 = main cancels, 3 = main resumes, 4 = nobody
  }
  // condition waiter: add() calls and wait() are separate steps with yields (rarely another blocking op) in between, several rounds on the one
  // Condition object, so that posts can arrive before add, between add and wait, during wait and after wait returned
  auto cond_gap = [&](int r) {
    switch (pick({{3, 0}, {5, 1}, {2, 2}, {1, 3}, {1, 4}})) {
      case 1: mk(YIELD, {r}); break;
      case 2: yields(r, 2); break;
      case 3: mk(RECV, {r, 0}); break;
      case 4: mk(LOCK, {r, 0}); mk(YIELD, {r}); mk(UNLOCK, {r, 0}); break;
      default: break;
    }
  };
  int64_t pa = rng(0, 2), pb = (pa + 1 + rng(0, 1)) % 3;   // the two values of the planned shape
  auto cond_waiter = [&](int r, int rounds, bool planned_vals) {
    for (int k = 0; k < rounds; ++k) {
      int64_t a = rng(0, 2), b = (a + 1 + rng(0, 1)) % 3;
      if (planned_vals && (k == 0 || rng(0, 1))) { a = pa; b = pb; }
      int nadd = (int)pick({{2, 1}, {6, 2}, {2, 3}});
      if (rng(0, 9) == 0) cond_gap(r);
      mk(CADD, {r, a}); cond_gap(r);
      if (nadd >= 2) { mk(CADD, {r, b}); cond_gap(r); }
      if (nadd >= 3) { mk(CADD, {r, rng(0, 3)}); if (rng(0, 1)) cond_gap(r); }
      if (rng(0, 11)) mk(CWAIT, {r});   // rarely a round without wait(): what was added stays for the next round
      if (rng(0, 2) == 0) mk(YIELD, {r});
    }
  };
  bool pcond = theme == T_COND && rng(0, 2) != 0;   // planned: routine 0 waits (1-3 rounds), routine 1 posts every value at some point
  for (int r = 0; r < n; ++r) {
    int64_t style = pick({{5, 0}, {3, 1}, {3, 2}, {1, 3}});
    mk(RT, {r, modes[r], style});
    // a routine that does not poll isCanceled() often gets one more blocking step at its end: "blocks again after a blocking call failed / after
    // it was cancelled while merely ready"
    auto tail = [&] {
      if (!style || rng(0, 1)) return;
      if (rng(0, 2) == 0) mk(YIELD, {r});
      switch (pick({{3, 0}, {2, 1}, {2, 2}, {2, 3}, {1, 4}, {2, 5}})) {
        case 0: mk(RECV, {r, obj()}); break;
        case 1: mk(ACQ, {r, obj()}); break;
        case 2: mk(LOCK, {r, obj()}); break;
        case 3: mk(BWAIT, {r}); break;
        case 4: mk(CADD, {r, rng(0, 2)}); mk(CWAIT, {r}); break;
        default: mk(WAIT, {r}); break;
      }
    };
    if (pcond && r == 0) { cond_waiter(r, (int)pick({{3, 1}, {3, 2}, {1, 3}}), true); tail(); continue; }
    if (pcond && r == 1) {
      yields(r, pick({{3, 0}, {3, 1}, {1, 2}}));
      int64_t cnt = pick({{2, 2}, {4, 3}, {3, 5}, {1, 8}}), first = rng(0, 2);
      bool ab = rng(0, 2) != 0;   // mostly: first the two planned values (in either order), then the cycle
      if (ab && rng(0, 1)) std::swap(pa, pb);
      for (int64_t i = 0; i < cnt; ++i) {
        mk(CPOST, {r, ab && i == 0 ? pa : ab && i == 1 ? pb : rng(0, 3) ? (first + i) % 3 : rng(0, 3)});   // later posts cycle through the values so that every condition gets posted sooner or later
        yields(r, pick({{2, 0}, {4, 1}, {2, 2}}));
        if (rng(0, 11) == 0) mk(SEND, {r, 0});
      }
      continue;
    }
    if (pjoin && r == 0) {
      if (pj_create) mk(CREATE, {r, pj_t, pj_rn});
      mk(JOIN, {r, pj_t});
      if (rng(0, 2) == 0) mk(YIELD, {r});
      tail();
      continue;
    }
    if (pjoin && r == 1 && (pj_who == 1 || rng(0, 3) == 0)) {
      if (pj_who == 1) { yields(r, pj_rn ? 0 : pick({{3, 0}, {3, 1}, {1, 2}})); mk(CANCEL, {r, pj_t}); if (rng(0, 3) == 0) mk(JOIN, {r, 0}); }
      else mk(JOIN, {r, pj_t});   // second joiner: refused
      continue;
    }
    if (planned && r < pw) {
      mk(theme == T_CHAN ? RECV : ACQ, {r, po});
      if (rng(0, 3) == 0) mk(theme == T_CHAN ? RECV : ACQ, {r, po});
      tail();
      continue;
    }
    if (planned && r == n - 1) {
      yields(r, rng(1, 2));
      int64_t cnt = pick({{5, 2}, {2, 3}, {1, 4}});
      int64_t cancel_at = rng(0, 3) == 0 ? rng(0, cnt) : -1;   // sometimes cancel a queued waiter before / between / after the posts
      for (int64_t i = 0; i <= cnt; ++i) {
        if (i == cancel_at) mk(CANCEL, {r, rng(0, pw - 1)});
        if (i < cnt) mk(theme == T_CHAN ? SEND : REL, {r, po});
      }
      continue;
    }
    int nroles = (int)pick({{3, 1}, {2, 2}, {1, 3}});
    for (int k = 0; k < nroles; ++k) {
      int th = theme == T_MIX || rng(0, 5) == 0 ? (int)rng(T_CHAN, T_JOIN) : theme;
      switch (th) {
        case T_CHAN: {
          int64_t o = planned ? po : obj();
          switch (pick({{5, 0}, {4, 1}, {1, 2}})) {
            case 0: { int64_t cnt = pick({{5, 1}, {3, 2}, {1, 3}}); for (int64_t i = 0; i < cnt; ++i) mk(RECV, {r, o}); break; }          // waiter
            case 1: { yields(r, pick({{1, 0}, {4, 1}, {3, 2}, {1, 3}})); int64_t cnt = pick({{2, 1}, {5, 2}, {2, 3}}); for (int64_t i = 0; i < cnt; ++i) mk(SEND, {r, o}); break; }   // back-to-back posts
            default: yields(r, rng(1, 2)); mk(SEND, {r, o}); mk(RECV, {r, o}); break;                                                       // barging: takes its own value back
          }
          break; }
        case T_SEM: {
          int64_t o = planned ? po : obj();
          switch (pick({{5, 0}, {4, 1}, {1, 2}})) {
            case 0: { int64_t cnt = pick({{5, 1}, {3, 2}, {1, 3}}); for (int64_t i = 0; i < cnt; ++i) mk(ACQ, {r, o}); break; }
            case 1: { yields(r, pick({{1, 0}, {4, 1}, {3, 2}, {1, 3}})); int64_t cnt = pick({{2, 1}, {5, 2}, {2, 3}}); for (int64_t i = 0; i < cnt; ++i) mk(REL, {r, o}); break; }
            default: yields(r, rng(1, 2)); mk(REL, {r, o}); mk(ACQ, {r, o}); break;
          }
          break; }
        case T_MUTEX: {
          int64_t o = obj();
          yields(r, pick({{3, 0}, {2, 1}, {1, 2}}));
          if (rng(0, 11) == 0) { mk(UNLOCK, {r, o}); break; }   // unlock by a routine that does not hold the mutex
          mk(LOCK, {r, o}); yields(r, pick({{1, 0}, {4, 1}, {2, 2}})); mk(UNLOCK, {r, o});
          if (rng(0, 1)) { mk(LOCK, {r, o}); yields(r, pick({{1, 0}, {3, 1}})); if (rng(0, 5)) mk(UNLOCK, {r, o}); }   // unlock, then immediate re-lock by the same routine
          break; }
        case T_BCAST:
          if (rng(0, 2)) { mk(BWAIT, {r}); if (rng(0, 3) == 0) mk(BWAIT, {r}); }
          else { yields(r, rng(1, 3)); mk(BPOST, {r}); if (rng(0, 2) == 0) { yields(r, rng(0, 2)); mk(BPOST, {r}); } }
          break;
        case T_COND:
          if (rng(0, 2) == 0) cond_waiter(r, (int)pick({{3, 1}, {2, 2}, {1, 3}}), false);
          else { yields(r, rng(0, 2)); int64_t cnt = rng(1, 4); for (int64_t i = 0; i < cnt; ++i) { mk(CPOST, {r, rng(0, 2)}); if (rng(0, 1)) yields(r, rng(1, 2)); } }
          break;
        default:   // T_JOIN: join / create / cancel / plain wait
          switch (pick({{4, 0}, {late ? 4 : 1, 1}, {4, 2}, {3, 3}})) {
            case 0: yields(r, rng(0, 1)); mk(JOIN, {r, other(r)}); break;
            case 1: { int64_t t = late && rng(0, 3) ? late_r : other(r); mk(CREATE, {r, t, pick({{4, 1}, {1, 0}})}); if (rng(0, 1)) mk(JOIN, {r, t}); break; }
            case 2: yields(r, rng(0, 3)); mk(CANCEL, {r, rng(0, 7) ? other(r) : r}); break;
            default: mk(WAIT, {r}); break;
          }
          break;
      }
      // glue between roles
      switch (pick({{10, 0}, {6, 1}, {2, 2}, {2, 3}, {1, 4}})) {
        case 1: mk(YIELD, {r}); break;
        case 2: yields(r, rng(0, 2)); mk(CANCEL, {r, other(r)}); break;
        case 3: mk(END, {r}); break;
        case 4: mk(WAIT, {r}); break;
        default: break;
      }
    }
    tail();
  }
  // main-context script
  auto mrun = [&] { mk(MRUN, {}); };
  if (pjoin && (pj_who == 2 || pj_who == 3)) {
    if (rng(0, 3)) mrun(); else mk(MPASS, {rng(0, 2)});
    mk(pj_who == 2 ? MCANCEL : MRESUME, {pj_t});
    if (rng(0, 3)) mrun();
  }
  switch (pick({{5, 0}, {2, 1}, {1, 2}, {1, 3}})) { case 0: mrun(); break; case 1: mk(MPASS, {rng(0, 2)}); break; case 3: mk(MPASS, {rng(0, 1)}); mk(MBREAK, {}); break; default: break; }
  int na = (int)pick({{2, 0}, {3, 1}, {3, 2}, {2, 4}, {1, 7}});
  for (int i = 0; i < na; ++i) {
    switch (pick({{3, 0}, {2, 1}, {4, 2}, {5, 3}, {3, 4}, {3, 5}, {1, 6}, {2, 7}, {late ? 3 : 0, 8}, {1, 9}})) {
      case 9: if (rng(0, 3)) mk(MPASS, {rng(0, 2)}); mk(MBREAK, {}); continue;   // leave the loop (possibly while routines are yielding) and run it again
      case 0: mrun(); continue;
      case 1: mk(MPASS, {rng(0, 2)}); continue;
      case 2: mk(MRESUME, {rng(0, n - 1)}); break;
      case 3: mk(MCANCEL, {rng(0, n - 1)}); break;
      case 4: { int64_t o = obj(); mk(MSEND, {o}); if (rng(0, 1)) mk(MSEND, {o}); break; }
      case 5: { int64_t o = obj(); mk(MRELEASE, {o}); if (rng(0, 1)) mk(MRELEASE, {o}); break; }
      case 6: mk(MBPOST, {}); break;
      case 7: mk(MCPOST, {rng(0, 2)}); break;
      default: mk(MCREATE, {rng(0, n - 1), rng(0, 1)}); break;
    }
    switch (pick({{3, 0}, {1, 1}, {2, 2}})) { case 0: mrun(); break; case 1: mk(MPASS, {rng(0, 2)}); break; default: break; }
  }
  if (last_life) { if (rng(0, 5) == 0) mk(MCLEANUP, {}); }   // cleanup without a preceding idle check (routines may be ready)
  else switch (pick({{4, 0}, {2, 1}, {3, 2}, {3, 3}})) {       // a life that is followed by another one mostly ends with an explicit cleanup at an arbitrary point
    case 0: mk(MCLEANUP, {}); break;
    case 1: mk(MPASS, {rng(0, 2)}); mk(MCLEANUP, {}); break;
    case 2:   // something is made ready (a routine resumed / created, a waiter woken) and cleanup() comes before it runs
      switch (pick({{2, 0}, {2, 1}, {1, 2}, {1, 3}})) { case 0: mk(MRESUME, {rng(0, n - 1)}); break; case 1: mk(MCREATE, {rng(0, n - 1), 1}); break; case 2: mk(MSEND, {0}); break; default: mk(MRELEASE, {0}); break; }
      mk(MCLEANUP, {}); break;
    default: break;                                          // implicit: final idle check, then cleanup()
  }
  }
  return sc;
}
#endif

SubDef def = [] {
  SubDef d; d.name = "coroutines";
  d.op_names.assign(kOpNames, kOpNames + NOPS);
  d.op_arity.assign(kArity, kArity + NOPS);
  d.nt_rule = "two or more routines suspended on one channel / semaphore while two posts were issued before any of them ran, or a mutex re-taken between the unlock that woke a waiter and the waiter running, or a cancel of a routine queued in recv / lock / acquire, or a cancel of a never-started routine while another routine is suspended in join() on it, or a blocking call that would have to suspend entered by a routine that had already been cancelled, or a kAll condition completed by one post before the waiter reached wait() and the rest while it waited, or cleanup() with a routine ready but not yet run followed by another life of the same scheduler";
  d.run = run;
#ifndef VERIF_ENGINE_FUZZ
  d.gen = [] {
    auto base = rc::gen::map(rc::gen::noShrink(range(0, (int64_t)1 << 62)), expand);
    return rc::gen::shrink(base, [](const Scenario &s) {
      std::vector<Scenario> out;
      size_t n = s.ops.size();
      for (size_t chunk = n / 2; chunk >= 1; chunk /= 2) {
        for (size_t at = 0; at + chunk <= n; at += chunk) {
          Scenario t; t.ops.reserve(n - chunk);
          for (size_t i = 0; i < n; ++i) if (i < at || i >= at + chunk) t.ops.push_back(s.ops[i]);
          out.push_back(std::move(t));
        }
        if (chunk == 1) break;
      }
      for (size_t i = 0; i < n; ++i)
        for (size_t k = 0; k < s.ops[i].a.size(); ++k)
          if (s.ops[i].a[k] != 0) { Scenario t = s; t.ops[i].a[k] = 0; out.push_back(std::move(t)); }
      return rc::seq::fromContainer(std::move(out));
    });
  };
#endif
  return d;
}();
VERIF_REGISTER(&def);
}  // namespace
