TARGETS = {
    # plain = g++ without sanitizers: ucontext (swapcontext on malloc'ed stacks) under ASan gives documented false positives
    "c18_coroutines_rc": {"src": "C18/coroutines.cpp", "variant": "plain", "engine": "rc",
                          "libs": ["coroutine", "event", "util", "base"]},
    # reduced ASan/UBSan smoke run of the same harness (memory safety of the scheduler itself)
    "c18_coroutines_asan": {"src": "C18/coroutines.cpp", "variant": "asan", "engine": "rc",
                            "libs": ["coroutine", "event", "util", "base"]},
}
PROP = {
    "subchecks": [
        # no sanitizer: a case costs 60-200 us, so the budgets are in the hundreds of thousands
        {"target": "c18_coroutines_rc", "sub": "coroutines",
         "quick": {"cases": 150000, "max_size": 100, "workers": 8, "case_alarm": 30},
         "thorough": {"cases": 3000000, "max_size": 100, "workers": 12, "case_alarm": 60}},
        # ASan/UBSan smoke run (stack-use-after-return detection off: swapcontext on malloc'ed stacks is not annotated)
        {"target": "c18_coroutines_asan", "sub": "coroutines",
         "env": {"ASAN_OPTIONS": "detect_leaks=1:detect_stack_use_after_return=0:allocator_may_return_null=1:handle_abort=0:symbolize=1:malloc_context_size=4:quarantine_size_mb=48"},
         "quick": {"cases": 25000, "max_size": 100, "workers": 2, "case_alarm": 60},
         "thorough": {"cases": 400000, "max_size": 100, "workers": 4, "case_alarm": 120}},
    ],
    "assumptions": [
        "routine scripts obey cancellation as the API requires of users: isCanceled() is checked before every step and a failed recv/lock/acquire/bcast.wait makes the entry function return",
        "lock/unlock/recv/acquire/waits/join are only called from routines; send/release/post/resume/cancel/create/cleanup also from the main context (as the unit tests do)",
    ],
}
META = {
    "design_ref": "DESIGN.md section 4, C18",
    "technique": "model-based stateful PBT (rapidcheck) of generated routine scripts and main-context scripts on one cooperative Scheduler, with instrumented wrappers, a reference model of every primitive and a quiescence check each time the loop goes idle; g++ build without sanitizers (ucontext)",
    "level_text": "Exploration only: no counter-example among N generated script sets.",
    "level_note": "",
}
