TARGETS = {
    # plain = g++ without sanitizers: ucontext (swapcontext on malloc'ed stacks) under ASan gives documented false positives
    "c18_coroutines_rc": {"src": "C18/coroutines.cpp", "variant": "plain", "engine": "rc",
                          "libs": ["coroutine", "event", "util", "base"]},
    # reduced ASan/UBSan smoke run of the same harness (memory safety of the scheduler itself)
    "c18_coroutines_asan": {"src": "C18/coroutines.cpp", "variant": "asan", "engine": "rc",
                            "libs": ["coroutine", "event", "util", "base"]},
}
PROP = {
    "subchecks": [
        # no sanitizer: a case costs 60-200 us, so the budgets are in the hundreds of thousands
        {"target": "c18_coroutines_rc", "sub": "coroutines",
         "quick": {"cases": 200000, "max_size": 100, "workers": 8, "case_alarm": 30},
         "thorough": {"cases": 3000000, "max_size": 100, "workers": 12, "case_alarm": 60}},
        # ASan/UBSan smoke run (stack-use-after-return detection off: swapcontext on malloc'ed stacks is not annotated)
        {"target": "c18_coroutines_asan", "sub": "coroutines",
         "env": {"ASAN_OPTIONS": "detect_leaks=1:detect_stack_use_after_return=0:allocator_may_return_null=1:handle_abort=0:symbolize=1:malloc_context_size=4:quarantine_size_mb=48"},
         "quick": {"cases": 15000, "max_size": 100, "workers": 2, "case_alarm": 60},
         "thorough": {"cases": 400000, "max_size": 100, "workers": 4, "case_alarm": 120}},
    ],
    "assumptions": [
        "routine scripts obey cancellation as the API requires of users: a routine either polls isCanceled() before every step, or never polls and returns when a blocking call fails (at the latest after the third failed blocking call); a routine that is already cancelled does not create routines",
        "lock/unlock/recv/acquire/waits/join are only called from routines; send/release/post/resume/cancel/create/cleanup also from the main context (as the unit tests do)",
    ],
}
META = {
    "design_ref": "DESIGN.md section 4, C18",
    "technique": "model-based stateful PBT (rapidcheck) of generated routine scripts plus a main-context script on one cooperative Scheduler bound to one event Loop: instrumented wrappers around every call, a reference model of each primitive (FIFO of values, mutex holder, semaphore count, outstanding condition set), and a quiescence check each time the loop goes idle; g++ build without sanitizers (ucontext), plus a reduced ASan/UBSan smoke run of the same harness",
    "level_text": "Generated sets of 2-6 routine scripts over yield / wait / send / recv / lock / unlock / acquire / release / broadcast wait+post / condition add+wait+post / join / create / cancel on 1-2 channels, mutexes and semaphores (initial count 0-2), interleaved with a generated main-context script (run until idle, let 1-3 passes go by, resume, cancel, send, release, post, create, cleanup) that is executed between loop passes. Checked at every return: a received value is the oldest undelivered value of its channel, a successful lock finds the mutex free, a successful acquire finds a positive count, a call pending at cancel/cleanup fails, join answers true only after the target finished. Checked each time the loop went idle: nobody is suspended on a non-empty channel, a free mutex, a positive semaphore, a posted broadcast, a satisfied condition or a finished join target; every cancelled routine has terminated. After cleanup(): every started routine has returned and no token is alive. Exploration only: no counter-example among N generated script sets.",
    "level_note": "Trusted: the reference model and wrappers in harness/C18/coroutines.cpp, the idle detection (two loop passes without any logged event), routine scripts that obey cancellation as the API requires. Not asserted (statement silent): order among waiters, spurious or early returns of wait-like calls, results of refused cond.wait/join and of join on an already finished routine, whether cleanup() starts never-started routines. A routine that the main context resumed while it was blocked in a primitive is exempt from 'join true implies target finished'. Scripts are loop-free (at most 40 steps per routine, 60 main ops); one scheduler and one loop per case, used for 1-3 lives separated by cleanup(). The search build has no sanitizer (ucontext); memory safety is only covered by the reduced ASan run with stack-use-after-return detection off.",
}
