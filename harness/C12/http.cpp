// C12 — HTTP server: total, segmentation-independent parsing; in-order responses.
//
// Three sub-checks (DESIGN.md section 4, C12):
//   parser_total   any byte stream, any segmentation, fed through a copy of the server's receive path
//                  (append segment, parse(buffer), drop the consumed bytes, take the request when finished, stop on
//                  failure).  Oracle: nothing escapes parse(), no sanitizer report (every call gets an exact-size heap
//                  copy of the buffer), consumed <= given, no stage advanced without consuming, the loop terminates.
//                  Engines: libFuzzer (custom byte decoder: stream + trailing cut plan) and rapidcheck (well-formed
//                  pipelines from the grammar below, damaged by realistic mutations, randomly segmented).
//   segmentation   pipelines of 1-6 well-formed requests from a grammar + a segmentation (down to single bytes, biased to
//                  the method, CRLFs, header names, the blank line).  Oracle: the parsed sequence (method, decoded url
//                  parts, version, header map, body) equals the generated model for the segmented AND the unsegmented feed.
//   pipeline       a real http::server::Server on a unix-domain socket, a raw non-blocking client in the same thread,
//                  driven pass by pass through vloop.  Handlers complete inside the callback, k passes later or inside
//                  the hand-over of the next request, in any order; response bodies up to 200 KiB; paced client reads.
//                  Oracle: see run_pipeline().
//
// Scenario encoding (every op list is valid; all integers are reduced into their ranges):
//   cfg  segmode chunk stages-1 rd_mode rd_chunk rd_passes rd_pause
//   req  method kind tshape tseed nhdr hseed blen bkind bseed [plan rsize rank chain delays]   (the [..] part only in `pipeline`)
//   cut  kind r off gap
//   tail kind k flags nbody      an incomplete last request: valid head, extreme / unsatisfiable Content-Length (build_tail)
//   life kind early flags gap    (`pipeline`) the ops that follow belong to the next life of the same Server object:
//                                kind 0 = cleanup() + initialize() + use() + start(), 1 = stop() + start()
//   seg  b0 b1 b2 ...                                                               (only in `parser_total`)
#define VERIF_MAIN
#include "../common/verif.h"
#include "../common/vloop.h"
#include <tbox/http/server/request_parser.h>
#include <tbox/http/server/server.h>
#include <tbox/network/sockaddr.h>
#include <tbox/event/loop.h>
#include <sys/socket.h>
#include <sys/un.h>
#include <sys/ioctl.h>
#include <sys/resource.h>
#include <algorithm>
#include <memory>

using namespace verif;
using tbox::http::HttpVer;
using tbox::http::Method;
using tbox::http::Request;
using tbox::http::server::RequestParser;

namespace {

// ---------------------------------------------------------------------------------------------- small helpers
struct Rng {
  uint64_t st;
  explicit Rng(uint64_t seed) : st(seed * 0x9E3779B97F4A7C15ull + 0x1234567ull) {}
  uint64_t next() { uint64_t z = (st += 0x9E3779B97F4A7C15ull); z = (z ^ (z >> 30)) * 0xBF58476D1CE4E5B9ull; z = (z ^ (z >> 27)) * 0x94D049BB133111EBull; return z ^ (z >> 31); }
  int64_t in(int64_t lo, int64_t hi) { return hi <= lo ? lo : lo + (int64_t)(next() % (uint64_t)(hi - lo + 1)); }
  bool chance(int pct) { return in(0, 99) < pct; }
  int64_t pick(std::initializer_list<std::pair<int, int64_t>> w) {
    int total = 0; for (auto &p : w) total += p.first;
    int64_t x = in(0, total - 1);
    for (auto &p : w) { if (x < p.first) return p.second; x -= p.first; }
    return 0;
  }
};

std::string printable(const std::string &s, size_t max = 60) {
  std::string o; char b[8];
  for (size_t i = 0; i < s.size() && i < max; ++i) {
    unsigned char c = (unsigned char)s[i];
    if (c == '\r') o += "\\r"; else if (c == '\n') o += "\\n";
    else if (c < 0x20 || c >= 0x7f || c == '\\') { snprintf(b, sizeof b, "\\x%02x", c); o += b; }
    else o += (char)c;
  }
  if (s.size() > max) o += "...(" + std::to_string(s.size()) + " bytes)";
  return o;
}

enum { CFG, REQ, CUT, SEG, TAIL, LIFE };
const char *kMethods[7] = {"GET", "HEAD", "PUT", "POST", "TRACE", "OPTIONS", "DELETE"};
const Method kMethodEnum[7] = {Method::kGet, Method::kHead, Method::kPut, Method::kPost, Method::kTrace, Method::kOptions, Method::kDelete};
const int kMaxReq = 6, kMaxCuts = 48;

// ---------------------------------------------------------------------------------------------- request grammar / model
// kind: 0 = HTTP/1.1, no Connection header      1 = HTTP/1.1 + "Connection: keep-alive"   2 = HTTP/1.0 + "Connection: keep-alive"
//       3 = HTTP/1.1 + "Connection: close"      4 = HTTP/1.0, no Connection header        5 = HTTP/1.0 + "Connection: close"
//       6 = HTTP/1.0 + a Connection header that names neither keep-alive nor close (TE, Upgrade ...): an HTTP/1.0 request
//           persists only with keep-alive (RFC 7230 6.3), so it is a closing request exactly like kind 4
//       7 = HTTP/1.1 + such a Connection header: persistent exactly like kind 0
const int kMaxKind = 7;
inline bool kind_closing(int64_t k) { return k >= 3 && k <= 6; }
const char *kOtherConnValues[4] = {"TE", "Upgrade", "upgrade, TE", "x-hop"};
struct MReq {
  int method = 0, kind = 0;
  bool v11 = true, closing = false;
  std::string path, frag;
  std::map<std::string, std::string> params, query, headers;
  std::string body, wire;
  // anchors (offsets into wire)
  size_t mlen = 0, body_off = 0;
  std::vector<size_t> crlf;                          // offset of the CR of every CRLF of the head (start line, headers, blank line)
  std::vector<std::pair<size_t, size_t>> hname;      // (offset, length) of every header name
  bool ows = false, escapes = false;
};

const char kSafeRaw[] = "-._~!$'()*,:@";
bool is_safe_raw(unsigned char c) { return isalnum(c) || (c && strchr(kSafeRaw, c)); }

std::string decoded_string(Rng &g, int minlen, int maxlen, int density) {
  static const char plain[] = "abcdefghijklmnopqrstuvwxyz0123456789";
  static const char nasty[] = " %;?#=&/+\r\n\t\"<>";
  int n = (int)g.in(minlen, maxlen);
  std::string s;
  for (int i = 0; i < n; ++i) {
    int cls = density == 0 ? (g.chance(85) ? 0 : 1) : (int)g.pick({{14, 0}, {2, 1}, {3, 2}, {1, 3}});
    switch (cls) {
      case 0: s += plain[g.in(0, (int)sizeof plain - 2)]; break;
      case 1: s += kSafeRaw[g.in(0, (int)sizeof kSafeRaw - 2)]; break;
      case 2: s += nasty[g.in(0, (int)sizeof nasty - 2)]; break;
      default: s += (char)(g.chance(15) ? 0 : g.in(0x80, 0xff)); break;
    }
  }
  return s;
}

std::string pct_encode(Rng &g, const std::string &s, int density, bool &used) {
  std::string o;
  for (unsigned char c : s) {
    bool esc = !is_safe_raw(c) || density == 3 || (density == 2 && g.chance(50)) || (density == 1 && g.chance(10));
    if (!esc) { o += (char)c; continue; }
    const char *hex = g.chance(50) ? "0123456789ABCDEF" : "0123456789abcdef";
    o += '%'; o += hex[c >> 4]; o += hex[c & 15]; used = true;
  }
  return o;
}

std::string gen_body(Rng &g, int kind, size_t n) {
  std::string b;
  switch (kind) {
    case 0: b.resize(n); for (auto &c : b) c = (char)g.in(0, 255); break;
    case 1: b.resize(n); for (auto &c : b) c = (char)g.in(0x20, 0x7e); break;
    case 2: while (b.size() < n) { if (g.chance(40)) b += "\r\n\r\n"; else if (g.chance(30)) b += "\r\n"; else b += (char)g.in(0x20, 0x7e); } break;
    case 3: while (b.size() < n) {
        b += kMethods[g.in(0, 6)]; b += " /"; b += decoded_string(g, 0, 5, 0); b += g.chance(50) ? " HTTP/1.1\r\n" : " HTTP/1.0\r\n";
        if (g.chance(70)) b += "Content-Length: " + std::to_string(g.in(0, 30)) + "\r\n";
        if (g.chance(30)) b += "Connection: close\r\n";
        b += "\r\n"; if (g.chance(50)) b += decoded_string(g, 0, 8, 0);
      } break;
    case 4: while (b.size() < n) b += "\r\n"; break;
    default: b.assign(n, g.chance(50) ? '\0' : '\xff'); break;
  }
  b.resize(n);
  if (kind == 4 && n > 0 && g.chance(50)) b[0] = '\n';   // starts in the middle of a CRLF
  return b;
}

// Builds request number `index` of a pipeline from the first 9 arguments of a req op.  with_id adds "X-Req: <index>".
MReq build_request(const Op &op, int index, bool with_id) {
  MReq m;
  m.method = (int)op.in(0, 0, 6);
  m.kind = (int)op.in(1, 0, kMaxKind);
  m.v11 = (m.kind == 0 || m.kind == 1 || m.kind == 3 || m.kind == 7);
  m.closing = kind_closing(m.kind);
  int tshape = (int)op.in(2, 0, 127);
  Rng tg((uint64_t)op.in(3, 0, INT64_MAX) * 31 + 7);
  int nhdr = (int)op.in(4, 0, 6);
  Rng hg((uint64_t)op.in(5, 0, INT64_MAX) * 31 + 11);
  size_t blen = (size_t)op.in(6, 0, 3000);
  int bkind = (int)op.in(7, 0, 5);
  Rng bg((uint64_t)op.in(8, 0, INT64_MAX) * 31 + 13);

  // ---- target
  bool has_params = tshape & 1, has_query = tshape & 2, has_frag = tshape & 4;
  int nseg = (tshape >> 3) & 3, density = (tshape >> 5) & 3;
  std::string target = "/";
  m.path = "/";
  for (int i = 0; i < nseg; ++i) {
    std::string seg = decoded_string(tg, i + 1 == nseg ? 0 : 1, 7, density);
    if (i) { m.path += '/'; target += '/'; }
    m.path += seg; target += pct_encode(tg, seg, density, m.escapes);
  }
  auto pairs = [&](std::map<std::string, std::string> &dst, char lead, char sep, int maxn) {
    int n = (int)tg.in(1, maxn); bool first = true;
    for (int i = 0; i < n; ++i) {
      std::string k = decoded_string(tg, 1, 5, density), v = decoded_string(tg, 0, 6, density);
      if (dst.count(k)) continue;
      dst[k] = v;
      target += first ? lead : sep; first = false;
      target += pct_encode(tg, k, density, m.escapes); target += '='; target += pct_encode(tg, v, density, m.escapes);
    }
  };
  if (has_params) pairs(m.params, ';', ';', 2);
  if (has_query) pairs(m.query, '?', '&', 3);
  if (has_frag) { m.frag = decoded_string(tg, 0, 6, density); target += '#'; target += pct_encode(tg, m.frag, density, m.escapes); }

  // ---- headers: (name, value as sent incl. optional whitespace, expected value)
  struct H { std::string name, sent, value; };
  std::vector<H> hs;
  auto lower = [](std::string s) { for (auto &c : s) c = (char)tolower((unsigned char)c); return s; };
  std::set<std::string> used = {"content-length", "connection", "x-req"};
  auto ows_wrap = [&](const std::string &v) {
    int lead = (int)hg.pick({{12, 1}, {2, 0}, {1, 2}, {1, 3}}), trail = (int)hg.pick({{14, 0}, {1, 1}, {1, 2}});
    if (lead != 1 || trail) m.ows = true;
    return std::string((size_t)lead, ' ') + v + std::string((size_t)trail, ' ');
  };
  for (int i = 0; i < nhdr; ++i) {
    static const char first[] = "ABCDEFGHIJKLMNOPQRSTUVWXYZabcdefghijklmnopqrstuvwxyz";
    static const char rest[] = "ABCDEFGHIJKLMNOPQRSTUVWXYZabcdefghijklmnopqrstuvwxyz0123456789-";
    std::string name(1, first[hg.in(0, (int)sizeof first - 2)]);
    int nl = (int)hg.in(0, 11);
    for (int k = 0; k < nl; ++k) name += rest[hg.in(0, (int)sizeof rest - 2)];
    if (!used.insert(lower(name)).second) continue;
    int vl = (int)hg.in(1, 24);
    std::string v;
    for (int k = 0; k < vl; ++k) {
      bool edge = (k == 0 || k + 1 == vl);
      int64_t c = hg.pick({{20, -1}, {3, ':'}, {edge ? 0 : 4, ' '}, {1, -2}});
      if (c == -1) c = hg.in(0x21, 0x7e); else if (c == -2) c = hg.in(0x80, 0xff);
      v += (char)c;
    }
    hs.push_back({name, ows_wrap(v), v});
  }
  m.body = gen_body(bg, bkind, blen);
  auto insert_at_random = [&](H h) { hs.insert(hs.begin() + hg.in(0, (int)hs.size()), std::move(h)); };
  { std::string v = std::to_string(blen); insert_at_random({"Content-Length", ows_wrap(v), v}); }
  if (m.kind == 1 || m.kind == 2) insert_at_random({"Connection", " keep-alive", "keep-alive"});
  if (m.kind == 3 || m.kind == 5) insert_at_random({"Connection", " close", "close"});
  if (m.kind == 6 || m.kind == 7) { std::string v = kOtherConnValues[hg.in(0, 3)]; insert_at_random({"Connection", " " + v, v}); }
  if (with_id) { std::string v = std::to_string(index); insert_at_random({"X-Req", " " + v, v}); }

  // ---- wire + anchors
  std::string &w = m.wire;
  w = kMethods[m.method]; m.mlen = w.size();
  w += ' '; w += target; w += ' '; w += m.v11 ? "HTTP/1.1" : "HTTP/1.0";
  m.crlf.push_back(w.size()); w += "\r\n";
  for (auto &h : hs) {
    m.hname.push_back({w.size(), h.name.size()});
    w += h.name; w += ':'; w += h.sent;
    m.crlf.push_back(w.size()); w += "\r\n";
    m.headers[h.name] = h.value;
  }
  m.crlf.push_back(w.size()); w += "\r\n";
  m.body_off = w.size();
  w += m.body;
  return m;
}

std::string map_diff(const char *what, const std::map<std::string, std::string> &got, const std::map<std::string, std::string> &exp) {
  if (got == exp) return "";
  for (auto &kv : exp) {
    auto it = got.find(kv.first);
    if (it == got.end()) return std::string(what) + " '" + printable(kv.first) + "' missing";
    if (it->second != kv.second) return std::string(what) + " '" + printable(kv.first) + "' is '" + printable(it->second) + "', sent '" + printable(kv.second) + "'";
  }
  for (auto &kv : got) if (!exp.count(kv.first)) return std::string("unexpected ") + what + " '" + printable(kv.first) + "'='" + printable(kv.second) + "'";
  return std::string(what) + " maps differ";
}

// "" when the parsed request equals the model
std::string request_diff(const Request &r, const MReq &m) {
  if (r.method != kMethodEnum[m.method]) return std::string("method is ") + tbox::http::MethodToString(r.method) + ", sent " + kMethods[m.method];
  if (r.http_ver != (m.v11 ? HttpVer::k1_1 : HttpVer::k1_0)) return "version is " + tbox::http::HttpVerToString(r.http_ver) + ", sent " + (m.v11 ? "HTTP/1.1" : "HTTP/1.0");
  if (r.url.path != m.path) return "path is '" + printable(r.url.path) + "', sent '" + printable(m.path) + "'";
  std::string d = map_diff("url param", r.url.params, m.params); if (!d.empty()) return d;
  d = map_diff("query item", r.url.query, m.query); if (!d.empty()) return d;
  if (r.url.frag != m.frag) return "fragment is '" + printable(r.url.frag) + "', sent '" + printable(m.frag) + "'";
  d = map_diff("header", r.headers, m.headers); if (!d.empty()) return d;
  if (r.body != m.body) {
    size_t k = 0; while (k < r.body.size() && k < m.body.size() && r.body[k] == m.body[k]) ++k;
    return "body has " + std::to_string(r.body.size()) + " bytes, sent " + std::to_string(m.body.size()) + " (first difference at offset " + std::to_string(k) + ")";
  }
  return "";
}

// ---------------------------------------------------------------------------------------------- pipeline + cut plan
struct Pipe {
  std::vector<MReq> reqs;
  std::vector<size_t> start;       // offset of request i in wire
  std::string wire;
  std::vector<size_t> cuts;        // sorted distinct positions in [1, size-1]
  std::map<size_t, int> gap;       // extra passes to wait after the segment that ends at this cut (pipeline only)
  bool cut_method = false, cut_crlf = false, cut_hname = false, cut_hline = false, cut_blank = false, cut_body = false,
       cut_startline = false, cut_boundary = false, cut_tail = false;
  // optional incomplete last request (see build_tail)
  size_t tail_off = 0; std::string tail_wire, tail_declared; size_t tail_head = 0, tail_body = 0; int tail_kind = 0;
};

// `tail kind k flags nbody`: a syntactically valid request head behind the pipeline whose declared Content-Length is a
// valid decimal number that the nbody (0..12) body bytes sent can never satisfy - the request must never be reported
// complete, however extreme the number.  kind 1: 2^64 - (length of this head); 2: 2^64 - k' (k' = 2..head length + 60);
// 3: a constant around 2^31 / 2^32 / 2^53 / 2^63 / 10^19 / 2^64-2; 4: just too large (nbody + 1 + k); 0: no tail.
// flags bit0: leading zeros, bit1: an extra header in front, bit2: no blank after the colon.
struct Tail { std::string wire, declared; size_t head = 0, body = 0; int kind = 0; };

// Request targets that are not in origin-form ("/path..."): absolute-form with and without path / query, "://" alone,
// several "://", empty authority, asterisk-form, authority-form ...  What a server makes of them is not fixed by the
// property (the unmodified parser rejects every target that does not start with '/'): any outcome, but a clean one.
std::string hostile_target(uint64_t k) {
  static const char *fixed[] = {"http://host", "http://host:8080", "http://demo?x=1", "://", "*", "host:443", "http://a://b/c", "http:///path", "http://",
                                "https://user:pw@host/", "ftp://x", "a://", "//host/path", "http://host#f", "HTTP://HOST", "x://y://z", "http:/one-slash", "://host/p",
                                "http://host:80/path?x=1", "http://host/", "http://[::1]:80", "http://host?", "http://host;p=1", "://?", "://#", "a://b", "://://", "http://h%2Fx",
                                "http://host:80/a/b;p=1?q=2#f", "localhost", "?x=1", "#", "http:", "://a/", "%2F://x"};
  const size_t nfixed = sizeof fixed / sizeof fixed[0];
  if (k % 3 != 0) return fixed[(k / 3) % nfixed];
  // composed: [scheme] "://" [authority] [path] [?query] [second "://"]
  Rng g(k);
  static const char *schemes[] = {"http", "https", "", "x", "HTTP", "a.b+c"};
  static const char *auths[] = {"host", "", "host:80", "u:p@h", "[::1]", "h:", ":80", "demo"};
  static const char *paths[] = {"", "", "/", "/p", "/a/b%20c", "/;k=v"};
  static const char *queries[] = {"", "", "?x=1", "?", "?a=b&c=d", "#f"};
  std::string t = std::string(schemes[g.in(0, 5)]) + "://" + auths[g.in(0, 7)] + paths[g.in(0, 5)] + queries[g.in(0, 5)];
  if (g.chance(15)) t += "://" + std::string(auths[g.in(0, 7)]);
  return t;
}
std::string dec_u64(uint64_t v) { return std::to_string((unsigned long long)v); }
Tail build_tail(const Op &op, int index, bool with_id, bool allow_hostile_target = false) {
  Tail t;
  t.kind = (int)op.in(0, 0, 5);
  if (t.kind == 5 && !allow_hostile_target) t.kind = 4;
  if (t.kind == 0) return t;
  uint64_t k = (uint64_t)op.in(1, 0, 400);
  if (t.kind == 5) {
    // a complete request (no body) whose target is not in origin-form; outcome left free (see hostile_target)
    t.wire = std::string(kMethods[k % 7]) + " " + hostile_target(k) + " HTTP/1.1\r\n";
    if (with_id) t.wire += "X-Req: " + std::to_string(index) + "\r\n";
    t.wire += "Content-Length: 0\r\n\r\n";
    t.head = t.wire.size(); t.declared = "0";
    return t;
  }
  int flags = (int)op.in(2, 0, 7);
  t.body = (size_t)op.in(3, 0, 12);
  std::string pre = "POST /tail HTTP/1.1\r\n";
  if (with_id) pre += "X-Req: " + std::to_string(index) + "\r\n";
  if (flags & 2) pre += "X-Pad: " + std::string((size_t)(k % 23), 'p') + "x\r\n";
  pre += (flags & 4) ? "Content-Length:" : "Content-Length: ";
  std::string zeros = (flags & 1) ? std::string(1 + (size_t)(k % 5), '0') : "";
  // every value of kind 1/2 has 20 digits, so the head length does not depend on the value
  size_t head20 = pre.size() + zeros.size() + 20 + 4;
  uint64_t n;
  switch (t.kind) {
    case 1: n = (uint64_t)0 - (uint64_t)head20; break;
    case 2: n = (uint64_t)0 - (2 + k % (head20 + 60)); break;
    case 3: { static const uint64_t c[] = {2147483647ull, 2147483648ull, 4294967295ull, 4294967296ull, 4294967297ull, 9007199254740993ull,
                                           9223372036854775807ull, 9223372036854775808ull, 10000000000000000000ull, 18446744073709551614ull};
              n = c[k % 10]; break; }
    default: n = (uint64_t)t.body + 1 + k; break;
  }
  t.declared = dec_u64(n);
  t.wire = pre + zeros + t.declared + "\r\n\r\n";
  t.head = t.wire.size();
  for (size_t i = 0; i < t.body; ++i) t.wire += (char)('a' + i);
  return t;
}

void classify_cuts(Pipe &p) {
  for (size_t c : p.cuts) {
    if (!p.tail_wire.empty() && c >= p.tail_off) { if (c > p.tail_off) p.cut_tail = true; else p.cut_boundary = true; continue; }
    size_t i = std::upper_bound(p.start.begin(), p.start.end(), c) - p.start.begin() - 1;
    const MReq &m = p.reqs[i]; size_t o = c - p.start[i];
    if (o == 0) { p.cut_boundary = true; continue; }
    if (o < m.mlen) p.cut_method = true;
    if (o <= m.crlf[0]) p.cut_startline = true;
    for (size_t x : m.crlf) if (o == x + 1) p.cut_crlf = true;
    for (auto &h : m.hname) if (o > h.first && o < h.first + h.second) p.cut_hname = true;
    if (o > m.crlf[0] + 2 && o < m.crlf.back()) p.cut_hline = true;
    if (o >= m.crlf.back() && o <= m.body_off) p.cut_blank = true;
    if (o > m.body_off) p.cut_body = true;
  }
}

// cfg: a0 segmentation mode (0 listed cuts, 1 single bytes, 2 fixed chunk), a1 chunk.  max_dense bounds the number of
// segments the dense modes may create (the socket sub-check pays >= 1 loop pass per segment).
void plan_cuts(Pipe &p, const Op *cfg, const std::vector<const Op*> &cutops, size_t max_dense) {
  size_t total = p.wire.size();
  std::set<size_t> cs;
  int mode = cfg ? (int)cfg->in(0, 0, 2) : 0;
  size_t chunk = cfg ? (size_t)cfg->in(1, 1, 64) : 1;
  if (mode == 1) for (size_t c = 1; c < total && c <= max_dense; ++c) cs.insert(c);
  if (mode == 2) { if (total / chunk > max_dense) chunk = total / max_dense + 1; for (size_t c = chunk; c < total; c += chunk) cs.insert(c); }
  for (auto op : cutops) {
    int kind = (int)op->in(0, 0, 6);
    size_t r = (size_t)op->in(1, 0, (int64_t)p.reqs.size() - 1);
    int64_t off = op->in(2, 0, 1 << 20);
    const MReq &m = p.reqs[r];
    size_t pos;
    switch (kind) {
      case 0: pos = (size_t)off % (total + 1); break;
      case 1: pos = p.start[r] + 1 + (size_t)off % (m.mlen - 1 ? m.mlen - 1 : 1); break;                 // inside the method
      case 2: pos = p.start[r] + m.crlf[(size_t)off % m.crlf.size()] + 1; break;                          // between CR and LF
      case 3: { auto &h = m.hname[(size_t)off % m.hname.size()]; size_t k = (size_t)(off / 8); pos = p.start[r] + h.first + (h.second > 1 ? 1 + k % (h.second - 1) : 0); break; }
      case 4: pos = p.start[r] + m.crlf.back() + (size_t)off % 4; break;                                  // around the blank line
      case 5: pos = p.start[r] + m.body_off + (m.body.empty() ? 0 : (size_t)off % m.body.size()); break;  // inside the body
      default: pos = p.start[r] + m.wire.size(); break;                                                   // request boundary
    }
    if (pos >= 1 && pos < total) { cs.insert(pos); p.gap[pos] = (int)op->in(3, 0, 5); }
  }
  p.cuts.assign(cs.begin(), cs.end());
  classify_cuts(p);
}

struct Parsed { const Op *cfg = nullptr, *tail = nullptr; std::vector<const Op*> reqs, cuts; };
Parsed split_ops(const Scenario &s) {
  Parsed r;
  for (auto &op : s.ops) {
    if (op.code == CFG && !r.cfg) r.cfg = &op;
    else if (op.code == REQ && (int)r.reqs.size() < kMaxReq) r.reqs.push_back(&op);
    else if (op.code == CUT && (int)r.cuts.size() < kMaxCuts) r.cuts.push_back(&op);
    else if (op.code == TAIL && !r.tail) r.tail = &op;
  }
  return r;
}

Pipe build_pipe(const Parsed &ps, bool with_id, size_t max_dense, int id_base = 0) {
  Pipe p;
  for (size_t i = 0; i < ps.reqs.size(); ++i) {
    p.reqs.push_back(build_request(*ps.reqs[i], id_base + (int)i, with_id));
    p.start.push_back(p.wire.size());
    p.wire += p.reqs.back().wire;
  }
  if (ps.tail && !p.reqs.empty()) {
    Tail t = build_tail(*ps.tail, id_base + (int)p.reqs.size(), with_id, with_id);   // hostile targets only in `pipeline`
    p.tail_off = p.wire.size(); p.tail_wire = t.wire; p.tail_declared = t.declared; p.tail_head = t.head; p.tail_body = t.body; p.tail_kind = t.kind;
    p.wire += t.wire;
  }
  if (!p.reqs.empty()) plan_cuts(p, ps.cfg, ps.cuts, max_dense);
  return p;
}

// ---------------------------------------------------------------------------------------------- the server's receive path
// Mirrors Server::Impl::onTcpReceived: append the segment, then parse / drop consumed / take finished requests until the
// buffer is empty, the parser wants more data or it failed (the server then drops the connection: nothing more is fed).
// numeric comparison of a decimal digit string with a size
bool digits_equal(const std::string &digits, size_t v) {
  size_t z = 0; while (z + 1 < digits.size() && digits[z] == '0') ++z;
  return digits.substr(z) == std::to_string((unsigned long long)v);
}
bool all_digits(const std::string &s) { if (s.empty()) return false; for (unsigned char c : s) if (c < '0' || c > '9') return false; return true; }

// What must hold for every request a parser reports complete, whatever the input was:
//   * the bytes consumed for it are a (non-empty) head followed by exactly its body - nothing is consumed twice, the
//     consumed position never steps back behind bytes that belong to the request;
//   * if it declares its length as a decimal number, the body has exactly that many bytes (a request is never
//     reported complete before its declared body has arrived).
std::string declared_length_violation(const Request &r) {
  auto it = r.headers.find("Content-Length");
  if (it == r.headers.end() || !all_digits(it->second) || digits_equal(it->second, r.body.size())) return "";
  return "request reported complete with a body of " + std::to_string(r.body.size()) + " bytes although its Content-Length declares " + printable(it->second, 48);
}
std::string completed_request_violation(const Request &r, const std::string &consumed) {
  std::string d = declared_length_violation(r);
  if (!d.empty()) return d;
  if (consumed.size() <= r.body.size() || consumed.compare(consumed.size() - r.body.size(), std::string::npos, r.body) != 0)
    return "the " + std::to_string(consumed.size()) + " bytes consumed for a completed request are not its head followed by its " + std::to_string(r.body.size()) + " body bytes (bytes consumed twice or the consumed position stepped back)";
  return "";
}

struct Receiver {
  RequestParser parser;
  std::string buf;
  std::vector<std::unique_ptr<Request>> out;
  bool failed = false;
  size_t calls = 0, max_stage = 0;
  std::string err;    // oracle violation
  std::string cur;    // bytes consumed since the last completed request

  bool feed(const char *p, size_t n) {
    if (failed) return true;
    buf.append(p, n);
    size_t iter = 0, bound = buf.size() + 4;
    while (!buf.empty()) {
      if (++iter > bound) { err = "receive loop does not terminate: " + std::to_string(iter) + " iterations for a " + std::to_string(bound - 4) + " byte buffer"; return false; }
      // exact-size heap copy: any read beyond the bytes given is an ASan report
      std::unique_ptr<char[]> exact(new char[buf.size()]);
      memcpy(exact.get(), buf.data(), buf.size());
      auto before = parser.state();
      size_t given = buf.size();
      size_t rs = parser.parse(exact.get(), given);
      ++calls;
      if (rs > given) { err = "parse() claims to have consumed " + std::to_string(rs) + " of " + std::to_string(given) + " bytes"; return false; }
      cur.append(buf, 0, rs);
      buf.erase(0, rs);
      auto st = parser.state();
      max_stage = std::max(max_stage, (size_t)st == (size_t)RequestParser::State::kFail ? 0 : (size_t)st);
      if (st == RequestParser::State::kFinishedAll) {
        Request *r = parser.getRequest();
        if (!r) { err = "state kFinishedAll but getRequest() returned nullptr"; return false; }
        out.emplace_back(r);
        if (parser.state() != RequestParser::State::kInit) { err = "parser not back in kInit after getRequest()"; return false; }
        err = completed_request_violation(*r, cur);
        if (!err.empty()) return false;
        cur.clear();
      } else if (st == RequestParser::State::kFail) {
        failed = true; break;
      } else {
        if (rs == 0 && st != before) { err = "parse() moved to a later stage without consuming a byte (the same bytes would be parsed twice)"; return false; }
        break;
      }
    }
    return true;
  }
};

// ================================================================================================ (a) parser_total
std::string run_total(const Scenario &s, CaseInfo &info) {
  Receiver rx;
  size_t nseg = 0, total = 0;
  for (auto &op : s.ops) {
    if (op.code != SEG || op.a.empty()) continue;
    std::string seg(op.a.size(), 0);
    for (size_t i = 0; i < op.a.size(); ++i) seg[i] = (char)op.in(i, 0, 255);
    ++nseg; total += seg.size();
    if (!rx.feed(seg.data(), seg.size())) return "segment " + std::to_string(nseg) + ": " + rx.err;
    if (rx.failed) break;
  }
  info.cls_if(!rx.out.empty(), "request_completed");
  info.cls_if(rx.out.size() >= 2, "two_or_more_requests_completed");
  info.cls_if(rx.failed, "parser_failed");
  info.cls_if(rx.failed && !rx.out.empty(), "failed_after_a_complete_request");
  info.cls_if(!rx.failed && !rx.buf.empty(), "ends_waiting_for_more_data");
  info.cls_if(nseg >= 2, "segmented");
  info.cls_if(rx.max_stage >= 1, "got_past_start_line");
  info.nontrivial = nseg >= 2 && rx.max_stage >= 1;
  return "";
}

// libFuzzer bytes -> segments.  Last byte = control: bits 0-1 mode (0 listed cuts, 1 single bytes, 2 fixed chunk,
// 3 pseudo-random chunks), bits 2-7 parameter; mode 0 takes `param & 7` big-endian 16-bit cut positions from the tail.
// Everything in front is the byte stream, so raw HTTP text + 1 byte is a valid seed.
Scenario decode_total(const uint8_t *data, size_t size) {
  Scenario s;
  if (size == 0) return s;
  uint8_t ctl = data[size - 1]; --size;
  int mode = ctl & 3; unsigned param = ctl >> 2;
  std::set<size_t> cuts;
  if (mode == 0) {
    unsigned n = param & 7;
    std::vector<size_t> raw;
    while (n-- && size >= 2) { raw.push_back(((size_t)data[size - 2] << 8) | data[size - 1]); size -= 2; }
    for (auto c : raw) if (size) cuts.insert(c % (size + 1));
  } else if (mode == 1) {
    if (size <= 4096) for (size_t c = 1; c < size; ++c) cuts.insert(c); else for (size_t c = 7; c < size; c += 7) cuts.insert(c);
  } else if (mode == 2) {
    for (size_t c = param + 1; c < size; c += param + 1) cuts.insert(c);
  } else {
    uint32_t x = param * 2654435761u + 12345; size_t c = 0;
    while (c < size) { x = x * 1664525u + 1013904223u; c += 1 + (x >> 24) % 16; if (c < size) cuts.insert(c); }
  }
  size_t from = 0;
  auto emit = [&](size_t to) { if (to <= from) return; Op op; op.code = SEG; op.a.assign(data + from, data + to); s.ops.push_back(std::move(op)); from = to; };
  for (auto c : cuts) if (c > 0 && c < size) emit(c);
  emit(size);
  return s;
}

// ================================================================================================ (b) segmentation
std::string feed_and_compare(const Pipe &p, const std::vector<size_t> &cuts, const char *label) {
  Receiver rx;
  size_t from = 0;
  auto feed = [&](size_t to) -> bool { bool ok = rx.feed(p.wire.data() + from, to - from); from = to; return ok; };
  for (size_t c : cuts) {
    if (!feed(c)) return std::string(label) + ": after the segment ending at byte " + std::to_string(c) + ": " + rx.err;
    if (rx.failed) return std::string(label) + ": parser reports failure after the segment ending at byte " + std::to_string(c) + " of " + std::to_string(p.wire.size()) + " ('" + printable(p.wire.substr(c > 12 ? c - 12 : 0, c > 12 ? 12 : c), 48) + "' | '" + printable(p.wire.substr(c), 12) + "'); well-formed pipeline, " + std::to_string(rx.out.size()) + " request(s) complete";
  }
  if (!feed(p.wire.size())) return std::string(label) + ": after the last segment: " + rx.err;
  if (rx.failed) return std::string(label) + ": parser reports failure at the end of a well-formed pipeline, " + std::to_string(rx.out.size()) + " request(s) complete";
  if (rx.out.size() != p.reqs.size()) return std::string(label) + ": " + std::to_string(rx.out.size()) + " request(s) parsed, " + std::to_string(p.reqs.size()) + " sent (" + std::to_string(rx.buf.size()) + " bytes left in the buffer)";
  for (size_t i = 0; i < p.reqs.size(); ++i) {
    std::string d = request_diff(*rx.out[i], p.reqs[i]);
    if (!d.empty()) return std::string(label) + ": request " + std::to_string(i) + ": " + d;
  }
  if (p.tail_wire.empty()) {
    if (!rx.buf.empty()) return std::string(label) + ": " + std::to_string(rx.buf.size()) + " bytes left unconsumed after the last request";
  } else {
    // the incomplete last request: never complete (checked above by the count), never a failure, and what is still
    // in the buffer is an unconsumed rest of it
    if (rx.buf.size() > p.tail_wire.size() || p.tail_wire.compare(p.tail_wire.size() - rx.buf.size(), std::string::npos, rx.buf) != 0)
      return std::string(label) + ": the " + std::to_string(rx.buf.size()) + " bytes left in the buffer are not the rest of the incomplete last request";
  }
  return "";
}

std::string run_segmentation(const Scenario &s, CaseInfo &info) {
  Parsed ps = split_ops(s);
  if (ps.reqs.empty()) return "";
  Pipe p = build_pipe(ps, false, 1 << 30);
  std::string e = feed_and_compare(p, {}, "unsegmented");
  if (!e.empty()) return e;
  e = feed_and_compare(p, p.cuts, "segmented");
  if (!e.empty()) return e;
  bool esc = false, ows = false, bigbody = false, tricky_body = false;
  for (size_t i = 0; i < p.reqs.size(); ++i) {
    esc |= p.reqs[i].escapes; ows |= p.reqs[i].ows; bigbody |= p.reqs[i].body.size() > 1024;
    tricky_body |= p.reqs[i].body.find("\r\n\r\n") != std::string::npos;
  }
  info.cls_if(p.cut_method, "cut_inside_method");
  info.cls_if(p.cut_startline, "cut_inside_start_line");
  info.cls_if(p.cut_crlf, "cut_inside_CRLF");
  info.cls_if(p.cut_hname, "cut_inside_header_name");
  info.cls_if(p.cut_hline, "cut_inside_header_block");
  info.cls_if(p.cut_blank, "cut_at_blank_line");
  info.cls_if(p.cut_body, "cut_inside_body");
  info.cls_if(p.cut_boundary, "cut_at_request_boundary");
  info.cls_if(p.tail_kind != 0, "incomplete_last_request");
  info.cls_if(p.tail_kind == 1 || p.tail_kind == 2, "incomplete_last_request_length_near_2^64");
  info.cls_if(p.tail_kind != 0 && !p.cut_tail, "incomplete_last_request_head_in_one_segment");
  info.cls_if(p.cuts.size() + 1 >= p.wire.size() && p.wire.size() > 1, "single_byte_segments");
  info.cls_if(p.reqs.size() >= 3, "three_or_more_requests");
  info.cls_if(esc, "percent_escapes"); info.cls_if(ows, "optional_whitespace_around_value");
  info.cls_if(bigbody, "body_over_1KiB"); info.cls_if(tricky_body, "body_contains_CRLFCRLF");
  info.nontrivial = p.cut_method || p.cut_hname || p.cut_crlf || p.cut_hline;
  return "";
}

// ================================================================================================ (c) pipeline
// Oracle (statement + DESIGN.md C12c):
//   * every request handed to the handler equals the request sent at that position (content and X-Req id);
//   * the client byte stream parses into responses; response j carries the id of request j (X-Id echo), the planned
//     Content-Length and the body pattern of request j  -> order = arrival order, nothing duplicated, nothing torn;
//   * every request up to and including the first closing one (all requests if there is none) is answered exactly once,
//     however late its handler completed;
//   * not a byte follows the response to the closing request, and after it the client observes the end of the
//     stream (EOF; ECONNRESET is accepted as well: the kernel reports it instead of EOF when the server closes a
//     socket with unread client data in its queue);
//   * without a closing request nothing arrives beyond the expected responses.
//   * handler chains (1-4 Server::use() stages): per request every stage either answers, calls next() inside the
//     callback, keeps the NextFunc (with or without the ContextSptr) and calls it d loop passes later, or calls
//     next() and keeps the context a while longer; stages run in chain order, each at most once per request, with the
//     context of that request; the response on the wire is the one written by the stage the model says (X-Stage),
//     or the server's default 404 when the chain ends without an answer; it is written only once the whole chain
//     is through (an early default response shows up as a wrong response j);
//   * a request is never handed over with a body shorter than the Content-Length it declares; the incomplete last
//     request (`tail`) is never handed over and never answered; the handler is not called more often than requests
//     were sent (a server that spins over the same bytes is stopped by an exception thrown from the handler).
// Left free: number of passes between cause and effect, whether requests behind the closing one reach a handler,
// whether the connection stays open without a closing request, header layout of the responses.
struct Held { int due; int rank; int idx; bool at_next; bool counts; tbox::http::server::ContextSptr ctx; };
struct Deferred { int due; int rank; int idx; int stage; tbox::http::server::NextFunc next; tbox::http::server::ContextSptr ctx; };
struct Runaway {};

// Defect 4 of NOTES.md (shutdown(SHUT_RD) on the closing request drops the connection while output is still pending)
// is repaired by proposed-fixes/04.  Should that repair be declined, set this to true: the check then skips exactly
// that shape — a closing request while a handler at or before it completes late, or more than 60 000 response bytes
// up to and including the closing response — and counts the skipped cases.
static const bool kAvoid_close_with_pending_output = false;

char body_byte(int id, size_t j) { return (char)((id * 131 + j * 7 + j / 251) & 0xff); }

std::string run_pipeline(const Scenario &s, CaseInfo &info) {
  static bool once = [] { signal(SIGPIPE, SIG_IGN); struct rlimit rl; if (getrlimit(RLIMIT_NOFILE, &rl) == 0) { rl.rlim_cur = rl.rlim_max; setrlimit(RLIMIT_NOFILE, &rl); } return true; }(); (void)once;
  // ---- lives of the one Server object: a `life kind early flags gap` op starts the next life (at most 3)
  struct LifeOps { Parsed ps; int kind = 0, early = 0, flags = 0, gap = 0; };
  std::vector<LifeOps> lives(1);
  const Op *cfg_op = nullptr;
  for (auto &op : s.ops) {
    LifeOps &cur = lives.back();
    if (op.code == CFG && !cfg_op) cfg_op = &op;
    else if (op.code == REQ && (int)cur.ps.reqs.size() < kMaxReq) cur.ps.reqs.push_back(&op);
    else if (op.code == CUT && (int)cur.ps.cuts.size() < kMaxCuts) cur.ps.cuts.push_back(&op);
    else if (op.code == TAIL && !cur.ps.tail) cur.ps.tail = &op;
    else if (op.code == LIFE && !cur.ps.reqs.empty() && lives.size() < 3) {
      LifeOps n; n.kind = (int)op.in(0, 0, 1); n.early = (int)op.in(1, 0, 60); n.flags = (int)op.in(2, 0, 7); n.gap = (int)op.in(3, 0, 3);
      lives.push_back(n);
    }
  }
  if (lives.back().ps.reqs.empty()) lives.pop_back();
  if (lives.empty()) return "";
  for (auto &l : lives) l.ps.cfg = cfg_op;
  if (kAvoid_close_with_pending_output)
    for (auto &l : lives) {
      int cp = -1; bool pending = false; size_t bytes = 0;
      for (size_t i = 0; i < l.ps.reqs.size() && cp < 0; ++i) { pending |= l.ps.reqs[i]->in(9, 0, 41) > 0; bytes += (size_t)l.ps.reqs[i]->in(10, 0, 200 * 1024); if (kind_closing(l.ps.reqs[i]->in(1, 0, kMaxKind))) cp = (int)i; }
      if (cp >= 0 && (pending || bytes > 60000)) { stats().counters["avoided_close_with_pending_output"]++; return ""; }
    }
  const Parsed &ps0 = lives[0].ps;

  // ---- objects that live through the whole case
  vloop::Clock clk;
  std::unique_ptr<tbox::event::Loop> loop(tbox::event::Loop::New());
  std::unique_ptr<tbox::http::server::Server> srv(new tbox::http::server::Server(loop.get()));
  char path[64]; snprintf(path, sizeof path, "c12-%d.sock", (int)getpid());
  const int nst = ps0.cfg ? 1 + (int)ps0.cfg->in(2, 0, 3) : 1;
  int cur_pass = 0;
  std::vector<Held> held;
  std::vector<Deferred> deferred;
  std::string err;                        // first oracle violation
  auto fail = [&](const std::string &m) { if (err.empty()) err = m; };
  // the callbacks registered with Server::use() stay registered over stop()/start(); they forward to the current life
  std::function<void(int, tbox::http::server::ContextSptr, const tbox::http::server::NextFunc &)> stage_fn;
  auto install_stages = [&]() {
    for (int st = 0; st < nst; ++st)
      srv->use([&stage_fn, &fail, st](tbox::http::server::ContextSptr ctx, const tbox::http::server::NextFunc &next) {
        if (stage_fn) stage_fn(st, std::move(ctx), next); else fail("a request callback was invoked while no connection of the current life exists");
      });
  };
  auto listen = [&]() { return srv->initialize(tbox::network::SockAddr(tbox::network::DomainSockPath(path)), 4); };
  bool carried_released_later = false;
  int open_cfd = -1;                      // client socket of the current / previous life while it is still open

  for (size_t life_no = 0; life_no < lives.size() && err.empty(); ++life_no) {
  const LifeOps &lo = lives[life_no];
  const Parsed &ps = lo.ps;
  const int id_base = (int)life_no * 16;
  // ---- bring the server into this life
  if (life_no == 0) {
    if (!listen()) return "INFRA: cannot listen on unix socket " + std::string(path);
    install_stages();
    if (!srv->start()) return "INFRA: cannot start the server";
  } else if (lo.kind == 0) {
    srv->cleanup();
    if (open_cfd >= 0) { ::close(open_cfd); open_cfd = -1; }
    if (lo.gap) vloop::passes(loop.get(), lo.gap);
    if (!listen()) { fail("life " + std::to_string(life_no + 1) + ": initialize() after cleanup() failed"); break; }
    install_stages();
    if (!srv->start()) { fail("life " + std::to_string(life_no + 1) + ": start() after cleanup() + initialize() failed"); break; }
  } else {
    srv->stop();
    if (open_cfd >= 0) { ::close(open_cfd); open_cfd = -1; }
    if (lo.gap) vloop::passes(loop.get(), lo.gap);
    if (!srv->start()) { fail("life " + std::to_string(life_no + 1) + ": start() after stop() failed"); break; }
  }
  const std::string life_tag = lives.size() > 1 ? "life " + std::to_string(life_no + 1) + " of " + std::to_string(lives.size()) + (life_no == 0 ? "" : lo.kind == 0 ? " (after cleanup/initialize/use/start)" : " (after stop/start)") + ": " : "";
  // a life that is followed by another one may be cut short at a generated pass (handlers still pending)
  const int cut_at = life_no + 1 < lives.size() ? lives[life_no + 1].early : 0;
  bool cut_short = false;

  Pipe p = build_pipe(ps, true, 160, id_base);
  const int nreq = (int)p.reqs.size();
  int close_pos = -1;
  for (int i = 0; i < nreq; ++i) if (p.reqs[i].closing) { close_pos = i; break; }
  const int N = close_pos >= 0 ? close_pos + 1 : nreq;    // requests that must be answered
  struct Plan { int k; size_t rsize; int rank; };
  std::vector<Plan> plan;
  size_t total_resp = 0; int max_k = 0;
  for (auto op : ps.reqs) {
    Plan pl{(int)op->in(9, 0, 41), (size_t)op->in(10, 0, 200 * 1024), (int)op->in(11, 0, 7)};
    plan.push_back(pl); total_resp += pl.rsize; max_k = std::max(max_k, pl.k);
  }
  // handler chain: cfg a2 = stages - 1; req a12 = one base-6 digit per stage (action), a13 = one base-8 digit per stage (delay - 1)
  //   stage before the last: 0/5 next() inside the callback, 1 answer here, 2 keep the NextFunc and call it d passes later,
  //                          3 the same and keep the ContextSptr as well, 4 next() inside the callback, then keep the context d passes
  //   last stage:            0/1/4 answer, 2/3 keep the NextFunc (and context), call it d passes later (nothing follows: default
  //                          404), 5 call next() inside the callback (default 404)
  struct Chain { int act[4]; int delay[4]; int answer; bool defers; };
  std::vector<Chain> chain;
  int max_defer = 0;
  for (auto op : ps.reqs) {
    Chain c; c.answer = -1; c.defers = false;
    int64_t a = op->in(12, 0, 6 * 6 * 6 * 6 - 1), d = op->in(13, 0, 8 * 8 * 8 * 8 - 1);
    bool reached = true; int sum = 0;
    for (int st = 0; st < 4; ++st) {
      c.act[st] = (int)(a % 6); a /= 6; c.delay[st] = 1 + (int)(d % 8); d /= 8;
      if (st >= nst || !reached) continue;
      bool last = st + 1 == nst; int x = c.act[st];
      if (x == 1 || (last && (x == 0 || x == 4))) { c.answer = st; reached = false; }
      else if (x == 2 || x == 3) { c.defers = true; sum += c.delay[st]; }
      else if (x == 4) sum += c.delay[st];
    }
    max_defer = std::max(max_defer, sum);
    chain.push_back(c);
  }
  const bool two_stage = nst >= 2;
  const int rd_mode = ps.cfg ? (int)ps.cfg->in(3, 0, 2) : 0;
  const size_t rd_chunk = ps.cfg ? (size_t)ps.cfg->in(4, 1, 65536) : 65536;
  const int rd_passes = ps.cfg ? (int)ps.cfg->in(5, 0, 60) : 0;
  const int rd_pause = (ps.cfg && rd_mode == 2) ? (int)ps.cfg->in(6, 0, 30) : 0;

  // segments
  struct Seg { size_t from, to; int gap; };
  std::vector<Seg> segs;
  { size_t from = 0; for (size_t c : p.cuts) { auto g = p.gap.find(c); segs.push_back({from, c, g == p.gap.end() ? 0 : g->second}); from = c; } segs.push_back({from, p.wire.size(), 0}); }
  int total_gap = 0; for (auto &sg : segs) total_gap += sg.gap + 4;

  int arrivals = 0;
  cur_pass = 0;
  auto fail = [&](const std::string &m) { if (err.empty()) err = life_tag + m; };
  std::vector<int> completed_order;      // request indices in handler-completion order
  std::map<const void*, int> ctx_idx;     // context object -> request index (set at hand-over)
  std::vector<int> progress;              // per request: next stage expected to run
  bool chain_deferred = false, chain_early_answer = false, chain_fallthrough = false, chain_keep_ctx = false, chain_next_only = false;

  auto release = [&](size_t i) {
    Held h = std::move(held[i]); held.erase(held.begin() + i);
    if (h.counts) completed_order.push_back(h.idx);
    if (h.idx < 0) carried_released_later = true;   // a context of an earlier life, released while a later life runs
    h.ctx.reset();                        // possibly the last reference: the response is committed then
  };
  auto answer = [&](int idx, int st, tbox::http::server::ContextSptr ctx) {
    auto &res = ctx->res();
    res.status_code = tbox::http::StatusCode::k200_OK;
    res.headers["X-Id"] = std::to_string(id_base + idx);
    res.headers["X-Stage"] = std::to_string(st);
    res.body.resize(plan[idx].rsize);
    for (size_t j = 0; j < res.body.size(); ++j) res.body[j] = body_byte(id_base + idx, j);
    if (plan[idx].k == 0) { completed_order.push_back(idx); return; }   // completes inside the callback
    held.push_back({cur_pass + plan[idx].k, plan[idx].rank, idx, plan[idx].k == 41, true, std::move(ctx)});
  };
  auto stage = [&](int st, tbox::http::server::ContextSptr ctx, const tbox::http::server::NextFunc &next) {
    int idx;
    if (st == 0) {
      idx = arrivals++;
      if (arrivals > nreq + 8) throw Runaway();    // the server hands over "requests" for ever: get out of its loop
      // complete the handlers that wait for "the next hand-over" (inside this callback, before answering this one)
      for (size_t i = 0; i < held.size();) if (held[i].at_next) release(i); else ++i;
      const Request &rq = ctx->req();
      std::string dl = declared_length_violation(rq);
      if (!dl.empty()) fail("hand-over " + std::to_string(idx) + ": " + dl);
      if (idx >= nreq) {
        if (p.tail_kind == 5) return;   // the request with a non-origin-form target was accepted: allowed (default 404)
        if (idx == nreq && p.tail_kind != 0)
          fail("the incomplete last request (Content-Length " + p.tail_declared + ", " + std::to_string(p.tail_body) + " body bytes sent) was handed to the handler with a body of " + std::to_string(rq.body.size()) + " bytes");
        else fail("handler called " + std::to_string(idx + 1) + " times, only " + std::to_string(nreq) + " requests were sent");
        return;
      }
      auto it = rq.headers.find("X-Req");
      if (it == rq.headers.end() || it->second != std::to_string(id_base + idx))
        fail("hand-over " + std::to_string(idx) + " delivered the request with X-Req '" + (it == rq.headers.end() ? "<none>" : printable(it->second)) + "' (requests reach the handler out of order or damaged)");
      std::string d = request_diff(rq, p.reqs[idx]);
      if (!d.empty()) fail("request " + std::to_string(idx) + " as handed to the handler: " + d);
      ctx_idx[ctx.get()] = idx;
      progress.resize(std::max(progress.size(), (size_t)idx + 1), 0);
    } else {
      auto it = ctx_idx.find(ctx.get());
      if (it == ctx_idx.end()) { fail("stage " + std::to_string(st) + " of the handler chain was entered with a context that was never handed to stage 0"); return; }
      idx = it->second;
    }
    if (progress[idx] != st) { fail("request " + std::to_string(idx) + ": stage " + std::to_string(st) + " of the handler chain entered, stage " + std::to_string(progress[idx]) + " was due (a stage skipped or run twice)"); return; }
    progress[idx] = st + 1;
    const Chain &c = chain[idx];
    const bool last = st + 1 == nst;
    const int x = c.act[st];
    if (x == 1 || (last && (x == 0 || x == 4))) { chain_early_answer |= !last; answer(idx, st, std::move(ctx)); return; }
    if (x == 2 || x == 3) {
      chain_deferred = true; chain_keep_ctx |= x == 3; chain_next_only |= x == 2; chain_fallthrough |= last;
      deferred.push_back({cur_pass + c.delay[st], plan[idx].rank, idx, st, next, x == 3 ? ctx : tbox::http::server::ContextSptr()});
      return;
    }
    chain_fallthrough |= last;
    next();
    if (x == 4) held.push_back({cur_pass + c.delay[st], plan[idx].rank, idx, false, false, std::move(ctx)});
  };
  stage_fn = stage;

  // ---- client
  int cfd = ::socket(AF_UNIX, SOCK_STREAM | SOCK_NONBLOCK | SOCK_CLOEXEC, 0);
  struct sockaddr_un sa; memset(&sa, 0, sizeof sa); sa.sun_family = AF_UNIX; strncpy(sa.sun_path, path, sizeof sa.sun_path - 1);
  if (cfd < 0 || ::connect(cfd, (struct sockaddr*)&sa, sizeof sa) != 0) { if (cfd >= 0) ::close(cfd); return "INFRA: cannot connect to " + std::string(path); }
  open_cfd = cfd;

  size_t seg_i = 0, seg_off = 0; int send_at = 0, wait_drain = 0; bool tx_dead = false;
  std::string rx; size_t rx_parsed = 0; bool rx_closed = false; int close_errno = 0;
  int responses = 0; size_t rx_total = 0;
  int quiet = 0;
  std::vector<char> rbuf(1 << 20);

  auto parse_responses = [&]() {
    for (;;) {
      size_t he = rx.find("\r\n\r\n", rx_parsed);
      if (he == std::string::npos) {
        if (rx.size() - rx_parsed > 4096) fail("client stream: no end of response head within 4096 bytes after response " + std::to_string(responses) + ": '" + printable(rx.substr(rx_parsed), 40) + "'");
        return;
      }
      std::string head = rx.substr(rx_parsed, he - rx_parsed);
      if (head.compare(0, 5, "HTTP/") != 0) { fail("client stream: bytes after response " + std::to_string(responses - 1) + " are not a response: '" + printable(head, 40) + "'"); return; }
      long clen = -1; std::string id, stage_hdr;
      std::string status = head.substr(0, head.find("\r\n"));
      { size_t sp = status.find(' '); status = sp == std::string::npos ? "" : status.substr(sp + 1, 3); }
      size_t ls = head.find("\r\n");
      while (ls != std::string::npos) {
        size_t le = head.find("\r\n", ls + 2);
        std::string line = head.substr(ls + 2, le == std::string::npos ? std::string::npos : le - ls - 2);
        size_t colon = line.find(':');
        if (colon != std::string::npos) {
          std::string k = line.substr(0, colon), v = line.substr(colon + 1);
          for (auto &c : k) c = (char)tolower((unsigned char)c);
          while (!v.empty() && v.front() == ' ') v.erase(0, 1);
          while (!v.empty() && v.back() == ' ') v.pop_back();
          if (k == "content-length") clen = atol(v.c_str());
          if (k == "x-id") id = v;
          if (k == "x-stage") stage_hdr = v;
        }
        ls = le;
      }
      if (clen < 0) { fail("client stream: response " + std::to_string(responses) + " has no Content-Length: '" + printable(head, 60) + "'"); return; }
      if (rx.size() < he + 4 + (size_t)clen) return;   // body incomplete
      int j = responses;
      if (j >= N && p.tail_kind == 5 && close_pos < 0) { rx_parsed = rx.size(); return; }   // whatever is answered to the hostile target
      if (j >= N) {
        fail(close_pos >= 0 ? "a response (X-Id " + id + ") was written after the response to the closing request " + std::to_string(close_pos)
                            : "more responses than requests: extra response with X-Id " + id);
        return;
      }
      if (chain[j].answer < 0) {
        // the chain of request j ends without an answer: the server's default response, once the chain is through
        if (status != "404" || !id.empty() || clen != 0) { fail("response " + std::to_string(j) + " on the wire is '" + printable(head, 50) + "' (" + std::to_string(clen) + " body bytes, X-Id '" + id + "'); no stage of the handler chain answers request " + std::to_string(j) + ", the default 404 was due"); return; }
        ++responses; rx_parsed = he + 4; continue;
      }
      if (status != "200" || stage_hdr != std::to_string(chain[j].answer)) {
        fail("response " + std::to_string(j) + " on the wire has status " + status + ", X-Id '" + id + "', X-Stage '" + stage_hdr + "'; stage " + std::to_string(chain[j].answer) + " of the handler chain answers request " + std::to_string(j) + " with 200" +
             (chain[j].defers ? " after a deferred next() (answered before its handler chain was through?)" : ""));
        return;
      }
      if (id != std::to_string(id_base + j)) { fail("response " + std::to_string(j) + " on the wire carries X-Id " + id + ", X-Id " + std::to_string(id_base + j) + " was due (responses out of request order, duplicated or lost); handlers completed in order " + [&] { std::string o; for (int x : completed_order) o += std::to_string(x) + " "; return o; }()); return; }
      if ((size_t)clen != plan[j].rsize) { fail("response " + std::to_string(j) + " has Content-Length " + std::to_string(clen) + ", handler set " + std::to_string(plan[j].rsize) + " bytes"); return; }
      for (size_t k = 0; k < (size_t)clen; ++k) if (rx[he + 4 + k] != body_byte(id_base + j, k)) { fail("response " + std::to_string(j) + ": body byte " + std::to_string(k) + " of " + std::to_string(clen) + " is not what the handler wrote"); return; }
      ++responses;
      rx_parsed = he + 4 + (size_t)clen;
      if (rx_parsed > (1 << 16)) { rx.erase(0, rx_parsed); rx_parsed = 0; }
    }
  };

  const int limit = 300 + total_gap + max_k + max_defer + rd_passes + rd_pause + (int)(total_resp / 2048) + 3 * (int)segs.size();
  bool runaway = false;
  try {
  vloop::drive(loop.get(), [&](int pass) {
    cur_pass = pass;
    clk.now += 1;
    // 1. client writes: a segment is sent only after the server has taken the previous one out of the socket (send
    //    queue empty) plus the generated gap, so the generated cut points are the server's receive boundaries
    while (!tx_dead && seg_i < segs.size() && pass >= send_at) {
      if (wait_drain > 0) {
        int outq = 0;
        if (::ioctl(cfd, TIOCOUTQ, &outq) == 0 && outq > 0 && --wait_drain > 0) break;
        wait_drain = 0;
      }
      const Seg &sg = segs[seg_i];
      ssize_t n = ::send(cfd, p.wire.data() + sg.from + seg_off, sg.to - sg.from - seg_off, MSG_NOSIGNAL);
      if (n < 0) { if (errno != EAGAIN && errno != EINTR) tx_dead = true; break; }
      seg_off += (size_t)n;
      if (seg_off < sg.to - sg.from) break;
      ++seg_i; seg_off = 0; send_at = pass + 1 + sg.gap; wait_drain = 6;
      break;
    }
    // 2a. deferred next() calls that are due (made here, i.e. outside any server callback, some passes after the stage
    //     returned), by (due, rank); afterwards the stage drops its NextFunc (and context)
    for (;;) {
      int best = -1;
      for (size_t i = 0; i < deferred.size(); ++i)
        if (pass >= deferred[i].due && (best < 0 || std::make_pair(deferred[i].due, deferred[i].rank) < std::make_pair(deferred[best].due, deferred[best].rank))) best = (int)i;
      if (best < 0) break;
      Deferred d = std::move(deferred[(size_t)best]); deferred.erase(deferred.begin() + best);
      d.next();
      d.next = nullptr; d.ctx.reset();
    }
    // 2. handlers that complete in this pass (outside any callback), by (due, rank)
    for (;;) {
      int best = -1;
      for (size_t i = 0; i < held.size(); ++i) {
        bool due = held[i].at_next ? pass >= held[i].due + 20 : pass >= held[i].due;
        if (due && (best < 0 || std::make_pair(held[i].due, held[i].rank) < std::make_pair(held[best].due, held[best].rank))) best = (int)i;
      }
      if (best < 0) break;
      release((size_t)best);
    }
    // 3. client reads, paced
    if (!rx_closed && pass >= rd_pause) {
      size_t budget = (rd_mode != 0 && pass < rd_pause + rd_passes) ? rd_chunk : rbuf.size() * 4;
      while (budget > 0) {
        ssize_t n = ::recv(cfd, rbuf.data(), std::min(budget, rbuf.size()), 0);
        if (n > 0) { rx.append(rbuf.data(), (size_t)n); rx_total += (size_t)n; budget -= (size_t)n; quiet = 0; continue; }
        if (n == 0) { rx_closed = true; }
        else if (errno == ECONNRESET || errno == EPIPE) { rx_closed = true; close_errno = errno; }
        break;
      }
      parse_responses();
    }
    if (!err.empty()) return false;
    if (cut_at > 0 && pass >= cut_at) { cut_short = true; return false; }
    // 4. done?
    bool tx_done = tx_dead || seg_i >= segs.size();
    if (rx_closed && held.empty() && deferred.empty()) return false;
    if (close_pos < 0 && tx_done && held.empty() && deferred.empty() && arrivals >= nreq && responses >= N) { if (++quiet > 12) return false; }
    if (pass > limit) return false;   // the verdict below says what is still missing
    return true;
  });
  } catch (const Runaway &) { runaway = true; }
  if (runaway) {
    // The exception unwound through the server's and the loop's callbacks: those objects are in an undefined state and
    // are abandoned (leaked) on purpose.  This path is only taken on a tree that violates the property.
    fail("the server keeps handing over requests without end: handler called " + std::to_string(arrivals) + " times, " + std::to_string(nreq) + " requests were sent");
    std::string e = "handler called without end (" + std::to_string(arrivals) + " hand-overs for " + std::to_string(nreq) + " requests" + (p.tail_kind ? ", incomplete last request with Content-Length " + p.tail_declared : "") + "): the server's receive loop does not terminate; first violation: " + err;
    deferred.clear(); held.clear();
    (void)srv.release(); (void)loop.release(); ::close(cfd);
    return life_tag + e;
  }

  // ---- verdict (a life that was cut short is only judged by what had arrived: order, ids, content)
  // (a pipeline that ends with a non-origin-form target is judged like a life cut short: the server may drop the
  //  connection on it at any time, and with it responses that were still pending)
  if (err.empty() && !cut_short && p.tail_kind != 5) {
    std::string order; for (int x : completed_order) order += std::to_string(x) + " ";
    if (rx_parsed < rx.size() && responses >= N) fail(std::to_string(rx.size() - rx_parsed) + " bytes follow the last expected response: '" + printable(rx.substr(rx_parsed), 40) + "'");
    else if (responses < N) {
      bool completed = std::find(completed_order.begin(), completed_order.end(), responses) != completed_order.end();
      fail("response to request " + std::to_string(responses) + " of " + std::to_string(N) + " never arrived (" + std::to_string(rx.size() - rx_parsed) + " bytes of it received; " +
           (responses < arrivals ? (completed ? "its handler completed" : "its handler never completed?!") : "the request never reached the handler") +
           "; " + (rx_closed ? (close_errno ? "connection reset by the server" : "server closed the connection") : "connection still open after " + std::to_string(cur_pass) + " passes") +
           "; closing request: " + (close_pos < 0 ? "none" : std::to_string(close_pos)) + "; plans:" + [&] { std::string o; for (auto &pl : plan) o += " " + std::to_string(pl.k) + "/" + std::to_string(pl.rsize); return o; }() + "; completion order: " + order + ")");
    } else if (close_pos >= 0 && !rx_closed)
      fail("all responses up to the closing request " + std::to_string(close_pos) + " arrived, but the connection is still open after " + std::to_string(cur_pass) + " passes");
    else if (rx_parsed < rx.size()) fail(std::to_string(rx.size() - rx_parsed) + " stray bytes at the end of the client stream");
  }

  // ---- end of this life.  Kept NextFuncs are dropped uncalled (a stage that gives up).  Pending contexts are either
  //      released now or carried into the next life (released there when due / at a hand-over, or at the very end): the
  //      server must drop their responses - their connection is gone - and nothing of them may show up on a later
  //      connection.  The client closes its socket before the server is stopped / cleaned up, or afterwards.
  const bool last_life = life_no + 1 == lives.size();
  const int nflags = last_life ? 0 : lives[life_no + 1].flags;
  const bool carry = !last_life && (nflags & 1), client_first = !last_life && (nflags & 2);
  // (requests that were already on their way may still be handed over during these two passes)
  if (client_first) { ::close(cfd); open_cfd = -1; if (nflags & 4) vloop::passes(loop.get(), 2); }
  stage_fn = nullptr;
  deferred.clear();
  const bool had_pending = !held.empty();
  if (!last_life) {
    if (!carry) while (!held.empty()) release(0);
    else for (auto &h : held) { h.due = std::max(0, h.due - cur_pass); h.counts = false; h.idx = -1; }
  }

  // ---- classes
  bool out_of_order = false;
  { int mx = -1; for (int x : completed_order) { if (x < mx) out_of_order = true; mx = std::max(mx, x); } }
  bool late = false, late_close = false, big = false, at_next = false;
  for (int i = 0; i < N; ++i) { late |= plan[i].k > 0; big |= plan[i].rsize > 64 * 1024; at_next |= plan[i].k == 41; }
  if (close_pos >= 0) late_close = plan[close_pos].k > 0;
  info.cls_if(close_pos >= 0, "closing_request");
  info.cls_if(close_pos >= 0 && close_pos + 1 < nreq, "requests_behind_the_closing_one");
  info.cls_if(close_pos >= 0 && !p.reqs[close_pos].v11, "closing_by_HTTP_1_0");
  info.cls_if(close_pos >= 0 && p.reqs[close_pos].kind == 6, "closing_by_HTTP_1_0_with_other_connection_value");
  { bool k7 = false; for (int i = 0; i < nreq && (close_pos < 0 || i < close_pos); ++i) k7 |= p.reqs[i].kind == 7; info.cls_if(k7, "persistent_HTTP_1_1_with_other_connection_value"); }
  info.cls_if(late, "late_handler"); info.cls_if(late_close, "late_handler_on_closing_request");
  info.cls_if(out_of_order, "completed_out_of_order"); info.cls_if(at_next, "completed_inside_next_hand_over");
  info.cls_if(big, "response_over_64KiB"); info.cls_if(close_pos >= 0 && plan[close_pos].rsize > 64 * 1024, "closing_response_over_64KiB");
  info.cls_if(rd_mode != 0, "paced_client_reads"); info.cls_if(two_stage, "two_stage_handler");
  info.cls_if(nst >= 3, "chain_of_3_or_4_stages");
  info.cls_if(chain_deferred, "next_deferred_to_a_later_pass"); info.cls_if(chain_next_only, "next_deferred_without_keeping_the_context");
  info.cls_if(chain_keep_ctx, "next_deferred_keeping_the_context"); info.cls_if(chain_early_answer, "answered_by_an_earlier_stage");
  info.cls_if(chain_fallthrough, "chain_ends_without_answer_default_404");
  info.cls_if(p.tail_kind != 0 && p.tail_kind != 5, "incomplete_last_request"); info.cls_if(p.tail_kind == 1 || p.tail_kind == 2, "incomplete_last_request_length_near_2^64");
  info.cls_if(p.tail_kind == 5, "last_request_with_non_origin_form_target");
  info.cls_if(p.tail_kind != 0 && p.tail_kind != 5 && close_pos < 0 && !p.cut_tail, "incomplete_last_request_head_in_one_segment_reaches_parser");
  info.cls_if(N >= 3, "three_or_more_answered"); info.cls_if(segs.size() > 1, "segmented");
  info.cls_if(p.cut_method || p.cut_hname || p.cut_crlf, "cut_inside_method_or_header_line");
  info.cls_if(close_errno != 0, "close_seen_as_ECONNRESET");
  info.cls_if(lives.size() >= 2, "two_or_more_lives_of_the_server_object"); info.cls_if(lives.size() >= 3, "three_lives");
  info.cls_if(life_no > 0 && lo.kind == 0, "life_after_cleanup_initialize_use_start"); info.cls_if(life_no > 0 && lo.kind == 1, "life_after_stop_start");
  info.cls_if(cut_short && had_pending, "life_cut_short_with_pending_handlers");
  info.cls_if(carry && had_pending, "contexts_carried_into_the_next_life"); info.cls_if(!last_life && client_first, "client_closes_before_the_server_stops");
  info.nontrivial = info.nontrivial || (N >= 3 && out_of_order && close_pos >= 0 && close_pos + 1 < nreq);
  }  // for each life

  // ---- final teardown (pending contexts first: a Context must not outlive its server)
  stage_fn = nullptr;
  deferred.clear();
  while (!held.empty()) { held.back().ctx.reset(); held.pop_back(); }
  srv->cleanup();
  srv.reset();
  if (open_cfd >= 0) ::close(open_cfd);
  vloop::passes(loop.get(), 3);    // deferred deletions queued by the server / connections
  loop.reset();
  ::unlink(path);
  info.cls_if(carried_released_later, "contexts_of_an_earlier_life_released_in_a_later_life");
  return err;
}

// ================================================================================================ generators
#ifndef VERIF_ENGINE_FUZZ
Op mk(int code, std::vector<int64_t> a) { Op o; o.code = code; o.a = std::move(a); return o; }

void gen_req_common(Rng &g, std::vector<int64_t> &a, int64_t kind) {
  int64_t blen = g.pick({{3, 0}, {4, -1}, {2, -2}, {1, -3}});
  if (blen == -1) blen = g.in(1, 20); else if (blen == -2) blen = g.in(21, 300); else if (blen == -3) blen = g.in(301, 3000);
  a = {g.in(0, 6), kind, g.pick({{2, 0}, {6, -1}}) == 0 ? g.in(0, 3) * 8 : g.in(0, 127), g.in(0, 1 << 30),
       g.pick({{2, 0}, {3, 1}, {3, 2}, {2, 3}, {1, 4}, {1, 5}, {1, 6}}), g.in(0, 1 << 30), blen, g.in(0, 5), g.in(0, 1 << 30)};
}
// an incomplete last request (see build_tail); mostly lengths just below 2^64
void gen_tail(Rng &g, std::vector<Op> &v) {
  v.push_back(mk(TAIL, {g.pick({{3, 1}, {4, 2}, {2, 3}, {2, 4}}), g.in(0, 400), g.pick({{5, 0}, {3, -1}}) == 0 ? 0 : g.in(1, 7), g.pick({{3, 0}, {2, 3}, {3, -1}}) < 0 ? g.in(1, 12) : g.in(0, 3)}));
}
void gen_cuts(Rng &g, std::vector<Op> &v, int nreq, int maxcuts) {
  int nc = (int)g.in(0, maxcuts);
  for (int i = 0; i < nc; ++i)
    v.push_back(mk(CUT, {g.pick({{2, 0}, {4, 1}, {4, 2}, {4, 3}, {3, 4}, {2, 5}, {1, 6}}), g.in(0, nreq - 1), g.in(0, 4000), g.pick({{6, 0}, {2, 1}, {1, -1}}) < 0 ? g.in(2, 5) : g.in(0, 1)}));
}

Scenario expand_segmentation(int64_t seed) {
  Rng g((uint64_t)seed);
  Scenario sc; auto &v = sc.ops;
  int nreq = (int)g.pick({{2, 1}, {3, 2}, {3, 3}, {2, 4}, {1, 5}, {1, 6}});
  v.push_back(mk(CFG, {g.pick({{6, 0}, {2, 1}, {2, 2}}), g.in(1, 64)}));
  for (int i = 0; i < nreq; ++i) { std::vector<int64_t> a; gen_req_common(g, a, g.in(0, kMaxKind)); v.push_back(mk(REQ, a)); }
  bool tail = g.chance(25);
  if (tail) gen_tail(g, v);
  gen_cuts(g, v, nreq, tail && g.chance(60) ? 3 : 14);
  return sc;
}

// one life of the server object: a connection with its pipeline (requests, optional incomplete tail, cuts)
void gen_pipeline_life(Rng &g, std::vector<Op> &v, int nst, bool later_life) {
  int nreq = later_life ? (int)g.pick({{3, 1}, {3, 2}, {2, 3}, {1, 4}}) : (int)g.pick({{1, 1}, {2, 2}, {3, 3}, {4, 4}, {3, 5}, {3, 6}});
  int close_pos = g.chance(30) ? -1 : (nreq >= 4 && g.chance(60)) ? (int)g.in(2, nreq - 2) : (g.chance(60) && nreq > 1) ? (int)g.in(0, nreq - 2) : (int)g.in(0, nreq - 1);
  bool all_sync = g.chance(10);
  for (int i = 0; i < nreq; ++i) {
    std::vector<int64_t> a;
    int64_t kind = (close_pos >= 0 && i == close_pos) ? g.in(3, 6) : (close_pos >= 0 && i > close_pos) ? g.in(0, kMaxKind) : g.pick({{3, 0}, {3, 1}, {3, 2}, {2, 7}});
    gen_req_common(g, a, kind);
    if (a[6] > 300 && g.chance(70)) a[6] = g.in(0, 40);
    int64_t k = all_sync ? 0 : g.pick({{4, 0}, {5, -1}, {2, -2}, {1, 41}});
    if (k == -1) k = g.in(1, 6); else if (k == -2) k = g.in(7, 40);
    int64_t rs = g.pick({{3, 0}, {5, -1}, {2, -2}, {2, -3}});
    if (rs == -1) rs = g.in(1, 300); else if (rs == -2) rs = g.in(301, 70000); else if (rs == -3) rs = g.in(70001, 200 * 1024); else rs = 0;
    if (later_life && rs > 70000 && g.chance(60)) rs = g.in(0, 2000);
    a.push_back(k); a.push_back(rs); a.push_back(g.in(0, 7));
    // handler chain: action and delay digit per stage (see run_pipeline)
    int64_t acts = 0, delays = 0, mul6 = 1, mul8 = 1;
    bool plain_chain = g.chance(30);    // every stage passes on inside the callback, the last one answers
    for (int st = 0; st < 4; ++st) {
      int64_t x = plain_chain ? 0 : st + 1 < nst ? g.pick({{5, 0}, {1, 1}, {3, 2}, {3, 3}, {1, 4}}) : g.pick({{24, 0}, {1, 2}, {1, 3}, {1, 5}});
      acts += x * mul6; mul6 *= 6;
      delays += g.pick({{3, 0}, {2, 1}, {1, -1}}) < 0 ? g.in(2, 7) * mul8 : g.in(0, 1) * mul8; mul8 *= 8;
    }
    a.push_back(acts); a.push_back(delays);
    v.push_back(mk(REQ, a));
  }
  bool tail = g.chance(close_pos < 0 ? 45 : 10);
  if (tail && g.chance(22)) v.push_back(mk(TAIL, {5, g.in(0, 400), 0, 0}));   // complete request with a non-origin-form target
  else if (tail) gen_tail(g, v);
  gen_cuts(g, v, nreq, later_life ? 4 : 8);
}

Scenario expand_pipeline(int64_t seed) {
  Rng g((uint64_t)seed);
  Scenario sc; auto &v = sc.ops;
  const int nst = (int)g.pick({{3, 1}, {4, 2}, {2, 3}, {1, 4}});
  v.push_back(mk(CFG, {g.pick({{7, 0}, {1, 1}, {2, 2}}), g.in(1, 64), nst - 1, g.pick({{2, 0}, {1, 1}, {1, 2}}),
                       g.pick({{1, 1}, {2, -1}, {2, -2}}) , g.in(0, 60), g.in(0, 30)}));
  if (v.back().a[4] == -1) v.back().a[4] = g.in(2, 4096); else if (v.back().a[4] == -2) v.back().a[4] = g.in(4097, 65536);
  // 1-3 lives of the one Server object; `life kind early flags gap`: kind 0 = cleanup() + initialize() + use() + start(),
  // 1 = stop() + start(); early > 0 = the previous life is cut short at that pass (handlers may still be pending);
  // flags bit0 = pending contexts are carried into this life, bit1 = the client closes before the server is stopped,
  // bit2 = with two loop passes in between; gap = loop passes between stop()/cleanup() and the restart
  const int nlives = (int)g.pick({{11, 1}, {6, 2}, {3, 3}});
  for (int l = 0; l < nlives; ++l) {
    if (l > 0) v.push_back(mk(LIFE, {g.pick({{3, 0}, {2, 1}}), g.pick({{1, 0}, {1, -1}}) < 0 ? g.in(1, 25) : 0, g.in(0, 7), g.pick({{2, 0}, {1, -1}}) < 0 ? g.in(1, 3) : 0}));
    gen_pipeline_life(g, v, nst, l > 0);
  }
  return sc;
}

// parser_total, rapidcheck side: well-formed pipeline -> damage -> segments
Scenario expand_total(int64_t seed) {
  Rng g((uint64_t)seed);
  int nreq = (int)g.in(1, 3);
  std::string w;
  std::vector<size_t> marks;     // interesting cut positions
  std::vector<std::pair<size_t, size_t>> where;   // (start, head length) of every request
  for (int i = 0; i < nreq; ++i) {
    std::vector<int64_t> a; gen_req_common(g, a, g.in(0, 5));
    if (a[6] > 64) a[6] = g.in(0, 64);
    MReq m = build_request(mk(REQ, a), i, false);
    where.push_back({w.size(), m.body_off});
    for (size_t x : m.crlf) marks.push_back(w.size() + x + 1);
    marks.push_back(w.size() + 1 + (size_t)g.in(0, (int64_t)m.mlen - 1));
    marks.push_back(w.size() + m.body_off);
    w += m.wire;
  }
  static const char *bad_numbers[] = {"abc", "", " ", "-1", "-5", "99999999999999999999", "4294967296", "2147483648", "2147483647", "0x10", "1e3", "+3", "3 3", "3x",
                                      "18446744073709551615", "18446744073709551616", "9223372036854775808", "00000000000000000000000000000000000003", "\xd9\xa3", "٣٤"};
  int nm = (int)g.pick({{1, 0}, {4, 1}, {3, 2}, {2, 3}, {1, 5}});
  // A fifth of the cases: a syntactically valid head with an extreme Content-Length - boundary values of 32/63/64 bit
  // arithmetic, and values just below 2^64 chosen relative to the length of this very head (2^64 - head length, 2^64 - k
  // for k up to a little more than the head length), with leading zeros / plus sign / >= 2^64 variants.  Mostly
  // without further damage and often unsegmented, so that head and length test meet in one parse() call.
  // An eighth of the cases: the target of one request is replaced by one that is not in origin-form (absolute-form with
  // / without path, "://" alone, several "://", empty authority, "*", authority-form ...), mostly without other damage.
  auto replace_target = [&](size_t from) {
    size_t sp = w.find(' ', from), sp2 = sp == std::string::npos ? sp : w.find(' ', sp + 1);
    if (sp2 != std::string::npos) w.replace(sp + 1, sp2 - sp - 1, hostile_target((uint64_t)g.in(0, 1 << 20)));
  };
  if (g.chance(12)) { replace_target(where[(size_t)g.in(0, nreq - 1)].first); nm = g.chance(75) ? 0 : 1; }
  bool extreme = g.chance(20);
  if (extreme) {
    auto &rq = where[(size_t)g.in(0, nreq - 1)];
    size_t c = w.find("Content-Length:", rq.first), e = c == std::string::npos ? c : w.find("\r\n", c);
    if (e != std::string::npos) {
      size_t vbeg = c + 15, oldlen = e - vbeg;
      std::string lead = g.chance(70) ? " " : g.chance(50) ? "" : "  ";
      std::string zeros = g.chance(25) ? std::string((size_t)g.in(1, 6), '0') : "";
      size_t head = rq.second - oldlen + lead.size() + zeros.size() + 20;      // head length with a 20-digit value
      std::string val;
      switch (g.pick({{4, 0}, {4, 1}, {2, 2}, {3, 3}})) {
        case 0: val = dec_u64((uint64_t)0 - (uint64_t)head); break;
        case 1: val = dec_u64((uint64_t)0 - (uint64_t)g.in(1, (int64_t)head + 40)); break;
        case 2: { size_t line = e + 2 - w.rfind("\r\n", c) - 2; val = dec_u64((uint64_t)0 - (uint64_t)(g.chance(50) ? line + 2 : head - (size_t)g.in(0, (int64_t)std::min<size_t>(head - 1, 30)))); break; }
        default: { static const char *c3[] = {"0", "1", "2147483647", "2147483648", "4294967295", "4294967296", "4294967297", "9007199254740993", "9223372036854775807", "9223372036854775808",
                                              "9999999999999999999", "10000000000000000000", "18446744073709551614", "18446744073709551615", "18446744073709551616", "18446744073709551617",
                                              "36893488147419103232", "100000000000000000000", "+5", "+0", "+18446744073709551600"};
                   val = c3[g.in(0, 20)]; break; }
      }
      w.replace(vbeg, oldlen, lead + zeros + val);
      nm = g.chance(80) ? 0 : 1;
    }
  }
  for (int k = 0; k < nm && !w.empty(); ++k) {
    size_t at = (size_t)g.in(0, (int64_t)w.size() - 1);
    switch (g.pick({{5, 0}, {4, 1}, {2, 2}, {1, 3}, {2, 4}, {3, 5}, {3, 6}, {2, 7}, {3, 8}, {3, 9}})) {
      case 9: replace_target(g.chance(60) ? 0 : at); break;
      case 0: { size_t c = w.find("Content-Length:", g.chance(50) ? 0 : at); if (c == std::string::npos) c = w.find("Content-Length:");
                if (c != std::string::npos) { size_t e = w.find("\r\n", c); if (e != std::string::npos) w.replace(c + 15, e - c - 15, std::string(g.chance(70) ? " " : "") + bad_numbers[g.in(0, 19)]); } break; }
      case 1: { static const char sp[] = {' ', '\r', '\n', ':', '%', 0, (char)0xff, '/', ';', '?', '#', '=', '&', '\t'}; w[at] = g.chance(60) ? sp[g.in(0, 13)] : (char)g.in(0, 255); break; }
      case 2: w.erase(at, (size_t)g.in(1, 12)); break;
      case 3: w.insert(at, w.substr(at, (size_t)g.in(1, 40))); break;
      case 4: w.resize(at); break;
      case 5: { size_t sp = w.find(' '); if (sp != std::string::npos) { static const char *bad[] = {"%zz", "%", "%4", "%%", "%G0", ";", ";=", ";a", "?", "?=", "?a", "?a=b&", "#", "%00", ";a=b;", "?a=b=c"}; w.insert(sp + 2 <= w.size() ? sp + 2 : sp + 1, bad[g.in(0, 15)]); } break; }
      case 6: { size_t sp = w.find(' '); if (sp != std::string::npos && sp < 10) { static const char *bad[] = {"get", "GE", "G", "", "GETT", "PATCH", "CONNECT", " GET", "GET\t", "POS", "\r\nGET"}; w.replace(0, sp, bad[g.in(0, 10)]); } break; }
      case 7: { size_t c = w.find("HTTP/"); if (c != std::string::npos) { static const char *bad[] = {"HTTP/1.2", "HTTP/", "HTTX/1.1", "HTTP/2.0", "http/1.1", "HTTP/1.1 ", "HTTP/11"}; w.replace(c, 8, bad[g.in(0, 6)]); } break; }
      default: { size_t c = w.find("\r\n", at); if (c != std::string::npos) { static const char *bad[] = {"NoColon", "Empty:", "Spaces:   ", ": novalue", ":", " : ", "A:b\rC:d", "Content-Length: 1\r\nContent-Length: 2", "\r", "\n", " "}; w.insert(c + 2, std::string(bad[g.in(0, 10)]) + "\r\n"); } break; }
    }
  }
  std::set<size_t> cuts;
  switch (extreme && g.chance(55) ? 0 : g.pick({{2, 0}, {2, 1}, {3, 2}, {4, 3}})) {
    case 0: break;
    case 1: for (size_t c = 1; c < w.size(); ++c) cuts.insert(c); break;
    case 2: { size_t c = 0; while (c < w.size()) { c += (size_t)g.in(1, 24); cuts.insert(c); } break; }
    default: { int n = (int)g.in(1, 6); for (int i = 0; i < n; ++i) cuts.insert(g.chance(70) && !marks.empty() ? marks[g.in(0, (int64_t)marks.size() - 1)] : (size_t)g.in(1, (int64_t)w.size())); break; }
  }
  Scenario sc; size_t from = 0;
  auto emit = [&](size_t to) { if (to <= from || to > w.size()) return; Op op; op.code = SEG; for (size_t i = from; i < to; ++i) op.a.push_back((unsigned char)w[i]); sc.ops.push_back(std::move(op)); from = to; };
  for (auto c : cuts) emit(c);
  emit(w.size());
  return sc;
}

// generic shrinking on the op list: drop chunks / single ops, zero single arguments
rc::Gen<Scenario> shrinkable(rc::Gen<Scenario> base, bool bytes) {
  return rc::gen::shrink(std::move(base), [bytes](const Scenario &s) {
    std::vector<Scenario> out;
    // bounded shrinking effort: this function runs once per accepted shrink step; a counter-example that is still
    // not minimal after 400 steps is reported as it is (a process only ever shrinks one failure)
    static int accepted_steps = 0;
    if (++accepted_steps > 400) return rc::seq::fromContainer(std::move(out));
    size_t n = s.ops.size();
    for (size_t chunk = n / 2; chunk >= 1; chunk /= 2) {
      for (size_t at = 0; at + chunk <= n; at += chunk) {
        Scenario t; t.ops.reserve(n - chunk);
        for (size_t i = 0; i < n; ++i) if (i < at || i >= at + chunk) t.ops.push_back(s.ops[i]);
        out.push_back(std::move(t));
      }
      if (chunk == 1) break;
    }
    if (bytes) {
      // merge neighbouring segments, drop byte ranges inside a segment
      for (size_t i = 0; i + 1 < n; ++i) { Scenario t; for (size_t k = 0; k < n; ++k) { if (k == i + 1) { auto &d = t.ops.back().a; d.insert(d.end(), s.ops[k].a.begin(), s.ops[k].a.end()); } else t.ops.push_back(s.ops[k]); } out.push_back(std::move(t)); }
      for (size_t i = 0; i < n; ++i) {
        size_t m = s.ops[i].a.size();
        for (size_t chunk = m / 2; chunk >= 1; chunk /= 2) {
          for (size_t at = 0; at + chunk <= m && out.size() < 4000; at += chunk) { Scenario t = s; auto &d = t.ops[i].a; d.erase(d.begin() + at, d.begin() + at + chunk); out.push_back(std::move(t)); }
          if (chunk == 1) break;
        }
      }
    } else {
      for (size_t i = 0; i < n; ++i)
        for (size_t k = 0; k < s.ops[i].a.size(); ++k) {
          // 0, v/2, v - v/4, v - v/8, ..., v - 1: the first candidate that still fails is the smallest one beyond the
          // threshold, so an argument converges in O(log v) accepted steps (a plain "v - 1" candidate made the shrinker
          // walk down a 200 KiB response size one byte at a time: thousands of steps on a tree with a size-dependent fault)
          int64_t v = s.ops[i].a[k];
          if (v == 0) continue;
          { Scenario t = s; t.ops[i].a[k] = 0; out.push_back(std::move(t)); }
          if (v < 0) continue;
          for (int64_t d = v / 2; d >= 1; d /= 2) { Scenario t = s; t.ops[i].a[k] = v - d; out.push_back(std::move(t)); }
        }
    }
    return rc::seq::fromContainer(std::move(out));
  });
}
rc::Gen<Scenario> from_seed(Scenario (*expand)(int64_t), bool bytes) {
  return shrinkable(rc::gen::map(rc::gen::noShrink(range(0, (int64_t)1 << 62)), expand), bytes);
}
#endif

SubDef def_total = [] {
  SubDef d; d.name = "parser_total";
  d.op_names = {"cfg", "req", "cut", "seg", "tail", "life"};
  d.op_arity = {0, 0, 0, 8, 0, 0};
  d.nt_rule = "the stream was fed in >= 2 segments and the parser got past the start line of a request";
  d.run = run_total;
  d.decode = decode_total;
#ifndef VERIF_ENGINE_FUZZ
  d.gen = [] { return from_seed(expand_total, true); };
#endif
  return d;
}();
VERIF_REGISTER(&def_total);

SubDef def_seg = [] {
  SubDef d; d.name = "segmentation";
  d.op_names = {"cfg", "req", "cut", "seg", "tail", "life"};
  d.op_arity = {2, 9, 4, 0, 4, 0};
  d.nt_rule = "some cut falls inside a method name or inside the header block (header name, header line or between CR and LF)";
  d.run = run_segmentation;
#ifndef VERIF_ENGINE_FUZZ
  d.gen = [] { return from_seed(expand_segmentation, false); };
#endif
  return d;
}();
VERIF_REGISTER(&def_seg);

SubDef def_pipe = [] {
  SubDef d; d.name = "pipeline";
  d.op_names = {"cfg", "req", "cut", "seg", "tail", "life"};
  d.op_arity = {7, 14, 4, 0, 4, 4};
  d.nt_rule = ">= 3 pipelined requests answered, handlers completed out of request order, and a closing request (Connection: close / HTTP/1.0) that is not the last request sent";
  d.run = run_pipeline;
#ifndef VERIF_ENGINE_FUZZ
  d.gen = [] { return from_seed(expand_pipeline, false); };
#endif
  return d;
}();
VERIF_REGISTER(&def_pipe);

}  // namespace
