_LIBS = ["http", "network", "log", "eventx", "event", "util", "base"]
# same ASan settings as the driver's defaults (small malloc contexts: librapidcheck has no frame pointers)
_ASAN = "detect_leaks=1:detect_stack_use_after_return=0:allocator_may_return_null=1:handle_abort=0:symbolize=1:malloc_context_size=4:quarantine_size_mb=32"
TARGETS = {
    "c12_http_rc":   {"src": "C12/http.cpp", "variant": "asan", "engine": "rc",   "libs": _LIBS},
    "c12_http_fuzz": {"src": "C12/http.cpp", "variant": "asan", "engine": "fuzz", "libs": _LIBS},
}
PROP = {
    "subchecks": [
        {"target": "c12_http_fuzz", "sub": "parser_total", "dict": "harness/C12/http.dict",
         "quick": {"runs": 70000, "max_len": 700, "workers": 4, "unit_timeout": 60},
         "thorough": {"runs": 1000000, "max_len": 1200, "workers": 4, "unit_timeout": 60}},
        {"target": "c12_http_rc", "sub": "parser_total", "env": {"ASAN_OPTIONS": _ASAN},
         "quick": {"cases": 25000, "max_size": 100, "workers": 2},
         "thorough": {"cases": 1200000, "max_size": 100, "workers": 3}},
        {"target": "c12_http_rc", "sub": "segmentation", "env": {"ASAN_OPTIONS": _ASAN},
         "quick": {"cases": 9000, "max_size": 100, "workers": 4},
         "thorough": {"cases": 500000, "max_size": 100, "workers": 4}},
        {"target": "c12_http_rc", "sub": "pipeline", "env": {"ASAN_OPTIONS": _ASAN},
         "quick": {"cases": 2000, "max_size": 100, "workers": 6, "case_alarm": 120},
         "thorough": {"cases": 120000, "max_size": 100, "workers": 5, "case_alarm": 300}},
    ],
    "assumptions": [
        "only canonical header spellings are generated (Content-Length, Connection, lower-case close/keep-alive): the code matches case-sensitively and the statement speaks of declared body lengths; every generated request declares its length",
        "request targets use ';params' '?query' '#fragment' in that order with every delimiter character inside a component percent-encoded; '+' is never sent raw; header names are distinct tokens, values non-empty",
        "the client never half-closes its side and reads until the server closes; ECONNRESET is accepted as 'connection closed' (kernel behaviour when the server closes with unread client data queued)",
        "left free: number of loop passes between cause and effect, whether requests behind the closing one reach a handler, whether the connection stays open without a closing request, response header layout",
        "stop()/cleanup() are called between loop passes, never from inside a callback; use() is repeated after cleanup() only (stop()/start() keeps the registered callbacks); kept NextFuncs of a life that ends are dropped without being called",
        "every handler eventually completes (contexts and kept NextFuncs are released before the server is destroyed); a stage of a handler chain calls next() at most once per request",
        "the incomplete last request declares a valid decimal Content-Length below 2^64-1 (so a correct parser waits for ever and the connection is not dropped); Content-Length values >= 2^64-1, signs and the like only go to the parser-level sub-check",
    ],
}
META = {
    "design_ref": "DESIGN.md section 4, C12",
    "technique": "coverage-guided fuzzing (libFuzzer) and grammar-plus-damage PBT of the request parser through a copy of the server's receive path; grammar-based PBT (rapidcheck) of segmentation independence against the generated request model; model-based PBT of a real http::server::Server over a unix-domain socket with a raw in-thread client driven pass by pass (virtual clock), under ASan/UBSan",
    "level_text": "(a) arbitrary and damaged byte streams in arbitrary segmentations are fed to RequestParser exactly as Server::Impl::onTcpReceived does (exact-size heap copies per call): no exception, no sanitizer report, consumed <= given, no stage advance without consumption, termination, and for every request reported complete: the bytes consumed for it are its head followed by exactly its body, and the body has exactly the number of bytes a decimal Content-Length declares (heads with extreme Content-Length values relative to their own length are generated on purpose). (b) generated pipelines of 1-6 well-formed requests (7 methods, targets with params/query/fragment and percent-escapes, HTTP/1.0 and 1.1, 0-6 headers with optional whitespace, canonical Content-Length, bodies of arbitrary bytes incl. CRLFCRLF and request-like text) are parsed unsegmented and under a generated segmentation (down to single bytes; cuts inside methods, CRLFs, header names, at the blank line) and both results are compared field by field with the generated model. (c) the same pipelines are sent over a unix-domain socket to a real Server whose handlers complete inside the callback, up to 40 loop passes later or inside the next hand-over, in generated order, through handler chains of 1-4 Server::use() stages that answer, call next() inside the callback, or keep the NextFunc (with or without the context) and call it 1-8 passes later, with response bodies up to 200 KiB and paced client reads; optionally followed by an incomplete request whose valid decimal Content-Length (around 2^31/2^32/2^63, 2^64-k for k around the head length) can never be satisfied and which must never be handed over or answered; a case has 1-3 lives of the one Server object (cleanup() + initialize() + use() + start(), or stop() + start()), each with its own connection and pipeline and the same oracle, an earlier life may be cut short with handlers pending whose contexts are released in a later life (their responses must be dropped, nothing of them may reach the later connection), the client closes before or after the server stops; the client byte stream must parse into exactly the responses 0..N-1 in request order (id echo, length, body pattern), nothing may follow the response to the first closing request and the client must then see the end of the stream. Exploration only: no counter-example among N generated cases.",
    "level_note": "Trusted: the request grammar/model and the tolerant client-side response parser in harness/C12/http.cpp, the kernel's unix-socket semantics (TIOCOUTQ is used to make generated cut points the server's receive boundaries), ASan/UBSan. Not covered: non-canonical header spellings, requests without Content-Length, chunked encoding, client half-close, several simultaneous connections, TCP transport (unix-domain sockets only), write errors.",
}
