// C11 — shared by module_tree.cpp (subs `tree`, `exhaustive_small`) and main_runner.cpp (sub `main_runner`):
// tree specification, probe module (records every user hook in a global log), tree builder and the ORACLE.
//
// The oracle is a set of invariants over the hook log (no reference trace), so that every repair of
// the library that satisfies the property statement passes (e.g. "roll back on failure" as well as
// "remember the half-initialised state and clean it up on cleanup()"):
//
//  R  per node the hook events match  (init_ok (start_ok stop | start_fail)* cleanup | init_fail)*
//     and the match is complete once the tree has been cleaned up and destroyed (balance);
//  L  nesting: successful-init epochs [init_ok..cleanup] of all nodes are closed in LIFO order, and so are
//     the successful-start epochs [start_ok..stop]  ("stop/cleanup in exactly the reverse order");
//  T  tear-down order ("stop and cleanup run in exactly the reverse order" of init...start = ALL stops, then ALL cleanups):
//     no module's onCleanup runs while one of its ancestors still has an open start epoch (children are never cleaned
//     up below a running ancestor), and within one cleanup() call on the root / destruction / Main() phase no onStop
//     runs after an onCleanup.  Roll-backs stay green: a roll-back inside initialize() only cleans up below ancestors
//     that are not started, a roll-back inside start() only stops;
//  D  end of life (round 3): the root is destroyed from whatever state the call sequence left it in, with or without a
//     final cleanup().  ~Module() must then stop and clean up the tree itself: all the invariants above hold during the
//     destruction as well, no non-root module may be destroyed while one of its successful hooks is unmatched, and the
//     balance R must hold afterwards.  Only the ROOT's own hooks are exempt when the root is destroyed with open epochs
//     (C++: ~Module() cannot reach the hooks of the derived object that is being destroyed); with a plain-Module root
//     (`plainroot`) nothing is exempt;
//  N  a child's init/cleanup hook runs only while its parent has an open init epoch, a child's start/stop
//     hook only while its parent has an open start epoch ("parent before children, children before parent");
//  F  within one call on the root the init hooks (and the start hooks) that run, run in pre-order
//     (parent first, children in registration order);
//  O  for every node whose own init (start) hook succeeded in a call, every child (that can take part in
//     that phase) has its hook run as long as no earlier REQUIRED sibling failed - so an optional module's
//     failure never stops its siblings; "failed" is computed bottom-up from the recorded hook results
//     (own hook failed, config field missing, or a required child failed);
//  V  return value of initialize()/start() on the root: false iff the root failed in that sense; true only
//     if the root really has an outstanding successful init (start) afterwards;
//  P  progress: initialize() on a clean root runs its onInit, start() on an initialised root runs its
//     onStart, after stop() the root is not started, after cleanup() it is not initialised;
//  S  after every call, state() of every node agrees with the phase implied by its hook log.
#pragma once
#include <nlohmann/json.hpp>   // first include: see HARNESS-GUIDE (clang + util/variables.h)
#include "../common/verif.h"
#include <tbox/base/json.hpp>
#include <tbox/main/module.h>
#include <memory>
#include <mutex>
#include <pthread.h>
#include <time.h>

namespace c11 {
using tbox::Json;
using tbox::main::Module;
using tbox::main::Context;

enum EvKind { INIT_OK, INIT_FAIL, START_OK, START_FAIL, STOP, CLEANUP, DTOR, EVKINDS };
inline const char *ev_name(int k) {
  static const char *n[] = {"onInit=true", "onInit=false", "onStart=true", "onStart=false", "onStop", "onCleanup", "~dtor"};
  return (k >= 0 && k < EVKINDS) ? n[k] : "?";
}
struct Ev { int node; int kind; int seg; };

enum CallKind { C_INIT, C_START, C_STOP, C_CLEANUP, C_DESTROY, C_WHOLE /* main_runner: everything Main() did */ };
inline const char *call_name(int k) {
  static const char *n[] = {"initialize()", "start()", "stop()", "cleanup()", "destruction", "Main()"};
  return (k >= 0 && k <= C_WHOLE) ? n[k] : "?";
}

// namemode: 0 unnamed, 1 named (constructor), 2 named through addAs(), 3 named and the config field is missing
// init/start: 0 hook returns true, 1 returns false, 2 returns false on the first attempt only
// stop_ms / cleanup_ms: how long onStop / onCleanup take (real runners only: hooks that flush, wait for a worker, ...)
struct NodeSpec { int parent = -1; bool optional = false; int namemode = 0; int init = 0; int start = 0; int stop_ms = 0; int cleanup_ms = 0; };
struct TreeSpec {
  std::vector<NodeSpec> nodes;   // nodes[0] is the root; parent < own index
  bool fillcfg = false;          // build the config with fillDefaultConfig() (as Main() does) instead of by hand
  bool plain_root = false;       // the root is a plain tbox::main::Module without hooks (like Main()'s `apps`), not a probe
  bool no_final_cleanup = false; // end of life: destroy the root right after the last call, WITHOUT the final cleanup()
  bool cfg_missing(int i) const { return !fillcfg && nodes[i].namemode == 3; }
};

// Makes any spec legal for Module::add(): two children of one parent must not have equal names, and that
// includes two unnamed ones (add() refuses them) - a second unnamed child is turned into a named one.
inline void normalise(TreeSpec &t) {
  std::vector<char> has_unnamed(t.nodes.size(), 0);
  for (size_t i = 0; i < t.nodes.size(); ++i) {
    NodeSpec &n = t.nodes[i];
    if (i == 0) { n.parent = -1; n.optional = false; if (n.namemode == 2) n.namemode = 1; continue; }
    if (n.namemode == 0) { if (has_unnamed[n.parent]) n.namemode = 1; else has_unnamed[n.parent] = 1; }
  }
}

struct World;
class Probe;

// Stream records of the real-runner child (3 bytes: node, kind, thread index): hook events as in the log, plus
// kHookEnter+h when a hook starts executing and kHookLeave when it returns (entry AND exit, with the thread).
enum HookType { H_INIT, H_START, H_STOP, H_CLEANUP };
const unsigned char kHookEnter = 110, kHookLeave = 120;

struct World {
  std::vector<Ev> log;
  int seg = 0;
  int out_fd = -1;                                // real-runner child: stream the records to the parent
  std::function<void(Probe &)> on_start_ok;
  std::mutex mu;                                  // (child only) hooks may arrive from the loop thread as well
  std::vector<pthread_t> threads;
  void emit(int node, int kind) {
    if (out_fd < 0) { log.push_back(Ev{node, kind, seg}); return; }
    std::lock_guard<std::mutex> g(mu);
    log.push_back(Ev{node, kind, seg});
    send(node, kind);
  }
  void enter(int node, int hook) { if (out_fd >= 0) { std::lock_guard<std::mutex> g(mu); send(node, kHookEnter + hook); } }
  void leave(int node) { if (out_fd >= 0) { std::lock_guard<std::mutex> g(mu); send(node, kHookLeave); } }
  void mark(int kind, int value = 0) { std::lock_guard<std::mutex> g(mu); send(value, kind); }
  static void nap(int ms) { if (ms > 0) { struct timespec ts = {ms / 1000, (long)(ms % 1000) * 1000000L}; while (nanosleep(&ts, &ts) != 0 && errno == EINTR) {} } }
 private:
  void send(int node, int kind) {   // mu held
    pthread_t me = pthread_self(); size_t ti = 0;
    while (ti < threads.size() && !pthread_equal(threads[ti], me)) ++ti;
    if (ti == threads.size()) threads.push_back(me);
    unsigned char b[3] = {(unsigned char)node, (unsigned char)kind, (unsigned char)ti};
    ssize_t r = ::write(out_fd, b, 3); (void)r;
  }
};

// All accessors return nullptr: Module only stores the reference and hands it out through ctx() (checked by
// reading module.cpp: ctx_ is never dereferenced).
class DummyCtx : public Context {
 public:
  tbox::event::Loop *loop() const override { return nullptr; }
  tbox::eventx::ThreadPool *thread_pool() const override { return nullptr; }
  tbox::eventx::TimerPool *timer_pool() const override { return nullptr; }
  tbox::eventx::Async *async() const override { return nullptr; }
  tbox::terminal::TerminalNodes *terminal() const override { return nullptr; }
  tbox::coroutine::Scheduler *coroutine() const override { return nullptr; }
  std::chrono::milliseconds running_time() const override { return std::chrono::milliseconds(0); }
  std::chrono::system_clock::time_point start_time_point() const override { return std::chrono::system_clock::time_point(); }
};

class Probe : public Module {
 public:
  Probe(World &w, int idx, const NodeSpec &s, const std::string &name, Context &ctx)
      : Module(name, ctx), w_(w), idx_(idx), init_(s.init), start_(s.start), stop_ms_(s.stop_ms), cleanup_ms_(s.cleanup_ms) {}
  ~Probe() override { w_.emit(idx_, DTOR); }
  int idx() const { return idx_; }

 protected:
  static bool outcome(int mode, int attempt) { return mode == 0 || (mode == 2 && attempt > 0); }
  void onFillDefaultConfig(Json &js) override { js["probe"] = idx_; }
  bool onInit(const Json &) override {
    w_.enter(idx_, H_INIT);
    bool ok = outcome(init_, init_attempts_++);
    w_.emit(idx_, ok ? INIT_OK : INIT_FAIL);
    w_.leave(idx_);
    return ok;
  }
  bool onStart() override {
    w_.enter(idx_, H_START);
    bool ok = outcome(start_, start_attempts_++);
    w_.emit(idx_, ok ? START_OK : START_FAIL);
    if (ok && w_.on_start_ok) w_.on_start_ok(*this);
    w_.leave(idx_);
    return ok;
  }
  void onStop() override { w_.enter(idx_, H_STOP); w_.emit(idx_, STOP); World::nap(stop_ms_); w_.leave(idx_); }
  void onCleanup() override { w_.enter(idx_, H_CLEANUP); w_.emit(idx_, CLEANUP); World::nap(cleanup_ms_); w_.leave(idx_); }

 private:
  World &w_;
  int idx_, init_, start_, stop_ms_, cleanup_ms_;
  int init_attempts_ = 0, start_attempts_ = 0;
};

inline std::string node_name(int i) { return "n" + std::to_string(i); }

// Adds the nodes first..n-1 of the spec below already existing modules (mods[parent] must exist).
// Returns "" or a harness-level error.
inline std::string build_nodes(const TreeSpec &t, World &w, Context &ctx, std::vector<Module *> &mods, size_t first) {
  for (size_t i = first; i < t.nodes.size(); ++i) {
    const NodeSpec &n = t.nodes[i];
    Module *parent = mods[n.parent];
    bool ok;
    Probe *p;
    if (n.namemode == 2) {
      p = new Probe(w, (int)i, n, "tmp" + std::to_string(i), ctx);
      ok = parent->addAs(p, node_name((int)i), !n.optional);
    } else {
      p = new Probe(w, (int)i, n, n.namemode == 0 ? std::string() : node_name((int)i), ctx);
      ok = parent->add(p, !n.optional);
    }
    if (!ok) { delete p; return "HARNESS: add() refused node " + std::to_string(i); }
    if (n.namemode != 0 && p->name() != node_name((int)i)) return "HARNESS: unexpected module name";
    mods.push_back(p);
  }
  return "";
}

// Config in which every named node without the "missing" flag finds its field.
inline Json build_config(const TreeSpec &t) {
  Json cfg = Json::object();
  std::vector<Json *> owner(t.nodes.size(), nullptr);   // the object a node receives as js_this (std::map based: stable)
  for (size_t i = 0; i < t.nodes.size(); ++i) {
    const NodeSpec &n = t.nodes[i];
    Json *po = i == 0 ? &cfg : owner[n.parent];
    if (!po) continue;
    if (n.namemode == 0) owner[i] = po;
    else if (n.namemode == 3) owner[i] = nullptr;
    else { Json &j = (*po)[node_name((int)i)]; j = Json::object(); owner[i] = &j; }
  }
  return cfg;
}

// ---------------------------------------------------------------------------------------------------------
struct Flags {   // what a case exercised (class labels / non-trivial rule)
  bool req_fail_after_ok_sibling_init = false, req_fail_after_ok_sibling_start = false;
  bool opt_halfway_init = false, opt_halfway_start = false;
  bool opt_fail_then_sibling_continues = false;
  bool cfg_missing_hit = false, retry_succeeds = false, reinit_after_cleanup = false, reached_running = false;
  bool noop_call = false, call_failed = false;
  int destroyed_from = -1;                 // state of the root (by its log / state()) when it was destroyed without final cleanup()
  bool teardown_of_running_tree = false;   // cleanup()/destruction of a started tree without an explicit stop()
  bool nontrivial() const { return req_fail_after_ok_sibling_init || req_fail_after_ok_sibling_start || opt_halfway_init || opt_halfway_start; }
};

class Oracle {
 public:
  enum { NONE, INITED, RUNNING };
  // silent_root: node 0 is a plain Module without hooks (the `apps` object inside Main()); its events are absent.
  Oracle(const TreeSpec &t, bool silent_root = false) : t_(t), silent_root_(silent_root) {
    size_t n = t.nodes.size();
    kids_.resize(n); pre_.assign(n, 0); st_.assign(n, NONE); dead_.assign(n, 0);
    init_ok_count_.assign(n, 0); init_attempts_.assign(n, 0);
    for (size_t i = 1; i < n; ++i) kids_[t.nodes[i].parent].push_back((int)i);
    int c = 0; preorder(0, c);
  }
  Flags flags;

  // Processes the events log[pos_..) produced by one call on the root.
  std::string after_call(const std::vector<Ev> &log, int call, bool has_ret, bool ret) {
    size_t n = t_.nodes.size();
    st_before_ = st_;
    seg_init_.assign(n, -1); seg_start_.assign(n, -1);
    int last_init_pre = -1, last_start_pre = -1;
    int cleanup_seen = -1;      // last node cleaned up in this call
    if ((call == C_CLEANUP || call == C_DESTROY) && any_running()) flags.teardown_of_running_tree = true;
    size_t first = pos_;
    for (; pos_ < log.size(); ++pos_) {
      const Ev &e = log[pos_];
      if (e.node < 0 || (size_t)e.node >= n || e.kind < 0 || e.kind >= EVKINDS) return "HARNESS: malformed event";
      int x = e.node, p = t_.nodes[x].parent;
      bool parent_silent = (silent_root_ || root_gone_) && p == 0;
      if (dead_[x]) return at(call, x, e.kind) + " after the module was destroyed";
      switch (e.kind) {
        case INIT_OK: case INIT_FAIL:
          if (t_.cfg_missing(x)) return at(call, x, e.kind) + " although its config field is missing";
          if (st_[x] != NONE) return at(call, x, e.kind) + " while a previous successful onInit is not yet matched by onCleanup";
          if (p >= 0 && !parent_silent && st_[p] == NONE) return at(call, x, e.kind) + " while its parent " + nm(p) + " has no outstanding successful onInit (parent must be initialised first)";
          if (pre_[x] <= last_init_pre) return at(call, x, e.kind) + " out of order: init hooks within one call must run parent-first, children in registration order";
          last_init_pre = pre_[x];
          if (seg_init_[x] != -1) return at(call, x, e.kind) + " twice within one call";
          seg_init_[x] = e.kind;
          if (e.kind == INIT_OK) {
            st_[x] = INITED; init_stack_.push_back(x);
            if (init_attempts_[x] > init_ok_count_[x]) flags.retry_succeeds = true;
            if (x == (silent_root_ ? -1 : 0) && init_ok_count_[x] > 0) flags.reinit_after_cleanup = true;
            init_ok_count_[x]++;
          }
          init_attempts_[x]++;
          break;
        case START_OK: case START_FAIL:
          if (st_[x] == NONE) return at(call, x, e.kind) + " without an outstanding successful onInit";
          if (st_[x] == RUNNING) return at(call, x, e.kind) + " while a previous successful onStart is not yet matched by onStop";
          if (p >= 0 && !parent_silent && st_[p] != RUNNING) return at(call, x, e.kind) + " while its parent " + nm(p) + " has no outstanding successful onStart (parent must be started first)";
          if (pre_[x] <= last_start_pre) return at(call, x, e.kind) + " out of order: start hooks within one call must run parent-first, children in registration order";
          last_start_pre = pre_[x];
          if (seg_start_[x] != -1) return at(call, x, e.kind) + " twice within one call";
          seg_start_[x] = e.kind;
          if (e.kind == START_OK) { st_[x] = RUNNING; start_stack_.push_back(x); if (x == 0) flags.reached_running = true; }
          break;
        case STOP:
          if (st_[x] != RUNNING) return at(call, x, e.kind) + " for a module that is not started (no unmatched successful onStart)";
          if (p >= 0 && !parent_silent && st_[p] != RUNNING) return at(call, x, e.kind) + " after its parent " + nm(p) + " was already stopped (children must be stopped first)";
          if (cleanup_seen >= 0 && (call == C_CLEANUP || call == C_DESTROY || call == C_WHOLE))
            return at(call, x, e.kind) + " after onCleanup of " + nm(cleanup_seen) + " in the same tear-down: a running tree must be stopped completely (reverse start order) before any module is cleaned up";
          if (start_stack_.empty() || start_stack_.back() != x)
            return at(call, x, e.kind) + " out of order: " + (start_stack_.empty() ? std::string("?") : nm(start_stack_.back())) + " was started later and is still running (stop must be the exact reverse of start)";
          start_stack_.pop_back(); st_[x] = INITED;
          break;
        case CLEANUP:
          if (st_[x] == RUNNING) return at(call, x, e.kind) + " while still started (its successful onStart was never matched by onStop)";
          if (st_[x] != INITED) return at(call, x, e.kind) + " without an unmatched successful onInit";
          for (int a = p; a >= 0; a = t_.nodes[a].parent)
            if (st_[a] == RUNNING && !(root_gone_ && a == 0)) return at(call, x, e.kind) + " while its ancestor " + nm(a) + " is still started (onStop of " + nm(a) + " has not run yet): all stops must precede all cleanups";
          cleanup_seen = x;
          if (p >= 0 && !parent_silent && st_[p] == NONE) return at(call, x, e.kind) + " after its parent " + nm(p) + " was already cleaned up (children must be cleaned up first)";
          if (init_stack_.empty() || init_stack_.back() != x)
            return at(call, x, e.kind) + " out of order: " + (init_stack_.empty() ? std::string("?") : nm(init_stack_.back())) + " was initialised later and is not yet cleaned up (cleanup must be the exact reverse of init)";
          init_stack_.pop_back(); st_[x] = NONE;
          break;
        case DTOR:
          dead_[x] = 1;
          if (st_[x] != NONE) {
            // the root's own hooks cannot be reached from ~Module() any more: its open epochs are exempt from here on
            if (x == 0 && !silent_root_) root_gone_ = true;
            else return std::string("during ") + call_name(call) + ": " + nm(x) + " was destroyed although its successful " +
                        (st_[x] == RUNNING ? "onStart was never matched by onStop (nor its onInit by onCleanup)" : "onInit was never matched by onCleanup") +
                        " - destroying the tree must stop and clean up every module below the root";
          }
          break;
      }
    }
    if (pos_ == first && call <= C_CLEANUP) flags.noop_call = true;

    // ---- O: children of every node whose own hook succeeded in this call; V: return value
    memo_i_.assign(n, -1); memo_s_.assign(n, -1);
    bool root_init_ok = silent_root_ ? has_any(seg_init_) : seg_init_[0] == INIT_OK;
    bool root_start_ok = silent_root_ ? has_any(seg_start_) : seg_start_[0] == START_OK;
    for (size_t x = 0; x < n; ++x) {
      if (seg_init_[x] == INIT_OK || (x == 0 && root_init_ok)) { std::string e = check_children(call, (int)x, true); if (!e.empty()) return e; }
      if (seg_start_[x] == START_OK || (x == 0 && root_start_ok)) { std::string e = check_children(call, (int)x, false); if (!e.empty()) return e; }
    }
    if (!silent_root_) {
      if (call == C_INIT) {
        if (st_before_[0] == NONE && !t_.cfg_missing(0) && seg_init_[0] == -1) return "initialize() on a root that is not initialised did not run the root's onInit";
        if (t_.cfg_missing(0) && st_before_[0] == NONE) flags.cfg_missing_hit = true;
        if (has_ret) {
          if (seg_init_[0] != -1) {
            bool f = failed(0, true);
            if (ret && f) return "initialize() returned true although " + why_failed(0, true);
            if (!ret && !f) return "initialize() returned false although the root's onInit and all required descendants' onInit succeeded";
          }
          if (ret && st_[0] == NONE) return "initialize() returned true but the root has no outstanding successful onInit";
          if (!ret) flags.call_failed = true;
        }
      } else if (call == C_START) {
        if (st_before_[0] == INITED && seg_start_[0] == -1) return "start() on an initialised root did not run the root's onStart";
        if (has_ret) {
          if (seg_start_[0] != -1) {
            bool f = failed(0, false);
            if (ret && f) return "start() returned true although " + why_failed(0, false);
            if (!ret && !f) return "start() returned false although the root's onStart and all required descendants' onStart succeeded";
          }
          if (ret && st_[0] != RUNNING) return "start() returned true but the root has no outstanding successful onStart";
          if (!ret) flags.call_failed = true;
        }
      } else if (call == C_STOP) {
        if (st_[0] == RUNNING) return "after stop() the root's successful onStart is still not matched by onStop";
      } else if (call == C_CLEANUP) {
        if (st_[0] != NONE) return "after cleanup() the root's successful onInit is still not matched by onCleanup";
      }
    }
    if (silent_root_ && call <= C_CLEANUP) {    // plain-Module root driven directly (subs tree / exhaustive_small)
      if (call == C_INIT && has_ret) {
        if (ret && failed(0, true)) return "initialize() returned true although " + why_failed(0, true);
        if (!ret && has_any(seg_init_) && !failed(0, true)) return "initialize() returned false although all required descendants' onInit succeeded";
        if (!ret) flags.call_failed = true;
      } else if (call == C_START && has_ret) {
        if (ret && failed(0, false)) return "start() returned true although " + why_failed(0, false);
        if (!ret && has_any(seg_start_) && !failed(0, false)) return "start() returned false although all required descendants' onStart succeeded";
        if (!ret) flags.call_failed = true;
      } else if (call == C_STOP) {
        if (any_running()) return "after stop() on the root a module still has a successful onStart that is not matched by onStop";
      } else if (call == C_CLEANUP) {
        if (any_not_none()) return "after cleanup() on the root a module still has a successful onInit that is not matched by onCleanup";
      }
    }
    return "";
  }

  // S: state() of every live node agrees with the phase implied by its hook log (called after after_call()).
  std::string check_states(int call, const std::vector<Module *> &mods) const {
    for (size_t x = 0; x < t_.nodes.size() && x < mods.size(); ++x) {
      if (dead_[x] || !mods[x] || (silent_root_ && x == 0)) continue;
      int s = (int)mods[x]->state();
      if (s != st_[x]) return "after " + std::string(call_name(call)) + ": " + nm((int)x) + ".state() is " + state_name(s) + " but its hook log implies " + state_name(st_[x]);
    }
    return "";
  }

  // After cleanup() and destruction: every successful init/start must be matched; every node destroyed.
  std::string at_end(bool expect_destroyed) const {
    for (size_t x = 0; x < t_.nodes.size(); ++x) {
      if (x == 0 && root_gone_) continue;   // see D: the destroyed root's own hooks are unreachable
      if (st_[x] == RUNNING) return nm((int)x) + ": a successful onStart was never matched by onStop (nor its onInit by onCleanup) although the tree was cleaned up and destroyed";
      if (st_[x] == INITED) return nm((int)x) + ": a successful onInit was never matched by onCleanup although the tree was cleaned up and destroyed";
      if (expect_destroyed && !(silent_root_ && x == 0) && !dead_[x]) return nm((int)x) + " was not destroyed with its parent";
    }
    return "";
  }
  int log_state(int x) const { return st_[x]; }
  // did the root fail the init (start) phase of the call just processed by after_call()?
  bool root_failed(bool init) { return failed(0, init); }

 private:
  void preorder(int x, int &c) { pre_[x] = c++; for (int k : kids_[x]) preorder(k, c); }
  bool any_running() const { for (int k : st_) if (k == RUNNING) return true; return false; }
  bool any_not_none() const { for (int k : st_) if (k != NONE) return true; return false; }
  static bool has_any(const std::vector<int> &v) { for (int k : v) if (k != -1) return true; return false; }
  std::string nm(int x) const {
    std::string s = "node " + std::to_string(x);
    if (x > 0) s += t_.nodes[x].optional ? " (optional)" : " (required)";
    return s;
  }
  std::string at(int call, int x, int kind) const { return std::string("during ") + call_name(call) + ": " + ev_name(kind) + " of " + nm(x); }
  static const char *state_name(int s) { return s == NONE ? "kNone" : s == INITED ? "kInited" : s == RUNNING ? "kRunning" : "?"; }

  // did node x fail the init (start) phase of this call?  (computed from the recorded hook results)
  bool failed(int x, bool init) {
    std::vector<int> &memo = init ? memo_i_ : memo_s_;
    if (memo[x] != -1) return memo[x];
    bool f;
    const std::vector<int> &seg = init ? seg_init_ : seg_start_;
    bool silent = silent_root_ && x == 0;
    if (init && t_.cfg_missing(x)) f = true;
    else if (!silent && seg[x] != (init ? INIT_OK : START_OK)) f = true;     // hook failed or did not run at all
    else {
      f = false;
      for (int k : kids_[x]) if (!t_.nodes[k].optional && failed(k, init)) { f = true; break; }
    }
    memo[x] = f;
    return f;
  }
  std::string why_failed(int x, bool init) {
    const std::vector<int> &seg = init ? seg_init_ : seg_start_;
    if (init && t_.cfg_missing(x)) return nm(x) + " has no config field";
    if (seg[x] == (init ? INIT_FAIL : START_FAIL)) return std::string(init ? "onInit" : "onStart") + " of " + nm(x) + " returned false";
    if (seg[x] == -1 && !(silent_root_ && x == 0)) return nm(x) + " was not " + (init ? "initialised" : "started");
    for (int k : kids_[x]) if (!t_.nodes[k].optional && failed(k, init)) return why_failed(k, init);
    return "?";
  }
  std::string check_children(int call, int x, bool init) {
    const std::vector<int> &seg = init ? seg_init_ : seg_start_;
    bool earlier_ok = false;
    for (size_t i = 0; i < kids_[x].size(); ++i) {
      int k = kids_[x][i];
      bool can_take_part = init ? !t_.cfg_missing(k) : st_before_[k] == INITED;
      if (init && t_.cfg_missing(k)) flags.cfg_missing_hit = true;
      if (can_take_part && seg[k] == -1)
        return std::string("during ") + call_name(call) + ": " + nm(k) + " never had its " + (init ? "onInit" : "onStart") + " run although its parent " + nm(x) +
               "'s hook succeeded and no earlier required sibling failed (an optional module's failure must not stop its siblings)";
      bool f = failed(k, init);
      bool own_ok = seg[k] == (init ? INIT_OK : START_OK);
      if (f && t_.nodes[k].optional) {
        if (own_ok) (init ? flags.opt_halfway_init : flags.opt_halfway_start) = true;
        if (i + 1 < kids_[x].size()) flags.opt_fail_then_sibling_continues = true;
      }
      if (f && !t_.nodes[k].optional) {
        if (earlier_ok) (init ? flags.req_fail_after_ok_sibling_init : flags.req_fail_after_ok_sibling_start) = true;
        break;   // nothing is required of the later siblings once a required one failed
      }
      if (!f) earlier_ok = true;
    }
    return "";
  }

  const TreeSpec &t_;
  bool silent_root_;
  bool root_gone_ = false;     // the (probe) root was destroyed with open epochs
  std::vector<std::vector<int>> kids_;
  std::vector<int> pre_, st_, st_before_, seg_init_, seg_start_, memo_i_, memo_s_, init_stack_, start_stack_, init_ok_count_, init_attempts_;
  std::vector<char> dead_;
  size_t pos_ = 0;
};

inline void apply_flags(const Flags &f, const TreeSpec &t, verif::CaseInfo &info) {
  info.cls_if(f.req_fail_after_ok_sibling_init, "required_fails_init_after_ok_sibling");
  info.cls_if(f.req_fail_after_ok_sibling_start, "required_fails_start_after_ok_sibling");
  info.cls_if(f.opt_halfway_init, "optional_subtree_fails_halfway_init");
  info.cls_if(f.opt_halfway_start, "optional_subtree_fails_halfway_start");
  info.cls_if(f.opt_fail_then_sibling_continues, "optional_fails_before_later_sibling");
  info.cls_if(f.cfg_missing_hit, "config_field_missing_hit");
  info.cls_if(f.retry_succeeds, "retry_after_failure_succeeds");
  info.cls_if(f.reinit_after_cleanup, "root_reinitialised");
  info.cls_if(f.reached_running, "root_reached_running");
  info.cls_if(f.noop_call, "out_of_order_or_repeated_call");
  info.cls_if(f.teardown_of_running_tree, "cleanup_of_running_tree_without_explicit_stop");
  info.cls_if(f.destroyed_from == 0, "destroyed_without_cleanup:kNone");
  info.cls_if(f.destroyed_from == 1, "destroyed_without_cleanup:kInited");
  info.cls_if(f.destroyed_from == 2, "destroyed_without_cleanup:kRunning");
  info.cls_if(t.plain_root, "plain_Module_root");
  info.cls_if(f.call_failed, "root_call_returned_false");
  info.cls_if(t.nodes.size() >= 10, "nodes>=10");
  if (f.nontrivial()) info.nontrivial = true;
}

// ---------------------------------------------------------------------------------------------------------
// One complete case against the real Module: build, run the calls on the root, cleanup(), destroy; oracle.
inline std::string run_tree_case(const TreeSpec &t, const int *calls, size_t ncalls, Flags &flags_out) {
  World w;
  DummyCtx ctx;
  std::vector<Module *> mods;
  const NodeSpec &r = t.nodes[0];
  std::string root_name = r.namemode == 0 ? std::string() : node_name(0);
  Module *root = t.plain_root ? new Module(root_name, ctx) : new Probe(w, 0, r, root_name, ctx);
  mods.push_back(root);
  std::string err = build_nodes(t, w, ctx, mods, 1);
  if (!err.empty()) { delete root; return err; }
  Json cfg;
  if (t.fillcfg) { cfg = Json::object(); root->fillDefaultConfig(cfg); } else cfg = build_config(t);

  Oracle o(t, /*silent_root=*/t.plain_root);
  std::string state_err;   // reported only if no hook-level invariant is violated (the hook log is the primary evidence)
  size_t total = t.no_final_cleanup ? ncalls : ncalls + 1;
  for (size_t k = 0; k < total && err.empty(); ++k) {
    int call = k < ncalls ? calls[k] : C_CLEANUP;   // unless `nocleanup`, the sequence ends with cleanup()
    w.seg = (int)k;
    bool has_ret = false, ret = false;
    switch (call) {
      case C_INIT: ret = root->initialize(cfg); has_ret = true; break;
      case C_START: ret = root->start(); has_ret = true; break;
      case C_STOP: root->stop(); break;
      default: call = C_CLEANUP; root->cleanup(); break;
    }
    std::string where = "call #" + std::to_string(k) + (k == ncalls ? " (final cleanup)" : "") + ": ";
    err = o.after_call(w.log, call, has_ret, ret);
    if (!err.empty()) err = where + err;
    else if (state_err.empty()) { state_err = o.check_states(call, mods); if (!state_err.empty()) state_err = where + state_err; }
  }
  w.seg = (int)ncalls + 1;
  int state_at_destruction = (int)root->state();
  if (t.no_final_cleanup && err.empty()) o.flags.destroyed_from = state_at_destruction;
  delete root;
  if (err.empty()) { err = o.after_call(w.log, C_DESTROY, false, false); if (!err.empty()) err = "destruction of the root in state " + std::string(state_at_destruction == 0 ? "kNone" : state_at_destruction == 1 ? "kInited" : "kRunning") + ": " + err; }
  if (err.empty()) err = o.at_end(true);
  if (!err.empty() && !state_err.empty()) err += "  [first state() disagreement: " + state_err + "]";
  if (err.empty()) err = state_err;
  flags_out = o.flags;
  return err;
}

// text of a case in the replay format of sub `tree`
inline std::string case_text(const TreeSpec &t, const int *calls, size_t ncalls, const char *sep = "\n") {
  std::string s;
  static const char *cn[] = {"initialize", "start", "stop", "cleanup"};
  for (auto &n : t.nodes) {
    char b[96];
    snprintf(b, sizeof b, "node %d %d %d %d %d%s", n.parent < 0 ? 0 : n.parent, n.optional ? 1 : 0, n.namemode, n.init, n.start, sep);
    s += b;
  }
  if (t.fillcfg) { s += "fillcfg"; s += sep; }
  if (t.plain_root) { s += "plainroot"; s += sep; }
  if (t.no_final_cleanup) { s += "nocleanup"; s += sep; }
  for (size_t i = 0; i < ncalls; ++i) { s += cn[calls[i] & 3]; s += sep; }
  return s;
}

}  // namespace c11
