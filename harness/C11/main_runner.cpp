// C11 — sub `main_runner`: the real tbox::main::Main() (front-end runner) and Start()/Stop() (back-end runner) in a child process.
// The harness supplies RegisterApps() building the generated tree below Main()'s own `apps` module, a task queued
// on the context's loop raises SIGTERM at the process once the loop runs (i.e. after apps.start() succeeded), every
// hook event is streamed to the parent through a pipe, and the parent applies the same invariants as sub `tree`
// (c11_common.h) to what Main() did on init failure, start failure and normal shutdown.
#define VERIF_MAIN
#include "c11_common.h"
#include <tbox/main/main.h>
#include <tbox/event/loop.h>
#include <poll.h>
#include <spawn.h>
#include <dirent.h>
#include <sys/wait.h>
#include <time.h>

using namespace verif;
using namespace c11;

namespace {
enum { NODE, BACKEND, EXITLOOP, NOPS };
const int kMaxNodes = 12, kMaxDepth = 4;
const long kBudgetMs = 30000;
const int kChildEventFd = 100, kChildScenarioFd = 101;
const unsigned char kMarkRunLoop = 100, kMarkReturned = 101;   // pseudo "kinds" in the event stream (node byte = 0)

TreeSpec *g_spec = nullptr;    // child only
World *g_world = nullptr;      // child only
bool g_register_failed = false;
bool g_exitloop = false;       // child only: the queued task leaves the loop itself (exitLoop()) instead of raising SIGTERM
bool g_backend = false;        // child only: run through tbox::main::Start()/Stop() instead of Main()

// node <parent> <optional> <namemode> <init> <start>  (as in sub `tree`); node 0 is Main()'s own `apps` module
// (a plain unnamed Module without hooks) and is implicit.  namemode 3 = the field is removed again from the default
// config with "-s <path>=null" on the command line.
// Two more (optional) arguments per node: <stopdur> <cleanupdur> = how long onStop / onCleanup take: code 0 = returns at once,
// 1..5 = that many ms, 6..19 = 20..150 ms (the sum over the tree is scaled down to at most 800 ms per case).
// backend : drive the back-end runner instead: tbox::main::Start(argc, argv) and, if it returned true, tbox::main::Stop().
// exitloop : (front-end runner only) the application leaves the loop itself with Loop::exitLoop() instead of being told to
//            stop by SIGTERM, so Main() goes straight to apps.cleanup() on a tree that is still running.
const long kMaxSleepMs = 800;
int dur_ms(int64_t code) { return code <= 5 ? (int)code : 20 + (int)(code - 6) * 10; }
void decode_spec(const Scenario &s, TreeSpec &t, bool &backend, bool *exitloop = nullptr) {
  std::vector<int> depth(1, 0);
  t.nodes.push_back(NodeSpec());
  for (const Op &op : s.ops) {
    if (op.code == BACKEND) backend = true;
    if (op.code == EXITLOOP && exitloop) *exitloop = true;
    if (op.code != NODE || (int)t.nodes.size() >= kMaxNodes) continue;
    NodeSpec n;
    int cnt = (int)t.nodes.size();
    int64_t v = op.arg(0);
    int target;
    if (v >= 100 && v < 110) { target = cnt - 1; for (int64_t k = 100; k < v && target > 0; ++k) target = t.nodes[target].parent; }
    else target = (int)op.in(0, 0, cnt - 1);
    while (depth[target] >= kMaxDepth) target = t.nodes[target].parent;
    n.parent = target;
    n.optional = op.in(1, 0, 1) != 0;
    n.namemode = (int)op.in(2, 0, 3);
    n.init = (int)op.in(3, 0, 2);
    n.start = (int)op.in(4, 0, 2);
    n.stop_ms = dur_ms(op.in(5, 0, 19));
    n.cleanup_ms = dur_ms(op.in(6, 0, 19));
    depth.push_back(depth[target] + 1);
    t.nodes.push_back(n);
  }
  long sum = 0; for (auto &n : t.nodes) sum += n.stop_ms + n.cleanup_ms;
  if (sum > kMaxSleepMs) for (auto &n : t.nodes) { n.stop_ms = (int)((long)n.stop_ms * kMaxSleepMs / sum); n.cleanup_ms = (int)((long)n.cleanup_ms * kMaxSleepMs / sum); }
  normalise(t);
}

// dotted config path of a named node: names of its named ancestors and itself
std::string cfg_path(const TreeSpec &t, int i) {
  std::string p;
  for (int x = i; x > 0; x = t.nodes[x].parent)
    if (t.nodes[x].namemode != 0) p = p.empty() ? node_name(x) : node_name(x) + "." + p;
  return p;
}

// true if every thread of the process is in state 'S' (interruptible sleep); desc lists "tid:state:wchan"
bool all_threads_sleeping(pid_t pid, std::string &desc) {
  std::string dir = "/proc/" + std::to_string((int)pid) + "/task";
  DIR *d = opendir(dir.c_str());
  if (!d) return false;
  bool all = true; int n = 0;
  while (struct dirent *e = readdir(d)) {
    if (e->d_name[0] < '0' || e->d_name[0] > '9') continue;
    std::ifstream f(dir + "/" + e->d_name + "/stat"); std::string line; if (!std::getline(f, line)) continue;
    size_t rp = line.rfind(')'); if (rp == std::string::npos || rp + 2 >= line.size()) continue;
    char st = line[rp + 2]; ++n;
    std::ifstream w(dir + "/" + e->d_name + "/wchan"); std::string wc; std::getline(w, wc);
    desc += (desc.empty() ? "" : " ") + std::string(e->d_name) + ":" + st + ":" + wc;
    if (st != 'S') all = false;
  }
  closedir(d);
  return n > 0 && all;
}

// utime+stime of a process in clock ticks (-1 if unreadable)
long cpu_ticks(pid_t pid) {
  char path[64]; snprintf(path, sizeof path, "/proc/%d/stat", (int)pid);
  std::ifstream f(path); std::string line; if (!std::getline(f, line)) return -1;
  size_t rp = line.rfind(')'); if (rp == std::string::npos) return -1;
  std::istringstream is(line.substr(rp + 1));
  std::string tok; long ut = 0, st = 0;
  for (int i = 3; i <= 15 && (is >> tok); ++i) { if (i == 14) ut = atol(tok.c_str()); if (i == 15) st = atol(tok.c_str()); }
  return ut + st;
}

[[noreturn]] void child_main(const TreeSpec &t, bool backend, bool exitloop, int wfd) {
  rt().in_case = false; rt().out_path.clear();    // a dying child must not write case files / statistics
  signal(SIGABRT, SIG_DFL); signal(SIGALRM, SIG_DFL);
  static World w; w.out_fd = wfd;
  static TreeSpec spec = t;
  g_world = &w; g_spec = &spec; g_backend = backend; g_exitloop = exitloop && !backend;

  std::vector<std::string> args = {"c11_main_runner", "-s", "log.stdout.enable=false", "-s", "exit_wait_sec=0"};
  for (int i = (int)t.nodes.size() - 1; i > 0; --i)     // descendants first: a later patch must not re-create a removed object
    if (t.nodes[i].namemode == 3) { args.push_back("-s"); args.push_back(cfg_path(t, i) + "=null"); }
  std::vector<char *> argv;
  for (auto &a : args) argv.push_back(const_cast<char *>(a.c_str()));
  argv.push_back(nullptr);
  int r = 0;
  if (!backend) r = tbox::main::Main((int)args.size(), argv.data());
  else if (tbox::main::Start((int)args.size(), argv.data())) {     // true: apps initialised and started, loop thread running
    w.mark(kMarkRunLoop);
    tbox::main::Stop();
  }
  w.mark(kMarkReturned, r & 0xff);
  _exit(g_register_failed ? 9 : 0);
}

std::string run_main(const Scenario &s, CaseInfo &info) {
  TreeSpec t;
  bool backend = false, exitloop = false;
  decode_spec(s, t, backend, &exitloop);
  if (backend) exitloop = false;
  // The child is a FRESH process (posix_spawn of this binary, sub `main_child`, scenario through a pipe): a plain
  // fork() of the ASan-instrumented rapidcheck process occasionally left the child's ASan allocator dead-locked
  // (thread start inside the sanitizer runtime waiting for an allocator mutex nobody holds) - a harness artefact.
  int pfd[2], sfd[2];
  if (pipe(pfd) != 0) return "HARNESS: pipe() failed";
  if (pipe(sfd) != 0) { close(pfd[0]); close(pfd[1]); return "HARNESS: pipe() failed"; }
  {
    std::string text = to_text(*find_sub("main_runner"), s);
    if (text.size() > 60000) text.resize(60000);       // fits the pipe buffer: written before the child exists
    ssize_t n = ::write(sfd[1], text.data(), text.size()); (void)n;
    close(sfd[1]);
  }
  fflush(stdout); fflush(stderr);
  pid_t pid = -1;
  {
    posix_spawn_file_actions_t fa; posix_spawn_file_actions_init(&fa);
    bool verbose = getenv("C11_MAIN_VERBOSE") != nullptr;
    if (!verbose) { posix_spawn_file_actions_addopen(&fa, 1, "/dev/null", O_WRONLY, 0); posix_spawn_file_actions_addopen(&fa, 2, "/dev/null", O_WRONLY, 0); }
    // pfd[1] -> 100 (events), sfd[0] -> 101 (scenario text): far above the pipe fds, so the dup2 targets cannot collide
    posix_spawn_file_actions_adddup2(&fa, pfd[1], kChildEventFd);
    posix_spawn_file_actions_adddup2(&fa, sfd[0], kChildScenarioFd);
    for (int fd : {pfd[0], pfd[1], sfd[0]}) posix_spawn_file_actions_addclose(&fa, fd);   // all < 100
    const char *argv[] = {"c11_main_child", "--sub", "main_child", "--replay", "/dev/fd/101", nullptr};
    int rc = posix_spawn(&pid, "/proc/self/exe", &fa, nullptr, const_cast<char *const *>(argv), environ);
    posix_spawn_file_actions_destroy(&fa);
    close(sfd[0]);
    if (rc != 0) { close(pfd[0]); close(pfd[1]); return "HARNESS: posix_spawn() failed"; }
  }
  close(pfd[1]);

  // read the event stream until EOF, 30 s budget (a case takes ~50 ms)
  std::vector<unsigned char> bytes;
  struct timespec t0; clock_gettime(CLOCK_MONOTONIC, &t0);
  bool timed_out = false;
  int extensions = 0; bool gave_up = false; std::string stuck_threads, stack_file;
  for (;;) {
    struct timespec now; clock_gettime(CLOCK_MONOTONIC, &now);
    long left = kBudgetMs - ((now.tv_sec - t0.tv_sec) * 1000 + (now.tv_nsec - t0.tv_nsec) / 1000000);
    if (left <= 0) {
      // Stuck or only slow (loaded machine, memory pressure)?  Stuck = over 2 s no CPU time consumed and every thread
      // sleeping interruptibly (a deadlocked process sits in futex waits); anything else gets more time.
      long c1 = cpu_ticks(pid); std::string th1; bool s1 = all_threads_sleeping(pid, th1);
      struct pollfd q = {pfd[0], POLLIN, 0};
      if (poll(&q, 1, 2000) <= 0) {
        long c2 = cpu_ticks(pid); std::string th2; bool s2 = all_threads_sleeping(pid, th2);
        if (s1 && s2 && c1 == c2 && c1 >= 0) { timed_out = true; stuck_threads = th2; break; }
        if (++extensions > 8) { gave_up = true; break; }
        clock_gettime(CLOCK_MONOTONIC, &t0);
        continue;
      }
      left = 1000;   // data or EOF arrived in the meantime: read it
    }
    struct pollfd p = {pfd[0], POLLIN, 0};
    int pr = poll(&p, 1, (int)left);
    if (pr < 0) { if (errno == EINTR) continue; break; }
    if (pr == 0) continue;
    unsigned char buf[512];
    ssize_t n = ::read(pfd[0], buf, sizeof buf);
    if (n < 0 && errno == EINTR) continue;
    if (n <= 0) break;
    bytes.insert(bytes.end(), buf, buf + n);
  }
  close(pfd[0]);
  if (gave_up) {   // still making progress after 5 minutes: neither pass nor violation
    kill(pid, SIGKILL);
    while (waitpid(pid, nullptr, 0) < 0 && errno == EINTR) {}
    stats().counters["inconclusive_child_too_slow"]++;
    return "";
  }
  if (timed_out) {
    // diagnosis aid: user-space stacks of the blocked child (best effort, needs gdb)
    stack_file = rt().replay_dir + "/hang-stacks-" + std::to_string((int)pid) + ".txt";
    std::string cmd = "gdb -p " + std::to_string((int)pid) + " -batch -ex 'thread apply all bt 14' > " + stack_file + " 2>&1 < /dev/null";
    int r = system(cmd.c_str()); (void)r;
    kill(pid, SIGKILL);
  }
  int status = 0;
  while (waitpid(pid, &status, 0) < 0 && errno == EINTR) {}

  // split the stream into the phases of Main(): [initialize] [start ...] RUNLOOP [stop, cleanup, destruction]
  std::vector<Ev> log;
  bool ran_loop = false, returned = false;
  int seg = 0;
  // H (round 6): hooks of one tree never overlap in time (the runners execute them strictly one after the other, if on
  // different threads: Stop() joins the loop thread, which ran the stop hooks, before the caller's thread cleans up)
  std::string overlap;
  int open_node = -1, open_hook = 0, open_thread = 0; bool two_threads = false;
  static const char *hook_names[] = {"onInit", "onStart", "onStop", "onCleanup"};
  for (size_t i = 0; i + 2 < bytes.size(); i += 3) {
    int node = bytes[i], kind = bytes[i + 1], thread = bytes[i + 2];
    if (kind >= kHookEnter && kind < kHookEnter + 4) {
      if (thread != 0) two_threads = true;
      if (open_node >= 0 && overlap.empty())
        overlap = std::string(hook_names[kind - kHookEnter]) + " of node " + std::to_string(node) + " started on thread #" + std::to_string(thread) + " while " + hook_names[open_hook] +
                  " of node " + std::to_string(open_node) + " was still executing on thread #" + std::to_string(open_thread) + ": the hooks of one tree must run strictly one after the other";
      open_node = node; open_hook = kind - kHookEnter; open_thread = thread;
      continue;
    }
    if (kind == kHookLeave) { if (open_node == node && open_thread == thread) open_node = -1; continue; }
    if (kind == kMarkRunLoop) { ran_loop = true; seg = 2; continue; }
    if (kind == kMarkReturned) { returned = true; continue; }
    if (seg == 0 && (kind == START_OK || kind == START_FAIL)) seg = 1;
    log.push_back(Ev{node, kind, seg});
  }
  Oracle o(t, /*silent_root=*/true);
  std::string err;
  bool init_failed = false, start_failed = false, any_start = false;
  {
    std::vector<Ev> part;
    size_t i = 0;
    for (int sg = 0; sg <= 2 && err.empty(); ++sg) {
      for (; i < log.size() && log[i].seg == sg; ++i) { part.push_back(log[i]); if (sg == 1 && log[i].kind <= START_FAIL && log[i].kind >= START_OK) any_start = true; }
      err = o.after_call(part, C_WHOLE, false, false);
      if (sg == 0) init_failed = o.root_failed(true);
      if (sg == 1) start_failed = o.root_failed(false);
    }
  }
  apply_flags(o.flags, t, info);
  long slow = 0; for (auto &n : t.nodes) slow += n.stop_ms + n.cleanup_ms;
  info.cls_if(backend, "backend_runner_Start_Stop");
  info.cls_if(slow > 0, "hooks_that_take_time");
  info.cls_if(backend && ran_loop && slow >= 20, "backend:Stop()_with_slow_stop_or_cleanup_hooks");
  info.cls_if(two_threads, "hooks_ran_on_two_threads");
  info.cls_if(exitloop && ran_loop, "Main:app_leaves_loop_itself_cleanup_of_running_tree");
  info.cls_if(init_failed, "Main:apps_init_failed");
  info.cls_if(!init_failed && start_failed, "Main:apps_start_failed");
  info.cls_if(ran_loop, "Main:ran_loop");
  if (init_failed || start_failed) info.nontrivial = true;
  (void)any_start;

  if (timed_out) return std::string(backend ? "Start()/Stop()" : "Main()") + " did not return within 30 s and is blocked (threads tid:state:wchan = " + stuck_threads + "; stacks: " + stack_file + ")" + (err.empty() ? std::string() : " (" + err + ")");
  if (WIFSIGNALED(status)) return "the process running Main() was killed by signal " + std::to_string(WTERMSIG(status)) + (err.empty() ? std::string() : " (" + err + ")");
  if (WIFEXITED(status) && WEXITSTATUS(status) == 9) return "HARNESS: RegisterApps could not build the tree";
  if (WIFEXITED(status) && WEXITSTATUS(status) != 0) return "the process running Main() exited with status " + std::to_string(WEXITSTATUS(status)) + (err.empty() ? std::string() : " (" + err + ")");
  if (!returned) return "Main() did not return normally";
  if (!overlap.empty()) return overlap + (err.empty() ? std::string() : "  [hook log: " + err + "]");
  if (!err.empty()) return err;
  // Not part of the property (recorded only): did the runner enter its loop exactly when both phases succeeded?
  if ((!init_failed && !start_failed) != ran_loop) stats().counters["loop_entered_unexpectedly_or_not"]++;
  return o.at_end(true);
}

SubDef def_main = [] {
  SubDef d; d.name = "main_runner";
  d.op_names = {"node", "backend", "exitloop"};
  d.op_arity = {7, 0, 0};
  d.nt_rule = "Main() run in which apps.initialize() or apps.start() fails (required module fails / config field removed), or an optional subtree fails half-way";
  d.run = run_main;
#ifndef VERIF_ENGINE_FUZZ
  d.gen = [] {
    using rc::gen::weightedOneOf; using rc::gen::just;
    auto outc = [](int ok, int fail) { return weightedOneOf<int64_t>({{(size_t)ok, just<int64_t>(0)}, {(size_t)fail, just<int64_t>(1)}}); };
    auto parent = weightedOneOf<int64_t>({{3, range(0, 11)}, {2, range(100, 103)}});
    auto opt = weightedOneOf<int64_t>({{3, just<int64_t>(0)}, {2, just<int64_t>(1)}});
    auto nmode = weightedOneOf<int64_t>({{5, just<int64_t>(0)}, {8, just<int64_t>(1)}, {3, just<int64_t>(2)}, {1, just<int64_t>(3)}});
    auto quick_dur = weightedOneOf<int64_t>({{6, just<int64_t>(0)}, {1, range(1, 3)}});
    auto nodeop = [&](int ok, int fail) { return mkop(NODE, {parent, opt, nmode, outc(ok, fail), outc(ok, fail), quick_dur, quick_dur}); };
    auto nodes = weightedOneOf<std::vector<Op>>({{3, opsOf(nodeop(92, 8))}, {2, opsOf(nodeop(80, 20))}});
    auto mode = weightedOneOf<std::vector<Op>>({{2, just(std::vector<Op>())}, {1, fixedOps({mkop(BACKEND, {})})}, {1, fixedOps({mkop(EXITLOOP, {})})}});
    return rc::gen::apply([](std::vector<Op> v, std::vector<Op> m) { Scenario s; s.ops = std::move(v); for (auto &o : m) s.ops.push_back(o); return s; }, nodes, mode);
  };
#endif
  return d;
}();
VERIF_REGISTER(&def_main);

// Sibling sub: always the back-end runner Start()/Stop(), hooks with generated durations (0, a few ms, 20-150 ms).
std::string run_backend(const Scenario &s, CaseInfo &info) {
  Scenario s2 = s;
  bool has = false; for (auto &o : s2.ops) if (o.code == BACKEND) has = true;
  if (!has) { Op o; o.code = BACKEND; s2.ops.push_back(o); }
  return run_main(s2, info);
}
SubDef def_backend = [] {
  SubDef d; d.name = "backend_runner";
  d.op_names = {"node", "backend", "exitloop"};
  d.op_arity = {7, 0, 0};
  d.nt_rule = "Start() succeeded and Stop() ran with at least 20 ms of onStop/onCleanup work in the tree (so that a concurrent walk of the tree would overlap), or Start() failed in apps.initialize()/apps.start()";
  d.run = [](const Scenario &s, CaseInfo &info) {
    std::string e = run_backend(s, info);
    bool slow_stop = false; for (auto c : info.classes) if (!strcmp(c, "backend:Stop()_with_slow_stop_or_cleanup_hooks")) slow_stop = true;
    if (slow_stop) info.nontrivial = true;
    return e;
  };
#ifndef VERIF_ENGINE_FUZZ
  d.gen = [] {
    using rc::gen::weightedOneOf; using rc::gen::just;
    auto outc = weightedOneOf<int64_t>({{94, just<int64_t>(0)}, {6, just<int64_t>(1)}});
    auto parent = weightedOneOf<int64_t>({{3, range(0, 11)}, {2, range(100, 103)}});
    auto opt = weightedOneOf<int64_t>({{3, just<int64_t>(0)}, {2, just<int64_t>(1)}});
    auto nmode = weightedOneOf<int64_t>({{5, just<int64_t>(0)}, {8, just<int64_t>(1)}, {3, just<int64_t>(2)}});
    auto dur = weightedOneOf<int64_t>({{4, just<int64_t>(0)}, {3, range(1, 5)}, {3, range(6, 19)}});
    auto nodeop = mkop(NODE, {parent, opt, nmode, outc, outc, dur, dur});
    // at least one module, so that there is a stop hook to be slow
    auto first = mkop(NODE, {just<int64_t>(0), just<int64_t>(0), nmode, just<int64_t>(0), just<int64_t>(0), dur, dur});
    return rc::gen::apply([](Op f, std::vector<Op> v) { Scenario s; s.ops.push_back(std::move(f)); for (auto &o : v) s.ops.push_back(std::move(o)); return s; },
                          first, rc::gen::scale(0.6, opsOf(nodeop)));
  };
#endif
  return d;
}();
VERIF_REGISTER(&def_backend);

// internal: what the spawned child executes ("--sub main_child --replay /dev/fd/101", events to fd 100); never returns
SubDef def_child = [] {
  SubDef d; d.name = "main_child";
  d.op_names = {"node", "backend", "exitloop"};
  d.op_arity = {7, 0, 0};
  d.nt_rule = "internal";
  d.run = [](const Scenario &s, CaseInfo &) -> std::string {
    TreeSpec t; bool backend = false, exitloop = false;
    decode_spec(s, t, backend, &exitloop);
    child_main(t, backend, exitloop, kChildEventFd);
  };
#ifndef VERIF_ENGINE_FUZZ
  d.gen = [] { return rc::gen::just(Scenario()); };
#endif
  return d;
}();
VERIF_REGISTER(&def_child);
}  // namespace

// ---- what the application developer provides to the framework -------------------------------------------------
namespace tbox {
namespace main {
void RegisterApps(Module &apps, Context &ctx) {
  if (!g_spec || !g_world) return;
  std::vector<Module *> mods;
  mods.push_back(&apps);
  if (!c11::build_nodes(*g_spec, *g_world, ctx, mods, 1).empty()) g_register_failed = true;
  // runs as soon as Main() runs the loop, i.e. after apps.initialize() and apps.start() succeeded
  if (g_backend) return;   // the back-end runner is stopped with tbox::main::Stop(), not by a signal
  // (Loop::cleanup() also executes still-queued tasks - when start failed the loop never runs and nothing is raised)
  tbox::event::Loop *loop = ctx.loop();
  loop->runInLoop([loop] {
    if (!loop->isRunning()) return;
    g_world->mark(kMarkRunLoop);
    if (g_exitloop) loop->exitLoop(); else raise(SIGTERM);
  }, "c11::raise_sigterm");
}
std::string GetAppDescribe() { return "C11 main_runner harness"; }
std::string GetAppBuildTime() { return "n/a"; }
void GetAppVersion(int &major, int &minor, int &rev, int &build) { major = minor = rev = build = 0; }
}  // namespace main
}  // namespace tbox
