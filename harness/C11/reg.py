TARGETS = {
    # Module only needs module.cpp, util::Variables and the log front-end
    "c11_tree_rc":   {"src": "C11/module_tree.cpp", "variant": "asan", "engine": "rc",   "libs": ["main", "util", "base"]},
    "c11_tree_fuzz": {"src": "C11/module_tree.cpp", "variant": "asan", "engine": "fuzz", "libs": ["main", "util", "base"]},
    # the real Main()/Start()/Stop(): own binary because libtbox_main.a carries a weak main()
    "c11_main_rc":   {"src": "C11/main_runner.cpp", "variant": "asan", "engine": "rc",
                      "libs": ["main", "terminal", "coroutine", "trace", "log", "network", "eventx", "event", "util", "base"]},
}
# The driver's default ASAN_OPTIONS use malloc_context_size=12: with rapidcheck's deep generator recursion that makes
# ASan's stack depot grow without bound (6 GB RSS after 200 000 cases, OOM-killed) and costs a factor 3 in speed.
_ASAN = "detect_leaks=1:detect_stack_use_after_return=0:allocator_may_return_null=1:handle_abort=0:symbolize=1:malloc_context_size=4"
PROP = {
    "subchecks": [
        {"target": "c11_tree_rc", "sub": "tree", "env": {"ASAN_OPTIONS": _ASAN},
         "quick": {"cases": 20000, "max_size": 24, "workers": 8},
         "thorough": {"cases": 250000, "max_size": 30, "workers": 8}},
        # one rapidcheck "case" = one slice of the complete enumeration; max_size = max number of nodes,
        # cases = slices per worker; C11_EXH_WORKERS must equal "workers" (same in both tiers)
        {"target": "c11_tree_rc", "sub": "exhaustive_small", "env": {"C11_EXH_WORKERS": "8", "ASAN_OPTIONS": _ASAN},
         "quick": {"cases": 8, "max_size": 4, "workers": 8},
         "thorough": {"cases": 32, "max_size": 5, "workers": 8}},
        {"target": "c11_tree_fuzz", "sub": "tree", "env": {"ASAN_OPTIONS": _ASAN},
         "quick": {"runs": 60000, "max_len": 300, "workers": 2},
         "thorough": {"runs": 1200000, "max_len": 400, "workers": 3}},
        {"target": "c11_main_rc", "sub": "main_runner", "env": {"ASAN_OPTIONS": _ASAN},
         "quick": {"cases": 500, "max_size": 12, "workers": 4, "case_alarm": 600},
         "thorough": {"cases": 6000, "max_size": 12, "workers": 5, "case_alarm": 600}},
        # back-end runner Start()/Stop() with hooks that take real time (0 / 1-5 ms / 20-150 ms): each case costs 50-900 ms
        {"target": "c11_main_rc", "sub": "backend_runner", "env": {"ASAN_OPTIONS": _ASAN},
         "quick": {"cases": 100, "max_size": 10, "workers": 4, "case_alarm": 600},
         "thorough": {"cases": 1500, "max_size": 12, "workers": 4, "case_alarm": 600}},
    ],
    "assumptions": [
        "every call sequence ends with destruction of the root, with or without a final cleanup() (op `nocleanup`), from whatever state the calls left it in; when a probe root is destroyed with open epochs only the ROOT's own hooks are exempt from the balance (a C++ destructor cannot reach the derived hooks of the object being destroyed) - all modules below it are not; with `plainroot` (plain Module root, like Main()'s apps) nothing is exempt",
        "children are added only before initialize(); two children of one parent never have equal names (two unnamed children count as equal - add() refuses them)",
        "hooks do not throw and do not call back into the tree",
        "a node whose onStart returned false is 'not started': no onStop is expected or allowed for it; likewise no onCleanup after onInit returned false",
        "state() is compared with the phase implied by the node's own hook log after every call on the root",
        "main_runner: SIGTERM is raised by a task queued on the context's loop (first loop pass); events are split into the phases of Main() by the first start hook and by that task; a run that exceeds 30 s is a hang only if the child consumes no CPU and all its threads sleep (otherwise it gets up to 5 min, then counts as inconclusive)",
    ],
}
META = {
    "design_ref": "DESIGN.md section 4, C11",
    "technique": "property-based testing (rapidcheck) and coverage-guided fuzzing (libFuzzer) of generated module trees and call sequences against invariants over a global hook log, complete enumeration of all small trees x flags x outcomes x call sequences, and the same invariants applied to the real Main()/Start()/Stop() runners in a forked child; ASan/UBSan/LSan build",
    "level_text": "Probe modules (subclasses of tbox::main::Module) record every onInit/onStart/onStop/onCleanup with its result in one global log. Generated trees (<= 25 nodes, depth <= 4, required/optional edges, named/unnamed/addAs nodes, missing config fields, hooks that succeed, fail or fail once) are driven through generated sequences of initialize/start/stop/cleanup on the root (repeats, out-of-order calls), ending with destruction of the root with or without a final cleanup() (from kNone, kInited, kRunning, after stop, after failed initialize/start; probe root or plain-Module root). Checked: per-node hook grammar and final balance, LIFO nesting of all init and start epochs, tear-down order (all stops before all cleanups: no onCleanup below a still-started ancestor, no onStop after an onCleanup within one cleanup()/destruction), parent-before-child / child-before-parent, pre-order within a call, optional failure does not stop siblings or ancestors, return value of initialize()/start() vs. failed required modules, progress of each call, state(). Sub-check exhaustive_small enumerates EVERY tree with <= 4 (quick) / <= 5 (thorough) nodes x every required/optional assignment x {ok, init fails, start fails} per node, plus <= 3 / <= 4 nodes with six outcomes per node, each with EVERY call sequence of length <= 4 followed directly by destruction, and every sequence of length 4 also followed by cleanup()+destruction (597 runs per tree configuration; quick 3 153 951 cases, thorough 66 598 335 cases; the count is reported in counters.enumerated_cases) - exhaustive for that sub-space only. Sub-checks main_runner and backend_runner (hooks with generated durations that record entry and exit with the thread; no two hooks of a tree may overlap in time) apply the invariants to what tbox::main::Main() and tbox::main::Start()/Stop() do with generated app trees on init failure, start failure, normal SIGTERM shutdown and when the application leaves the loop itself (cleanup of a still running tree). Everything else is exploration: no counter-example among N generated cases.",
    "level_note": "Trusted: the hook log written by the probe modules, the oracle in harness/C11/c11_common.h, fork/pipe plumbing of main_runner. Not covered: the root's own hooks when a probe root is destroyed without cleanup(), add() after initialize(), hooks that throw or re-enter the tree, concurrent calls. The check was developed behind two proposed fixes (harness/C11/proposed-fixes): without 01 every sub-check reports the missing onCleanup/onStop after a required child's failure within the first seconds; without 02 main_runner reports a shutdown deadlock in about 1 of 100 runs.",
}
