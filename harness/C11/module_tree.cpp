// C11 — Module tree lifecycle hooks are nested, ordered and balanced.
//   sub `tree`             random module trees x random call sequences on the root (rapidcheck; also libFuzzer)
//   sub `exhaustive_small` complete enumeration of all small trees x flags x outcomes x call sequences
// Oracle: invariants over the global hook log, see c11_common.h.  Real code under test: tbox::main::Module.
#define VERIF_MAIN
#include "c11_common.h"

using namespace verif;
using namespace c11;

namespace {
// ======================================================================================= sub `tree`
enum { NODE, OP_INIT, OP_START, OP_STOP, OP_CLEANUP, FILLCFG, NOCLEANUP, PLAINROOT, NOPS };
const int kMaxNodes = 25, kMaxDepth = 4, kMaxCalls = 16;

// node <parent> <optional> <namemode> <init> <start>
//   parent   : index of an earlier node (any value is reduced); 100+k = k-th ancestor of the previous node
//   optional : 0 required, 1 optional          namemode : 0 unnamed 1 named 2 named by addAs() 3 named, config field missing
//   init/start : 0 hook succeeds, 1 fails, 2 fails on the first attempt only
// initialize | start | stop | cleanup : calls on the root, in order of appearance (cleanup() + destruction are always appended)
// nocleanup : end of life - the root is destroyed right after the last call, without the final cleanup() (from whatever
//             state the calls left it in: kNone, kInited, kRunning, after stop, after a failed initialize/start)
// plainroot : the root is a plain tbox::main::Module (no hooks of its own, like Main()'s `apps`) instead of a probe
// fillcfg : the config is produced by fillDefaultConfig() instead of by hand (then no field is ever missing)
void decode_tree(const Scenario &s, TreeSpec &t, std::vector<int> &calls) {
  std::vector<int> depth;
  for (const Op &op : s.ops) {
    if (op.code == NODE && (int)t.nodes.size() < kMaxNodes) {
      NodeSpec n;
      int cnt = (int)t.nodes.size();
      if (cnt > 0) {
        int64_t v = op.arg(0);
        int target;
        if (v >= 100 && v < 110) { target = cnt - 1; for (int64_t k = 100; k < v && target > 0; ++k) target = t.nodes[target].parent; }
        else target = (int)op.in(0, 0, cnt - 1);
        while (depth[target] >= kMaxDepth) target = t.nodes[target].parent;
        n.parent = target;
      }
      n.optional = op.in(1, 0, 1) != 0;
      n.namemode = (int)op.in(2, 0, 3);
      n.init = (int)op.in(3, 0, 2);
      n.start = (int)op.in(4, 0, 2);
      depth.push_back(cnt ? depth[n.parent] + 1 : 0);
      t.nodes.push_back(n);
    } else if (op.code >= OP_INIT && op.code <= OP_CLEANUP) {
      if ((int)calls.size() < kMaxCalls) calls.push_back(op.code - OP_INIT);
    } else if (op.code == FILLCFG) t.fillcfg = true;
    else if (op.code == NOCLEANUP) t.no_final_cleanup = true;
    else if (op.code == PLAINROOT) t.plain_root = true;
  }
  if (t.nodes.empty()) t.nodes.push_back(NodeSpec());
  normalise(t);
}

std::string run_tree(const Scenario &s, CaseInfo &info) {
  TreeSpec t; std::vector<int> calls;
  decode_tree(s, t, calls);
  Flags f;
  std::string err = run_tree_case(t, calls.data(), calls.size(), f);
  apply_flags(f, t, info);
  int maxd = 0; { std::vector<int> d(t.nodes.size(), 0); for (size_t i = 1; i < t.nodes.size(); ++i) { d[i] = d[t.nodes[i].parent] + 1; if (d[i] > maxd) maxd = d[i]; } }
  info.cls_if(maxd >= 3, "depth>=3");
  info.cls_if(t.fillcfg, "config_by_fillDefaultConfig");
  return err;
}

SubDef def_tree = [] {
  SubDef d; d.name = "tree";
  d.op_names = {"node", "initialize", "start", "stop", "cleanup", "fillcfg", "nocleanup", "plainroot"};
  d.op_arity = {5, 0, 0, 0, 0, 0, 0, 0};
  d.nt_rule = "a call on the root in which a required non-root module fails its init/start phase after an earlier sibling completed that phase, "
              "or an optional module whose own hook succeeded fails the phase because of a required descendant (optional subtree fails half-way)";
  d.run = run_tree;
#ifndef VERIF_ENGINE_FUZZ
  d.gen = [] {
    using rc::gen::weightedOneOf; using rc::gen::just;
    auto outc = [](int ok, int fail, int flaky) {
      return weightedOneOf<int64_t>({{(size_t)ok, just<int64_t>(0)}, {(size_t)fail, just<int64_t>(1)}, {(size_t)flaky, just<int64_t>(2)}});
    };
    auto parent = weightedOneOf<int64_t>({{3, range(0, 24)}, {2, range(100, 103)}});
    auto opt = weightedOneOf<int64_t>({{3, just<int64_t>(0)}, {2, just<int64_t>(1)}});
    auto nmode = weightedOneOf<int64_t>({{6, just<int64_t>(0)}, {8, just<int64_t>(1)}, {3, just<int64_t>(2)}, {1, just<int64_t>(3)}});
    auto nodeop = [&](int ok, int fail, int flaky) { return mkop(NODE, {parent, opt, nmode, outc(ok, fail, flaky), outc(ok, fail, flaky)}); };
    auto rootop = mkop(NODE, {just<int64_t>(0), just<int64_t>(0), nmode, outc(92, 4, 4), outc(92, 4, 4)});
    auto nodes = weightedOneOf<std::vector<Op>>({{3, opsOf(nodeop(90, 6, 4))}, {3, opsOf(nodeop(78, 14, 8))}, {1, opsOf(nodeop(60, 28, 12))}});
    auto callop = weightedOneOf<Op>({{3, mkop(OP_INIT, {})}, {3, mkop(OP_START, {})}, {2, mkop(OP_STOP, {})}, {2, mkop(OP_CLEANUP, {})}});
    auto prefix = weightedOneOf<std::vector<Op>>({
        {3, just(std::vector<Op>())},
        {1, fixedOps({mkop(OP_INIT, {})})},
        {2, fixedOps({mkop(OP_INIT, {}), mkop(OP_START, {})})},
        {1, fixedOps({mkop(FILLCFG, {}), mkop(OP_INIT, {}), mkop(OP_START, {})})},
        {1, fixedOps({mkop(FILLCFG, {})})}});
    auto calls = rc::gen::scale(0.5, opsOf(callop));
    // end of life: half of the cases destroy the root without the final cleanup(); 23 % use a plain-Module root
    auto I = [] { return mkop(OP_INIT, {}); }; auto S = [] { return mkop(OP_START, {}); }; auto T = [] { return mkop(OP_STOP, {}); };
    auto NC = [] { return mkop(NOCLEANUP, {}); }; auto PR = [] { return mkop(PLAINROOT, {}); };
    // (the calls in these tails are appended to the random sequence, so that the destruction really starts from
    //  kInited / after stop / kRunning / after a failed start often enough)
    auto eol = weightedOneOf<std::vector<Op>>({
        {9, just(std::vector<Op>())},
        {3, fixedOps({NC()})},
        {2, fixedOps({I(), NC()})},
        {1, fixedOps({I(), S(), T(), NC()})},
        {1, fixedOps({S(), NC()})},
        {1, fixedOps({T(), NC()})},
        {2, fixedOps({PR()})},
        {1, fixedOps({PR(), NC()})},
        {1, fixedOps({PR(), I(), NC()})},
        {1, fixedOps({PR(), I(), S(), T(), NC()})}});
    return rc::gen::apply([](Op root, std::vector<Op> nodes, std::vector<Op> pre, std::vector<Op> calls, std::vector<Op> eol) {
      Scenario s; s.ops.push_back(std::move(root));
      for (auto &o : nodes) s.ops.push_back(std::move(o));
      for (auto &o : pre) s.ops.push_back(std::move(o));
      for (auto &o : calls) s.ops.push_back(std::move(o));
      for (auto &o : eol) s.ops.push_back(std::move(o));
      return s;
    }, rootop, nodes, prefix, calls, eol);
  };
#endif
  return d;
}();
VERIF_REGISTER(&def_tree);

// ============================================================================ sub `exhaustive_small`
// One case = one slice:  slice <index> <total> <maxnodes> <maxlen>
// The space: part A = all ordered rooted trees with 1..maxnodes nodes x {required, optional} per edge x
// {ok, onInit fails, onStart fails} per node; part B = the same with 1..maxnodes-1 nodes and the six outcomes
// {ok, onInit fails, onStart fails, config field missing, onInit fails once, onStart fails once} per node;
// each tree configuration is run with EVERY call sequence over {initialize,start,stop,cleanup} of length 0..maxlen
// followed by destruction of the root, and every sequence of the maximal length additionally followed by cleanup() and
// destruction (= every sequence of <= maxlen calls destroyed from whatever state it reached, plus every sequence with a final
// cleanup()).  Configuration j belongs to slice j % total.
enum { SLICE };
const int kOutcomesA = 3, kOutcomesB = 6;

// all ordered rooted trees with n nodes, as parent arrays in pre-order
void gen_shapes(int n, std::vector<std::vector<int>> &out) {
  std::vector<int> par(1, -1);
  std::function<void()> rec = [&] {
    if ((int)par.size() == n) { out.push_back(par); return; }
    // the next pre-order node may hang below any node of the right-most path
    std::vector<int> path; for (int x = (int)par.size() - 1; x >= 0; x = par[x]) path.push_back(x);
    for (int p : path) { par.push_back(p); rec(); par.pop_back(); }
  };
  rec();
}

struct Part { int n; int outcomes; std::vector<std::vector<int>> shapes; uint64_t per_shape; uint64_t total; };

void set_outcome(NodeSpec &n, int code) {
  n.init = n.start = 0; n.namemode = 1;
  switch (code) {
    case 1: n.init = 1; break;
    case 2: n.start = 1; break;
    case 3: n.namemode = 3; break;
    case 4: n.init = 2; break;
    case 5: n.start = 2; break;
    default: break;
  }
}

std::string run_exhaustive(const Scenario &s, CaseInfo &info) {
  Op op; if (!s.ops.empty()) op = s.ops[0];
  // (Op::in() maps a value v to lo + v % span, so all ranges start at 0 to keep hand-written values literal)
  uint64_t total = (uint64_t)op.in(1, 0, 1 << 20); if (total == 0) total = 1;
  uint64_t index = (uint64_t)op.in(0, 0, (int64_t)total - 1);
  int maxnodes = (int)op.in(2, 0, 5), maxlen = (int)op.in(3, 0, 4);
  if (maxnodes < 1) maxnodes = 1;

  std::vector<Part> parts;
  for (int pass = 0; pass < 2; ++pass) {
    int top = pass == 0 ? maxnodes : maxnodes - 1, k = pass == 0 ? kOutcomesA : kOutcomesB;
    for (int n = 1; n <= top; ++n) {
      Part p; p.n = n; p.outcomes = k; gen_shapes(n, p.shapes);
      p.per_shape = 1; for (int i = 1; i < n; ++i) p.per_shape *= 2; for (int i = 0; i < n; ++i) p.per_shape *= (uint64_t)k;
      p.total = p.per_shape * p.shapes.size();
      parts.push_back(std::move(p));
    }
  }
  // all call sequences of length 0..maxlen
  std::vector<std::vector<int>> seqs;
  for (int len = 0; len <= maxlen; ++len) {
    uint64_t cnt = 1; for (int i = 0; i < len; ++i) cnt *= 4;
    for (uint64_t c = 0; c < cnt; ++c) { std::vector<int> q(len); uint64_t v = c; for (int i = 0; i < len; ++i) { q[i] = (int)(v & 3); v >>= 2; } seqs.push_back(std::move(q)); }
  }

  uint64_t j = 0, configs = 0, cases = 0, nt = 0, teardown_running = 0, destroyed_from[3] = {0, 0, 0};
  Flags acc_any;
  for (const Part &p : parts) {
    for (uint64_t local = 0; local < p.total; ++local, ++j) {
      if (j % total != index) continue;
      uint64_t v = local;
      const std::vector<int> &shape = p.shapes[v % p.shapes.size()]; v /= p.shapes.size();
      TreeSpec t; t.nodes.resize(p.n);
      for (int i = 0; i < p.n; ++i) {
        t.nodes[i].parent = shape[i];
        if (i > 0) { t.nodes[i].optional = v & 1; v >>= 1; }
      }
      for (int i = 0; i < p.n; ++i) { set_outcome(t.nodes[i], (int)(v % p.outcomes)); v /= p.outcomes; }
      ++configs;
      // end of life: every sequence followed directly by destruction; sequences of the maximal length additionally
      // followed by cleanup() + destruction (for shorter ones that is the same as the sequence extended by `cleanup`)
      for (const auto &q : seqs) for (int eol = 0; eol < ((int)q.size() == maxlen ? 2 : 1); ++eol) {
        t.no_final_cleanup = eol == 0;
        Flags f;
        std::string err = run_tree_case(t, q.data(), q.size(), f);
        ++cases;
        if (f.destroyed_from >= 0) ++destroyed_from[f.destroyed_from];
        if (f.nontrivial()) ++nt;
        if (f.req_fail_after_ok_sibling_init) acc_any.req_fail_after_ok_sibling_init = true;
        if (f.req_fail_after_ok_sibling_start) acc_any.req_fail_after_ok_sibling_start = true;
        if (f.opt_halfway_init) acc_any.opt_halfway_init = true;
        if (f.opt_halfway_start) acc_any.opt_halfway_start = true;
        if (f.teardown_of_running_tree) ++teardown_running;
        if (!err.empty()) {
          stats().counters["enumerated_cases"] += cases;
          return "enumerated case [" + case_text(t, q.data(), q.size(), "; ") + "] " + err;
        }
      }
    }
  }
  stats().counters["enumerated_cases"] += cases;
  stats().counters["enumerated_tree_configs"] += configs;
  stats().counters["enumerated_nontrivial_cases"] += nt;
  stats().counters["enumerated_cleanup_of_running_tree_cases"] += teardown_running;
  stats().counters["enumerated_destroyed_without_cleanup_kNone"] += destroyed_from[0];
  stats().counters["enumerated_destroyed_without_cleanup_kInited"] += destroyed_from[1];
  stats().counters["enumerated_destroyed_without_cleanup_kRunning"] += destroyed_from[2];
  (void)j;
  static char label[96];
  snprintf(label, sizeof label, "space:nodes<=%d_x3outcomes+nodes<=%d_x6outcomes,calls<=%d", maxnodes, maxnodes - 1, maxlen);
  info.cls(label);
  info.nontrivial = nt > 0;
  info.cls_if(acc_any.req_fail_after_ok_sibling_init, "slice_has_required_fails_init_after_ok_sibling");
  info.cls_if(acc_any.req_fail_after_ok_sibling_start, "slice_has_required_fails_start_after_ok_sibling");
  info.cls_if(acc_any.opt_halfway_init, "slice_has_optional_subtree_fails_halfway_init");
  info.cls_if(acc_any.opt_halfway_start, "slice_has_optional_subtree_fails_halfway_start");
  return "";
}

#ifndef VERIF_ENGINE_FUZZ
// The driver passes "max_success=<slices per worker> max_size=<max nodes>" in RC_PARAMS and the worker index only
// through the name of the --out file ("...-<w>.json"); C11_EXH_WORKERS is set in reg.py.  If anything cannot be
// recovered every worker enumerates the complete space (correct, only slower).
int64_t rc_param(const char *key, int64_t dflt) {
  const char *p = getenv("RC_PARAMS"); if (!p) return dflt;
  std::string s(p), k = std::string(key) + "=";
  size_t at = s.find(k); if (at == std::string::npos || (at > 0 && s[at - 1] != ' ')) return dflt;
  return atoll(s.c_str() + at + k.size());
}
#endif

SubDef def_exh = [] {
  SubDef d; d.name = "exhaustive_small";
  d.op_names = {"slice"};
  d.op_arity = {4};
  d.nt_rule = "slice of the exhaustive enumeration that contains at least one case that is non-trivial by the rule of sub `tree` "
              "(the number of enumerated cases is in counters.enumerated_cases)";
  d.run = run_exhaustive;
#ifndef VERIF_ENGINE_FUZZ
  d.gen = [] {
    static int64_t next = 0;
    int64_t per_worker = rc_param("max_success", 1), maxnodes = rc_param("max_size", 4);
    if (maxnodes < 1) maxnodes = 1; if (maxnodes > 5) maxnodes = 5;
    int64_t workers = 1, w = 0;
    if (const char *e = getenv("C11_EXH_WORKERS")) workers = atoll(e);
    const std::string &out = rt().out_path;
    size_t dot = out.rfind(".json"), dash = out.rfind('-');
    bool ok = workers >= 1 && dot != std::string::npos && dash != std::string::npos && dash + 1 < dot;
    if (ok) { for (size_t i = dash + 1; i < dot; ++i) if (!isdigit((unsigned char)out[i])) ok = false; }
    if (ok) w = atoll(out.c_str() + dash + 1);
    if (!ok || w >= workers) { workers = 1; w = 0; }
    int64_t total = per_worker * workers;
    int64_t k = next++;
    int64_t index = (k % per_worker) * workers + w;
    Op op; op.code = SLICE; op.a = {index, total, maxnodes, 4};
    Scenario s; s.ops.push_back(op);
    return rc::gen::just(s);
  };
#endif
  return d;
}();
VERIF_REGISTER(&def_exh);
}  // namespace
