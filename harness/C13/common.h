// C13 — shared rig of the two terminal harnesses (hostile.cpp, line_editor.cpp).
//
// One case = a fresh event loop + Terminal + node tree + ONE session driven through one of the three front ends:
//   FE_FAKE    an in-process Connection (onRecvString() called directly; endSession() deferred by one loop pass as the
//              in-tree services do),
//   FE_TELNET  tbox::terminal::Telnetd on a unix-domain socket,
//   FE_RPC     tbox::terminal::TcpRpc on a unix-domain socket,
// everything on the calling thread.  The loop only ever runs inside vloop::passes() (production dispatch code, never
// blocking: a driver task is always pending), a few passes after every segment.  Only public headers are used.
#pragma once
#include "../common/verif.h"
#include "../common/vloop.h"
#include <tbox/event/loop.h>
#ifndef LOG_MODULE_ID
#define LOG_MODULE_ID "verif.c13"
#endif
#include <tbox/base/log_impl.h>
#include <tbox/terminal/terminal.h>
#include <tbox/terminal/connection.h>
#include <tbox/terminal/session.h>
#include <tbox/terminal/helper.h>
#include <tbox/terminal/service/telnetd.h>
#include <tbox/terminal/service/tcp_rpc.h>
#include <sys/socket.h>
#include <sys/un.h>
#include <cerrno>
#include <memory>
#include <deque>

namespace c13 {

using tbox::terminal::Args;
using tbox::terminal::Connection;
using tbox::terminal::NodeToken;
using tbox::terminal::Session;
using tbox::terminal::SessionToken;
using tbox::terminal::Terminal;
using tbox::terminal::TerminalInteract;

enum { FE_FAKE = 0, FE_TELNET = 1, FE_RPC = 2, NFE = 3 };
static const char *const kFeName[] = {"fe_fake_connection", "fe_telnetd", "fe_tcp_rpc"};

struct ProbeCall { int probe; std::vector<std::string> args; };

inline std::string printable(const std::string &s, size_t max = 120) {
  std::string o; char b[8];
  for (unsigned char c : s) {
    if (o.size() >= max) { o += "..."; break; }
    if (c == '\\') o += "\\\\";
    else if (c >= 0x20 && c < 0x7f) o += (char)c;
    else if (c == '\r') o += "\\r"; else if (c == '\n') o += "\\n";
    else { snprintf(b, sizeof b, "\\x%02x", c); o += b; }
  }
  return o;
}

// In-process front end.  It behaves like Telnetd/TcpRpc towards the Terminal: endSession() takes effect one loop
// pass later, after which the "transport" delivers nothing any more.
class FakeConn : public Connection {
 public:
  tbox::event::Loop *loop = nullptr;
  SessionToken st;
  std::string out;
  bool disconnected = false;
  int end_requests = 0, foreign_sends = 0;
  bool send(const SessionToken &t, char ch) override { if (t != st) { ++foreign_sends; return false; } out.push_back(ch); return true; }
  bool send(const SessionToken &t, const std::string &str) override { if (t != st) { ++foreign_sends; return false; } out += str; return true; }
  bool endSession(const SessionToken &t) override {
    if (t != st) return false;
    ++end_requests;
    loop->runNext([this] { disconnected = true; }, "c13::FakeConn::endSession");
    return true;
  }
  bool isValid(const SessionToken &t) const override { return t == st && !disconnected; }
};

struct Rig {
  vloop::Clock clk;
  std::unique_ptr<tbox::event::Loop> loop;
  std::unique_ptr<Terminal> term;
  int fe = FE_FAKE;
  FakeConn fake;
  bool fake_deleted = false;            // harness called deleteSession() for the fake session
  std::unique_ptr<tbox::terminal::Telnetd> telnetd;
  std::unique_ptr<tbox::terminal::TcpRpc> rpc;
  int cfd = -1;
  bool peer_closed = false, tx_dead = false;
  std::string sock_out;
  std::string sockpath;
  std::vector<ProbeCall> calls;
  // storage the helper nodes refer to
  int iv = 0; bool bv = false; std::string sv; double dv = 0; int vf_calls = 0;
  // state of the dynamic nodes
  NodeToken dyn_dir, dyn_parent, rm_target; int dyn_seq = 0;
  int stale_feeds = 0;
  bool settle = false;                  // socket front ends: after a segment keep running passes until no more output arrives
  std::string rig_err;                  // violation seen by the rig itself (first one)
  // a log channel that swallows every record after reading every byte of it (without a channel LogPrintfFunc() returns
  // before it formats anything, so whatever the terminal logs about client input would never be formatted)
  uint32_t log_id = 0; uint64_t log_records = 0, log_bytes = 0; volatile unsigned log_sum = 0;
  static void logSink(const LogContent *c, void *ptr) {
    Rig *r = static_cast<Rig *>(ptr);
    unsigned sum = 0;
    if (c->text_ptr != nullptr) for (uint32_t i = 0; i < c->text_len; ++i) sum += (unsigned char)c->text_ptr[i];
    if (c->module_id) sum += (unsigned char)c->module_id[0];
    if (c->func_name) sum += (unsigned char)c->func_name[0];
    if (c->file_name) sum += (unsigned char)c->file_name[0];
    r->log_sum = r->log_sum + sum; ++r->log_records; r->log_bytes += c->text_len;
  }
  void enableLog() { if (!log_id) log_id = LogAddPrintfFunc(&Rig::logSink, this); }
  void disableLog() { if (log_id) { LogRemovePrintfFunc(log_id); log_id = 0; } }
  // directories the application may take away under a live session: (node, parent, name under the parent)
  struct Dir { NodeToken node, parent; std::string name; };
  std::vector<Dir> dirs;
  int api_deletes = 0, api_umounts = 0;
  // action 1..15: directory (a-1)/3 of `dirs`, mode (a-1)%3 = deleteNode | umountNode | umountNode + deleteNode.
  // Runs on the loop thread between two segments, outside any callback (an application unloading a plug-in).
  void apiAction(int a) {
    if (a <= 0 || dirs.empty() || !term) return;
    const Dir &d = dirs[(size_t)((a - 1) / 3) % dirs.size()];
    int mode = (a - 1) % 3;
    if (mode >= 1) { if (term->umountNode(d.parent, d.name)) ++api_umounts; }
    if (mode != 1) { if (term->deleteNode(d.node)) ++api_deletes; }
  }

  Rig() : clk(1000000) {}
  Rig(const Rig &) = delete;
  ~Rig() { disableLog(); if (cfd >= 0) ::close(cfd); if (!sockpath.empty()) ::unlink(sockpath.c_str()); }

  std::string &out() { return fe == FE_FAKE ? fake.out : sock_out; }

  void init() {
    // A peer that disconnects while output is pending makes write() raise SIGPIPE.  Its disposition is the
    // application's business (tbox::main installs a handler for it); the harness ignores it like such an application.
    static bool once = (::signal(SIGPIPE, SIG_IGN), true); (void)once;
    loop.reset(tbox::event::Loop::New());
    term.reset(new Terminal(loop.get()));
  }

  // a func node that records (probe id, args); `reply` bytes are sent back through the Session
  NodeToken mkProbe(int id, const std::string &reply = "") {
    return term->createFuncNode([this, id, reply](const Session &s, const Args &a) {
      calls.push_back(ProbeCall{id, a});
      if (!reply.empty()) s.send(reply);
    }, "probe " + std::to_string(id));
  }

  void pump(int n) {
    if (n > 0) { clk.now += 1; vloop::passes(loop.get(), n); }
    if (cfd >= 0 && !peer_closed) {
      char buf[8192];
      for (;;) {
        ssize_t r = ::recv(cfd, buf, sizeof buf, 0);
        if (r > 0) { if (sock_out.size() < (8u << 20)) sock_out.append(buf, (size_t)r); continue; }
        if (r == 0 || (errno != EAGAIN && errno != EINTR)) peer_closed = true;
        if (r < 0 && errno == EINTR) continue;
        break;
      }
    }
  }

  // returns "" or an "INFRA: ..." message
  std::string start(int front_end, uint32_t fake_options) {
    fe = front_end;
    if (fe == FE_FAKE) {
      fake.loop = loop.get();
      fake.st = term->newSession(&fake);
      term->setOptions(fake.st, fake_options);
      if (term->getOptions(fake.st) != fake_options) rig_err = "getOptions() does not return what setOptions() stored";
      if (!term->onBegin(fake.st)) rig_err = "onBegin() of a fresh session returned false";
      return "";
    }
    char path[64]; snprintf(path, sizeof path, "c13-%d.sock", (int)getpid());
    sockpath = path;
    bool ok;
    if (fe == FE_TELNET) { telnetd.reset(new tbox::terminal::Telnetd(loop.get(), term.get())); ok = telnetd->initialize(path) && telnetd->start(); }
    else { rpc.reset(new tbox::terminal::TcpRpc(loop.get(), term.get())); ok = rpc->initialize(path) && rpc->start(); }
    if (!ok) return "INFRA: cannot listen on unix socket " + sockpath;
    cfd = ::socket(AF_UNIX, SOCK_STREAM | SOCK_NONBLOCK | SOCK_CLOEXEC, 0);
    struct sockaddr_un sa; memset(&sa, 0, sizeof sa); sa.sun_family = AF_UNIX; strncpy(sa.sun_path, path, sizeof sa.sun_path - 1);
    if (cfd < 0 || ::connect(cfd, (struct sockaddr *)&sa, sizeof sa) != 0) return "INFRA: cannot connect to " + sockpath;
    pump(3);
    return "";
  }

  // One segment = one write (socket front ends) / one onRecvString() (fake), then `passes` loop passes.
  // stale: (fake only) keep calling onRecvString() after endSession() took effect (a transport would have stopped).
  void feed(const std::string &seg, int passes, bool stale = false) {
    if (seg.empty()) { pump(passes); return; }
    if (fe == FE_FAKE) {
      if (!fake_deleted && (!fake.disconnected || stale)) {
        if (fake.disconnected) ++stale_feeds;
        term->onRecvString(fake.st, seg);
      }
      pump(passes);
      return;
    }
    size_t off = 0; int guard = 0;
    while (!tx_dead && off < seg.size()) {
      ssize_t n = ::send(cfd, seg.data() + off, seg.size() - off, MSG_NOSIGNAL);
      if (n > 0) { off += (size_t)n; continue; }
      if (n < 0 && errno == EINTR) continue;
      if (n < 0 && errno == EAGAIN) { pump(1); if (++guard > 2000) tx_dead = true; continue; }
      tx_dead = true;
    }
    pump(passes);
    // Many tiny writes (one per echoed character) can fill the socket's send queue by per-packet overhead alone; the
    // service then buffers and flushes on later passes.  An oracle that reads "the reply to this segment" waits for it.
    if (settle) for (int i = 0; i < 200 && !peer_closed; ++i) { size_t b = sock_out.size(); pump(1); if (sock_out.size() == b) break; }
  }

  // close modes: 0 client closes, server notices; 1 service stop() with the connection still open; 2 client half-close
  // (SHUT_WR) first; 3 like 0 but the session is deleted / closed without any loop pass since the last segment
  void closeAndDrain(int mode) {
    if (fe == FE_FAKE) {
      if (mode != 3) pump(2);
      if (mode == 1 && !fake_deleted) term->onExit(fake.st);
      if (!fake_deleted) { term->deleteSession(fake.st); fake_deleted = true; }
      if (term->deleteSession(fake.st) && rig_err.empty()) rig_err = "deleteSession() returned true for an already deleted session";
      { size_t ob = fake.out.size(), cb = calls.size();
        if (term->onRecvString(fake.st, "p\r\nhistory\r\n") && rig_err.empty()) rig_err = "onRecvString() returned true for the token of a deleted session";
        if ((fake.out.size() != ob || calls.size() != cb) && rig_err.empty()) rig_err = "onRecvString() for a deleted session produced output / ran a command"; }
      if (term->onRecvWindowSize(fake.st, 80, 25) && rig_err.empty()) rig_err = "onRecvWindowSize() returned true for a deleted session";
      if (term->onExit(fake.st) && rig_err.empty()) rig_err = "onExit() returned true for a deleted session";
      if (term->onBegin(fake.st) && rig_err.empty()) rig_err = "onBegin() returned true for a deleted session";
      pump(3);
    } else {
      if (mode == 1) {
        if (telnetd) telnetd->stop(); if (rpc) rpc->stop();
        pump(2);
        if (cfd >= 0) { ::close(cfd); cfd = -1; }
      } else {
        if (mode == 2 && cfd >= 0) { ::shutdown(cfd, SHUT_WR); pump(3); }
        if (cfd >= 0) { ::close(cfd); cfd = -1; }
      }
      pump(4);
      if (telnetd) { telnetd->stop(); telnetd->cleanup(); }
      if (rpc) { rpc->stop(); rpc->cleanup(); }
      pump(2);
      telnetd.reset(); rpc.reset();
      pump(2);
    }
    term.reset();
    pump(1);
    loop.reset();
    if (!sockpath.empty()) { ::unlink(sockpath.c_str()); sockpath.clear(); }
  }

  // after an exception escaped from the loop / the Terminal: the objects are in an undefined state (callback
  // depth counters, half-run deferred tasks) and their destructors assert on it; leak them on purpose.
  void abandon() {
    if (cfd >= 0) { ::close(cfd); cfd = -1; }
    (void)telnetd.release(); (void)rpc.release(); (void)term.release(); (void)loop.release();
    if (!sockpath.empty()) { ::unlink(sockpath.c_str()); sockpath.clear(); }
  }
};

// splitmix64 stream used by the seed-expanding generators
struct Rng {
  uint64_t st;
  explicit Rng(uint64_t seed) : st(seed * 0x9E3779B97F4A7C15ull + 0x1234567ull) {}
  uint64_t next() { uint64_t z = (st += 0x9E3779B97F4A7C15ull); z = (z ^ (z >> 30)) * 0xBF58476D1CE4E5B9ull; z = (z ^ (z >> 27)) * 0x94D049BB133111EBull; return z ^ (z >> 31); }
  int64_t rng(int64_t lo, int64_t hi) { return lo + (int64_t)(next() % (uint64_t)(hi - lo + 1)); }
  bool chance(int num, int den) { return rng(0, den - 1) < num; }
  int64_t pick(std::initializer_list<std::pair<int, int64_t>> w) {
    int total = 0; for (auto &p : w) total += p.first;
    int64_t x = rng(0, total - 1);
    for (auto &p : w) { if (x < p.first) return p.second; x -= p.first; }
    return 0;
  }
};

#ifndef VERIF_ENGINE_FUZZ
// rapidcheck generator: ONE 62-bit number expanded deterministically into an op list (hundreds of rapidcheck picks
// per case cost milliseconds under ASan); shrinking works on the op list itself (every op list is a valid scenario).
inline rc::Gen<verif::Scenario> seedGen(std::function<verif::Scenario(uint64_t)> expand) {
  auto base = rc::gen::map(rc::gen::noShrink(verif::range(0, (int64_t)1 << 62)), [expand](int64_t s) { return expand((uint64_t)s); });
  return rc::gen::shrink(base, [](const verif::Scenario &s) {
    std::vector<verif::Scenario> out;
    size_t n = s.ops.size();
    for (size_t chunk = n / 2; chunk >= 1; chunk /= 2) {
      for (size_t at = 0; at + chunk <= n; at += chunk) {
        verif::Scenario t; t.ops.reserve(n - chunk);
        for (size_t i = 0; i < n; ++i) if (i < at || i >= at + chunk) t.ops.push_back(s.ops[i]);
        out.push_back(std::move(t));
      }
      if (chunk == 1) break;
    }
    for (size_t i = 0; i < n; ++i) {
      if (s.ops[i].a.size() > 1) { verif::Scenario t = s; t.ops[i].a.pop_back(); out.push_back(std::move(t)); }
      for (size_t k = 0; k < s.ops[i].a.size(); ++k)
        if (s.ops[i].a[k] != 0) {
          verif::Scenario t = s; t.ops[i].a[k] = 0; out.push_back(std::move(t));
          if (s.ops[i].a[k] > 3 || s.ops[i].a[k] < -3) { verif::Scenario u = s; u.ops[i].a[k] /= 2; out.push_back(std::move(u)); }
        }
    }
    return rc::seq::fromContainer(std::move(out));
  });
}
#endif

}  // namespace c13
