_LIBS = ["terminal", "network", "event", "util", "base"]
_DICT = "harness/C13/terminal.dict"
# the driver's defaults + a hard RSS limit: a few hundred bytes from a client must not make the process grow without bound
# (e.g. `tree` over a directory cycle that is not detected); ASan then aborts and the case is captured as a crash long before
# the per-case watchdog (60 s) or the machine's memory is reached.  Normal peak RSS is < 150 MB (rapidcheck) / < 500 MB (fuzz).
_ASAN = ("detect_leaks=1:detect_stack_use_after_return=0:allocator_may_return_null=1:handle_abort=0:symbolize=1:"
         "malloc_context_size=4:quarantine_size_mb=48:hard_rss_limit_mb=")
TARGETS = {
    "c13_hostile_fuzz":   {"src": "C13/hostile.cpp", "variant": "asan", "engine": "fuzz", "libs": _LIBS},
    "c13_hostile_rc":     {"src": "C13/hostile.cpp", "variant": "asan", "engine": "rc", "libs": _LIBS},
    "c13_line_editor_rc": {"src": "C13/line_editor.cpp", "variant": "asan", "engine": "rc", "libs": _LIBS},
}
PROP = {
    "subchecks": [
        # (a) hostile bytes, token-level generator (rapidcheck).  Must stay the FIRST rapidcheck sub-check named `hostile`:
        # the text regression inputs `# hostile: ...` are replayed through it.
        {"target": "c13_hostile_rc", "sub": "hostile", "env": {"ASAN_OPTIONS": _ASAN + "4096"},
         "quick": {"cases": 10000, "max_size": 100, "workers": 4, "case_alarm": 60},
         "thorough": {"cases": 200000, "max_size": 100, "workers": 4, "case_alarm": 60}},
        # (b) line editor against the reference editor
        {"target": "c13_line_editor_rc", "sub": "line_editor", "env": {"ASAN_OPTIONS": _ASAN + "4096"},
         "quick": {"cases": 4000, "max_size": 100, "workers": 4, "case_alarm": 60},
         "thorough": {"cases": 80000, "max_size": 100, "workers": 4, "case_alarm": 60}},
        # (a) hostile bytes, libFuzzer (even workers start from corpus/C13/hostile, odd ones from an empty corpus).
        # A hang is part of the property: a timeout artifact is a violation (a unit takes ~1 ms; the limit is 60 s).
        {"target": "c13_hostile_fuzz", "sub": "hostile", "dict": _DICT, "timeout_is_violation": True, "env": {"ASAN_OPTIONS": _ASAN + "2500"},
         "quick": {"runs": 25000, "max_len": 512, "workers": 8, "unit_timeout": 60},
         "thorough": {"runs": 250000, "max_len": 1024, "workers": 8, "unit_timeout": 60}},
    ],
    "assumptions": [
        "one session per Terminal, driven from the loop thread; the loop is drained (a few passes) before the service, the Terminal and the loop are destroyed, in that order",
        "SIGPIPE is ignored or handled by the application (as tbox::main does): a client that disconnects while a reply is being written must not kill the process through the default SIGPIPE action",
        "the application may deleteNode() / umountNode() any directory except the root between two loop passes (outside callbacks), also the one a session currently sits in",
        "half of the cases run with a log channel installed (LogAddPrintfFunc) that reads every byte of every record",
        "command nodes may call Session::send / isValid / endSession and TerminalNodes::createDirNode / mountNode / umountNode / deleteNode of OTHER nodes; a node never deletes itself while it runs",
        "(b) every key arrives whole inside one segment; a bare CR counts as Enter only as the last byte of a segment; keys are printable ASCII without ; ' \" / # > $ % and Enter, Backspace, Delete, Left, Right, Home, End, Up, Down",
        "(b) reference rules taken from the real editor where the statement is silent (NOTES.md): a line is stored iff it is non-empty and is not `history` or a history reference; a successful !n / !-n / !! stores the line it ran; !n counts from 0 = oldest stored line, !-n from 1 = newest; Up/Down replace the draft, Down past the newest entry leaves an empty line; lines the reference does not predict (white space only, exit/quit, malformed ! forms, `history` with arguments, !-0) are rubbed out instead of entered",
        "(b) text layout is free: a prompt is whatever follows the last line feed of the greeting; `history` lines only have to END with the stored line; an error reply is any non-blank text",
    ],
}
META = {
    "design_ref": "DESIGN.md section 4, C13",
    "technique": "coverage-guided fuzzing (libFuzzer, dictionary of telnet / key / shell tokens, seed corpus of real sessions) and token-level random generation (rapidcheck) of "
                 "client byte streams with generated segmentation against a real Terminal with generated node trees behind each of its three front ends (in-process Connection, "
                 "Telnetd and TcpRpc on a unix-domain socket, real event loop on the harness thread) under ASan/UBSan with poisoned session-pool blocks (hook H3); plus model-based "
                 "testing (rapidcheck) of generated keystroke sessions against a reference line editor with bounded history",
    "level_text": "(a) Byte streams of up to 64 KiB built from telnet negotiation and sub-negotiation sequences (complete, truncated, nested, with 0-6 option bytes), escape and "
                  "control sequences, shell syntax (; quotes ! paths), built-in commands, history references with integers at the int32/int64 edges, node names, long runs and raw noise, "
                  "cut into up to 8 (fuzzer) or dozens (generator) of segments - including segment sizes that make a telnet fragment end exactly at the end of the receive buffer's "
                  "allocation - are sent to one session of a Terminal whose tree has directories, cycles, deleted-but-mounted nodes, a null function, value nodes of helper.h, and "
                  "commands that end the session, reply with 3 KB, and create / mount / umount / delete nodes at run time; between segments the application itself deletes and/or umounts directories, including the one the session sits in, and relative names are resolved afterwards; half of the cases run with a log channel installed so that the terminal's log lines about client input (printf conversions included) are really formatted; the session is then closed in one of four ways (peer close, "
                  "service stop, half-close, close with the last segment still unread). Nothing may crash, trip ASan/UBSan, leak, hang or let an exception out of runLoop / onRecvString; "
                  "calls with the token of a deleted session must return false and do nothing. (b) Sessions of up to 36 lines typed key by key (commands for probe nodes with arguments, "
                  "blank lines, history, !n / !-n / !! with n at 0, size-1, size, -size, -size-1, +-2^31, +-2^32, 10^12, 2^64, recalls with Up/Down that are then edited, edits in the "
                  "middle of the line), every key in one of its encodings, segment boundaries anywhere between keys, echo on and off, through all three front ends: after every segment "
                  "the probe nodes were invoked exactly as a reference editor (string + cursor + history deque of 20 + history index) predicts - same probe, exactly the words of the "
                  "reference's line, nothing missing, nothing extra - there is one new prompt per Enter, `history` lists exactly the reference's stored lines in order, and a history "
                  "reference either runs exactly the addressed stored line or prints an error and runs nothing. Exploration only: no counter-example among N generated cases.",
    "level_note": "Trusted: the reference editor (about 60 lines, line_editor.cpp), the harness's own word splitter, ASan/UBSan and the pool-poisoning hook, libFuzzer's timeout as hang "
                  "detector. Six genuine defects were found and are fixed by harness/C13/proposed-fixes/01..06 (regression inputs in corpus/C13/regress; the check reports them again if "
                  "they return). Not covered: several concurrent sessions on one Terminal, the stdio front end, destruction of a service or Terminal while deferred tasks are pending, keys "
                  "split across segments, ;-joined and quoted command lines beyond crash-freedom, what built-in commands print, SIGPIPE with the default disposition.",
}
