_LIBS = ["terminal", "network", "event", "util", "base"]
_DICT = "harness/C13/terminal.dict"
TARGETS = {
    "c13_hostile_fuzz":   {"src": "C13/hostile.cpp", "variant": "asan", "engine": "fuzz", "libs": _LIBS},
    "c13_hostile_rc":     {"src": "C13/hostile.cpp", "variant": "asan", "engine": "rc", "libs": _LIBS},
    "c13_line_editor_rc": {"src": "C13/line_editor.cpp", "variant": "asan", "engine": "rc", "libs": _LIBS},
}
PROP = {
    "subchecks": [
        {"target": "c13_hostile_rc", "sub": "hostile",
         "quick": {"cases": 1500, "max_size": 100, "workers": 4, "case_alarm": 60},
         "thorough": {"cases": 40000, "max_size": 100, "workers": 4, "case_alarm": 60}},
    ],
    "assumptions": [],
}
META = {"design_ref": "DESIGN.md section 4, C13", "technique": "", "level_text": "", "level_note": ""}
