// C13 (a) — hostile input is harmless: no sequence of bytes sent by a terminal client, in any segmentation, through any
// of the three front ends, crashes the process, lets an exception escape the event loop / onRecvString(), trips
// ASan/UBSan (pooled session blocks are poisoned while parked, hook H3) or hangs.
//
// Sub `hostile` is built twice: target c13_hostile_fuzz (libFuzzer, bytes -> scenario by decodeBytes) and target
// c13_hostile_rc (rapidcheck: token-level generator; also the sub that replays text regression files).
//
// Ops:  cfg fe tree echo quiet close passes stale log | raw b... | lit k | num v | pad n byte | seg | cut pos | api a | apiat pos a
//   fe     0 fake Connection, 1 Telnetd, 2 TcpRpc          tree   0..3, see buildTree()
//   echo/quiet  session options of the fake front end      close  see Rig::closeAndDrain()
//   passes 1..3 loop passes after every segment            stale  fake: keep feeding after endSession() took effect
//   raw/lit/num/pad append to the byte stream; `seg` puts a segment boundary at the current end of the stream,
//   `cut pos` at an absolute offset (libFuzzer inputs).
//   log    1 = a log channel is installed for the case (the terminal's log lines about client input get formatted)
//   api a  segment boundary here, and between the two segments the APPLICATION takes a directory node away
//          (Rig::apiAction: deleteNode / umountNode / both of one of the tree's directories); `apiat pos a` the same at an
//          absolute offset (libFuzzer inputs: the top 4 bits of a 16-bit cut position)
#define VERIF_MAIN
#include "common.h"
#include <algorithm>

using namespace verif;
using namespace c13;

namespace {

enum { CFG, RAW, LIT, NUM, PAD, SEG, CUT, API, APIAT, NOPS };
const std::vector<const char*> kOpNames = {"cfg", "raw", "lit", "num", "pad", "seg", "cut", "api", "apiat"};
const std::vector<int> kArity = {8, 8, 1, 1, 2, 0, 1, 1, 2};

#define IAC "\xff"
struct Lit { const char *p; size_t n; };
#define L(s) Lit{s, sizeof(s) - 1}
const Lit kLits[] = {
  /* 0*/ L("\r\n"), L("\n"), L("\r\0"), L("\r"), L(" "), L(";"), L("'"), L("\""), L("!"), L("!!"),
  /*10*/ L("!-"), L("/"), L(".."), L("."), L("ls"), L("cd"), L("pwd"), L("help"), L("history"), L("exit"),
  /*20*/ L("quit"), L("tree"), L("p"), L("d"), L("q"), L("e"), L("gone"), L("gd"), L("nf"), L("up"),
  /*30*/ L("self"), L("sub"), L("v"), L("iv"), L("bv"), L("sv"), L("dv"), L("vf"), L("bye"), L("say"),
  /*40*/ L("rmd"), L("mk"), L("um"), L("c0"), L("c1"), L("back"), L("true"), L("off"), L("1e999"), L("\t"),
  /*50*/ L("\x7f"), L("\x08"), L("\x1b[A"), L("\x1b[B"), L("\x1b[C"), L("\x1b[D"), L("\x1b[1~"), L("\x1b[3~"), L("\x1b[4~"), L("\x1b[2~"),
  /*60*/ L("\x1b"), L("\x1b["), L("\x1bO"), L("\x1bOP"), L("\x1b[15~"), L("\x1b[24~"), L("\xc2"), L("\xc2\x81"), L("\x1b[5~"), L("\x1bx"),
  /*70*/ L(IAC), L(IAC IAC), L(IAC "\xf1"), L(IAC "\xfd\x01"), L(IAC "\xfe\x01"), L(IAC "\xfb\x1f"), L(IAC "\xfc\x03"), L(IAC "\xfd"), L(IAC "\xfa"), L(IAC "\xf0"),
  /*80*/ L(IAC "\xfa\x1f"), L(IAC "\xfa\x1f\x00\x50\x00\x18" IAC "\xf0"), L(IAC "\xfa\x1f" "x" IAC "\xf0"), L(IAC "\xfa\x1f" IAC "\xf0"), L(IAC "\xfa\x18\x00" "vt100" IAC "\xf0"),
  /*85*/ L(IAC "\xfa\x1f\x00\x50" IAC IAC "\x00\x18" IAC "\xf0"), L(IAC "\xfa\x1f\x00\x50\x00"), L(IAC "\xf4"), L(IAC "\xee"), L("\0"),
  /*90*/ L("exit\r\n"), L("history\r\n"), L("!!\r\n"), L("!0\r\n"), L("!-1\r\n"), L("p a b\r\n"), L("tree\r\n"), L("cd d\r\n"), L("ls\r\n"), L("d/self/up/d/q"),
  /*100*/ L("%s"), L("%n"), L("%5c"), L("%%"), L("%ld"), L("%*d"), L("%s%s%s%s%s%s%s%s"), L("%n%n%n%n"), L("/rmd"), L("up/rmd"),
  /*110*/ L("../rmd"), L("./q"), L("./"), L("sub/r"), L("%x%x%x%x%s"), L("%.3f"), L("x"), L("cd d\r\n"), L("cd d/sub\r\n"), L("cd c0/c1/c2\r\n"),
};
const int kNLits = sizeof kLits / sizeof kLits[0];
#undef L

const int64_t kNums[] = {0, 1, 2, 19, 20, 21, -1, -2, -20, -21, 2147483647ll, 2147483648ll, -2147483647ll, -2147483648ll, -2147483649ll,
                         4294967295ll, 4294967296ll, 99999999999ll, 1000000000000ll, -1000000000000ll, 9223372036854775807ll};
const int kNNums = sizeof kNums / sizeof kNums[0];

const size_t kMaxStream = 64u << 10;

struct Plan {
  int fe = FE_FAKE, tree = 1, close = 0, passes = 2; bool echo = true, quiet = false, stale = false, log = false;
  std::string stream; std::vector<size_t> cuts;
  std::vector<std::pair<size_t, int>> actions;   // (offset in the stream, Rig::apiAction code): run after the segment that ends there
};

Plan build(const Scenario &s) {
  Plan p; std::vector<int64_t> cutreq; std::vector<std::pair<int64_t, int>> actreq;
  auto room = [&](size_t n) { return p.stream.size() + n <= kMaxStream; };
  for (auto &op : s.ops) {
    switch (op.code) {
      case CFG: p.fe = (int)op.in(0, 0, NFE - 1); p.tree = (int)op.in(1, 0, 3); p.echo = op.in(2, 0, 1); p.quiet = op.in(3, 0, 1);
                p.close = (int)op.in(4, 0, 3); p.passes = (int)op.in(5, 1, 3); p.stale = op.in(6, 0, 1); p.log = op.in(7, 0, 1); break;
      case RAW: if (room(op.a.size())) for (auto v : op.a) p.stream += (char)(uint8_t)v; break;
      case LIT: { const Lit &l = kLits[op.in(0, 0, kNLits - 1)]; if (room(l.n)) p.stream.append(l.p, l.n); break; }
      case NUM: { std::string t = std::to_string((long long)op.arg(0)); if (room(t.size())) p.stream += t; break; }
      case PAD: { size_t n = (size_t)op.in(0, 0, 5000); if (room(n)) p.stream.append(n, (char)(uint8_t)op.arg(1)); break; }
      case SEG: if (!p.stream.empty()) p.cuts.push_back(p.stream.size()); break;
      case CUT: cutreq.push_back(op.arg(0)); break;
      case API: if (!p.stream.empty()) p.cuts.push_back(p.stream.size()); p.actions.push_back({p.stream.size(), (int)op.in(0, 0, 15)}); break;
      case APIAT: cutreq.push_back(op.arg(0)); actreq.push_back({op.arg(0), (int)op.in(1, 0, 15)}); break;
      default: break;
    }
  }
  for (auto v : cutreq) { Op o; o.a = {v}; size_t c = (size_t)o.in(0, 0, (int64_t)p.stream.size()); p.cuts.push_back(c); }
  for (auto &a : actreq) { Op o; o.a = {a.first}; p.actions.push_back({(size_t)o.in(0, 0, (int64_t)p.stream.size()), a.second}); }
  std::sort(p.cuts.begin(), p.cuts.end());
  p.cuts.erase(std::unique(p.cuts.begin(), p.cuts.end()), p.cuts.end());
  while (!p.cuts.empty() && p.cuts.back() >= p.stream.size()) p.cuts.pop_back();
  while (!p.cuts.empty() && p.cuts.front() == 0) p.cuts.erase(p.cuts.begin());
  return p;
}

// ---- node trees --------------------------------------------------------------------------------------------------
// 0: /p
// 1: /p  /d/{q, up -> /, self -> d, sub/r}  /e (empty)  /gone (func node deleted while mounted)  /gd (dir node deleted while
//    mounted)  /nf (null function)  + a func node and a dir node that are never mounted; rejected mounts ("" and "!x", a duplicate)
// 2: tree 1 + /v/{iv bv sv dv vf} (helper.h value nodes) + bye (Session::endSession) + say (3 KB reply) + rmd (deletes
//    the dir node d, possibly under the session's feet) + mk (creates and mounts a new dir) + um (umounts /d/q)
// 3: /p + chain /c0/c1/.../c9, /c0/.../c9/back -> c0, one 300-character name
void buildTree(Rig &r, int variant) {
  Terminal &t = *r.term;
  NodeToken root = t.rootNode();
  t.mountNode(root, r.mkProbe(0, "ok\r\n"), "p");
  if (variant == 0) return;
  if (variant == 3) {
    NodeToken prev = root, c0;
    for (int i = 0; i < 10; ++i) {
      NodeToken c = t.createDirNode("chain");
      t.mountNode(prev, c, "c" + std::to_string(i));
      if (i == 0 || i == 1 || i == 2 || i == 5 || i == 9) r.dirs.push_back({c, prev, "c" + std::to_string(i)});
      if (i == 0) c0 = c;
      prev = c;
    }
    t.mountNode(prev, c0, "back");
    t.mountNode(prev, r.mkProbe(3), std::string(300, 'L'));
    return;
  }
  NodeToken d = t.createDirNode("dir d");
  t.mountNode(root, d, "d");
  t.mountNode(d, r.mkProbe(1), "q");
  t.mountNode(d, root, "up");
  t.mountNode(d, d, "self");
  NodeToken sub = t.createDirNode("");
  t.mountNode(d, sub, "sub");
  t.mountNode(sub, r.mkProbe(2, "r\r\n"), "r");
  NodeToken e = t.createDirNode("empty");
  t.mountNode(root, e, "e");
  r.dirs.push_back({d, root, "d"}); r.dirs.push_back({sub, d, "sub"}); r.dirs.push_back({e, root, "e"}); r.dirs.push_back({d, d, "self"});
  NodeToken gone = r.mkProbe(4);
  t.mountNode(root, gone, "gone");
  t.deleteNode(gone);
  NodeToken gd = t.createDirNode("deleted dir");
  t.mountNode(gd, r.mkProbe(5), "x");
  t.mountNode(root, gd, "gd");
  t.deleteNode(gd);
  t.mountNode(root, t.createFuncNode(tbox::terminal::Func(), "null function"), "nf");
  (void)t.createFuncNode([](const Session &, const Args &) {}, "never mounted");
  (void)t.createDirNode("never mounted");
  bool bad = t.mountNode(root, r.mkProbe(6), "") | t.mountNode(root, r.mkProbe(6), "!x") | t.mountNode(root, r.mkProbe(6), "p") |
             t.mountNode(gone, r.mkProbe(6), "y") | t.umountNode(root, "nosuch") | t.deleteNode(gone);
  if (bad && r.rig_err.empty()) r.rig_err = "an invalid mount / umount / delete of a node was accepted";
  if (variant == 1) return;
  NodeToken v = tbox::terminal::AddDirNode(t, root, "v", "values");
  r.dirs.push_back({v, root, "v"});
  tbox::terminal::AddFuncNode(t, v, "iv", r.iv, -5, 100);
  tbox::terminal::AddFuncNode(t, v, "bv", r.bv);
  tbox::terminal::AddFuncNode(t, v, "sv", r.sv);
  tbox::terminal::AddFuncNode(t, v, "dv", r.dv, -1e9, 1e9);
  Rig *rp = &r;
  tbox::terminal::AddFuncNode(t, v, "vf", [rp] { ++rp->vf_calls; });
  t.mountNode(root, t.createFuncNode([](const Session &s, const Args &) { s.send("bye\r\n"); s.endSession(); }, "end the session"), "bye");
  t.mountNode(root, t.createFuncNode([](const Session &s, const Args &a) { s.send(std::string(3000, 'z') + "\r\n"); if (a.size() > 1 && !s.isValid()) s.send('?'); }, "long reply"), "say");
  r.rm_target = d; r.dyn_parent = d;
  t.mountNode(root, t.createFuncNode([rp](const Session &, const Args &) { rp->term->deleteNode(rp->rm_target); }, "delete dir d"), "rmd");
  t.mountNode(root, t.createFuncNode([rp](const Session &, const Args &) {
    if (rp->dyn_seq >= 40) return;
    NodeToken n = rp->term->createDirNode("dynamic");
    if (!rp->term->mountNode(rp->dyn_parent, n, "n" + std::to_string(rp->dyn_seq++))) rp->term->deleteNode(n);
    else rp->dyn_parent = (rp->dyn_seq % 3 == 0) ? n : rp->dyn_parent;
  }, "make a dir"), "mk");
  t.mountNode(root, t.createFuncNode([rp, d](const Session &, const Args &) { rp->term->umountNode(d, "q"); }, "umount /d/q"), "um");
}

// Does the stream reach command dispatch (an Enter after at least one printable byte) / hold a complete telnet
// sub-negotiation?  Computed on the input (an approximation of what the scanner does, used for statistics only).
void shape(const Plan &p, bool &enter_with_text, bool &subneg, bool &iac, bool &esc, bool &bang, bool &semi) {
  bool text = false; enter_with_text = subneg = iac = esc = bang = semi = false;
  const std::string &s = p.stream;
  for (size_t i = 0; i < s.size(); ++i) {
    unsigned char c = (unsigned char)s[i];
    if (c == '\n' || c == '\r') { if (text) enter_with_text = true; text = false; }
    else if (c > 0x20 && c < 0x7f) text = true;
    if (c == 0xff) iac = true;
    if (c == 0x1b) esc = true;
    if (c == '!') bang = true;
    if (c == ';') semi = true;
    if (p.fe == FE_TELNET && c == 0xff && i + 1 < s.size() && (unsigned char)s[i + 1] == 0xfa) {
      size_t e = s.find("\xff\xf0", i + 2);
      if (e != std::string::npos) subneg = true;
    }
  }
}

std::string runHostile(const Scenario &scn, CaseInfo &info) {
  Plan p = build(scn);
  Rig r;
  r.init();
  if (p.log) r.enableLog();
  buildTree(r, p.tree);
  std::string phase = "session start";
  size_t nseg = p.cuts.size() + 1;
  bool exact_fill = false, input_after_api = false;
  auto runActions = [&](size_t pos) { for (auto &a : p.actions) if (a.first == pos) r.apiAction(a.second); };
  try {
    std::string e = r.start(p.fe, (p.echo ? TerminalInteract::kEnableEcho : 0u) | (p.quiet ? TerminalInteract::kQuietMode : 0u));
    if (!e.empty()) { r.abandon(); return e; }
    size_t at = 0, prev_len = 0;
    runActions(0);
    for (size_t k = 0; k < nseg; ++k) {
      size_t end = k < p.cuts.size() ? p.cuts[k] : p.stream.size();
      phase = "segment " + std::to_string(k) + " of " + std::to_string(nseg);
      bool last = k + 1 == nseg;
      if (k == 1 && end - at == 2 * prev_len && prev_len > 0) exact_fill = true;
      prev_len = end - at;
      if (end > at && r.api_deletes + r.api_umounts > 0) input_after_api = true;
      r.feed(p.stream.substr(at, end - at), (last && p.close == 3) ? 0 : p.passes, p.stale);
      at = end;
      if (end > 0) { phase = "application deletes / umounts a directory after segment " + std::to_string(k); runActions(end); }
    }
    phase = "close and drain";
    r.closeAndDrain(p.close);
  } catch (const std::exception &ex) {
    r.abandon();
    return std::string("C++ exception escaped from the event loop / the Terminal during ") + phase + " (" + kFeName[p.fe] + "): " + ex.what();
  } catch (...) {
    r.abandon();
    return std::string("unknown C++ exception escaped from the event loop / the Terminal during ") + phase;
  }
  if (!r.rig_err.empty()) return r.rig_err;
  bool ewt, subneg, iac, esc, bang, semi;
  shape(p, ewt, subneg, iac, esc, bang, semi);
  const std::string &out = r.out();
  info.cls(kFeName[p.fe]);
  static const char *const kTree[] = {"tree0_single_probe", "tree1_cycles_and_deleted_nodes", "tree2_dynamic_and_helper_nodes", "tree3_deep_chain"};
  info.cls(kTree[p.tree]);
  info.cls_if(ewt, "enter_after_text");
  info.cls_if(subneg, "telnet_subnegotiation_complete");
  info.cls_if(iac, "has_IAC");
  info.cls_if(esc, "has_ESC");
  info.cls_if(bang, "has_bang");
  info.cls_if(semi, "has_semicolon");
  info.cls_if(nseg >= 2, "segments>=2");
  info.cls_if(exact_fill, "segment_twice_the_previous(fills_receive_buffer)");
  info.cls_if(!r.calls.empty(), "probe_node_called");
  info.cls_if(out.find("Error") != std::string::npos || out.find("not found") != std::string::npos, "error_reply_seen");
  info.cls_if(out.find("Bye!") != std::string::npos || r.fake.end_requests > 0 || (p.fe != FE_FAKE && r.peer_closed && p.close != 1), "session_ended_by_exit");
  info.cls_if(out.find("(R)") != std::string::npos, "tree_cycle_printed");
  info.cls_if(out.find("(X)") != std::string::npos, "deleted_node_listed");
  info.cls_if(out.find("has been deleted") != std::string::npos, "deleted_node_reached");
  info.cls_if(r.stale_feeds > 0, "fed_after_endSession");
  info.cls_if(p.close == 3, "closed_without_loop_pass");
  info.cls_if(p.log, "log_channel_installed");
  info.cls_if(p.log && r.log_records > 0, "log_records_formatted");
  info.cls_if(p.stream.find('%') != std::string::npos, "has_percent");
  info.cls_if(r.api_deletes > 0, "application_deleted_a_directory");
  info.cls_if(r.api_umounts > 0, "application_umounted_a_directory");
  info.cls_if(input_after_api, "input_after_directory_was_taken_away");
  info.nontrivial = ewt || subneg;
  return "";
}

// libFuzzer bytes -> scenario: byte 0 selects front end and tree, byte 1 the options; the LAST byte is the number of
// cuts n (mod 8), the 2n bytes before it are big-endian cut positions (low 12 bits; the top 4 bits, if not 0, are an
// application action performed at that cut); everything in between is the client's stream.
Scenario decodeBytes(const uint8_t *d, size_t n) {
  Scenario s;
  uint8_t b0 = n > 0 ? d[0] : 0, b1 = n > 1 ? d[1] : 0x15;
  { Op o; o.code = CFG; o.a = {b0 % 3, (b0 / 3) % 4, b1 & 1, (b1 >> 1) & 1, (b1 >> 2) & 3, 1 + ((b1 >> 4) & 3) % 3, (b1 >> 6) & 1, (b1 >> 7) & 1}; s.ops.push_back(o); }
  if (n <= 2) return s;
  d += 2; n -= 2;
  size_t ncut = d[n - 1] % 8, body = n - 1;
  while (ncut * 2 > body) --ncut;
  body -= ncut * 2;
  if (body) { Op o; o.code = RAW; o.a.assign(d, d + body); s.ops.push_back(std::move(o)); }
  for (size_t k = 0; k < ncut; ++k) {
    int v = d[body + 2 * k] << 8 | d[body + 2 * k + 1];
    Op o; if (v >> 12) { o.code = APIAT; o.a = {v & 0x0fff, v >> 12}; } else { o.code = CUT; o.a = {v & 0x0fff}; }
    s.ops.push_back(o);
  }
  return s;
}

#ifndef VERIF_ENGINE_FUZZ
// token-level generator: command lines from the shell's vocabulary and the tree's names, history references with
// boundary integers, editing keys, telnet sequences (complete, truncated, nested), raw noise, long runs, and
// segmentations including "this segment is twice as long as the previous one" (it then ends exactly at the end of the
// receive buffer's allocation, where an over-read becomes an ASan report).
Scenario expandHostile(uint64_t seed) {
  Rng r(seed);
  Scenario sc; auto &v = sc.ops;
  auto mk = [&v](int code, std::vector<int64_t> a) { Op o; o.code = code; o.a = std::move(a); v.push_back(std::move(o)); };
  int fe = (int)r.pick({{3, FE_FAKE}, {4, FE_TELNET}, {3, FE_RPC}});
  int tree = (int)r.pick({{1, 0}, {3, 1}, {4, 2}, {2, 3}});
  mk(CFG, {fe, tree, r.rng(0, 1), r.pick({{4, 0}, {1, 1}}), r.pick({{4, 0}, {2, 1}, {1, 2}, {3, 3}}), r.rng(1, 3), r.rng(0, 1), r.rng(0, 1)});
  auto txt = [&](const char *t) { std::vector<int64_t> b; for (const char *c = t; *c; ++c) b.push_back((unsigned char)*c); mk(RAW, b); };
  auto enter = [&] { mk(LIT, {r.pick({{5, 0}, {3, 1}, {1, 2}, {1, 3}})}); };
  auto word = [&] {
    switch (r.pick({{6, 0}, {5, 1}, {2, 2}, {2, 3}, {1, 4}, {3, 5}})) {
      case 5: mk(LIT, {r.pick({{5, r.rng(100, 107)}, {1, 114}, {1, 115}})}); if (r.chance(1, 3)) mk(LIT, {r.rng(100, 107)}); break;   // printf conversions
      case 0: mk(LIT, {r.rng(14, 21)}); break;                 // built-in command names
      case 1: mk(LIT, {r.rng(22, 45)}); break;                 // node names of the trees
      case 2: mk(LIT, {r.pick({{2, 11}, {2, 12}, {1, 13}, {2, 99}})}); break;
      case 3: mk(NUM, {kNums[r.rng(0, kNNums - 1)]}); break;
      default: { int n = (int)r.rng(1, 6); std::vector<int64_t> b; for (int i = 0; i < n; ++i) b.push_back(r.rng(0x21, 0x7e)); mk(RAW, b); }
    }
  };
  auto path = [&] { int n = (int)r.rng(1, 5); for (int i = 0; i < n; ++i) { if (i || r.chance(1, 4)) mk(LIT, {11}); mk(LIT, {r.pick({{3, 23}, {2, 30}, {2, 29}, {1, 31}, {1, 12}, {1, 13}, {1, 24}, {1, 26}, {1, 27}, {1, 43}, {1, 44}, {1, 45}})}); } };
  auto ref = [&] {
    switch (r.pick({{3, 0}, {3, 1}, {3, 2}, {1, 3}})) {
      case 0: mk(LIT, {9}); break;
      case 1: mk(LIT, {8}); mk(NUM, {kNums[r.rng(0, kNNums - 1)]}); break;
      case 2: { int64_t n = kNums[r.rng(0, kNNums - 1)]; mk(LIT, {10}); mk(NUM, {n < 0 ? -(n + 1) : n}); break; }
      default: mk(LIT, {8}); word(); break;
    }
  };
  auto telnet = [&] {
    switch (r.pick({{4, 0}, {3, 1}, {3, 2}, {2, 3}})) {
      case 0: mk(LIT, {r.rng(70, 89)}); break;
      case 1: {   // IAC SB opt <payload of 0..6 bytes> IAC SE
        std::vector<int64_t> b = {0xff, 0xfa, r.pick({{4, 31}, {1, 24}, {1, 1}, {1, r.rng(0, 255)}})};
        int n = (int)r.rng(0, 6); for (int i = 0; i < n; ++i) b.push_back(r.pick({{3, r.rng(0, 255)}, {1, 0xff}, {1, 0}}));
        if (r.chance(5, 6)) { b.push_back(0xff); if (r.chance(5, 6)) b.push_back(0xf0); }
        mk(RAW, b); break; }
      case 2: mk(RAW, {0xff, r.rng(0xfb, 0xfe), r.pick({{2, 1}, {1, 3}, {1, 31}, {1, r.rng(0, 255)}})}); break;
      default: mk(RAW, {0xff, r.rng(0xec, 0xff)}); break;
    }
  };
  int nlines = (int)r.pick({{3, r.rng(1, 4)}, {3, r.rng(5, 12)}, {1, r.rng(22, 30)}});
  int seg_style = (int)r.pick({{2, 0}, {3, 1}, {2, 2}, {2, 3}});   // 0 one segment, 1 per line, 2 random, 3 doubling sizes
  if (seg_style == 3) {
    // the very first segment has k bytes (the receive buffer is then allocated with 2k), the second one 2k bytes that end
    // in a telnet fragment: it fills the receive buffer exactly
    int k = (int)r.rng(1, 6);
    std::vector<int64_t> tail;
    switch (r.pick({{3, 0}, {2, 1}, {2, 2}, {1, 3}})) {
      case 0: tail = {0xff, 0xfa, 31, r.rng(0, 255), 0xff, 0xf0}; break;
      case 1: tail = {0xff, r.rng(0xfb, 0xfe)}; break;
      case 2: tail = {0xff}; break;
      default: tail = {0xff, 0xfa, 31, 0, 80, 0xff, 0xf0}; break;
    }
    while ((int)tail.size() > 2 * k) ++k;
    mk(PAD, {k, 'a'}); mk(SEG, {});
    mk(PAD, {2 * k - (int64_t)tail.size(), 'b'}); mk(RAW, tail); mk(SEG, {});
    if (r.chance(1, 2)) mk(LIT, {0});
  }
  for (int i = 0; i < nlines; ++i) {
    int kind = (int)r.pick({{8, 0}, {3, 1}, {2, 2}, {3, 3}, {2, 4}, {2, 5}, {2, 6}, {1, 7}, {2, 8}, {tree ? 4 : 0, 9}});
    switch (kind) {
      case 0: { word(); int na = (int)r.rng(0, 3); for (int k = 0; k < na; ++k) { mk(LIT, {4}); if (r.chance(1, 3)) path(); else word(); } break; }
      case 1: ref(); break;
      case 2: mk(LIT, {18}); break;
      case 3: mk(LIT, {r.pick({{2, 14}, {2, 15}, {1, 17}, {2, 21}})}); mk(LIT, {4}); path(); break;
      case 4: { int n = (int)r.rng(1, 3); for (int k = 0; k < n; ++k) { if (k) mk(LIT, {5}); if (r.chance(1, 5)) ref(); else word(); } break; }   // a;b;c
      case 5: { mk(LIT, {r.rng(6, 7)}); word(); if (r.chance(2, 3)) mk(LIT, {r.rng(6, 7)}); break; }
      case 6: { int n = (int)r.rng(1, 8); for (int k = 0; k < n; ++k) mk(LIT, {r.rng(49, 69)}); if (r.chance(1, 2)) word(); break; }   // keys
      case 7: mk(LIT, {r.pick({{3, 19}, {1, 20}, {2, 38}, {2, 90}})}); break;
      case 9: {   // the session changes into a directory, the application (or a command) takes it or an ancestor away,
                  // then names relative to the current directory are resolved
        static const char *const kIn12[] = {"d", "d/sub", "e", "d/self", "v", "d/self/sub", "d/up/d"};
        static const char *const kIn3[] = {"c0", "c0/c1", "c0/c1/c2", "c0/c1/c2/c3/c4/c5", "c0/c1/c2/c3/c4/c5/c6/c7/c8/c9", "c0/c1/c2/c3"};
        const char *where = tree == 3 ? kIn3[r.rng(0, 5)] : kIn12[r.rng(0, 6)];
        if (r.chance(3, 4)) txt("cd ");
        txt(where); enter();
        if (tree == 2 && r.chance(1, 3)) { mk(LIT, {r.rng(108, 110)}); enter(); if (r.chance(1, 2)) mk(SEG, {}); }
        else mk(API, {r.rng(1, 15)});
        static const char *const kRel[] = {"q", "r", "ls x", "cd x", "help q", "tree sub", "./q", "ls", "pwd", "cd ..", "..", "tree", "ls ./", "sub/r", "x", "c3", "cd sub", "help .", "tree .", "ls q", "iv 1", "../p", "cd ../.."};
        int n = (int)r.rng(1, 4);
        for (int k = 0; k < n; ++k) { txt(kRel[r.rng(0, 22)]); if (k + 1 < n) enter(); }
        break; }
      default: break;   // blank line
    }
    if (r.chance(1, 15)) mk(API, {r.rng(1, 15)});
    if (fe == FE_TELNET ? r.chance(1, 2) : r.chance(1, 8)) telnet();
    if (r.chance(1, 12)) { int n = (int)r.rng(1, 12); std::vector<int64_t> b; for (int k = 0; k < n; ++k) b.push_back(r.rng(0, 255)); mk(RAW, b); }
    if (r.chance(1, 25)) mk(PAD, {r.pick({{2, r.rng(1, 40)}, {1, r.rng(200, 1100)}, {1, r.rng(1020, 1030)}}), r.pick({{2, 'a'}, {1, ' '}, {1, '/'}, {1, ';'}, {1, 0xff}, {1, 0x1b}})});
    if (r.chance(9, 10)) enter();
    if (r.chance(1, 6)) { mk(LIT, {r.pick({{3, 19}, {1, 20}})}); enter(); if (r.chance(1, 2)) { mk(LIT, {r.pick({{3, 19}, {1, 20}})}); enter(); } }
    if (seg_style == 1 || (seg_style == 2 && r.chance(1, 3))) mk(SEG, {});
  }
  return sc;
}
#endif

SubDef subHostile = [] {
  SubDef d; d.name = "hostile"; d.op_names = kOpNames; d.op_arity = kArity;
  d.nt_rule = "the byte stream reaches command dispatch (a CR or LF preceded, since the previous one, by a printable byte) or, on the telnet front end, holds a complete IAC SB ... IAC SE sub-negotiation";
  d.run = runHostile;
  d.decode = decodeBytes;
#ifndef VERIF_ENGINE_FUZZ
  d.gen = [] { return seedGen(expandHostile); };
#endif
  return d;
}();
VERIF_REGISTER(&subHostile);

}  // namespace
