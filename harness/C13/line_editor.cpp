// C13 (b) — line editing matches a reference.
//
// A session is a list of keystrokes (printable characters and the editing keys, each key in one of its byte encodings,
// never split across segments) typed into a real Terminal through one of the three front ends.  A reference editor
// (string + cursor + history deque of 20 + history index, RefEditor below) follows the same keystrokes; at every Enter it
// says which line must be executed.  Checked after every segment:
//   * the probe nodes were invoked exactly as the reference says: which probe, with exactly the words of the line,
//     nothing missing, nothing extra, in order;
//   * one new prompt per Enter (non-quiet sessions; the prompt text is learned from the greeting);
//   * `history` lists exactly the reference's stored lines, in order;
//   * `!n`, `!-n`, `!!` run exactly the addressed stored line, or answer with some error text and run nothing.
// What the statement leaves open and the reference therefore takes from the real editor (NOTES.md, "Reference rules"):
// which lines are stored, 0-based `!n`, what Up/Down do with a draft.  Lines the reference does not want to predict
// (white space only, `exit`/`quit`, malformed `!` forms, `history` with arguments) are rubbed out (End, Backspace...) instead of entered.
//
// Ops:  cfg fe echo quiet passes log | ch c | word w | ref mode k | key k enc | cut
#define VERIF_MAIN
#include "common.h"
#include <algorithm>

using namespace verif;
using namespace c13;

namespace {

enum { CFG, CH, WORD, REF, KEY, CUT, NOPS };
enum { K_ENTER, K_BS, K_DEL, K_LEFT, K_RIGHT, K_HOME, K_END, K_UP, K_DOWN, NKEYS };
const std::vector<const char*> kOpNames = {"cfg", "ch", "word", "ref", "key", "cut"};
const std::vector<int> kArity = {5, 1, 1, 2, 2, 0};

// printable characters that keep a line inside what the reference predicts: no ';' (command lists), no quotes, no '/'
// (paths), no '#' '>' '$' (prompt look-alikes), no tab; '%' only inside the vocabulary words 28..35
const char kAlphabet[] = "abcdefghijklmnopqrstuvwxyzABCXYZ0123456789    ---__==++..,,::!!??@()[]{}*&^~|<";
const int kNAlpha = sizeof kAlphabet - 1;
const char *const kProbeNames[] = {"p", "pq", "run"};
const int kNProbes = 3;
const char *const kWords[] = {
  /*0*/ "p", "pq", "run", " ", "a", "b1", "-v", "42", "x=1", "--long-option",
  /*10*/ "history", "ls", "pwd", "help", "tree", "cd", "nosuch", "P", "pp", "!",
  /*20*/ "  ", "0", "-", "hist", "ory", "ru", "n", "q",
  /*28*/ "%s", "%n", "%5c", "100%%", "%s%s%s%s%s%s%s%s", "%n%n%n%n", "%ld", "%*d",   // printf conversions are ordinary text for a shell
};
const int kNWords = sizeof kWords / sizeof kWords[0];
const size_t kHistoryCap = 20;

std::vector<std::string> splitWords(const std::string &l) {
  std::vector<std::string> w; size_t i = 0;
  while (i < l.size()) {
    while (i < l.size() && l[i] == ' ') ++i;
    size_t b = i;
    while (i < l.size() && l[i] != ' ') ++i;
    if (i > b) w.push_back(l.substr(b, i - b));
  }
  return w;
}

// ---- the reference ---------------------------------------------------------------------------------------------
struct Verdict {
  enum Kind { UNPREDICTED, BLANK, PROBE, OTHER, LISTING, REF_ERROR } kind = UNPREDICTED;
  int probe = -1; std::vector<std::string> args;   // PROBE
  std::vector<std::string> listing;                // LISTING
  bool via_ref = false;                            // reached through !n / !-n / !!
  std::string ran;                                 // the line that is executed
};

struct RefEditor {
  std::string line; size_t cur = 0;
  std::deque<std::string> hist; size_t hidx = 0;
  bool mid_edit = false, recall_edit = false;      // statistics

  void note_edit() { if (cur < line.size()) mid_edit = true; if (hidx > 0) recall_edit = true; }
  void ch(char c) { note_edit(); line.insert(cur, 1, c); ++cur; }
  void bs() { if (!cur) return; note_edit(); line.erase(cur - 1, 1); --cur; }
  void del() { if (cur >= line.size()) return; note_edit(); line.erase(cur, 1); }
  void left() { if (cur) --cur; }
  void right() { if (cur < line.size()) ++cur; }
  void home() { cur = 0; }
  void end() { cur = line.size(); }
  void up() { if (hidx == hist.size()) return; ++hidx; line = hist[hist.size() - hidx]; cur = line.size(); }
  void down() { if (!hidx) return; --hidx; if (hidx) { line = hist[hist.size() - hidx]; cur = line.size(); } else { line.clear(); cur = 0; } }

  static int probeOf(const std::string &w) { for (int i = 0; i < kNProbes; ++i) if (w == kProbeNames[i]) return i; return -1; }

  // a plain (non-history) command line
  static Verdict plain(const std::string &l, const std::vector<std::string> &w) {
    Verdict v; v.ran = l;
    if (w[0] == "exit" || w[0] == "quit") return v;
    int p = probeOf(w[0]);
    if (p >= 0) { v.kind = Verdict::PROBE; v.probe = p; v.args = w; }
    else v.kind = Verdict::OTHER;
    return v;
  }

  // what must happen when Enter is pressed now (the state is not changed)
  Verdict judge() const {
    Verdict v; v.ran = line;
    if (line.empty()) { v.kind = Verdict::BLANK; return v; }
    std::vector<std::string> w = splitWords(line);
    if (w.empty()) return v;                                       // white space only
    if (w[0] == "history") { if (w.size() > 1) return v; v.kind = Verdict::LISTING; v.listing.assign(hist.begin(), hist.end()); return v; }
    if (w[0][0] == '!') {
      if (w.size() > 1) return v;
      const std::string &t = w[0];
      bool exists = false; size_t idx = 0;
      if (t == "!!") { exists = !hist.empty(); idx = hist.size() - 1; }
      else {
        size_t i = 1; bool neg = false;
        if (i < t.size() && t[i] == '-') { neg = true; ++i; }
        if (i >= t.size()) return v;
        unsigned __int128 n = 0; bool huge = false;
        for (; i < t.size(); ++i) { if (t[i] < '0' || t[i] > '9') return v; n = n * 10 + (unsigned)(t[i] - '0'); if (n > ((unsigned __int128)1 << 100)) huge = true; }
        if (neg && n == 0 && !huge) return v;                      // "!-0"
        if (huge) exists = false;
        else if (!neg) { exists = n < hist.size(); idx = (size_t)n; }
        else { exists = n <= hist.size(); idx = hist.size() - (size_t)n; }
      }
      if (!exists) { v.kind = Verdict::REF_ERROR; return v; }
      const std::string &target = hist[idx];
      Verdict r = plain(target, splitWords(target));               // stored lines are never blank, `history` or `!...`
      r.via_ref = true;
      return r;
    }
    return plain(line, w);
  }

  // Enter: apply the verdict to the history
  void enter(const Verdict &v) {
    if (v.kind == Verdict::PROBE || v.kind == Verdict::OTHER) { hist.push_back(v.ran); if (hist.size() > kHistoryCap) hist.pop_front(); }
    line.clear(); cur = 0; hidx = 0;
  }
};

std::string keyBytes(int k, int enc) {
  switch (k) {
    case K_ENTER: switch (enc & 3) { case 0: return "\r\n"; case 1: return "\n"; case 2: return std::string("\r\0", 2); default: return "\r"; }
    case K_BS: return (enc & 1) ? "\x08" : "\x7f";
    case K_DEL: return "\x1b[3~";
    case K_LEFT: return "\x1b[D";
    case K_RIGHT: return "\x1b[C";
    case K_HOME: return "\x1b[1~";
    case K_END: return "\x1b[4~";
    case K_UP: return "\x1b[A";
    default: return "\x1b[B";
  }
}

std::string refText(int mode, int64_t k, size_t n) {
  auto num = [](long long v) { return std::to_string(v); };
  switch (mode) {
    case 0: return "!!";
    case 1: return "!" + num(k % 26);
    case 2: return "!" + num(n ? (long long)n - 1 : 0);
    case 3: return "!" + num((long long)n);
    case 4: return "!-" + num(n ? (long long)n : 1);
    case 5: return "!-" + num((long long)n + 1);
    case 6: return "!2147483648";
    case 7: return "!-2147483648";
    case 8: return "!1000000000000";
    case 9: return "!2147483647";
    case 10: return "!-2147483649";
    case 11: return "!-1";
    case 12: return "!0";
    case 13: return "!-" + num(1 + k % 25);
    case 14: return "!99999999999";
    case 15: return "!-1000000000000";
    case 16: return "!4294967296";
    case 17: return "!4294967297";
    case 18: return "!-4294967295";
    case 19: return "!-2147483647";
    case 20: return "!18446744073709551616";
    case 21: return "!" + num(n ? (long long)(k % (int64_t)n) : 0);
    default: return "!-" + num(n ? 1 + (long long)(k % (int64_t)n) : 1);
  }
}
const int kNRefModes = 23;

size_t countOcc(const std::string &s, const std::string &pat) {
  if (pat.empty()) return 0;
  size_t n = 0, at = 0;
  while ((at = s.find(pat, at)) != std::string::npos) { ++n; at += pat.size(); }
  return n;
}

// the text a command printed, without cursor-movement noise (ESC [ C / ESC [ D, backspaces)
std::string stripNoise(const std::string &s) {
  std::string o;
  for (size_t i = 0; i < s.size(); ++i) {
    if (s[i] == '\x1b' && i + 2 < s.size() && s[i + 1] == '[' && (s[i + 2] == 'C' || s[i + 2] == 'D')) { i += 2; continue; }
    if (s[i] == '\b') continue;
    o += s[i];
  }
  return o;
}
std::vector<std::string> nonBlankLines(const std::string &s) {
  std::vector<std::string> v; std::string cur;
  auto flush = [&] { if (cur.find_first_not_of(" \t\r") != std::string::npos) v.push_back(cur); cur.clear(); };
  for (char c : s) { if (c == '\n') flush(); else if (c != '\r') cur += c; }
  flush();
  return v;
}

struct Pending { Verdict v; std::string typed; };   // one Enter of the current segment

std::string runEditor(const Scenario &scn, CaseInfo &info) {
  int fe = FE_FAKE, passes = 1; bool echo = true, quiet = false, log = false;
  size_t first = 0;
  if (!scn.ops.empty() && scn.ops[0].code == CFG) {
    const Op &c = scn.ops[0];
    fe = (int)c.in(0, 0, NFE - 1); echo = c.in(1, 0, 1); quiet = c.in(2, 0, 1); passes = (int)c.in(3, 1, 2); log = c.in(4, 0, 1); first = 1;
  }
  if (fe == FE_RPC) { echo = false; quiet = true; }   // what TcpRpc configures
  if (fe == FE_TELNET) quiet = false;

  Rig r;
  r.settle = true;
  r.init();
  if (log) r.enableLog();
  r.term->setWelcomeText("hello\r\n");
  for (int i = 0; i < kNProbes; ++i) r.term->mountNode(r.term->rootNode(), r.mkProbe(i), kProbeNames[i]);

  RefEditor m;
  std::string seg; std::vector<Pending> pend; std::vector<ProbeCall> want;
  std::string prompt, err;
  size_t enters = 0, refs_ok = 0, refs_err = 0, listings = 0, stored_max = 0, blanks = 0, nseg = 0, probes = 0, cut_short = 0;
  bool cap_exceeded = false;
  bool tail_keys = false;   // the current segment has keys after its last Enter (their echo follows the last reply)

  auto flush = [&]() {
    if (seg.empty() || !err.empty()) return;
    size_t ob = r.out().size(), cb = r.calls.size();
    r.feed(seg, passes);
    ++nseg;
    std::string delta = r.out().substr(ob);
    std::string ctx = " [segment " + std::to_string(nseg) + " = \"" + printable(seg, 200) + "\", " + kFeName[fe] + (echo ? ", echo" : "") + (quiet ? ", quiet" : "") + "]";
    // 1. probe calls
    size_t got = r.calls.size() - cb;
    for (size_t i = 0; i < std::min(got, want.size()) && err.empty(); ++i) {
      const ProbeCall &g = r.calls[cb + i], &w = want[i];
      if (g.probe != w.probe || g.args != w.args) {
        std::string ga, wa; for (auto &a : g.args) ga += "[" + printable(a) + "]"; for (auto &a : w.args) wa += "[" + printable(a) + "]";
        err = "command " + std::to_string(i) + " of the segment: reference runs probe '" + kProbeNames[w.probe] + "' with " + wa + ", the terminal ran probe '" + kProbeNames[g.probe] + "' with " + ga + ctx;
      }
    }
    if (err.empty() && got != want.size()) {
      std::string which;
      if (got < want.size()) { which = "missing: probe '" + std::string(kProbeNames[want[got].probe]) + "' with"; for (auto &a : want[got].args) which += " [" + printable(a) + "]"; }
      else { which = "extra: probe '" + std::string(kProbeNames[r.calls[cb + want.size()].probe]) + "' with"; for (auto &a : r.calls[cb + want.size()].args) which += " [" + printable(a) + "]"; }
      err = "the reference runs " + std::to_string(want.size()) + " probe command(s) in this segment, the terminal ran " + std::to_string(got) + "; " + which + ctx;
    }
    // 2. prompts and per-Enter output
    std::vector<std::string> chunks;
    if (err.empty() && !quiet) {
      size_t n = countOcc(delta, prompt);
      if (n != pend.size())
        err = std::to_string(pend.size()) + " Enter(s) in this segment, " + std::to_string(n) + " prompt(s) \"" + printable(prompt) + "\" in the reply \"" + printable(delta, 300) + "\"" + ctx;
      size_t at = 0;
      for (size_t i = 0; i < pend.size() && err.empty(); ++i) { size_t e = delta.find(prompt, at); chunks.push_back(delta.substr(at, e - at)); at = e + prompt.size(); }
    } else if (err.empty() && pend.size() == 1 && !tail_keys) chunks.push_back(delta);   // quiet: no prompt to split at
    for (size_t i = 0; i < chunks.size() && err.empty(); ++i) {
      const Verdict &v = pend[i].v;
      std::string body = chunks[i];
      if (echo) { size_t nl = body.find("\r\n"); body = nl == std::string::npos ? "" : body.substr(nl + 2); }
      body = stripNoise(body);
      if (v.kind == Verdict::LISTING) {
        std::vector<std::string> ls = nonBlankLines(body);
        if (ls.size() != v.listing.size())
          err = "`history` must list the " + std::to_string(v.listing.size()) + " stored line(s) of the reference, the reply has " + std::to_string(ls.size()) + " line(s): \"" + printable(body, 400) + "\"" + ctx;
        for (size_t k = 0; k < ls.size() && err.empty(); ++k) {
          const std::string &want_line = v.listing[k];
          bool ok = ls[k].size() >= want_line.size() && ls[k].compare(ls[k].size() - want_line.size(), want_line.size(), want_line) == 0;
          if (!ok) err = "`history` line " + std::to_string(k) + " is \"" + printable(ls[k]) + "\", the reference stored \"" + printable(want_line) + "\" there" + ctx;
        }
      } else if (v.kind == Verdict::REF_ERROR) {
        if (nonBlankLines(body).empty())
          err = "history reference \"" + printable(pend[i].typed) + "\" addresses no stored line (" + std::to_string(m.hist.size()) + " stored), but no error text was printed" + ctx;
      }
    }
    seg.clear(); pend.clear(); want.clear(); tail_keys = false;
  };

  try {
    std::string e = r.start(fe, (echo ? TerminalInteract::kEnableEcho : 0u) | (quiet ? TerminalInteract::kQuietMode : 0u));
    if (!e.empty()) { r.abandon(); return e; }
    if (fe == FE_TELNET && echo) r.feed("\xff\xfd\x01", 2);   // IAC DO ECHO
    if (!quiet) {
      const std::string &g = r.out();
      size_t nl = g.rfind('\n');
      prompt = nl == std::string::npos ? g : g.substr(nl + 1);
      if (prompt.empty()) err = "a non-quiet session does not show a prompt after its greeting \"" + printable(g) + "\"";
    }
    for (size_t k = first; k < scn.ops.size() && err.empty(); ++k) {
      const Op &op = scn.ops[k];
      auto typeText = [&](const std::string &t) { for (char c : t) { m.ch(c); seg += c; } if (!pend.empty() && !t.empty()) tail_keys = true; };
      switch (op.code) {
        case CH: typeText(std::string(1, kAlphabet[op.in(0, 0, kNAlpha - 1)])); break;
        case WORD: typeText(kWords[op.in(0, 0, kNWords - 1)]); break;
        case REF: typeText(refText((int)op.in(0, 0, kNRefModes - 1), op.in(1, 0, 1000), m.hist.size())); break;
        case CUT: flush(); break;
        case KEY: {
          int key = (int)op.in(0, 0, NKEYS - 1), enc = (int)op.in(1, 0, 3);
          if (key != K_ENTER) {
            switch (key) { case K_BS: m.bs(); break; case K_DEL: m.del(); break; case K_LEFT: m.left(); break; case K_RIGHT: m.right(); break;
                           case K_HOME: m.home(); break; case K_END: m.end(); break; case K_UP: m.up(); break; default: m.down(); }
            seg += keyBytes(key, enc);
            if (!pend.empty()) tail_keys = true;
            break;
          }
          Verdict v = m.judge();
          if (v.kind == Verdict::UNPREDICTED) {
            // not predicted by the reference: rub the line out (End, then Backspace until empty) instead of entering it
            ++cut_short;
            m.end(); seg += keyBytes(K_END, 0);
            while (!m.line.empty()) { m.bs(); seg += keyBytes(K_BS, (int)(m.line.size() & 1)); }
            if (!pend.empty()) tail_keys = true;
            break;
          }
          ++enters;
          if (v.kind == Verdict::PROBE) { want.push_back(ProbeCall{v.probe, v.args}); ++probes; }
          if (v.via_ref) ++refs_ok;
          if (v.kind == Verdict::REF_ERROR) ++refs_err;
          if (v.kind == Verdict::LISTING) ++listings;
          if (v.kind == Verdict::BLANK) ++blanks;
          pend.push_back(Pending{v, m.line}); tail_keys = false;
          if ((v.kind == Verdict::PROBE || v.kind == Verdict::OTHER) && m.hist.size() == kHistoryCap) cap_exceeded = true;
          m.enter(v);
          stored_max = std::max(stored_max, m.hist.size());
          seg += keyBytes(K_ENTER, enc);
          if ((enc & 3) == 3) flush();   // a bare CR is an Enter only at the end of a segment
          break; }
        default: break;
      }
    }
    flush();
    r.closeAndDrain(0);
  } catch (const std::exception &ex) {
    r.abandon();
    return std::string("C++ exception escaped from the event loop / the Terminal: ") + ex.what() + " [last segment \"" + printable(seg, 200) + "\"]";
  } catch (...) {
    r.abandon();
    return "unknown C++ exception escaped from the event loop / the Terminal";
  }
  if (!err.empty()) return err;
  if (!r.rig_err.empty()) return r.rig_err;

  info.cls(kFeName[fe]);
  info.cls_if(echo, "echo_on");
  info.cls_if(quiet, "quiet");
  info.cls_if(log, "log_channel_installed");
  info.cls_if(log && r.log_records > 0, "log_records_formatted");
  info.cls_if(m.mid_edit, "mid_line_edit");
  info.cls_if(m.recall_edit, "recalled_line_edited");
  info.cls_if(refs_ok > 0, "history_reference_ran_a_line");
  info.cls_if(refs_err > 0, "history_reference_to_nothing");
  info.cls_if(listings > 0, "history_listed");
  info.cls_if(blanks > 0, "blank_line");
  info.cls_if(cap_exceeded, "more_than_20_lines_stored");
  info.cls_if(stored_max >= kHistoryCap, "history_full");
  info.cls_if(nseg >= 2 * std::max<size_t>(enters, 1), "many_segments_per_line");
  info.cls_if(cut_short > 0, "unpredicted_line_rubbed_out");
  info.cls_if(probes > 0, "probe_command");
  info.nontrivial = m.mid_edit && m.recall_edit && (refs_ok + refs_err) > 0;
  return "";
}

#ifndef VERIF_ENGINE_FUZZ
Scenario expandEditor(uint64_t seed) {
  Rng r(seed);
  Scenario sc; auto &v = sc.ops;
  auto mk = [&v](int code, std::vector<int64_t> a) { Op o; o.code = code; o.a = std::move(a); v.push_back(std::move(o)); };
  int fe = (int)r.pick({{5, FE_FAKE}, {3, FE_TELNET}, {2, FE_RPC}});
  mk(CFG, {fe, r.rng(0, 1), fe == FE_FAKE ? r.pick({{6, 0}, {1, 1}}) : 0, r.rng(1, 2), r.rng(0, 1)});
  int cutp = (int)r.pick({{2, 0}, {3, 8}, {2, 35}, {1, 100}});
  auto cut = [&] { if (cutp && r.rng(0, 99) < cutp) mk(CUT, {}); };
  auto key = [&](int k) { mk(KEY, {k, r.rng(0, 3)}); cut(); };
  auto ch = [&] { mk(CH, {r.rng(0, kNAlpha - 1)}); cut(); };
  auto word = [&](int w) { mk(WORD, {w}); cut(); };
  auto edit = [&] {
    int n = (int)r.rng(1, 6);
    for (int i = 0; i < n; ++i) {
      switch (r.pick({{4, 0}, {2, 1}, {2, 2}, {2, 3}, {1, 4}, {1, 5}, {3, 6}})) {
        case 0: { int k = (int)r.rng(1, 4); for (int j = 0; j < k; ++j) key(K_LEFT); break; }
        case 1: key(K_RIGHT); break;
        case 2: key(K_BS); break;
        case 3: key(K_DEL); break;
        case 4: key(K_HOME); break;
        case 5: key(K_END); break;
        default: ch(); break;
      }
    }
  };
  auto command = [&] {
    word((int)r.pick({{5, 0}, {3, 1}, {3, 2}}));
    int na = (int)r.pick({{3, 0}, {4, 1}, {3, 2}, {1, 3}});
    for (int i = 0; i < na; ++i) {
      word(r.chance(1, 6) ? 20 : 3);
      if (r.chance(1, 4)) edit();
      if (r.chance(1, 8)) word((int)r.rng(28, 35)); else if (r.chance(3, 4)) word((int)r.rng(4, 9)); else { int n = (int)r.rng(1, 4); for (int j = 0; j < n; ++j) ch(); }
    }
    if (r.chance(1, 3)) edit();
  };
  int nlines = (int)r.pick({{3, r.rng(2, 8)}, {2, r.rng(9, 21)}, {5, r.rng(24, 36)}});
  for (int i = 0; i < nlines; ++i) {
    switch (r.pick({{12, 0}, {1, 1}, {2, 2}, {5, 3}, {5, 4}, {2, 5}, {1, 6}})) {
      case 0: command(); break;
      case 1: break;                                             // blank line
      case 2: if (r.chance(1, 5)) { word(23); word(24); } else word(10); if (r.chance(1, 8)) edit(); break;   // history
      case 3: if (r.chance(1, 6)) word(3); mk(REF, {r.rng(0, kNRefModes - 1), r.rng(0, 1000)}); cut(); if (r.chance(1, 10)) edit(); break;
      case 4: {                                                  // recall, maybe edit
        int ups = (int)r.pick({{5, 1}, {3, 2}, {2, r.rng(3, 8)}, {1, r.rng(19, 23)}});
        for (int j = 0; j < ups; ++j) key(K_UP);
        int downs = (int)r.pick({{5, 0}, {2, 1}, {1, r.rng(2, 5)}});
        for (int j = 0; j < downs; ++j) key(K_DOWN);
        if (r.chance(3, 5)) edit();
        if (r.chance(1, 5)) { word(3); word((int)r.rng(4, 9)); }
        break; }
      case 5: word(r.chance(1, 5) ? (int)r.rng(28, 35) : (int)r.rng(11, 18)); if (r.chance(1, 2)) { word(3); word((int)r.rng(4, 9)); } break;   // built-in / unknown command
      default: { int n = (int)r.rng(1, 8); for (int j = 0; j < n; ++j) { if (r.chance(1, 3)) edit(); else ch(); } break; }
    }
    key(K_ENTER);
  }
  return sc;
}
#endif

SubDef subEditor = [] {
  SubDef d; d.name = "line_editor"; d.op_names = kOpNames; d.op_arity = kArity;
  d.nt_rule = "the session has an edit in the middle of a line (insert/delete with the cursor not at the end), an edit of a line recalled from the history (Up/Down), and a history reference (!n, !-n or !!)";
  d.run = runEditor;
#ifndef VERIF_ENGINE_FUZZ
  d.gen = [] { return seedGen(expandEditor); };
#endif
  return d;
}();
VERIF_REGISTER(&subEditor);

}  // namespace
