#!/usr/bin/env python3
"""Writes the seed corpus of the libFuzzer target c13_hostile_fuzz into corpus/C13/hostile/.

Input layout (hostile.cpp, decodeBytes): byte 0 = front end (b%3: 0 fake Connection, 1 Telnetd, 2 TcpRpc) and tree
((b/3)%4); byte 1 = options (bit0 echo, bit1 quiet, bits2-3 close mode, bits4-5 loop passes per segment, bit6 keep feeding
after endSession, bit7 install a log channel); then the client's byte stream; trailer = n big-endian 16-bit cuts (low 12 bits position,
top 4 bits an application action on a directory node performed at that cut) followed by the byte n."""
import os, sys
out = os.path.join(os.path.dirname(os.path.abspath(__file__)), "..", "..", "corpus", "C13", "hostile")
os.makedirs(out, exist_ok=True)
IAC, SB, SE, DO, WILL = b"\xff", b"\xfa", b"\xf0", b"\xfd", b"\xfb"
def cfg(fe, tree, echo=1, quiet=0, close=0, passes=2, stale=0, log=0):
    return bytes([fe + 3 * tree, echo | quiet << 1 | close << 2 | (passes - 1) << 4 | stale << 6 | log << 7])
def seed(name, head, segs, actions=()):
    """actions[i] (1..15, see Rig::apiAction) is what the application does to a directory node after segment i"""
    stream = b"".join(segs); cuts = []; pos = 0
    for i, s in enumerate(segs[:-1]):
        pos += len(s); cuts.append(pos | (actions[i] << 12 if i < len(actions) else 0))
    cuts = cuts[:7]
    tr = b"".join(bytes([c >> 8, c & 255]) for c in cuts) + bytes([len(cuts)])
    open(os.path.join(out, name + ".bin"), "wb").write(head + stream + tr)
naws = IAC + SB + b"\x1f\x00\x50\x00\x18" + IAC + SE
seed("telnet-session", cfg(1, 1), [IAC + DO + b"\x01" + IAC + WILL + b"\x1f" + naws, b"help\r\n", b"ls\r\ncd d\r\n", b"tree\r\nq a b\r\n", b"history\r\n!0\r\n!-1\r\n!!\r\n", b"cd up/d/self\r\npwd\r\n", b"exit\r\n"])
seed("telnet-negotiation", cfg(1, 0), [IAC + DO + b"\x01", IAC + b"\xfe\x03" + IAC + b"\xf1" + IAC + IAC, IAC + SB + b"\x18\x00vt100" + IAC + SE + b"p\r\0", IAC + SB + b"\x1f\x00\x50", b"\x00\x18" + IAC, SE + b"p x\r\n"])
seed("telnet-edit-keys", cfg(1, 2), [IAC + DO + b"\x01", b"p abc\x1b[D\x1b[DX\x7f\x1b[1~\x1b[3~p\x1b[4~ z\r\n", b"\x1b[A\x08\x08\r\n\x1b[A\x1b[A\x1b[B\r\n", b"v/iv 12\r\nv/iv 1e9\r\nv/dv 1e999\r\nv/bv on\r\nv/sv 'a b'\r\n", b"say\r\nmk\r\nmk\r\ncd d/n0\r\nrmd\r\nls\r\ncd ..\r\ntree /\r\n", b"bye\r\n"])
seed("rpc-session", cfg(2, 1, echo=0), [b"p 1 2\r\n", b"ls;pwd;tree /\r\n", b"cd d;q;cd sub;r;cd /\r\n", b"help p\r\nhelp gone\r\nls gd\r\ngone\r\nnf\r\n", b"history\r\n!1\r\n", b"quit\r\n"])
seed("rpc-one-segment", cfg(2, 2, echo=0, close=3), [b"p\nq\nd\nq\nup\nrmd\nls\npwd\ntree\num\nmk\nexit\n"])
seed("fake-editing", cfg(0, 1), [b"pp\x7f a\x1b[D\x1b[Db\x1b[C\x1b[3~\r\n", b"\x1b[Ahistory\r", b"!0\n", b"   \r\n\r\n", b"'p' \"a b\" c'd e'f\r\n", b"p 'unterminated\r\n", b"a;b;;p;history;p\r\n"])
seed("fake-quiet-stale", cfg(0, 2, echo=0, quiet=1, close=1, stale=1), [b"bye\r\n", b"p after\r\n", b"exit\r\n", b"p again\r\n"])
seed("fake-deep-chain", cfg(0, 3), [b"cd c0/c1/c2/c3/c4/c5/c6/c7/c8/c9/back/c1\r\n", b"tree /\r\n", b"pwd\r\ncd ../../..\r\ncd ..\r\n", b"c0/c1/c2/c3/c4/c5/c6/c7/c8/c9/" + b"L" * 300 + b" x\r\n"])
# the fixed defects (proposed-fixes 01..06) and their neighbours
seed("exit-twice-rpc", cfg(2, 1, echo=0), [b"exit\r\nexit\r\n"])
seed("exit-twice-telnet", cfg(1, 1), [b"exit;quit\r\n", b"ls\r\n"])
seed("run-last-empty-history", cfg(0, 0), [b"!!\r\n"])
seed("history-index-huge", cfg(0, 0), [b"p\r\n!99999999999\r\n!2147483647\r\n!2147483648\r\n"])
seed("history-index-int-min", cfg(0, 0), [b"p\r\n!-2147483648\r\n!-2147483647\r\n!-0\r\n!-\r\n!\r\n!x\r\n"])
seed("naws-one-byte-fills-buffer", cfg(1, 0), [b"aaa", IAC + SB + b"\x1fx" + IAC + SE])
seed("nego-fills-buffer", cfg(1, 0), [b"a", IAC + WILL, b"\x1f"])
seed("bye-then-quit-rpc", cfg(2, 2, echo=0), [b"bye\r\nquit\r\n"])
seed("bye-then-quit-telnet", cfg(1, 2), [b"bye\r\n", b"quit\r\n"])
# printf conversions in command lines (with a log channel installed the terminal formats its log lines about them)
seed("percent-fake-log", cfg(0, 1, log=1), [b"p 100%% %5c|\r\n", b"echo %s%s%s%s%s%s%s%s\r\n", b"a;%n%n%n%n;p %ld %*d\r\n", b"history\r\n!0\r\n"])
seed("percent-telnet-log", cfg(1, 2, log=1), [b"v/sv '%s%n'\r\n", b"%s\r\ncd %x%x%x%x%s\r\n", b"help %n;ls %5c;tree %%\r\n"])
seed("percent-rpc-log", cfg(2, 0, echo=0, log=1), [b"p %s%s%s%s%s%s%s%s;%n\r\n"])
# the application takes the directory the session sits in (or an ancestor) away, then relative names are resolved
seed("cwd-deleted-fake", cfg(0, 1, log=1), [b"cd d\r\n", b"q\r\nls x\r\ncd sub\r\nhelp q\r\ntree sub\r\n./q\r\nls\r\npwd\r\ncd ..\r\n"], actions=[1])
seed("cwd-umounted-deleted-telnet", cfg(1, 2), [b"cd d/sub\r\n", b"r\r\nls\r\n", b"..\r\nq\r\ntree\r\n"], actions=[6, 3])
seed("cwd-ancestor-deleted-chain", cfg(2, 3, echo=0), [b"cd c0/c1/c2/c3\r\n", b"c4\r\nls c4\r\ncd ../..\r\nls\r\n", b"pwd\r\ntree .\r\n"], actions=[4, 9])
seed("cwd-deleted-by-command", cfg(0, 2), [b"cd d\r\n/rmd\r\nq\r\n", b"cd sub\r\nup/rmd\r\n../p\r\n"])
print("wrote", len(os.listdir(out)), "seeds to", os.path.normpath(out))
