_LIBS = ["http", "crypto", "util", "base"]
TARGETS = {
    "c19_codecs_rc":   {"src": "C19/codecs.cpp", "variant": "asan", "engine": "rc",   "libs": _LIBS},
    "c19_codecs_fuzz": {"src": "C19/codecs.cpp", "variant": "asan", "engine": "fuzz", "libs": _LIBS},
    # C19(b): helper process of the Hypothesis differential harness/C19/diff_py.py (not yet wired into ./check; see NOTES.md)
    "c19_pyhelper":    {"src": "C19/pyhelper.cpp", "variant": "asan", "engine": "plain", "libs": _LIBS},
}


# ASan's stack depot grows with every distinct malloc/free stack; rapidcheck's deep, varying generator stacks make long
# rc runs super-linear in time and memory with the driver's malloc_context_size=12 (500 000 cases: > 30 CPU-min, > 4 GB).
# 5 frames keep it linear (~5000 cases/s, < 0.5 GB); the stack of the faulting access itself is still complete.
_ENV = {"ASAN_OPTIONS": "detect_leaks=1:detect_stack_use_after_return=0:allocator_may_return_null=1:handle_abort=0:symbolize=1:malloc_context_size=5"}


def _rc(sub, q, t, qsize=100, tsize=200):
    return {"target": "c19_codecs_rc", "sub": sub, "env": _ENV,
            "quick": {"cases": q, "max_size": qsize, "workers": 1},
            "thorough": {"cases": t, "max_size": tsize, "workers": 1}}


def _fz(sub, q, t, qlen=400, tlen=2000):
    return {"target": "c19_codecs_fuzz", "sub": sub, "env": _ENV,
            "quick": {"runs": q, "max_len": qlen, "workers": 1, "unit_timeout": 120},
            "thorough": {"runs": t, "max_len": tlen, "workers": 1, "unit_timeout": 120}}


# 9 rapidcheck + 8 libFuzzer processes run side by side (one worker each): quick ~= 12-15 CPU-s of search per process,
# thorough ~= 4-8 CPU-min per process.
PROP = {
    "subchecks": [
        # rc case counts: ~12-15 CPU-s (quick) per process measured with _ENV; thorough sized from one complete thorough run
        # (17 processes, 4-8 CPU-min each on a quiet box; that run, on a box at load 40-100, used 246 CPU-min in total with
        # about twice these counts)
        _rc("base64", 70000, 1200000), _fz("base64", 130000, 4000000),
        _rc("hex", 60000, 1000000), _fz("hex", 110000, 3000000),
        _rc("scalable_int", 14000, 250000, tsize=100), _fz("scalable_int", 100000, 2000000),
        _rc("serializer", 32000, 600000, tsize=100), _fz("serializer", 150000, 2000000),
        _rc("url", 70000, 1000000), _fz("url", 160000, 2500000),
        _rc("crc_checksum", 60000, 1200000), _fz("crc_checksum", 12000, 400000),
        _rc("md5", 26000, 500000, tsize=100), _fz("md5", 32000, 1000000),
        # aes: the code under test costs ~0.4 ms per block under ASan; long inputs (60 blocks) would run at ~500 exec/s
        _rc("aes", 3600, 100000, tsize=100), _fz("aes", 25000, 600000, tlen=400),
        # messages of >= 2^29 bytes: ~10 s per case (the reference hashes 512 MiB once, the code under test twice, under ASan)
        {"target": "c19_codecs_rc", "sub": "md5_long", "replay_alarm": 900, "env": _ENV,
         "quick": {"cases": 2, "max_size": 10, "workers": 1},
         "thorough": {"cases": 30, "max_size": 10, "workers": 1}},
        # C19(b): Hypothesis differential against Python's hashlib/zlib/binascii/base64/urllib + a vendored FIPS-197 AES,
        # driving the persistent ASan-built helper process c19_pyhelper (engine wired into ./check as "script")
        {"target": "c19_pyhelper", "sub": "pydiff", "script": "C19/diff_py.py",
         "quick": {"examples": 300, "workers": 1}, "thorough": {"examples": 20000, "workers": 2}},
    ],
    "assumptions": [
        "functions that TBOX_ASSERT a precondition are only called within it: base64 Encode gets a non-empty input and a non-zero capacity, MD5::update a non-null pointer, AES a 16-byte key/block",
        "a C++ exception (any std::exception) thrown by a decoder on input that the harness's reference parser rejects is a clean failure; on input the reference accepts the decoder must succeed with the reference result",
        "hex decoders: their only failure channel is an exception, so text the reference decoder rejects (a byte outside [0-9A-Fa-f] at a nibble position, odd digit count, group of more than 2 digits) MUST throw; for the other decoders the next line applies",
        "when a decoder ACCEPTS input the reference rejects (Base64 with '=' in the middle, a dangling '%' in UrlDecode, a 10-byte scalable integer denoting a value > 2^64-1) only memory safety and the bound result <= capacity are asserted; such acceptances are counted (counters obs_*), not reported",
        "capacity-short calls must return the documented failure value (0 / false); whether bytes inside the given capacity are touched on failure is not asserted",
        "hex round trips use delimiters (0..3 characters) that contain no hex digit; RawDataToHexStr lengths are <= 65535 (uint16_t parameter), about 0.2 % of the rapidcheck cases use 12000..65535 bytes",
        "large values (Base64 40-200 KiB, URL 20-200 KiB, arrays of up to 30000 scalable integers) are a 0.2 % tail of the rapidcheck cases; the libFuzzer engine runs them only from the seed corpus (check-byte-protected inputs)",
        "appendPOD/fetchPOD are called with 1..16 bytes (size 0 makes the big-endian path form `p + (0 - 1)`, a UBSan pointer-overflow report without any memory access; no property claims UB-freedom)",
        "Serializer on a non-empty std::vector: modelled as the unmodified code behaves - writing starts at index 0 and every append call resizes the vector to pos()+need, so from the first append call on the vector holds exactly the serialised bytes (size()==pos()); before the first call it is untouched (not asserted)",
        "raw back end: bytes of the caller's buffer beyond pos() are never modified (checked against a shadow copy of a dirty buffer)",
        "float/double wire format is compared as the IEEE bit pattern in the selected byte order (host is little-endian)",
        "shift, nonnull-attribute and unsigned-integer-overflow UBSan checks are off (MD5 shifts uint8_t << 24)",
        "md5_long needs ~600 MiB of address space per case; if calloc fails the case is skipped",
    ],
}
META = {
    "design_ref": "DESIGN.md section 4, C19 (a)",
    "technique": "property-based testing (rapidcheck) and coverage-guided fuzzing (libFuzzer) of the same per-codec scenario interpreters under ASan/UBSan with exact-size heap blocks for every input and output; differential comparison with independent reference implementations written in the harness from RFC 4648, RFC 1321, FIPS-197, RFC 1071 and the CRC polynomial definitions (self-tested against the published vectors at start-up)",
    "level_text": "For each codec family (Base64, hex strings, scalable integers, Serializer/Deserializer, URL percent-coding) generated values are encoded through every overload, compared with a reference encoding and with the advertised size, decoded back through every overload at capacities exact / one short / zero / larger, and decoders are fed arbitrary, mutated and truncated byte strings (0-255); all buffers are exact-size heap blocks so a one-byte over-read or overrun is an AddressSanitizer report. CRC-16/CCITT-FALSE, CRC-32, the 8/16-bit one's-complement checksums, MD5 (arbitrary splits into updates, block-edge lengths, messages >= 2^29 bytes) and AES-128 cipher/invcipher (keys set by constructor, setKey, re-keying, in place) are compared with bit-serial / RFC 1321 / FIPS-197 references. Exploration only: no counter-example among N generated cases.",
    "level_note": "Trusted: the harness's reference implementations (checked at start-up against RFC 1321 A.5, FIPS-197 App. B and C.1, the CRC catalogue check values, the RFC 1071 example, RFC 4648 section 10 and the length table in scalable_integer.h), ASan/UBSan instrumentation, little-endian host. Not covered: single MD5 updates >= 4 GiB, the Hypothesis differential against Python's stdlib planned as C19(b), decoder acceptance of malformed input (counted, not asserted).",
}
