#!/opt/veriftools/pyvenv/bin/python
"""C19(b) — Hypothesis differential of the cpp-tbox codecs against Python's standard library.

  diff_py.py --helper BIN [--examples N] [--seed S] [--out stats.json] [--replay-dir DIR] [--only TEST]
  diff_py.py --helper BIN --replay FILE

BIN is harness/C19/pyhelper.cpp built with ASan (engine "plain", variant "asan"); it is kept running and spoken to
through a hex line protocol.  References: base64, binascii (hexlify/unhexlify, crc_hqx), zlib.crc32, hashlib.md5,
urllib.parse (quote / unquote_to_bytes), and a small pure-Python AES-128 written from FIPS-197 (self-checked against
Appendix B and C.1 at start-up).  Writes the same stats JSON as the C++ harnesses (common/verif.h write_stats) so that
the driver can merge it; exit 0 = no counter-example, 1 = counter-example (replay file written), 2 = infrastructure.
"""
import argparse, base64, binascii, hashlib, json, os, re, subprocess, sys, urllib.parse, zlib
from hypothesis import given, settings, seed as hseed, strategies as st, HealthCheck

# ------------------------------------------------------------------------------------------------ helper process
class HelperDied(Exception):
    pass


class Helper:
    def __init__(self, path):
        self.path, self.p = path, None

    def start(self):
        env = dict(os.environ)
        env.setdefault("ASAN_OPTIONS", "detect_leaks=0:allocator_may_return_null=1:handle_abort=0:symbolize=1")
        env.setdefault("UBSAN_OPTIONS", "print_stacktrace=1:halt_on_error=1")
        self.p = subprocess.Popen([self.path], stdin=subprocess.PIPE, stdout=subprocess.PIPE, stderr=subprocess.PIPE, text=True, bufsize=1, env=env)

    def call(self, *words):
        if self.p is None or self.p.poll() is not None:
            self.start()
        try:
            self.p.stdin.write(" ".join(words) + "\n")
            self.p.stdin.flush()
            line = self.p.stdout.readline()
        except (BrokenPipeError, OSError):
            line = ""
        if not line:
            err = ""
            try:
                self.p.wait(timeout=20)
                err = self.p.stderr.read()
            except Exception:
                self.p.kill()
            self.p = None
            head = [l for l in err.splitlines() if re.search(r"ERROR: AddressSanitizer|runtime error:|SUMMARY:|TBOX_ASSERT|Assertion", l)]
            raise HelperDied("helper process died on `%s`: %s" % (" ".join(words)[:200], " | ".join(head[:4]) or err[-400:]))
        return line.split()

    def stop(self):
        if self.p and self.p.poll() is None:
            try:
                self.p.stdin.write("quit\n"); self.p.stdin.flush(); self.p.wait(timeout=10)
            except Exception:
                self.p.kill()


def hx(b):
    return b.hex() if b else "-"


def unhx(s):
    return b"" if s == "-" else bytes.fromhex(s)


def ok(reply, what):
    assert reply and reply[0] == "ok", "%s: helper replied %s" % (what, " ".join(reply)[:300])
    return reply[1:]


# ------------------------------------------------------------------------------------------------ AES-128 from FIPS-197
def _xt(a):
    return ((a << 1) ^ 0x1b) & 0xff if a & 0x80 else a << 1


def _mul(a, b):
    r = 0
    while b:
        if b & 1:
            r ^= a
        a = _xt(a); b >>= 1
    return r


def _mk_sbox():
    sb = [0] * 256
    for x in range(256):
        inv = 0 if x == 0 else next(y for y in range(1, 256) if _mul(x, y) == 1)
        s = inv
        for k in range(1, 5):
            s ^= ((inv << k) | (inv >> (8 - k))) & 0xff
        sb[x] = s ^ 0x63
    return sb


SBOX = _mk_sbox()
INV = [0] * 256
for _i, _v in enumerate(SBOX):
    INV[_v] = _i


def _expand(key):
    w = list(key); rcon = 1
    for i in range(16, 176, 4):
        t = w[i - 4:i]
        if i % 16 == 0:
            t = [SBOX[t[1]] ^ rcon, SBOX[t[2]], SBOX[t[3]], SBOX[t[0]]]
            rcon = _xt(rcon)
        w += [w[i - 16 + j] ^ t[j] for j in range(4)]
    return w


def aes_enc(key, blk):
    rk = _expand(key); s = [blk[i] ^ rk[i] for i in range(16)]
    for rnd in range(1, 11):
        t = [SBOX[s[r + 4 * ((c + r) % 4)]] for c in range(4) for r in range(4)]
        if rnd != 10:
            u = []
            for c in range(4):
                a = t[4 * c:4 * c + 4]
                u += [_mul(a[0], 2) ^ _mul(a[1], 3) ^ a[2] ^ a[3], a[0] ^ _mul(a[1], 2) ^ _mul(a[2], 3) ^ a[3],
                      a[0] ^ a[1] ^ _mul(a[2], 2) ^ _mul(a[3], 3), _mul(a[0], 3) ^ a[1] ^ a[2] ^ _mul(a[3], 2)]
            t = u
        s = [t[i] ^ rk[16 * rnd + i] for i in range(16)]
    return bytes(s)


def aes_dec(key, blk):
    rk = _expand(key); s = [blk[i] ^ rk[160 + i] for i in range(16)]
    for rnd in range(9, -1, -1):
        t = [0] * 16
        for c in range(4):
            for r in range(4):
                t[r + 4 * ((c + r) % 4)] = INV[s[r + 4 * c]]
        t = [t[i] ^ rk[16 * rnd + i] for i in range(16)]
        if rnd:
            u = []
            for c in range(4):
                a = t[4 * c:4 * c + 4]
                u += [_mul(a[0], 14) ^ _mul(a[1], 11) ^ _mul(a[2], 13) ^ _mul(a[3], 9), _mul(a[0], 9) ^ _mul(a[1], 14) ^ _mul(a[2], 11) ^ _mul(a[3], 13),
                      _mul(a[0], 13) ^ _mul(a[1], 9) ^ _mul(a[2], 14) ^ _mul(a[3], 11), _mul(a[0], 11) ^ _mul(a[1], 13) ^ _mul(a[2], 9) ^ _mul(a[3], 14)]
            t = u
        s = t
    return bytes(s)


def selftest():
    k, p, c = bytes.fromhex("2b7e151628aed2a6abf7158809cf4f3c"), bytes.fromhex("3243f6a8885a308d313198a2e0370734"), bytes.fromhex("3925841d02dc09fbdc118597196a0b32")
    assert aes_enc(k, p) == c and aes_dec(k, c) == p, "vendored AES fails FIPS-197 Appendix B"
    k, p, c = bytes(range(16)), bytes.fromhex("00112233445566778899aabbccddeeff"), bytes.fromhex("69c4e0d86a7b0430d8cdb78070b4c55a")
    assert aes_enc(k, p) == c and aes_dec(k, c) == p, "vendored AES fails FIPS-197 C.1"
    assert sint_ref(127) == b"\x7f" and sint_ref(128) == b"\x80\x00" and sint_ref(16511) == b"\xff\x7f" and len(sint_ref(2**64 - 1)) == 10
    assert sum16_ref(bytes.fromhex("0001f203f4f5f6f7")) == (~0xddf2) & 0xffff


# ------------------------------------------------------------------------------------------------ small references
def sint_ref(v):
    lo = 0
    for L in range(1, 11):
        if v < lo + (1 << (7 * L)):
            pay = v - lo
            return bytes(((pay >> (7 * (L - 1 - i))) & 0x7f) | (0x80 if i + 1 < L else 0) for i in range(L))
        lo += 1 << (7 * L)
    raise AssertionError("value does not fit")


def sum16_ref(d):
    s = (sum(d[0::2]) << 8) + sum(d[1::2])          # sum of the big-endian 16-bit words, odd tail padded on the right (unbounded int)
    while s >> 16:
        s = (s & 0xffff) + (s >> 16)
    return (~s) & 0xffff


def sum8_ref(d):
    s = sum(d)
    while s >> 8:
        s = (s & 0xff) + (s >> 8)
    return (~s) & 0xff


# ------------------------------------------------------------------------------------------------ the checks
# each check(h, **args) raises AssertionError on a difference and returns (nontrivial, [labels])
B64_ALPHA = b"ABCDEFGHIJKLMNOPQRSTUVWXYZabcdefghijklmnopqrstuvwxyz0123456789+/"


def check_b64_roundtrip(h, raw):
    want = base64.b64encode(raw)
    got = unhx(ok(h.call("b64e", hx(raw)), "b64e")[0])
    assert got == want, "Encode(%s) = %r, base64.b64encode gives %r" % (raw.hex(), got, want)
    r = ok(h.call("b64d", hx(want)), "b64d")
    out, n, dl, vec, n2 = unhx(r[0]), int(r[1]), int(r[2]), unhx(r[3]), int(r[4])
    assert dl == len(raw) and n == len(raw) and out == raw, "Decode(b64encode(x)) into an exact buffer: %d/%d bytes %s for x=%s" % (n, dl, out.hex(), raw.hex())
    assert n2 == len(raw) and vec == raw, "Decode(string,vector)(b64encode(x)) = %d bytes %s for x=%s" % (n2, vec.hex(), raw.hex())
    return len(raw) % 3 != 0, ["pad%d" % ((3 - len(raw) % 3) % 3)]


def check_b64_decode_text(h, text):
    try:
        want = base64.b64decode(text, validate=True) if len(text) % 4 == 0 else None
    except (binascii.Error, ValueError):
        want = None
    # base64.b64decode(validate=True) of this Python still accepts non-canonical texts with excess padding ('AAAA====' -> 3 bytes).
    # Only the CANONICAL encoding of a value is "valid input" in the sense of the statement; everything else is hostile input,
    # for which any clean outcome is fine (the size function may then advertise more than the decoder produces).
    if want is not None and base64.b64encode(want) != bytes(text):
        want = None
    reply = h.call("b64d", hx(text))
    if reply and reply[0] == "exc":
        assert want is None, "Decode threw on %r which base64.b64decode(validate=True) accepts" % text
        return any(b >= 0x80 for b in text), ["threw"]
    r = ok(reply, "b64d")
    out, n, dl, vec, n2 = unhx(r[0]), int(r[1]), int(r[2]), unhx(r[3]), int(r[4])
    assert n <= dl, "Decode returned %d for capacity %d" % (n, dl)
    if want is not None:
        assert dl == len(want) and out == want, "Decode(%r) = %s (DecodeLength %d), Python gives %s" % (text, out.hex(), dl, want.hex())
        assert vec == want and n2 == len(want), "Decode(string,vector)(%r) = %s/%d, Python gives %s" % (text, vec.hex(), n2, want.hex())
    return any(b >= 0x80 for b in text) or want is not None, ["python_accepts" if want is not None else "python_rejects"]


def check_hex(h, raw, upper):
    want = binascii.hexlify(raw)
    if upper:
        want = want.upper()
    got = unhx(ok(h.call("hexe", "1" if upper else "0", hx(raw)), "hexe")[0])
    assert got == want, "RawDataToHexStr(%s) = %r, binascii.hexlify gives %r" % (raw.hex(), got, want)
    reply = h.call("hexd", hx(want))
    assert reply[0] == "ok", "HexStrToRawData(hexlify(x)) failed for x=%s: %s" % (raw.hex(), " ".join(reply))
    assert unhx(reply[1]) == raw and int(reply[2]) == len(raw), "HexStrToRawData(hexlify(x)) = %s for x=%s" % (reply[1], raw.hex())
    return len(raw) > 0, ["upper" if upper else "lower"]


def check_hex_large(h, size, delim, upper, pattern, seed):
    """12000 .. 65535 bytes (the API maximum) with delimiters of 0..3 characters: the text passes 65535 characters."""
    raw = (b"\xff" * size) if pattern == 0 else hashlib.shake_128(seed.to_bytes(4, "big")).digest(size)
    hl = binascii.hexlify(raw)
    if upper:
        hl = hl.upper()
    want = delim.join(hl[i:i + 2] for i in range(0, len(hl), 2))
    got = unhx(ok(h.call("hexe", "1" if upper else "0", hx(raw), hx(delim)), "hexe")[0])
    assert len(got) == len(want), "RawDataToHexStr(%d bytes, %d-char delimiter) produced %d chars, expected %d" % (size, len(delim), len(got), len(want))
    if got != want:
        at = next(i for i in range(len(want)) if got[i] != want[i])
        raise AssertionError("RawDataToHexStr(%d bytes, %d-char delimiter): the %d-char text differs from the Python encoding at offset %d: %r instead of %r"
                             % (size, len(delim), len(got), at, got[at:at + 12], want[at:at + 12]))
    reply = h.call("hexd", hx(got), hx(delim))
    assert reply[0] == "ok", "HexStrToRawData(RawDataToHexStr(x)) failed for %d bytes, %d-char delimiter: %s" % (size, len(delim), " ".join(reply)[:200])
    assert unhx(reply[1]) == raw and int(reply[2]) == size, "HexStrToRawData(RawDataToHexStr(x)) != x for %d bytes, %d-char delimiter" % (size, len(delim))
    return len(want) > 65535, ["delim%d" % len(delim), "text_over_65535" if len(want) > 65535 else "text_up_to_65535"]


def check_hex_decode_text(h, text):
    try:
        want = binascii.unhexlify(text)
    except (binascii.Error, ValueError):
        want = None
    reply = h.call("hexd", hx(text))
    if reply[0] == "exc":
        assert want is None, "HexStrToRawData threw (%s) on %r which binascii.unhexlify accepts" % (" ".join(reply[1:]), text)
        return True, ["threw"]
    r = ok(reply, "hexd")
    # accepted: then Python must accept the text too once the blanks tbox strips at both ends are removed
    try:
        stripped = binascii.unhexlify(text.strip(b" \t"))
    except (binascii.Error, ValueError):
        raise AssertionError("HexStrToRawData accepted %r (-> %s) which binascii.unhexlify rejects" % (text, r[0]))
    assert unhx(r[0]) == stripped, "HexStrToRawData(%r) = %s, binascii.unhexlify gives %s" % (text, r[0], stripped.hex())
    if want is not None:
        assert unhx(r[0]) == want, "HexStrToRawData(%r) = %s, binascii.unhexlify gives %s" % (text, r[0], want.hex())
    return want is not None, ["python_accepts" if want is not None else "python_rejects"]


def check_url(h, raw, path_mode, safe):
    enc = unhx(ok(h.call("urle", "1" if path_mode else "0", hx(raw)), "urle")[0])
    assert re.fullmatch(rb"(?:[!-$&-~]|%[0-9A-Fa-f]{2})*", enc), "UrlEncode(%s) = %r is not a well-formed percent-encoding" % (raw.hex(), enc)
    back = urllib.parse.unquote_to_bytes(enc)
    assert back == raw, "urllib.parse.unquote_to_bytes(UrlEncode(x)) = %s for x=%s" % (back.hex(), raw.hex())
    q = urllib.parse.quote(raw, safe=safe).encode("ascii")
    dec = unhx(ok(h.call("urld", hx(q)), "urld")[0])
    assert dec == raw, "UrlDecode(urllib.parse.quote(x)) = %s for x=%s (quoted %r)" % (dec.hex(), raw.hex(), q)
    return b"%" in enc, ["path_mode" if path_mode else "full_mode"]


def check_url_decode_text(h, text):
    wellformed = re.fullmatch(rb"(?:[^%]|%[0-9A-Fa-f]{2})*", text, re.S) is not None
    reply = h.call("urld", hx(text))
    if reply[0] == "exc":
        assert not wellformed, "UrlDecode threw on well-formed %r" % text
        return True, ["threw"]
    got = unhx(ok(reply, "urld")[0])
    if wellformed:
        want = urllib.parse.unquote_to_bytes(text)
        assert got == want, "UrlDecode(%r) = %s, urllib.parse.unquote_to_bytes gives %s" % (text, got.hex(), want.hex())
    return b"%" in text, ["wellformed" if wellformed else "malformed_accepted"]


def check_crc(h, data):
    c32 = int(ok(h.call("crc32", hx(data)), "crc32")[1])
    assert c32 == zlib.crc32(data), "CalcCrc32(%s) = %#x, zlib.crc32 gives %#x" % (data.hex()[:60], c32, zlib.crc32(data))
    c16 = int(ok(h.call("crc16", hx(data)), "crc16")[1])
    assert c16 == binascii.crc_hqx(data, 0xffff), "CalcCrc16(%s) = %#x, binascii.crc_hqx(.,0xffff) gives %#x" % (data.hex()[:60], c16, binascii.crc_hqx(data, 0xffff))
    s16 = int(ok(h.call("sum16", hx(data)), "sum16")[1])
    assert s16 == sum16_ref(data), "CalcCheckSum16(%s) = %#x, RFC 1071 gives %#x" % (data.hex()[:60], s16, sum16_ref(data))
    s8 = int(ok(h.call("sum8", hx(data)), "sum8")[1])
    assert s8 == sum8_ref(data), "CalcCheckSum8(%s) = %#x, expected %#x" % (data.hex()[:60], s8, sum8_ref(data))
    return len(data) >= 2, ["odd" if len(data) & 1 else "even"]


def check_crc_large(h, size, pattern, seed):
    """128 KiB .. 1 MiB messages: the plain sum of the 16-bit words (and of the octets) outgrows 32 bits only here."""
    if pattern == 0:
        data = b"\xff" * size
    elif pattern == 1:
        data = (b"\xff\xfe" * (size // 2 + 1))[:size]
    elif pattern == 2:
        data = bytes(b | 0x80 for b in hashlib.shake_128(seed.to_bytes(4, "big")).digest(size))
    elif pattern == 3:
        data = hashlib.shake_128(seed.to_bytes(4, "big")).digest(size)
    else:
        data = bytes(0x20 + b % 95 for b in hashlib.shake_128(seed.to_bytes(4, "big")).digest(size))
    r = ok(h.call("crcall", hx(data)), "crcall")
    c16, c32, s16, s8 = int(r[1]), int(r[2]), int(r[3]), int(r[4])
    what = "%d bytes, pattern %d, seed %d" % (size, pattern, seed)
    assert s16 == sum16_ref(data), "CalcCheckSum16(%s) = %#x, RFC 1071 gives %#x" % (what, s16, sum16_ref(data))
    assert s8 == sum8_ref(data), "CalcCheckSum8(%s) = %#x, expected %#x" % (what, s8, sum8_ref(data))
    assert c32 == zlib.crc32(data), "CalcCrc32(%s) = %#x, zlib.crc32 gives %#x" % (what, c32, zlib.crc32(data))
    assert c16 == binascii.crc_hqx(data, 0xffff), "CalcCrc16(%s) = %#x, binascii.crc_hqx(.,0xffff) gives %#x" % (what, c16, binascii.crc_hqx(data, 0xffff))
    wraps = ((sum(data[0::2]) << 8) + sum(data[1::2])) >> 32 != 0
    return wraps, ["pattern%d" % pattern, "word_sum_ge_2^32" if wraps else "word_sum_lt_2^32"]


def check_md5(h, data, cuts):
    cuts = sorted(c % (len(data) + 1) for c in cuts)
    got = ok(h.call("md5", hx(data), *[str(c) for c in cuts]), "md5")[0]
    want = hashlib.md5(data).hexdigest()
    assert got == want, "MD5 of %d bytes split at %s = %s, hashlib.md5 gives %s" % (len(data), cuts, got, want)
    return len(cuts) >= 2 and len(data) > 64, ["tail%d" % (0 if len(data) % 64 < 56 else 1)]


def check_aes(h, key, blk):
    c = unhx(ok(h.call("aese", hx(key), hx(blk)), "aese")[0])
    assert c == aes_enc(key, blk), "AES cipher(key %s, %s) = %s, FIPS-197 gives %s" % (key.hex(), blk.hex(), c.hex(), aes_enc(key, blk).hex())
    d = unhx(ok(h.call("aesd", hx(key), hx(blk)), "aesd")[0])
    assert d == aes_dec(key, blk), "AES invcipher(key %s, %s) = %s, FIPS-197 gives %s" % (key.hex(), blk.hex(), d.hex(), aes_dec(key, blk).hex())
    return True, []


def check_sint(h, v):
    want = sint_ref(v)
    r = ok(h.call("sintd", str(v)), "sintd")
    assert unhx(r[0]) == want and int(r[1]) == len(want), "DumpScalableInteger(%d) = %s at capacity %s, format gives %s" % (v, r[0], r[1], want.hex())
    p = ok(h.call("sintp", hx(want)), "sintp")
    assert int(p[1]) == len(want) and int(p[2]) == v, "ParseScalableInteger(%s) = %s/%s, expected %d/%d" % (want.hex(), p[1], p[2], len(want), v)
    edges = [sum(1 << (7 * k) for k in range(1, L)) for L in range(1, 11)] + [2**64 - 1, 2**63]
    return any(abs(v - e) <= 3 for e in edges), ["len%d" % len(want)]


# ------------------------------------------------------------------------------------------------ strategies
def _sint_values():
    mins = [sum(1 << (7 * k) for k in range(1, L)) for L in range(1, 11)]
    near = st.builds(lambda b, d: min(max(b + d, 0), 2**64 - 1), st.sampled_from(mins + [2**64 - 1, 2**63, 2**32]), st.integers(-3, 3))
    return st.one_of(near, st.integers(0, 2**64 - 1), st.integers(0, 64).flatmap(lambda k: st.integers(0, (1 << k) - 1 if k else 0)))


_md5_len = st.one_of(st.sampled_from([0, 1, 55, 56, 57, 63, 64, 65, 119, 120, 121, 127, 128, 129, 4095, 4096]), st.integers(0, 4096))
_b64_arb = st.lists(st.one_of(st.sampled_from(list(B64_ALPHA)), st.sampled_from(list(b"====")), st.integers(0, 255)), max_size=40).map(bytes)
_b64_alpha_only = st.lists(st.sampled_from(list(B64_ALPHA)), max_size=12).map(lambda q: bytes(q)).flatmap(
    lambda body: st.sampled_from([b"", b"=", b"==", b"==="]).map(lambda pad: body + pad))           # right alphabet, any length/padding
_b64_mut = st.builds(lambda raw, cut, ins, pos: (lambda e: e[:max(0, len(e) - cut)][:pos] + ins + e[:max(0, len(e) - cut)][pos:])(base64.b64encode(raw)),
                     st.binary(max_size=30), st.integers(0, 3), st.binary(max_size=2), st.integers(0, 44))
_b64_text = st.one_of(_b64_arb, _b64_alpha_only, _b64_mut, st.binary(max_size=30).map(base64.b64encode))
_hex_arb = st.lists(st.one_of(st.sampled_from(list(b"0123456789abcdefABCDEF")), st.sampled_from(list(b" \tgG:")), st.integers(0, 255)), max_size=40).map(bytes)
_hex_digits = st.lists(st.sampled_from(list(b"0123456789abcdefABCDEF")), max_size=41).map(bytes)            # mixed case, odd and even lengths
_hex_text = st.one_of(_hex_arb, _hex_digits, _hex_digits.map(lambda t: b" " + t + b"\t"))
_url_arb = st.lists(st.one_of(st.sampled_from(list(b"%%%%0123456789abcdefABCDEFgz/ +")), st.integers(0, 255)), max_size=40).map(bytes)
# every byte escaped in lower case, escaped in upper case, or left raw ('%' itself is always escaped): well-formed by construction
_url_escaped = st.lists(st.tuples(st.integers(0, 255), st.integers(0, 2)), max_size=24).map(
    lambda items: b"".join((b"%%%02x" % b) if m == 0 else (b"%%%02X" % b) if m == 1 or b == 0x25 else bytes([b]) for b, m in items))
_url_text = st.one_of(_url_arb, _url_escaped)

TESTS = {
    "b64_roundtrip": (check_b64_roundtrip, dict(raw=st.binary(min_size=1, max_size=300))),
    "b64_decode_text": (check_b64_decode_text, dict(text=_b64_text)),
    "hex_roundtrip": (check_hex, dict(raw=st.binary(max_size=300), upper=st.booleans())),
    "hex_decode_text": (check_hex_decode_text, dict(text=_hex_text)),
    # few, large examples (4 % of --examples, at least 6): sizes where the text passes 65535 characters for each delimiter length
    "hex_roundtrip_large": (check_hex_large, dict(
        size=st.one_of(st.builds(lambda b, d: min(65535, b + d), st.sampled_from([13108, 16385, 21846, 32768, 43691, 65535]), st.integers(-3, 3)), st.integers(12000, 65535)),
        delim=st.sampled_from([b"", b"", b" ", b":", b", ", b": ", b" | "]), upper=st.booleans(), pattern=st.integers(0, 1), seed=st.integers(0, 2**32 - 1)), 0.04),
    "url_roundtrip": (check_url, dict(raw=st.binary(max_size=200), path_mode=st.booleans(), safe=st.sampled_from(["", "/", "/:@", "~-._", "!*'()"]))),
    "url_decode_text": (check_url_decode_text, dict(text=_url_text)),
    "crc_checksum": (check_crc, dict(data=st.binary(max_size=2000))),
    # few, large examples (third element: share of --examples, at least 6): sizes at the 2^32 word-sum edge of all-0xff data
    # (131076), at 2^18 / 2^19 / 2^20 +- a few bytes and anywhere in 128 KiB .. 1 MiB
    "crc_checksum_large": (check_crc_large, dict(
        size=st.one_of(st.builds(lambda b, d: b + d, st.sampled_from([131072, 131076, 1 << 18, 1 << 19, 1 << 20]), st.integers(-4, 8)), st.integers(131072, 1 << 20)),
        pattern=st.sampled_from([0, 0, 1, 2, 2, 3, 3, 4]), seed=st.integers(0, 2**32 - 1)), 0.04),
    "md5": (check_md5, dict(data=_md5_len.flatmap(lambda n: st.binary(min_size=n, max_size=n)), cuts=st.lists(st.integers(0, 5000), max_size=6))),
    "aes": (check_aes, dict(key=st.binary(min_size=16, max_size=16), blk=st.binary(min_size=16, max_size=16))),
    "scalable_int": (check_sint, dict(v=_sint_values())),
}


def enc_args(args):
    return {k: ({"hex": v.hex()} if isinstance(v, (bytes, bytearray)) else v) for k, v in args.items()}


def dec_args(args):
    return {k: (bytes.fromhex(v["hex"]) if isinstance(v, dict) and "hex" in v else v) for k, v in args.items()}


def main():
    ap = argparse.ArgumentParser()
    ap.add_argument("--helper", required=True)
    ap.add_argument("--examples", type=int, default=300, help="Hypothesis examples per test")
    ap.add_argument("--seed", type=int, default=1)
    ap.add_argument("--out")
    ap.add_argument("--replay-dir", default=".")
    ap.add_argument("--replay")
    ap.add_argument("--only")
    a = ap.parse_args()
    try:
        selftest()
    except AssertionError as e:
        print("C19 diff_py self-test FAILED:", e); return 2
    if not os.access(a.helper, os.X_OK):
        print("helper binary not found:", a.helper); return 2
    h = Helper(a.helper)

    if a.replay:
        rep = json.load(open(a.replay))
        fn = TESTS[rep["test"]][0]
        try:
            fn(h, **dec_args(rep["args"]))
        except (AssertionError, HelperDied) as e:
            print("REPLAY-FAIL sub=pydiff test=%s file=%s: %s" % (rep["test"], a.replay, e)); h.stop(); return 1
        print("REPLAY-OK sub=pydiff test=%s file=%s" % (rep["test"], a.replay)); h.stop(); return 0

    stats = {"evaluations": 0, "nontrivial": 0, "sub": "pydiff", "nt_rule": "per test: padded Base64 value / text Python accepts or containing a byte >= 0x80 / non-empty hex value / string needing an escape / message >= 2 bytes / MD5 message > 64 bytes split into >= 3 updates / every AES block / integer within 3 of a length boundary",
             "nt_hashes": [], "classes": {}, "counters": {}, "samples": [], "failures": []}
    hashes = set()
    rc = 0
    for name, entry in TESTS.items():
        fn, strat = entry[0], entry[1]
        n_examples = a.examples if len(entry) < 3 else max(6, int(a.examples * entry[2]))
        if a.only and a.only != name:
            continue
        last = {}

        def body(**kw):
            last.clear(); last.update(kw)
            nt, labels = fn(h, **kw)
            stats["evaluations"] += 1
            for l in [name] + [name + ":" + x for x in labels]:
                stats["classes"][l] = stats["classes"].get(l, 0) + 1
            if nt:
                stats["nontrivial"] += 1
                hashes.add(int(hashlib.sha1(repr((name, sorted(enc_args(kw).items(), key=str))).encode()).hexdigest()[:13], 16))
            if len(stats["samples"]) < 8 and stats["evaluations"] in (1, 10, 100, 1000, 10000):
                stats["samples"].append("#%s\n%s %s\n" % ("nt" if nt else "plain", name, json.dumps(enc_args(kw))[:600]))

        test = hseed(a.seed)(settings(max_examples=n_examples, database=None, deadline=None, derandomize=False,
                                      suppress_health_check=list(HealthCheck))(given(**strat)(body)))
        try:
            test()
        except (AssertionError, HelperDied) as e:
            msg = "%s: %s" % (name, str(e).splitlines()[0] if str(e) else type(e).__name__)
            path = os.path.join(a.replay_dir, "fail-pydiff-%s-%s.json" % (name, hashlib.sha1(repr(sorted(enc_args(last).items(), key=str)).encode()).hexdigest()[:12]))
            json.dump({"test": name, "args": enc_args(last), "msg": msg}, open(path, "w"), indent=1)
            print("VERIF-FAIL sub=pydiff replay=%s\n%s" % (path, msg))
            stats["failures"].append({"replay": path, "msg": msg})
            rc = 1
    h.stop()
    stats["nt_hashes"] = sorted(hashes)
    if a.out:
        json.dump(stats, open(a.out, "w"))
    if rc == 0:
        print("OK pydiff: %d examples, %d non-trivial, no difference from the Python references" % (stats["evaluations"], stats["nontrivial"]))
    return rc


if __name__ == "__main__":
    sys.exit(main())
