// C19 — Codecs are exact bounded inverses; checksums, MD5, AES match the standards.
//
// One source, built as a rapidcheck binary and (with -DVERIF_ENGINE_FUZZ) as a libFuzzer binary.
// Sub-checks: base64, hex, scalable_int, serializer, url, crc_checksum, md5, aes, md5_long (rc only).
//
// Oracles
//   * every input and output buffer handed to the code under test is an EXACT-SIZE heap block (class Blk),
//     so a one-byte over-read / overrun is an AddressSanitizer report;
//   * round-trip laws through every overload, size functions against actual sizes, capacities
//     exact / one short / zero (where the callee allows it) / larger;
//   * decoders fed arbitrary bytes 0..255: may return a failure value or throw a C++ exception (caught ONLY
//     around decoder-on-arbitrary-input calls); when an independent reference parser written here accepts the
//     input, the decoder must succeed with the reference result;
//   * CRC-16/CCITT-FALSE, CRC-32, checksum8/16: bit-serial references written from the definitions;
//   * MD5: reference written from RFC 1321 (sine-derived constants, generic round loop);
//   * AES-128: reference written from FIPS-197 (S-box computed from GF(2^8) inverse + affine map).
//   The references are checked against the RFC / FIPS / catalogue vectors once at start-up (selftest()).
#define VERIF_MAIN
#include "../common/verif.h"
#include <tbox/util/base64.h>
#include <tbox/util/string.h>
#include <tbox/util/scalable_integer.h>
#include <tbox/util/serializer.h>
#include <tbox/util/crc.h>
#include <tbox/util/checksum.h>
#include <tbox/http/url.h>
#include <tbox/crypto/md5.h>
#include <tbox/crypto/aes.h>
#include <memory>
#include <cmath>
#include <cstdarg>
#include <algorithm>

using namespace verif;

namespace {

// ------------------------------------------------------------------------------------------------
// exact-size heap block
// ------------------------------------------------------------------------------------------------
// ASan gives a zero-byte request one addressable byte, so a 0-byte block is an 8-byte allocation that is
// poisoned by hand: touching even its first byte is a report.
#if defined(__has_feature)
#  if __has_feature(address_sanitizer)
#    define C19_ASAN 1
#  endif
#endif
#ifdef C19_ASAN
extern "C" void __asan_poison_memory_region(void const volatile *, size_t);
extern "C" void __asan_unpoison_memory_region(void const volatile *, size_t);
#endif
struct Blk {
  uint8_t *p;
  size_t n;
  void alloc(size_t n_) {
    n = n_;
    p = new uint8_t[n ? n : 8];
#ifdef C19_ASAN
    if (!n) __asan_poison_memory_region(p, 8);
#endif
  }
  explicit Blk(size_t n_, uint8_t fill = 0xA5) { alloc(n_); if (n) memset(p, fill, n); }
  Blk(const void *src, size_t n_) { alloc(n_); if (n) memcpy(p, src, n); }
  explicit Blk(const std::vector<uint8_t> &v) : Blk(v.data(), v.size()) {}
  Blk(const Blk &) = delete;
  Blk &operator=(const Blk &) = delete;
  ~Blk() {
#ifdef C19_ASAN
    if (!n) __asan_unpoison_memory_region(p, 8);
#endif
    delete[] p;
  }
  uint8_t *u8() { return p; }
  const uint8_t *u8() const { return p; }
  char *ch() { return reinterpret_cast<char *>(p); }
};
// Input block whose message starts `off` (0..7) bytes into an exact-size heap block and ENDS exactly at the end of the
// block (ASan red zone right behind the last message byte): heap blocks start 16-byte aligned, so `off` is the alignment
// of the message start; with off == 0 the message also starts at the block start.  A 0-byte message at off > 0 is the
// one-past-the-end pointer of the block: reading even one byte is a report.
struct ABlk {
  Blk b;
  size_t off, n;
  ABlk(const void *src, size_t n_, size_t off_) : b((off_ & 7) + n_, 0xEE), off(off_ & 7), n(n_) { if (n) memcpy(b.p + off, src, n); }
  ABlk(const std::vector<uint8_t> &v, size_t off_) : ABlk(v.data(), v.size(), off_) {}
  uint8_t *u8() { return b.p + off; }
  const char *ch() const { return reinterpret_cast<const char *>(b.p + off); }
};
// NUL-terminated exact-size copy of a string without interior NULs
struct CStr {
  Blk b;
  explicit CStr(const std::string &s) : b(s.size() + 1) { if (!s.empty()) memcpy(b.u8(), s.data(), s.size()); b.u8()[s.size()] = 0; }
  const char *c() const { return reinterpret_cast<const char *>(b.u8()); }
};

std::string fmt(const char *f, ...) __attribute__((format(printf, 1, 2)));
std::string fmt(const char *f, ...) {
  char buf[512];
  va_list ap; va_start(ap, f); vsnprintf(buf, sizeof buf, f, ap); va_end(ap);
  return buf;
}
std::string hexs(const uint8_t *p, size_t n, size_t max = 24) {
  std::string o; char b[4];
  for (size_t i = 0; i < n && i < max; ++i) { snprintf(b, sizeof b, "%02x", p[i]); o += b; }
  if (n > max) o += "..";
  return o;
}
std::string hexs(const std::string &s, size_t max = 24) { return hexs(reinterpret_cast<const uint8_t *>(s.data()), s.size(), max); }
std::string hexs(const std::vector<uint8_t> &v, size_t max = 24) { return hexs(v.data(), v.size(), max); }

std::vector<uint8_t> bytes_of(const Op &op, size_t from = 0) {
  std::vector<uint8_t> v;
  for (size_t i = from; i < op.a.size(); ++i) v.push_back((uint8_t)op.in(i, 0, 255));
  return v;
}
std::vector<uint8_t> lcg_bytes(size_t n, uint32_t seed) {
  std::vector<uint8_t> v(n);
  uint32_t g = seed * 2654435761u + 12345u;
  for (auto &b : v) { g = g * 1664525u + 1013904223u; b = (uint8_t)(g >> 24); }
  return v;
}
bool is_hex(uint8_t c) { return (c >= '0' && c <= '9') || (c >= 'a' && c <= 'f') || (c >= 'A' && c <= 'F'); }
int hex_val(uint8_t c) { return c <= '9' ? c - '0' : (c | 0x20) - 'a' + 10; }

// ------------------------------------------------------------------------------------------------
// independent references
// ------------------------------------------------------------------------------------------------
namespace ref {

// --- Base64 (RFC 4648, standard alphabet, '=' padding)
const char kB64[] = "ABCDEFGHIJKLMNOPQRSTUVWXYZabcdefghijklmnopqrstuvwxyz0123456789+/";
std::string b64_encode(const std::vector<uint8_t> &in) {
  std::string o;
  size_t i = 0;
  for (; i + 3 <= in.size(); i += 3) {
    uint32_t w = (uint32_t)in[i] << 16 | (uint32_t)in[i + 1] << 8 | in[i + 2];
    o += kB64[w >> 18]; o += kB64[(w >> 12) & 63]; o += kB64[(w >> 6) & 63]; o += kB64[w & 63];
  }
  size_t rem = in.size() - i;
  if (rem == 1) { uint32_t w = (uint32_t)in[i] << 16; o += kB64[w >> 18]; o += kB64[(w >> 12) & 63]; o += "=="; }
  if (rem == 2) { uint32_t w = (uint32_t)in[i] << 16 | (uint32_t)in[i + 1] << 8; o += kB64[w >> 18]; o += kB64[(w >> 12) & 63]; o += kB64[(w >> 6) & 63]; o += '='; }
  return o;
}
int b64_val(uint8_t c) {
  if (c >= 'A' && c <= 'Z') return c - 'A';
  if (c >= 'a' && c <= 'z') return c - 'a' + 26;
  if (c >= '0' && c <= '9') return c - '0' + 52;
  if (c == '+') return 62;
  if (c == '/') return 63;
  return -1;
}
// true iff `t` is well-formed padded Base64 (length multiple of 4, alphabet only, 0..2 '=' at the very end)
bool b64_decode(const std::string &t, std::vector<uint8_t> &out) {
  out.clear();
  if (t.size() % 4) return false;
  size_t n = t.size(), pad = 0;
  if (n && t[n - 1] == '=') { pad = 1; if (t[n - 2] == '=') pad = 2; }
  uint32_t acc = 0; int bits = 0;
  for (size_t i = 0; i < n - pad; ++i) {
    int v = b64_val((uint8_t)t[i]);
    if (v < 0) return false;
    acc = (acc << 6 | (uint32_t)v) & 0xffffff; bits += 6;
    if (bits >= 8) { bits -= 8; out.push_back((uint8_t)(acc >> bits)); }
  }
  return true;
}

// --- hex
std::string hex_encode(const std::vector<uint8_t> &in, bool upper, const std::string &delim) {
  const char *d = upper ? "0123456789ABCDEF" : "0123456789abcdef";
  std::string o;
  for (size_t i = 0; i < in.size(); ++i) { if (i) o += delim; o += d[in[i] >> 4]; o += d[in[i] & 15]; }
  return o;
}

// --- scalable integer (bijective base-128, big-endian 7-bit groups, high bit = continuation)
size_t sint_len(uint64_t v) {
  // a value needs L bytes iff  min(L) <= v < min(L)+2^(7L),  min(1)=0, min(L+1)=min(L)+2^(7L)
  __uint128_t lo = 0;
  for (size_t L = 1; L <= 10; ++L) {
    __uint128_t span = (__uint128_t)1 << (7 * L);
    if ((__uint128_t)v < lo + span) return L;
    lo += span;
  }
  return 10;
}
__uint128_t sint_min(size_t L) { __uint128_t lo = 0; for (size_t k = 1; k < L; ++k) lo += (__uint128_t)1 << (7 * k); return lo; }
std::vector<uint8_t> sint_dump(uint64_t v) {
  size_t L = sint_len(v);
  __uint128_t pay = (__uint128_t)v - sint_min(L);
  std::vector<uint8_t> o(L);
  for (size_t i = 0; i < L; ++i) {
    uint8_t g = (uint8_t)((pay >> (7 * (L - 1 - i))) & 0x7f);
    o[i] = (i + 1 < L) ? (g | 0x80) : g;
  }
  return o;
}

// --- CRC / checksums, bit-serial from the definitions
uint16_t crc16(const uint8_t *p, size_t n, uint16_t crc) {     // poly 0x1021, MSB first, no reflection, no final xor
  for (size_t i = 0; i < n; ++i) {
    crc ^= (uint16_t)((uint16_t)p[i] << 8);
    for (int b = 0; b < 8; ++b) crc = (crc & 0x8000) ? (uint16_t)((crc << 1) ^ 0x1021) : (uint16_t)(crc << 1);
  }
  return crc;
}
uint32_t crc32(const uint8_t *p, size_t n, uint32_t crc) {     // poly 0x04C11DB7 reflected, final complement
  for (size_t i = 0; i < n; ++i) {
    crc ^= p[i];
    for (int b = 0; b < 8; ++b) crc = (crc & 1) ? (crc >> 1) ^ 0xEDB88320u : crc >> 1;
  }
  return ~crc;
}
uint8_t sum8(const uint8_t *p, size_t n) {                     // one's-complement sum of octets, complemented
  uint64_t s = 0;
  for (size_t i = 0; i < n; ++i) s += p[i];
  while (s >> 8) s = (s & 0xff) + (s >> 8);
  return (uint8_t)~s;
}
uint16_t sum16(const uint8_t *p, size_t n) {                   // RFC 1071: big-endian 16-bit words, odd byte padded right
  uint64_t s = 0;
  for (size_t i = 0; i + 1 < n; i += 2) s += (uint64_t)p[i] << 8 | p[i + 1];
  if (n & 1) s += (uint64_t)p[n - 1] << 8;
  while (s >> 16) s = (s & 0xffff) + (s >> 16);
  return (uint16_t)~s;
}

// --- MD5 (RFC 1321): T[i] = floor(2^32 * |sin(i+1)|), generic 64-step loop, 64-bit length
struct Md5 {
  uint32_t h[4] = {0x67452301u, 0xefcdab89u, 0x98badcfeu, 0x10325476u};
  uint64_t total = 0;
  uint8_t buf[64];
  size_t fill = 0;
  static const uint32_t *T() {
    static uint32_t t[64]; static bool init = false;
    if (!init) { for (int i = 0; i < 64; ++i) t[i] = (uint32_t)(uint64_t)std::floor(4294967296.0 * std::fabs(std::sin((double)(i + 1)))); init = true; }
    return t;
  }
  static uint32_t rol(uint32_t x, int s) { return (x << s) | (x >> (32 - s)); }
  void block(const uint8_t *m) {
    static const int S[4][4] = {{7, 12, 17, 22}, {5, 9, 14, 20}, {4, 11, 16, 23}, {6, 10, 15, 21}};
    const uint32_t *t = T();
    uint32_t X[16];
    for (int i = 0; i < 16; ++i) X[i] = (uint32_t)m[4 * i] | (uint32_t)m[4 * i + 1] << 8 | (uint32_t)m[4 * i + 2] << 16 | (uint32_t)m[4 * i + 3] << 24;
    uint32_t a = h[0], b = h[1], c = h[2], d = h[3];
#define C19_MD5_STEP(F_, K_, SH_) { uint32_t f_ = (F_); uint32_t tmp = d; d = c; c = b; b = b + rol(a + f_ + t[i] + X[(K_) & 15], SH_[i & 3]); a = tmp; }
    for (int i = 0; i < 16; ++i) C19_MD5_STEP((b & c) | (~b & d), i, S[0])               // round 1: F, k = i
    for (int i = 16; i < 32; ++i) C19_MD5_STEP((b & d) | (c & ~d), 5 * i + 1, S[1])      // round 2: G, k = 5i+1
    for (int i = 32; i < 48; ++i) C19_MD5_STEP(b ^ c ^ d, 3 * i + 5, S[2])               // round 3: H, k = 3i+5
    for (int i = 48; i < 64; ++i) C19_MD5_STEP(c ^ (b | ~d), 7 * i, S[3])                // round 4: I, k = 7i
#undef C19_MD5_STEP
    h[0] += a; h[1] += b; h[2] += c; h[3] += d;
  }
  void update(const uint8_t *p, size_t n) {
    total += n;
    if (fill) {
      size_t k = std::min(n, 64 - fill);
      memcpy(buf + fill, p, k); fill += k; p += k; n -= k;
      if (fill == 64) { block(buf); fill = 0; }
    }
    while (n >= 64) { block(p); p += 64; n -= 64; }
    if (n) { memcpy(buf, p, n); fill = n; }
  }
  void finish(uint8_t out[16]) {
    uint64_t bits = total * 8;
    uint8_t pad[72]; memset(pad, 0, sizeof pad); pad[0] = 0x80;
    size_t padlen = (fill < 56) ? 56 - fill : 120 - fill;
    update(pad, padlen);
    uint8_t len[8]; for (int i = 0; i < 8; ++i) len[i] = (uint8_t)(bits >> (8 * i));
    update(len, 8);
    for (int i = 0; i < 4; ++i) for (int j = 0; j < 4; ++j) out[4 * i + j] = (uint8_t)(h[i] >> (8 * j));
  }
};
void md5(const uint8_t *p, size_t n, uint8_t out[16]) { Md5 m; m.update(p, n); m.finish(out); }

// --- AES-128 (FIPS-197): byte-oriented, column-major 16-byte state, S-box computed
struct Aes {
  uint8_t sbox[256], inv[256];
  static uint8_t xtime(uint8_t a) { return (uint8_t)((a << 1) ^ ((a & 0x80) ? 0x1b : 0)); }
  static uint8_t mul(uint8_t a, uint8_t b) { uint8_t r = 0; while (b) { if (b & 1) r ^= a; a = xtime(a); b >>= 1; } return r; }
  static uint8_t rotl8(uint8_t x, int s) { return (uint8_t)((x << s) | (x >> (8 - s))); }
  uint8_t mt[15][256];                 // mt[k][x] = k*x in GF(2^8), filled from mul() for the constants FIPS-197 uses
  uint8_t m(uint8_t x, int k) const { return mt[k][x]; }
  Aes() {
    for (int k : {2, 3, 9, 11, 13, 14}) for (int x = 0; x < 256; ++x) mt[k][x] = mul((uint8_t)x, (uint8_t)k);
    for (int x = 0; x < 256; ++x) {
      uint8_t iv = 0;
      if (x) for (int y = 1; y < 256; ++y) if (mul((uint8_t)x, (uint8_t)y) == 1) { iv = (uint8_t)y; break; }
      uint8_t s = (uint8_t)(iv ^ rotl8(iv, 1) ^ rotl8(iv, 2) ^ rotl8(iv, 3) ^ rotl8(iv, 4) ^ 0x63);
      sbox[x] = s; inv[s] = (uint8_t)x;
    }
  }
  void expand(const uint8_t key[16], uint8_t rk[176]) const {
    memcpy(rk, key, 16);
    uint8_t rcon = 1;
    for (int i = 16; i < 176; i += 4) {
      uint8_t t[4] = {rk[i - 4], rk[i - 3], rk[i - 2], rk[i - 1]};
      if (i % 16 == 0) {
        uint8_t t0 = t[0];
        t[0] = (uint8_t)(sbox[t[1]] ^ rcon); t[1] = sbox[t[2]]; t[2] = sbox[t[3]]; t[3] = sbox[t0];
        rcon = xtime(rcon);
      }
      for (int j = 0; j < 4; ++j) rk[i + j] = rk[i - 16 + j] ^ t[j];
    }
  }
  static void add(uint8_t s[16], const uint8_t *k) { for (int i = 0; i < 16; ++i) s[i] ^= k[i]; }
  void encrypt(const uint8_t key[16], const uint8_t in[16], uint8_t out[16]) const {
    uint8_t rk[176]; expand(key, rk);
    uint8_t s[16]; memcpy(s, in, 16); add(s, rk);
    for (int round = 1; round <= 10; ++round) {
      uint8_t t[16];
      for (int c = 0; c < 4; ++c) for (int r = 0; r < 4; ++r) t[r + 4 * c] = sbox[s[r + 4 * ((c + r) % 4)]];   // SubBytes + ShiftRows
      if (round != 10) {
        for (int c = 0; c < 4; ++c) {
          const uint8_t *a = t + 4 * c;
          s[4 * c + 0] = (uint8_t)(m(a[0], 2) ^ m(a[1], 3) ^ a[2] ^ a[3]);
          s[4 * c + 1] = (uint8_t)(a[0] ^ m(a[1], 2) ^ m(a[2], 3) ^ a[3]);
          s[4 * c + 2] = (uint8_t)(a[0] ^ a[1] ^ m(a[2], 2) ^ m(a[3], 3));
          s[4 * c + 3] = (uint8_t)(m(a[0], 3) ^ a[1] ^ a[2] ^ m(a[3], 2));
        }
      } else memcpy(s, t, 16);
      add(s, rk + 16 * round);
    }
    memcpy(out, s, 16);
  }
  void decrypt(const uint8_t key[16], const uint8_t in[16], uint8_t out[16]) const {
    uint8_t rk[176]; expand(key, rk);
    uint8_t s[16]; memcpy(s, in, 16); add(s, rk + 160);
    for (int round = 9; round >= 0; --round) {
      uint8_t t[16];
      for (int c = 0; c < 4; ++c) for (int r = 0; r < 4; ++r) t[r + 4 * ((c + r) % 4)] = inv[s[r + 4 * c]];    // InvShiftRows + InvSubBytes
      add(t, rk + 16 * round);
      if (round) {
        for (int c = 0; c < 4; ++c) {
          const uint8_t *a = t + 4 * c;
          s[4 * c + 0] = (uint8_t)(m(a[0], 14) ^ m(a[1], 11) ^ m(a[2], 13) ^ m(a[3], 9));
          s[4 * c + 1] = (uint8_t)(m(a[0], 9) ^ m(a[1], 14) ^ m(a[2], 11) ^ m(a[3], 13));
          s[4 * c + 2] = (uint8_t)(m(a[0], 13) ^ m(a[1], 9) ^ m(a[2], 14) ^ m(a[3], 11));
          s[4 * c + 3] = (uint8_t)(m(a[0], 11) ^ m(a[1], 13) ^ m(a[2], 9) ^ m(a[3], 14));
        }
      } else memcpy(s, t, 16);
    }
    memcpy(out, s, 16);
  }
};
const Aes &aes() { static Aes a; return a; }

}  // namespace ref

// ------------------------------------------------------------------------------------------------
// start-up self-test of the references against published vectors
// ------------------------------------------------------------------------------------------------
std::vector<uint8_t> unhex(const char *s) {
  std::vector<uint8_t> v;
  for (size_t i = 0; s[i] && s[i + 1]; i += 2) v.push_back((uint8_t)(hex_val((uint8_t)s[i]) << 4 | hex_val((uint8_t)s[i + 1])));
  return v;
}
std::vector<uint8_t> vec(const std::string &s) { return std::vector<uint8_t>(s.begin(), s.end()); }

void selftest_fail(const char *what) {
  fprintf(stderr, "C19 harness self-test FAILED: %s (the harness's own reference is wrong; infrastructure error)\n", what);
  fflush(stderr);
  _exit(2);
}
bool do_selftest() {
  // RFC 1321 A.5 test suite
  const char *md5v[][2] = {
    {"", "d41d8cd98f00b204e9800998ecf8427e"}, {"a", "0cc175b9c0f1b6a831c399e269772661"},
    {"abc", "900150983cd24fb0d6963f7d28e17f72"}, {"message digest", "f96b697d7cb7938d525a2f31aaf161d0"},
    {"abcdefghijklmnopqrstuvwxyz", "c3fcd3d76192e4007dfb496cca67e13b"},
    {"ABCDEFGHIJKLMNOPQRSTUVWXYZabcdefghijklmnopqrstuvwxyz0123456789", "d174ab98d277d9f5a5611c2c9f419d9f"},
    {"12345678901234567890123456789012345678901234567890123456789012345678901234567890", "57edf4a22be3c955ac49da2e2107b67a"}};
  for (auto &v : md5v) {
    uint8_t d[16]; ref::md5((const uint8_t *)v[0], strlen(v[0]), d);
    if (unhex(v[1]) != std::vector<uint8_t>(d, d + 16)) selftest_fail("MD5 RFC 1321 vector");
  }
  // FIPS-197 Appendix B and C.1
  {
    auto k = unhex("2b7e151628aed2a6abf7158809cf4f3c"), p = unhex("3243f6a8885a308d313198a2e0370734"), c = unhex("3925841d02dc09fbdc118597196a0b32");
    uint8_t o[16]; ref::aes().encrypt(k.data(), p.data(), o);
    if (memcmp(o, c.data(), 16)) selftest_fail("AES FIPS-197 Appendix B encrypt");
    ref::aes().decrypt(k.data(), c.data(), o);
    if (memcmp(o, p.data(), 16)) selftest_fail("AES FIPS-197 Appendix B decrypt");
    k = unhex("000102030405060708090a0b0c0d0e0f"); p = unhex("00112233445566778899aabbccddeeff"); c = unhex("69c4e0d86a7b0430d8cdb78070b4c55a");
    ref::aes().encrypt(k.data(), p.data(), o);
    if (memcmp(o, c.data(), 16)) selftest_fail("AES FIPS-197 C.1 encrypt");
    ref::aes().decrypt(k.data(), c.data(), o);
    if (memcmp(o, p.data(), 16)) selftest_fail("AES FIPS-197 C.1 decrypt");
    if (ref::aes().sbox[0] != 0x63 || ref::aes().sbox[0x53] != 0xed || ref::aes().sbox[0xff] != 0x16) selftest_fail("AES S-box");
  }
  // CRC catalogue check values, RFC 1071 example
  {
    const uint8_t *c = (const uint8_t *)"123456789";
    if (ref::crc16(c, 9, 0xffff) != 0x29B1) selftest_fail("CRC-16/CCITT-FALSE check value");
    if (ref::crc32(c, 9, 0xffffffffu) != 0xCBF43926u) selftest_fail("CRC-32 check value");
    const uint8_t r[] = {0x00, 0x01, 0xf2, 0x03, 0xf4, 0xf5, 0xf6, 0xf7};
    if (ref::sum16(r, 8) != (uint16_t)~0xddf2) selftest_fail("RFC 1071 checksum example");
    {   // 65538 words 0xffff: the plain sum needs 33 bits; any non-empty sum of 0xffff words folds to 0xffff
      std::vector<uint8_t> ff(131076, 0xff);
      if (ref::sum16(ff.data(), ff.size()) != 0x0000 || ref::sum16(ff.data(), ff.size() - 1) != 0x00ff) selftest_fail("RFC 1071 checksum of 131076 x 0xff");
      if (ref::sum8(ff.data(), ff.size()) != 0x00) selftest_fail("8-bit checksum of 131076 x 0xff");
    }
    const uint8_t e[] = {0xff, 0x01, 0x02};   // 0xff+1 = 0x100 -> 0x01, +2 = 3
    if (ref::sum8(e, 3) != (uint8_t)~3) selftest_fail("8-bit one's-complement sum");
  }
  // RFC 4648 section 10
  {
    const char *b[][2] = {{"", ""}, {"f", "Zg=="}, {"fo", "Zm8="}, {"foo", "Zm9v"}, {"foob", "Zm9vYg=="}, {"fooba", "Zm9vYmE="}, {"foobar", "Zm9vYmFy"}};
    for (auto &v : b) {
      if (ref::b64_encode(vec(v[0])) != v[1]) selftest_fail("Base64 RFC 4648 encode");
      std::vector<uint8_t> o;
      if (!ref::b64_decode(v[1], o) || o != vec(v[0])) selftest_fail("Base64 RFC 4648 decode");
    }
  }
  // scalable integer: the table in the header
  {
    if (ref::sint_len(127) != 1 || ref::sint_len(128) != 2 || ref::sint_len(16511) != 2 || ref::sint_len(16512) != 3 ||
        ref::sint_len(2113663) != 3 || ref::sint_len(2113664) != 4 || ref::sint_len(270549119) != 4 || ref::sint_len(270549120) != 5 ||
        ref::sint_len(UINT64_MAX) != 10) selftest_fail("scalable integer length table");
    if (ref::sint_dump(128) != std::vector<uint8_t>({0x80, 0x00}) || ref::sint_dump(16511) != std::vector<uint8_t>({0xff, 0x7f})) selftest_fail("scalable integer dump");
  }
  return true;
}
void selftest() { static bool ok = do_selftest(); (void)ok; }

// mutation of a valid encoding (mode "mutated valid"): args kind,pos,val taken from the cfg op at index `base`
// returns a label for the class statistics
const char *mutate(std::string &t, const Op &cfg, size_t base) {
  int kind = (int)cfg.in(base, 0, 5);
  size_t pos = t.empty() ? 0 : (size_t)cfg.in(base + 1, 0, (int64_t)t.size() - 1);
  char val = (char)cfg.in(base + 2, 0, 255);
  switch (kind) {
    case 0: if (!t.empty()) t[pos] = val; return "mut_replace";
    case 1: t.resize(pos); return "mut_truncate";
    case 2: t.insert(t.begin() + (long)pos, val); return "mut_insert";
    case 3: if (!t.empty()) t.erase(pos, 1); return "mut_erase";
    case 4: if (!t.empty()) { t[pos] = val; t[t.size() - 1 - pos] = (char)(val ^ 0x80); } return "mut_replace2";
    default: if (!t.empty()) t[t.size() - 1] = val; return "mut_last";
  }
}
bool has_high(const std::string &t) { for (unsigned char c : t) if (c >= 0x80) return true; return false; }

enum { CFG = 0, DATA = 1, BIGDATA = 2 };

// `big <sizemode> <delta> <pattern> <seed>`: a large generated value in place of the `data` bytes, for index / length types
// narrower than size_t inside a codec (16-bit positions, int lengths ...).  Sizes: one of the sub's boundary sizes -3..+3,
// or anywhere in [lo, hi].  Patterns: uniform bytes, bytes >= 0x80, all 0xff, printable ASCII.
struct BigSpec { const size_t *bases; int nbases; size_t lo, hi; };
const char *kBigDataPattern[] = {"large_uniform_bytes", "large_bytes_ge_0x80", "large_all_0xff", "large_printable_ascii"};
std::vector<uint8_t> big_bytes(const Op &op, const BigSpec &sp, int &pattern) {
  int mode = (int)op.in(0, 0, sp.nbases + 1);
  int64_t delta = op.in(1, 0, 6) - 3;
  pattern = (int)op.in(2, 0, 3);
  uint32_t seed = (uint32_t)op.in(3, 0, 1 << 20);
  int64_t n = mode < sp.nbases ? (int64_t)sp.bases[mode] + delta
                               : (int64_t)(sp.lo + (size_t)(((uint64_t)seed * 2654435761u + (uint64_t)mode * 40503u) % (sp.hi - sp.lo + 1)));
  if (n < 0) n = 0;
  if ((size_t)n > sp.hi) n = (int64_t)sp.hi;
  std::vector<uint8_t> v((size_t)n);
  uint32_t g = seed * 2654435761u + 12345u;
  auto next = [&]() -> uint32_t { g = g * 1664525u + 1013904223u; return g >> 8; };
  switch (pattern) {
    case 0: for (auto &b : v) b = (uint8_t)next(); break;
    case 1: for (auto &b : v) b = (uint8_t)(0x80 | (next() & 0x7f)); break;
    case 2: std::fill(v.begin(), v.end(), 0xff); break;
    default: for (auto &b : v) b = (uint8_t)(0x20 + next() % 95); break;
  }
  return v;
}

// split a cfg+data scenario
struct CfgData { Op cfg; std::vector<uint8_t> data; bool big = false; int pattern = -1; };
CfgData split(const Scenario &s, const BigSpec *sp = nullptr) {
  CfgData r; bool have = false;
  for (auto &op : s.ops) {
    if (op.code == CFG) { if (!have) { r.cfg = op; have = true; } }
    else if (op.code == DATA) { auto b = bytes_of(op); r.data.insert(r.data.end(), b.begin(), b.end()); }
    else if (op.code == BIGDATA && sp && !r.big) { r.big = true; auto b = big_bytes(op, *sp, r.pattern); r.data.insert(r.data.end(), b.begin(), b.end()); }
  }
  size_t cap = r.big ? sp->hi : 70000;
  if (r.data.size() > cap) r.data.resize(cap);
  return r;
}
// libFuzzer inputs: <ncfg cfg bytes> <data bytes...>.  An input of exactly ncfg+6 bytes  <cfg> mode delta pattern CK 0xB1 0x6D
// whose CK byte is the xor of all bytes before it ^ 0x5A carries a `big` op (seed = CK) instead of data bytes.  Such inputs
// are in the seed corpus (executed when a campaign starts); a mutant of them almost never keeps the check byte valid, so
// the slow large cases (10-100 ms) do not take over the campaign (without the check byte they were 20-30 % of all execs).
Scenario cfg_data_decode(const uint8_t *d, size_t n, size_t ncfg) {
  Scenario s; Op c; c.code = CFG;
  size_t i = 0;
  for (; i < ncfg && i < n; ++i) c.a.push_back(d[i]);
  s.ops.push_back(c);
  bool big = n == ncfg + 6 && d[n - 2] == 0xB1 && d[n - 1] == 0x6D;
  if (big) { uint8_t ck = 0x5A; for (size_t k = 0; k + 3 < n; ++k) ck ^= d[k]; big = ck == d[n - 3]; }
  size_t end = big ? n - 6 : n;
  Op dt; dt.code = DATA;
  for (; i < end; ++i) dt.a.push_back(d[i]);
  s.ops.push_back(dt);
  if (big) { Op b; b.code = BIGDATA; b.a = {d[n - 6], d[n - 5], d[n - 4], d[n - 3]}; s.ops.push_back(b); }
  return s;
}

#ifndef VERIF_ENGINE_FUZZ
rc::Gen<int64_t> byteGen(std::vector<int64_t> fav, int wfav, int wany, int whigh) {
  return rc::gen::weightedOneOf<int64_t>({{(size_t)wany, range(0, 255)}, {(size_t)whigh, range(128, 255)}, {(size_t)wfav, rc::gen::elementOf(std::move(fav))}});
}
rc::Gen<Op> opOfBytes(int code, rc::Gen<int64_t> b) {
  return rc::gen::map(rc::gen::container<std::vector<int64_t>>(std::move(b)), [code](std::vector<int64_t> v) { Op o; o.code = code; o.a = std::move(v); return o; });
}
// op = fixed head args followed by a generated byte list
rc::Gen<Op> opHeadBytes(int code, std::vector<rc::Gen<int64_t>> head, rc::Gen<std::vector<int64_t>> tail) {
  return rc::gen::apply([](Op o, std::vector<int64_t> t) { for (auto x : t) o.a.push_back(x); return o; }, mkop(code, std::move(head)), std::move(tail));
}
rc::Gen<std::vector<int64_t>> fixedBytes(size_t n, rc::Gen<int64_t> b) { return rc::gen::container<std::vector<int64_t>>(n, std::move(b)); }
rc::Gen<Op> bigDataOp(const BigSpec &sp) { return mkop(BIGDATA, {range(0, sp.nbases + 1), range(0, 6), range(0, 3), range(0, 1 << 20)}); }
std::vector<int64_t> chars(const char *s) { std::vector<int64_t> v; for (; *s; ++s) v.push_back((unsigned char)*s); return v; }
rc::Gen<int64_t> anyI64() {
  return rc::gen::weightedOneOf<int64_t>({{3, range(0, 300)}, {2, range(-70000, 70000)}, {2, range(-(int64_t(1) << 40), int64_t(1) << 40)},
    {3, rc::gen::arbitrary<int64_t>()},
    {2, rc::gen::elementOf(std::vector<int64_t>{0, -1, 1, 127, 128, 255, 256, 32767, 32768, 65535, 65536, INT32_MAX, (int64_t)INT32_MAX + 1, UINT32_MAX, (int64_t)UINT32_MAX + 1, INT64_MAX, INT64_MIN, INT32_MIN})}});
}
#endif

// =================================================================================================
// base64
// =================================================================================================
namespace b64 {
namespace B = tbox::util::base64;

// all decode overloads on `text`; `must` = the reference accepted the text (result `want`)
std::string check_decode(const std::string &text, size_t extra, size_t prefix, bool from_encoder, CaseInfo &info) {
  std::vector<uint8_t> want;
  bool valid = ref::b64_decode(text, want);
  const char *what = from_encoder ? "encoder output" : (valid ? "well-formed text" : "malformed text");
  info.cls(valid ? (from_encoder ? "dec_encoder_output" : "dec_wellformed") : "dec_malformed");
  if (has_high(text)) info.cls("dec_input_has_byte_ge_0x80");
  // A byte that is neither in the alphabet nor '=' and stands in front of the first '=' makes the text invalid beyond any doubt
  // (every decoder reads it before it can stop at a pad): the decoders' only failure channel is the return value 0 (or an
  // exception), so none of them may report decoded bytes for such a text.  (Texts the reference rejects for other reasons -
  // '=' in the middle, data after a pad - are accepted leniently by the code and are NOT demanded to fail.)
  bool bad_char = false;
  if (text.size() % 4 == 0)
    for (unsigned char c : text) { if (c == '=') break; if (ref::b64_val(c) < 0) { bad_char = true; break; } }
  if (bad_char) { info.cls("dec_foreign_byte_before_pad"); for (unsigned char c : text) { if (c == '=') break; if (c >= 0x80 && ref::b64_val(c & 0x7f) >= 0) { info.cls("dec_foreign_byte_is_alphabet_char_plus_0x80"); break; } } }

  ABlk in(text.data(), text.size(), extra + prefix);
  // --- DecodeLength, three overloads
  size_t dl = 0, dl_s = 0;
  bool threw = false;
  try { dl = B::DecodeLength(in.ch(), in.n); dl_s = B::DecodeLength(text); } catch (const std::exception &) { threw = true; }
  if (threw) { if (valid) return fmt("DecodeLength threw on %s", what); dl = dl_s = 0; }
  if (dl != dl_s) return fmt("DecodeLength(ptr,len)=%zu but DecodeLength(string)=%zu for %zu-byte text %s", dl, dl_s, text.size(), hexs(text).c_str());
  if (dl > text.size() / 4 * 3) return fmt("DecodeLength=%zu exceeds 3/4 of the %zu-byte text", dl, text.size());
  if (valid && dl != want.size()) return fmt("DecodeLength=%zu but %s of %zu chars decodes to %zu bytes", dl, what, text.size(), want.size());
  std::string ctext = text.substr(0, text.find('\0'));
  CStr cs(ctext);
  {
    size_t a = 0, b = 0; threw = false;
    try { a = B::DecodeLength(cs.c()); b = B::DecodeLength(cs.c(), ctext.size()); } catch (const std::exception &) { threw = true; }
    if (!threw && a != b) return fmt("DecodeLength(cstr)=%zu differs from DecodeLength(ptr,strlen)=%zu", a, b);
    if (threw && valid) return fmt("DecodeLength(cstr) threw on %s", what);
  }

  // --- Decode(ptr,len,out,cap) and Decode(cstr,out,cap): capacities exact / one short / zero / larger
  size_t caps[4] = {dl, dl ? dl - 1 : 0, 0, dl + extra};
  for (int v = 0; v < 2; ++v) {
    if (v == 1 && ctext.size() != text.size()) {
      // embedded NUL: the C-string overload sees a prefix; run it for memory safety only
      size_t d2 = 0; try { d2 = B::DecodeLength(cs.c()); } catch (const std::exception &) {}
      Blk out(d2);
      size_t r = 0; try { r = B::Decode(cs.c(), out.u8(), out.n); } catch (const std::exception &) {}
      if (r > out.n) return fmt("Decode(cstr) returned %zu for capacity %zu", r, out.n);
      continue;
    }
    for (size_t cap : caps) {
      Blk out(cap);
      size_t r = 0; threw = false;
      try { r = v == 0 ? B::Decode(in.ch(), in.n, out.u8(), cap) : B::Decode(cs.c(), out.u8(), cap); }
      catch (const std::exception &) { threw = true; }
      const char *ov = v == 0 ? "Decode(ptr,len,out,cap)" : "Decode(cstr,out,cap)";
      if (threw) { if (valid) return fmt("%s threw on %s", ov, what); continue; }
      if (r > cap) return fmt("%s returned %zu for capacity %zu", ov, r, cap);
      if (bad_char && r != 0) return fmt("%s returned %zu (decoded bytes %s) for the invalid text %s: a byte outside the alphabet in front of any pad must make it fail", ov, r, hexs(out.u8(), r).c_str(), hexs(text.substr(0, 40)).c_str());
      if (cap < dl && r != 0) return fmt("%s returned %zu although capacity %zu < DecodeLength %zu", ov, r, cap, dl);
      if (valid && cap >= dl) {
        if (r != want.size()) return fmt("%s returned %zu for %s '%s' (capacity %zu), reference decodes %zu bytes", ov, r, what, text.substr(0, 40).c_str(), cap, want.size());
        if (r && memcmp(out.u8(), want.data(), r)) return fmt("%s of %s '%s' gave %s, reference %s", ov, what, text.substr(0, 40).c_str(), hexs(out.u8(), r).c_str(), hexs(want).c_str());
      }
    }
  }
  // --- Decode(string, vector): appends
  {
    std::vector<uint8_t> out = lcg_bytes(prefix, 77), pre = out;
    size_t r = 0; threw = false;
    try { r = B::Decode(text, out); } catch (const std::exception &) { threw = true; }
    if (threw) { if (valid) return fmt("Decode(string,vector) threw on %s", what); }
    else {
      if (out.size() < pre.size() || !std::equal(pre.begin(), pre.end(), out.begin())) return "Decode(string,vector) damaged the bytes already in the vector";
      if (bad_char && r != 0) return fmt("Decode(string,vector) returned %zu for the invalid text %s: a byte outside the alphabet in front of any pad must make it fail", r, hexs(text.substr(0, 40)).c_str());
      size_t added = out.size() - pre.size();
      if (added > text.size() / 4 * 3) return fmt("Decode(string,vector) appended %zu bytes for a %zu-char text", added, text.size());
      if (valid) {
        if (r != want.size()) return fmt("Decode(string,vector) returned %zu for %s '%s', reference decodes %zu bytes", r, what, text.substr(0, 40).c_str(), want.size());
        if (added != want.size() || !std::equal(want.begin(), want.end(), out.begin() + (long)pre.size()))
          return fmt("Decode(string,vector) of %s '%s' appended %s, reference %s", what, text.substr(0, 40).c_str(), hexs(out.data() + pre.size(), added).c_str(), hexs(want).c_str());
      }
    }
  }
  return "";
}

// large values: encoded length crosses 2^16 at 49152 bytes, 2^17 at 98304, 2^18 at 196608
const size_t kBigBases[] = {49150, 49152, 65535, 65536, 98304, 131072, 196608};
const BigSpec kBig = {kBigBases, 7, 40000, 204800};

std::string run(const Scenario &s, CaseInfo &info) {
  selftest();
  CfgData cd = split(s, &kBig);
  if (cd.big) { info.cls("large_value_40KiB_to_200KiB"); info.cls(kBigDataPattern[cd.pattern]); info.cls_if(B::EncodeLength(cd.data.size()) > 65535, "large_text_over_65535_chars"); }
  int mode = (int)cd.cfg.in(0, 0, 2);
  size_t extra = (size_t)cd.cfg.in(1, 1, 9), prefix = (size_t)cd.cfg.in(2, 0, 5);
  if (mode == 1) {   // arbitrary bytes as decoder input
    std::string text(cd.data.begin(), cd.data.end());
    info.cls("mode_arbitrary_text");
    info.nontrivial = has_high(text) || (text.size() % 4 == 0 && !text.empty());
    return check_decode(text, extra, prefix, false, info);
  }
  const std::vector<uint8_t> &raw = cd.data;
  size_t n = raw.size();
  if (B::EncodeLength(n) != ref::b64_encode(raw).size()) return fmt("EncodeLength(%zu)=%zu, reference length %zu", n, B::EncodeLength(n), ref::b64_encode(raw).size());
  if (n == 0) {      // Encode asserts a non-empty input: only the size function and the decoders see the empty value
    info.cls("empty_value");
    return check_decode("", extra, prefix, false, info);
  }
  std::string want = ref::b64_encode(raw);
  size_t L = want.size();
  info.cls(n % 3 == 0 ? "enc_pad0" : (n % 3 == 1 ? "enc_pad2" : "enc_pad1"));
  ABlk in(raw, extra * 3 + prefix);
  std::string s1 = B::Encode(in.u8(), n);
  if (s1 != want) return fmt("Encode(ptr,len) of %s gave '%s', RFC 4648 gives '%s'", hexs(raw).c_str(), s1.substr(0, 40).c_str(), want.substr(0, 40).c_str());
  std::string s2 = B::Encode(raw);
  if (s2 != want) return fmt("Encode(vector) of %s gave '%s', RFC 4648 gives '%s'", hexs(raw).c_str(), s2.substr(0, 40).c_str(), want.substr(0, 40).c_str());
  size_t caps[4] = {L, L - 1, 1, L + extra};
  for (size_t cap : caps) {
    Blk out(cap);
    size_t r = B::Encode(in.u8(), n, out.ch(), cap);
    if (cap < L) { if (r != 0) return fmt("Encode(ptr,len,out,cap) returned %zu although capacity %zu < EncodeLength %zu", r, cap, L); continue; }
    if (r != L) return fmt("Encode(ptr,len,out,cap=%zu) returned %zu, EncodeLength(%zu)=%zu", cap, r, n, L);
    if (memcmp(out.u8(), want.data(), L)) return fmt("Encode(ptr,len,out,cap) of %s differs from RFC 4648 '%s'", hexs(raw).c_str(), want.substr(0, 40).c_str());
  }
  if (mode == 0) {
    info.cls("mode_roundtrip");
    info.nontrivial = (n % 3) != 0;    // padded: the exact-capacity decode is the interesting shape
    return check_decode(want, extra, prefix, true, info);
  }
  std::string text = want;
  info.cls("mode_mutated_encoding");
  info.cls(mutate(text, cd.cfg, 3));
  info.nontrivial = text != want;
  return check_decode(text, extra, prefix, false, info);
}

SubDef def = [] {
  SubDef d; d.name = "base64";
  d.op_names = {"cfg", "data", "big"};
  d.op_arity = {6, 8, 4};
  d.nt_rule = "(about 0.2 % of the rapidcheck cases use a 40-200 KiB value, classes large_*) round trip of a value whose encoding is padded (n mod 3 != 0, all capacities incl. exact and one short), or a decoder input that is a really mutated encoding, contains a byte >= 0x80, or is arbitrary text of a length that passes the multiple-of-4 gate; every decoder overload must return 0 (or throw) for a text with a byte outside the alphabet in front of any pad (classes dec_foreign_byte_*)";
  d.run = run;
  d.decode = [](const uint8_t *p, size_t n) { return cfg_data_decode(p, n, 6); };
#ifndef VERIF_ENGINE_FUZZ
  d.gen = [] {
    auto any = byteGen({0, 255, 'A', '=', 0x80}, 1, 6, 1);
    auto texty = byteGen(chars("ABCDEFGHIJKLMNOPQRSTUVWXYZabcdefghijklmnopqrstuvwxyz0123456789+/+/==="), 30, 1, 1);
    auto cfg = [](int mode) { return mkop(CFG, {rc::gen::just<int64_t>(mode), range(1, 9), range(0, 5), range(0, 5), range(0, 255), byteGen({'=', 'A', '/', 0, 0x80, 0xff, '-', '_', ' ', '\n'}, 3, 2, 2)}); };
    return rc::gen::weightedOneOf<Scenario>({
      {600, scenarioOf(fixedOps({cfg(0)}), fixedOps({opOfBytes(DATA, any)}))},
      {450, scenarioOf(fixedOps({cfg(2)}), fixedOps({opOfBytes(DATA, any)}))},
      {450, scenarioOf(fixedOps({cfg(1)}), fixedOps({opOfBytes(DATA, texty)}))},
      {2, scenarioOf(fixedOps({cfg(0)}), fixedOps({bigDataOp(kBig)}))},        // large value: round trip
      {1, scenarioOf(fixedOps({cfg(2)}), fixedOps({bigDataOp(kBig)}))}});      // large value: mutated encoding
  };
#endif
  return d;
}();
VERIF_REGISTER(&def);
}  // namespace b64

// =================================================================================================
// hex strings
// =================================================================================================
namespace hexsub {
namespace S = tbox::util::string;
const char *kDelims[] = {"", " ", ":", ", ", " \t", "-", "\x80\xfe", ": ", "\n", "xyz", " | ", "\r\n\t"};
const int kNDelims = 12;
// large values (the API maximum is 65535 bytes): the text passes 65535 characters at 32768 bytes without delimiter,
// 21846 with a 1-character, 16385 with a 2-character and 13108 with a 3-character delimiter
const size_t kBigBases[] = {13107, 13108, 16384, 16385, 21845, 21846, 32767, 32768, 43691, 65535};
const BigSpec kBig = {kBigBases, 10, 12000, 65535};

// reference parsers; return false = not well-formed
bool ref_nodelim(const std::string &t, std::vector<uint8_t> &out) {
  out.clear();
  size_t b = t.find_first_not_of(" \t");
  if (b == std::string::npos) return true;                 // nothing but blanks: the empty value
  size_t e = t.find_last_not_of(" \t") + 1;
  if ((e - b) % 2) return false;
  for (size_t i = b; i < e; i += 2) {
    if (!is_hex((uint8_t)t[i]) || !is_hex((uint8_t)t[i + 1])) return false;
    out.push_back((uint8_t)(hex_val((uint8_t)t[i]) << 4 | hex_val((uint8_t)t[i + 1])));
  }
  return true;
}
bool ref_delim(const std::string &t, const std::string &delim, std::vector<uint8_t> &out) {
  out.clear();
  size_t i = 0;
  while (i < t.size()) {
    if (delim.find(t[i]) != std::string::npos) { ++i; continue; }
    size_t j = i;
    while (j < t.size() && delim.find(t[j]) == std::string::npos) ++j;
    if (j - i > 2) return false;
    int v = 0;
    for (size_t k = i; k < j; ++k) { if (!is_hex((uint8_t)t[k])) return false; v = v << 4 | hex_val((uint8_t)t[k]); }
    out.push_back((uint8_t)v);
    i = j;
  }
  return true;
}

std::string check_decode(const std::string &text, const std::string &delim, size_t extra, size_t prefix, bool from_encoder, CaseInfo &info) {
  const char *what = from_encoder ? "encoder output" : "text";
  if (has_high(text)) info.cls("dec_input_has_byte_ge_0x80");
  // --- fixed-buffer overload (no delimiter support): pairs from offset 0, at most cap of them, odd tail ignored
  if (delim.empty()) {
    size_t pairs = text.size() / 2;
    size_t caps[5] = {pairs, pairs ? pairs - 1 : 0, 0, pairs + extra, 1};
    int ncaps = text.size() > 20000 ? 2 : 5;          // large texts: exact and one short only (cost)
    for (int ci = 0; ci < ncaps; ++ci) {
      size_t cap = caps[ci];
      if (cap > 65535) continue;
      size_t m = std::min(cap, pairs);
      bool valid = true; std::vector<uint8_t> want;
      for (size_t i = 0; i < m && valid; ++i) {
        if (!is_hex((uint8_t)text[2 * i]) || !is_hex((uint8_t)text[2 * i + 1])) valid = false;
        else want.push_back((uint8_t)(hex_val((uint8_t)text[2 * i]) << 4 | hex_val((uint8_t)text[2 * i + 1])));
      }
      Blk out(cap);
      size_t r = 0; bool threw = false;
      try { r = S::HexStrToRawData(text, out.u8(), (uint16_t)cap); } catch (const std::exception &) { threw = true; }
      if (threw) { if (valid) return fmt("HexStrToRawData(str,ptr,%zu) threw on %s '%s' whose first %zu pairs are hex digits", cap, what, text.substr(0, 40).c_str(), m); continue; }
      if (r > cap) return fmt("HexStrToRawData(str,ptr,cap) returned %zu for capacity %zu", r, cap);
      // a character outside [0-9A-Fa-f] at a nibble position the call has to look at: the only failure channel of this
      // function is its exception (string.h NotAZaz09Exception; unit tests HexStrToRawDataVector5/11), so it must throw
      if (!valid) {
        size_t bad = 0; while (bad < 2 * m && is_hex((uint8_t)text[bad])) ++bad;
        return fmt("HexStrToRawData(str,ptr,%zu) accepted the text %s and returned %zu although the byte 0x%02x at offset %zu is not a hex digit", cap, hexs(text, 16).c_str(), r, (unsigned)(uint8_t)text[bad], bad);
      }
      if (valid) {
        if (r != m) return fmt("HexStrToRawData(str,ptr,%zu) returned %zu for %s '%s', expected %zu", cap, r, what, text.substr(0, 40).c_str(), m);
        if (m && memcmp(out.u8(), want.data(), m)) return fmt("HexStrToRawData(str,ptr,%zu) of '%s' gave %s, expected %s", cap, text.substr(0, 40).c_str(), hexs(out.u8(), m).c_str(), hexs(want).c_str());
      }
    }
  }
  // --- vector overload
  std::vector<uint8_t> want;
  bool valid = delim.empty() ? ref_nodelim(text, want) : ref_delim(text, delim, want);
  info.cls(valid ? (from_encoder ? "dec_encoder_output" : "dec_wellformed") : "dec_malformed");
  std::vector<uint8_t> out = lcg_bytes(prefix, 5);
  size_t r = 0; bool threw = false;
  try { r = S::HexStrToRawData(text, out, delim); } catch (const std::exception &) { threw = true; }
  if (threw) {
    if (valid) return fmt("HexStrToRawData(str,vector,delim='%s') threw on well-formed %s '%s' (%zu chars, expected %zu bytes)", hexs(delim).c_str(), what, text.substr(0, 40).c_str(), text.size(), want.size());
    return "";
  }
  if (r != out.size()) return fmt("HexStrToRawData(str,vector) returned %zu but the vector holds %zu", r, out.size());
  // reference rejects (a byte outside [0-9A-Fa-f] that is not a delimiter / surrounding blank, an odd digit count, a group of
  // more than 2 digits): the decoder has to fail, and its only failure channel is an exception
  if (!valid) return fmt("HexStrToRawData(str,vector,delim=%s) accepted the malformed text %s (%zu chars) and returned %zu bytes %s", hexs(delim).c_str(), hexs(text, 16).c_str(), text.size(), r, hexs(out, 8).c_str());
  if (valid && out != want) return fmt("HexStrToRawData(str,vector,delim=%s) of %s '%s' gave %s, expected %s", hexs(delim).c_str(), what, text.substr(0, 40).c_str(), hexs(out).c_str(), hexs(want).c_str());
  return "";
}

// every byte value 0..255 as the high and as the low nibble character of a one-byte text, through both decoder overloads
// (no delimiter, 1-character and 2-character delimiter): 512 texts, run with the first case of every process
std::string exhaustive_nibble_characters() {
  CaseInfo scratch;
  for (int pos = 0; pos < 2; ++pos)
    for (int b = 0; b < 256; ++b) {
      std::string text = pos == 0 ? std::string{(char)b, '7'} : std::string{'7', (char)b};
      for (const char *delim : {"", ":", ", "}) {
        std::string e = check_decode(text, delim, 1, 0, false, scratch);
        if (!e.empty()) return fmt("byte 0x%02x as the %s nibble character: %s", b, pos == 0 ? "high" : "low", e.c_str());
      }
    }
  return "";
}

std::string run(const Scenario &s, CaseInfo &info) {
  selftest();
  static bool probed = false;
  if (!probed) { probed = true; std::string e = exhaustive_nibble_characters(); stats().counters["exhaustive_nibble_character_texts"] += 512; if (!e.empty()) return e; }
  CfgData cd = split(s, &kBig);
  if (cd.big) { info.cls("large_value_12000_to_65535_bytes"); info.cls(kBigDataPattern[cd.pattern]); }
  int mode = (int)cd.cfg.in(0, 0, 2);
  bool upper = cd.cfg.in(1, 0, 1) != 0;
  int di = (int)cd.cfg.in(2, 0, kNDelims - 1);
  size_t extra = (size_t)cd.cfg.in(3, 1, 9), prefix = (size_t)cd.cfg.in(4, 0, 4);
  if (mode == 1) {
    std::string text(cd.data.begin(), cd.data.end());
    std::string delim = kDelims[di];
    info.cls("mode_arbitrary_text"); info.cls(delim.empty() ? "no_delimiter" : "with_delimiter");
    info.nontrivial = has_high(text) || (text.size() % 2 == 1);
    return check_decode(text, delim, extra, prefix, false, info);
  }
  // encoders: delimiters that contain hex digits are outside the round-trip domain (index 9 is decode-only)
  if (di == 9) di = 0;
  std::string delim = kDelims[di];
  std::vector<uint8_t> raw = cd.data;
  if (raw.size() > 65535) raw.resize(65535);
  size_t n = raw.size();
  ABlk in(raw, extra + prefix);
  std::string want = ref::hex_encode(raw, upper, delim);
  std::string got = S::RawDataToHexStr(in.u8(), (uint16_t)n, upper, delim);
  if (got.size() != want.size()) return fmt("RawDataToHexStr of %zu bytes with a %zu-char delimiter produced %zu chars, expected %zu", n, delim.size(), got.size(), want.size());
  if (got != want) {
    size_t at = 0; while (got[at] == want[at]) ++at;
    return fmt("RawDataToHexStr(%s [%zu bytes], upper=%d, %zu-char delimiter): the %zu-char text differs from the reference encoding at offset %zu: '%s' instead of '%s'", hexs(raw).c_str(), n, (int)upper, delim.size(),
               got.size(), at, hexs(got.substr(at, 12)).c_str(), hexs(want.substr(at, 12)).c_str());
  }
  info.cls(delim.size() == 0 ? "delimiter_len0" : delim.size() == 1 ? "delimiter_len1" : delim.size() == 2 ? "delimiter_len2" : "delimiter_len3");
  info.cls_if(got.size() > 65535, "large_text_over_65535_chars");
  if (di == 1 && !upper) {
    std::string g2 = S::RawDataToHexStr(in.u8(), (uint16_t)n);
    if (g2 != want) return fmt("RawDataToHexStr(ptr,len) with default arguments gave '%s', expected '%s'", g2.substr(0, 40).c_str(), want.substr(0, 40).c_str());
  }
  info.cls(delim.empty() ? "no_delimiter" : "with_delimiter");
  info.cls_if(n == 0, "empty_value");
  if (mode == 0) {
    info.cls("mode_roundtrip");
    info.nontrivial = n > 0;
    // the decoder of the round trip gets the delimiter the encoder used
    std::string e = check_decode(got, delim, extra, prefix, true, info);
    if (!e.empty()) return e;
    // explicit statement of the law (check_decode compared with the reference parse of the text)
    std::vector<uint8_t> back;
    S::HexStrToRawData(got, back, delim);
    if (back != raw) return fmt("HexStrToRawData(RawDataToHexStr(x)) != x for x=%s (%zu bytes), got %s (%zu bytes)", hexs(raw).c_str(), n, hexs(back).c_str(), back.size());
    return "";
  }
  std::string text = got;
  info.cls("mode_mutated_encoding");
  info.cls(mutate(text, cd.cfg, 5));
  info.nontrivial = text != got;
  return check_decode(text, delim, extra, prefix, false, info);
}

SubDef def = [] {
  SubDef d; d.name = "hex";
  d.op_names = {"cfg", "data", "big"};
  d.op_arity = {8, 8, 4};
  d.nt_rule = "(about 0.2 % of the rapidcheck cases use a 12000-65535 byte value around the sizes where the text passes 65535 characters, classes large_*) round trip of a non-empty value (both decoder overloads, fixed buffer at exact/one-short/zero/larger capacity), or decoder input that is a really mutated encoding, has odd length or contains a byte >= 0x80";
  d.run = run;
  d.decode = [](const uint8_t *p, size_t n) { return cfg_data_decode(p, n, 8); };
#ifndef VERIF_ENGINE_FUZZ
  d.gen = [] {
    auto any = byteGen({0, 255, 0x80, 0x0f, 0xf0}, 1, 6, 1);
    auto texty = byteGen(chars("0123456789abcdefABCDEF0123456789  \t:,-gG"), 30, 1, 1);
    auto cfg = [](int mode) { return mkop(CFG, {rc::gen::just<int64_t>(mode), range(0, 1), rc::gen::weightedOneOf<int64_t>({{3, rc::gen::just<int64_t>(0)}, {4, range(1, kNDelims - 1)}}), range(1, 9), range(0, 4),
                                                range(0, 5), range(0, 255), byteGen({'g', 'G', ' ', 0, 0x80, 0xff, ':', '/', '@', '`'}, 2, 5, 1)}); };   // mutation value: uniform 0..255 in 5 of 8
    auto textyAll = byteGen(chars("0123456789abcdefABCDEF"), 20, 6, 1);     // hex digits with characters drawn from all 256 values
    return rc::gen::weightedOneOf<Scenario>({
      {600, scenarioOf(fixedOps({cfg(0)}), fixedOps({opOfBytes(DATA, any)}))},
      {450, scenarioOf(fixedOps({cfg(2)}), fixedOps({opOfBytes(DATA, any)}))},
      {250, scenarioOf(fixedOps({cfg(1)}), fixedOps({opOfBytes(DATA, texty)}))},
      {200, scenarioOf(fixedOps({cfg(1)}), fixedOps({opOfBytes(DATA, textyAll)}))},
      {2, scenarioOf(fixedOps({cfg(0)}), fixedOps({bigDataOp(kBig)}))},        // large value: round trip
      {1, scenarioOf(fixedOps({cfg(2)}), fixedOps({bigDataOp(kBig)}))}});      // large value: mutated encoding
  };
#endif
  return d;
}();
VERIF_REGISTER(&def);
}  // namespace hexsub

// =================================================================================================
// scalable integers
// =================================================================================================
namespace sint {
using tbox::util::DumpScalableInteger;
using tbox::util::ParseScalableInteger;
enum { VAL = 0, RAW = 1, PARSE = 2, BULK = 3 };

std::string check_value(uint64_t v, size_t extra, CaseInfo &info) {
  std::vector<uint8_t> want = ref::sint_dump(v);
  size_t need = want.size();
  size_t caps[5] = {need, need - 1, 0, need + extra, 10};
  for (size_t cap : caps) {
    Blk out(cap);
    size_t r = DumpScalableInteger(v, out.u8(), cap);
    if (cap < need) { if (r != 0) return fmt("DumpScalableInteger(%llu) returned %zu for capacity %zu, %zu bytes are needed", (unsigned long long)v, r, cap, need); continue; }
    if (r != need) return fmt("DumpScalableInteger(%llu, cap=%zu) returned %zu, the format needs %zu bytes", (unsigned long long)v, cap, r, need);
    if (memcmp(out.u8(), want.data(), need)) return fmt("DumpScalableInteger(%llu) wrote %s, the format gives %s", (unsigned long long)v, hexs(out.u8(), need).c_str(), hexs(want).c_str());
    // parse back from exactly the bytes written, and from a longer buffer with trailing continuation bytes
    for (int longer = 0; longer < 2; ++longer) {
      Blk in(need + (longer ? extra : 0), 0xFF);
      memcpy(in.u8(), out.u8(), need);
      uint64_t back = 0x5555555555555555ull;
      size_t pr = ParseScalableInteger(in.u8(), in.n, back);
      if (pr != need || back != v) return fmt("ParseScalableInteger(Dump(%llu)) returned %zu/%llu (encoding %s, %zu-byte buffer)", (unsigned long long)v, pr, (unsigned long long)back, hexs(want).c_str(), in.n);
    }
  }
  // truncated encoding
  {
    Blk in(want.data(), need - 1);
    uint64_t back = 0;
    size_t pr = ParseScalableInteger(in.u8(), in.n, back);
    if (pr != 0) return fmt("ParseScalableInteger of the encoding of %llu truncated to %zu bytes returned %zu", (unsigned long long)v, need - 1, pr);
  }
  static const char *lens[] = {"", "len1", "len2", "len3", "len4", "len5", "len6", "len7", "len8", "len9", "len10"};
  info.cls(lens[need]);
  return "";
}

uint64_t edge_value(int64_t kind, int64_t delta, bool &is_edge) {
  is_edge = true;
  uint64_t base;
  if (kind <= 9) base = (uint64_t)ref::sint_min((size_t)kind + 1);        // min of lengths 1..10
  else if (kind == 10) base = UINT64_MAX;
  else if (kind == 11) base = (uint64_t)1 << 63;
  else { is_edge = false; base = (uint64_t)1 << (unsigned)((kind * 7 + delta) & 63); }
  return base + (uint64_t)delta;
}

std::string run(const Scenario &s, CaseInfo &info) {
  selftest();
  size_t nops = 0;
  bool bulk_done = false;
  for (auto &op : s.ops) {
    if (++nops > 60) break;
    std::string e;
    switch (op.code) {
      case VAL: {
        bool edge; uint64_t v = edge_value(op.in(0, 0, 12), op.in(1, -3, 3) , edge);
        e = check_value(v, (size_t)op.in(2, 1, 6), info);
        if (edge) { info.cls("value_adjacent_to_length_boundary"); info.nontrivial = true; }
        break; }
      case RAW: {
        unsigned width = (unsigned)op.in(1, 1, 64);
        uint64_t v = (uint64_t)op.arg(0) >> (64 - width);
        e = check_value(v, (size_t)op.in(2, 1, 6), info);
        info.cls("value_random_width");
        break; }
      case PARSE: {
        std::vector<uint8_t> b = bytes_of(op);
        if (b.size() > 24) b.resize(24);
        ABlk in(b, b.size() * 3 + nops);
        uint64_t out = 0x5555555555555555ull;
        size_t r = ParseScalableInteger(in.u8(), in.n, out);
        size_t lim = std::min<size_t>(b.size(), 10), t = lim;
        for (size_t i = 0; i < lim; ++i) if (!(b[i] & 0x80)) { t = i; break; }
        if (t == lim) {   // no terminator within the buffer / within the 10 bytes a 64-bit value can occupy
          info.cls(b.size() >= 10 ? "parse_10_or_more_continuation_bytes" : "parse_truncated");
          info.nontrivial = true;
          if (r != 0) e = fmt("ParseScalableInteger of %s (%zu bytes, no terminator within the first %zu) returned %zu", hexs(b).c_str(), b.size(), lim, r);
        } else {
          __uint128_t pay = 0;
          for (size_t i = 0; i <= t; ++i) pay = pay << 7 | (b[i] & 0x7f);
          __uint128_t val = ref::sint_min(t + 1) + pay;
          if (val > (__uint128_t)UINT64_MAX) {
            // 10-byte group pattern that denotes no 64-bit value: only bounds are asserted; acceptance is counted
            info.cls("parse_10byte_out_of_range");
            if (r != 0) stats().counters["obs_parse_accepts_out_of_range_10byte_encoding"]++;
            if (r != 0 && r != 10) e = fmt("ParseScalableInteger of %s returned %zu", hexs(b).c_str(), r);
          } else {
            info.cls("parse_wellformed");
            if (r != t + 1 || out != (uint64_t)val) e = fmt("ParseScalableInteger of %s returned %zu/%llu, the format gives %zu/%llu", hexs(b).c_str(), r, (unsigned long long)out, t + 1, (unsigned long long)(uint64_t)val);
          }
        }
        break; }
      case BULK: {
        // an array of 1000..30000 integers dumped back to back into ONE exact-size block (up to ~200 KiB: offsets and
        // remaining sizes beyond 16 bits), then parsed back in sequence
        if (bulk_done) break;
        bulk_done = true;
        size_t count = (size_t)op.in(0, 1000, 30000);
        uint32_t g = (uint32_t)op.in(1, 0, 1 << 20) * 2654435761u + 99u;
        auto next = [&]() -> uint64_t { g = g * 1664525u + 1013904223u; return g >> 8; };
        std::vector<uint64_t> vals(count); std::vector<uint8_t> all; std::vector<size_t> lens(count);
        for (size_t i = 0; i < count; ++i) {
          unsigned width = 1 + (unsigned)(next() % 64);
          vals[i] = ((next() << 40) ^ (next() << 16) ^ next()) >> (64 - width);
          auto enc = ref::sint_dump(vals[i]); lens[i] = enc.size(); all.insert(all.end(), enc.begin(), enc.end());
        }
        Blk buf(all.size());
        size_t off = 0;
        for (size_t i = 0; i < count && e.empty(); ++i) {
          size_t r = DumpScalableInteger(vals[i], buf.u8() + off, buf.n - off);
          if (r != lens[i]) e = fmt("DumpScalableInteger(%llu) at offset %zu of a %zu-byte block returned %zu, the format needs %zu", (unsigned long long)vals[i], off, buf.n, r, lens[i]);
          off += lens[i];
        }
        if (e.empty() && memcmp(buf.u8(), all.data(), all.size())) e = fmt("array of %zu dumped integers (%zu bytes) differs from the reference encoding", count, all.size());
        off = 0;
        for (size_t i = 0; i < count && e.empty(); ++i) {
          uint64_t out = 0;
          size_t r = ParseScalableInteger(buf.u8() + off, buf.n - off, out);
          if (r != lens[i] || out != vals[i]) e = fmt("ParseScalableInteger at offset %zu of a %zu-byte block returned %zu/%llu, expected %zu/%llu", off, buf.n, r, (unsigned long long)out, lens[i], (unsigned long long)vals[i]);
          off += lens[i];
        }
        info.cls("large_array_of_integers"); info.cls_if(all.size() > 65535, "large_array_over_65535_bytes");
        info.nontrivial = true;
        break; }
      default: break;
    }
    if (!e.empty()) return e;
  }
  return "";
}

Scenario decode(const uint8_t *p, size_t n) {
  Scenario s; size_t i = 0;
  auto u8 = [&]() -> int64_t { return i < n ? p[i++] : 0; };
  while (i < n && s.ops.size() < 64) {
    Op op; int64_t c = u8();
    // the 4-byte input  0xFB a b (a^b^0x5A)  is the `bulk` case of the seed corpus (check byte: mutants do not stay bulk cases)
    if (c == 0xFB && n == 4 && i == 1 && (p[1] ^ p[2] ^ 0x5A) == p[3]) { op.code = BULK; op.a = {1000 + ((p[1] << 8 | p[2]) % 29001), p[3]}; s.ops.push_back(op); break; }
    op.code = (int)(c % 3);
    if (op.code == VAL) { op.a = {u8() % 13, (int64_t)(u8() % 7) - 3, u8()}; }
    else if (op.code == RAW) { uint64_t v = 0; for (int k = 0; k < 8; ++k) v = v << 8 | (uint64_t)u8(); op.a = {(int64_t)v, u8(), u8()}; }
    else { size_t len = (size_t)u8() % 17; for (size_t k = 0; k < len && i < n; ++k) op.a.push_back(u8()); }
    s.ops.push_back(op);
  }
  return s;
}

SubDef def = [] {
  SubDef d; d.name = "scalable_int";
  d.op_names = {"val", "raw", "parse", "bulk"};
  d.op_arity = {3, 3, 12, 2};
  d.nt_rule = "(about 0.2 % of the rapidcheck cases dump and parse an array of 1000-30000 integers in one block of up to ~200 KiB) case contains a value within +-3 of an encoding-length boundary (all 10 lengths, 2^63, 2^64-1) checked at capacities exact/one short/zero/larger, or a parse of bytes with no terminator (truncated, or >= 10 continuation bytes)";
  d.run = run;
  d.decode = decode;
#ifndef VERIF_ENGINE_FUZZ
  d.gen = [] {
    auto cont = byteGen({0x80, 0xff, 0x81, 0xfe}, 6, 1, 3);
    auto term = range(0, 127);
    // continuation run of a chosen length (0..12) + optional terminator + optional junk
    auto parseOp = rc::gen::mapcat(rc::gen::weightedOneOf<int64_t>({{10, range(0, 9)}, {4, range(10, 12)}}), [=](int64_t run) {
      return rc::gen::apply([](std::vector<int64_t> c, std::vector<int64_t> tail) { Op o; o.code = PARSE; o.a = std::move(c); for (auto x : tail) o.a.push_back(x); return o; },
                            fixedBytes((size_t)run, cont), rc::gen::container<std::vector<int64_t>>(byteGen({0, 0x7f}, 2, 2, 1)));
    });
    auto opg = rc::gen::weightedOneOf<Op>({
      {6000, mkop(VAL, {range(0, 12), range(-3, 3), range(1, 6)})},
      {3600, mkop(RAW, {rc::gen::arbitrary<int64_t>(), range(1, 64), range(1, 6)})},
      {4800, parseOp},
      {1200, opOfBytes(PARSE, range(0, 255))},
      {1, mkop(BULK, {range(1000, 30000), range(0, 1 << 20)})}});
    (void)term;
    return scenarioOf(rc::gen::just(std::vector<Op>()), opsOf(opg));
  };
#endif
  return d;
}();
VERIF_REGISTER(&def);
}  // namespace sint

// =================================================================================================
// Serializer / Deserializer
// =================================================================================================
namespace ser {
using tbox::util::Serializer;
using tbox::util::Deserializer;
using tbox::util::Endian;
enum { U8 = 1, U16, U32, U64, I8, I16, I32, I64, F32, F64, BYTES, POD, ENDIAN, SKIP, CHECK, NOCOPY, SETPOS, NEWMSG, NCODES };

bool is_field(int c) { return c >= U8 && c <= POD; }
size_t int_size(int c) { switch (c) { case U8: case I8: return 1; case U16: case I16: return 2; case U32: case I32: case F32: return 4; default: return 8; } }

// reference wire format of an integer of `sz` bytes
void put_int(std::vector<uint8_t> &o, uint64_t v, size_t sz, bool big) {
  for (size_t i = 0; i < sz; ++i) o.push_back((uint8_t)(v >> (8 * (big ? sz - 1 - i : i))));
}
uint64_t get_int(const uint8_t *p, size_t sz, bool big) {
  uint64_t v = 0;
  for (size_t i = 0; i < sz; ++i) v |= (uint64_t)p[i] << (8 * (big ? sz - 1 - i : i));
  return v;
}

struct Field { int code; uint64_t v; std::vector<uint8_t> blob; bool stream; bool written = false; };
const char *kNames[] = {"cfg", "u8", "u16", "u32", "u64", "i8", "i16", "i32", "i64", "f32", "f64", "bytes", "pod", "endian", "skip", "check", "nocopy", "setpos", "newmsg"};
const char *def_name(int c) { return c >= 0 && c < NCODES ? kNames[c] : "?"; }

// size argument for the size-only Deserializer calls: small / exactly what is left / one more / near SIZE_MAX
size_t pick_n(const Op &op, size_t remaining, bool &huge) {
  huge = false;
  switch (op.in(0, 0, 5)) {
    case 0: return (size_t)op.in(1, 0, 40);
    case 1: return remaining;
    case 2: return remaining + 1;
    case 3: huge = true; return SIZE_MAX - (size_t)op.in(1, 0, 40);
    case 4: huge = true; return SIZE_MAX / 2 + 1 + (size_t)op.in(1, 0, 40);
    default: return remaining ? remaining - 1 : 0;
  }
}

// One message = the ops [first, end).  `vecbuf` is the output vector of the vector back end; it lives across the messages
// of a case (a send buffer re-used for the next message) and, for the first message, starts with generated content.
// What the unmodified Serializer promises for a non-empty vector (serializer.cpp: extendSize resizes the vector to
// pos_+need on EVERY append, pos_ starts at 0): from the first append call on, the vector holds exactly the bytes
// serialised so far - size() == pos(), earlier content gone.  Before the first append call the vector is not touched.
std::string run_message(const Scenario &s, const Op &cfg, size_t first, size_t end, size_t msg_index, std::vector<uint8_t> &vecbuf, CaseInfo &info) {
  bool big0 = cfg.in(0, 0, 1) == 0;
  bool vec_backend = cfg.in(1, 0, 1) == 1;
  int capmode = (int)cfg.in(2, 0, 4);
  size_t extra = (size_t)cfg.in(3, 1, 9);
  int truncmode = (int)cfg.in(4, 0, 3);

  // ---- build the field list and the size of the complete stream
  std::vector<Field> fields;      // parallel to ops (non-field ops get a placeholder)
  size_t total = 0, nops = 0;
  for (size_t k = first; k < end && nops < 300; ++k, ++nops) {
    const Op &op = s.ops[k];
    Field f; f.code = op.code; f.v = 0; f.stream = false;
    if (op.code >= U8 && op.code <= F64) {
      size_t sz = int_size(op.code);
      f.v = (uint64_t)op.arg(0); if (sz < 8) f.v &= (((uint64_t)1 << (8 * sz)) - 1);
      f.stream = op.in(1, 0, 1) == 1;
      total += sz;
    } else if (op.code == BYTES || op.code == POD) {
      size_t n = (size_t)op.in(0, op.code == POD ? 1 : 0, op.code == POD ? 16 : 300);   // a POD object has at least one byte
      f.blob = lcg_bytes(n, (uint32_t)op.in(1, 0, 1 << 20));
      total += n;
    } else if (op.code == ENDIAN) { f.v = (uint64_t)op.in(0, 0, 1); f.stream = op.in(1, 0, 1) == 1; }
    fields.push_back(f);
  }
  size_t cap;
  switch (capmode) { case 0: cap = total; break; case 1: cap = total ? total - 1 : 0; break; case 2: cap = 0; break; case 3: cap = total + extra; break; default: cap = total / 2; }
  if (!vec_backend) info.cls(capmode == 0 ? "raw_exact_capacity" : capmode == 1 ? "raw_one_short" : capmode == 2 ? "raw_zero_capacity" : capmode == 3 ? "raw_larger" : "raw_half");
  else info.cls("vector_backend");

  // ---- serialise, comparing with the reference wire format after every call
  Blk rawbuf(vec_backend ? 0 : cap);
  // raw back end: a dirty buffer; nothing beyond pos() may change (shadow copy), nothing beyond cap can (exact block)
  std::vector<uint8_t> rawshadow;
  if (!vec_backend) { rawshadow = lcg_bytes(cap, (uint32_t)cfg.in(8, 0, 1 << 20) + 17u * (uint32_t)msg_index); if (cap) memcpy(rawbuf.u8(), rawshadow.data(), cap); }
  // vector back end: initial content of the first message's vector is generated; later messages re-use the vector as it is
  if (vec_backend) {
    if (msg_index == 0) {
      size_t n0;
      switch (cfg.in(6, 0, 5)) {
        case 0: n0 = 0; break;
        case 1: n0 = total / 2; break;                                  // shorter than the message
        case 2: n0 = total; break;                                      // equal
        case 3: n0 = total + extra; break;                              // a little longer
        case 4: n0 = total + 64 + (size_t)cfg.in(8, 0, 200); break;     // much longer
        default: n0 = total ? total - 1 : 0; break;
      }
      vecbuf = lcg_bytes(n0, (uint32_t)cfg.in(8, 0, 1 << 20) + 3);
      switch (cfg.in(7, 0, 2)) { case 1: vecbuf.reserve(n0 + extra); break; case 2: vecbuf.reserve(n0 + total + 1000); break; default: vecbuf.shrink_to_fit(); break; }
    } else info.cls("vector_reused_for_next_message");
    info.cls(vecbuf.empty() ? "vector_initially_empty" : vecbuf.size() < total ? "vector_initially_shorter_than_message" : vecbuf.size() == total ? "vector_initially_equal_to_message" : "vector_initially_longer_than_message");
    info.cls_if(vecbuf.capacity() > vecbuf.size(), "vector_capacity_larger_than_size");
  } else info.cls("raw_dirty_buffer");
  const size_t vec_initial = vecbuf.size();
  bool append_called = false;
  std::unique_ptr<Serializer> sp(vec_backend ? new Serializer(vecbuf, big0 ? Endian::kBig : Endian::kLittle)
                                             : new Serializer(rawbuf.u8(), cap, big0 ? Endian::kBig : Endian::kLittle));
  Serializer &w = *sp;
  std::vector<uint8_t> exp;
  bool big = big0, refused = false;
  for (size_t k = 0; k < fields.size(); ++k) {
    Field &f = fields[k];
    if (f.code == ENDIAN) {
      Endian e = f.v ? Endian::kLittle : Endian::kBig;
      if (f.stream) w << e; else w.setEndian(e);
      big = !f.v; continue;
    }
    if (!is_field(f.code)) continue;
    std::vector<uint8_t> fb;
    if (f.code <= F64) put_int(fb, f.v, int_size(f.code), big);
    else if (f.code == BYTES) fb = f.blob;
    else { fb = f.blob; if (big) std::reverse(fb.begin(), fb.end()); }   // POD: host order is little-endian here; big = byte-reversed
    bool fits = vec_backend || exp.size() + fb.size() <= cap;
    bool ret = true, have_ret = true;
    switch (f.code) {
      case U8: if (f.stream) { w << (uint8_t)f.v; have_ret = false; } else ret = w.append((uint8_t)f.v); break;
      case U16: if (f.stream) { w << (uint16_t)f.v; have_ret = false; } else ret = w.append((uint16_t)f.v); break;
      case U32: if (f.stream) { w << (uint32_t)f.v; have_ret = false; } else ret = w.append((uint32_t)f.v); break;
      case U64: if (f.stream) { w << (uint64_t)f.v; have_ret = false; } else ret = w.append((uint64_t)f.v); break;
      case I8: w << (int8_t)f.v; have_ret = false; break;
      case I16: w << (int16_t)f.v; have_ret = false; break;
      case I32: w << (int32_t)f.v; have_ret = false; break;
      case I64: w << (int64_t)f.v; have_ret = false; break;
      case F32: { float x; uint32_t b = (uint32_t)f.v; memcpy(&x, &b, 4); if (f.stream) { w << x; have_ret = false; } else ret = w.appendPOD(&x, 4); break; }
      case F64: { double x; uint64_t b = f.v; memcpy(&x, &b, 8); if (f.stream) { w << x; have_ret = false; } else ret = w.appendPOD(&x, 8); break; }
      case BYTES: { Blk src(f.blob); ret = w.append(src.u8(), src.n); break; }
      case POD: { Blk src(f.blob); ret = w.appendPOD(src.u8(), src.n); break; }
    }
    append_called = true;
    if (have_ret && ret != fits) return fmt("Serializer::append of field #%zu (%s, %zu bytes) at pos %zu with capacity %zu returned %s", k, def_name(f.code), fb.size(), exp.size(), cap, ret ? "true" : "false");
    if (fits) { exp.insert(exp.end(), fb.begin(), fb.end()); f.written = true; } else refused = true;
    if (w.pos() != exp.size()) return fmt("Serializer::pos()=%zu after field #%zu (%s), the fields accepted so far occupy %zu bytes (capacity %zu)", w.pos(), k, def_name(f.code), exp.size(), cap);
    const uint8_t *got = vec_backend ? vecbuf.data() : rawbuf.u8();
    if (vec_backend && vecbuf.size() != exp.size())
      return fmt("vector back end holds %zu bytes after field #%zu (%s) of message %zu, but pos()=%zu and the reference encoding of the fields appended so far has %zu bytes (the vector held %zu bytes before the message)",
                 vecbuf.size(), k, def_name(f.code), msg_index, w.pos(), exp.size(), vec_initial);
    if (!vec_backend && exp.size() < cap && memcmp(rawbuf.u8() + exp.size(), rawshadow.data() + exp.size(), cap - exp.size()))
      return fmt("raw back end: bytes beyond pos()=%zu (capacity %zu) changed during field #%zu (%s)", exp.size(), cap, k, def_name(f.code));
    if (!exp.empty() && memcmp(got, exp.data(), exp.size()))
      return fmt("serialised bytes differ from the %s-endian wire format after field #%zu (%s value 0x%llx): got ..%s, expected ..%s", big ? "big" : "little", k, def_name(f.code), (unsigned long long)f.v,
                 hexs(got + (exp.size() - fb.size()), fb.size()).c_str(), hexs(fb).c_str());
  }
  info.cls_if(refused, "serializer_refused_a_field");

  // ---- deserialise what was written, possibly truncated; expectations come from a reference reader of the same bytes
  size_t trunc = 0;
  switch (truncmode) { case 0: trunc = 0; break; case 1: trunc = exp.empty() ? 0 : 1; break; case 2: trunc = exp.empty() ? 0 : (size_t)cfg.in(5, 0, (int64_t)exp.size()); break; default: trunc = 0; }
  // the deserializer reads the ACTUAL output: the whole vector (once an append call was made) / the raw buffer up to pos()
  std::vector<uint8_t> produced;
  if (vec_backend) { if (append_called) produced = vecbuf; }
  else produced.assign(rawbuf.u8(), rawbuf.u8() + w.pos());
  if (produced != exp) return fmt("message %zu: the output holds %zu bytes %s, the reference encoding of the accepted fields is %zu bytes %s", msg_index, produced.size(), hexs(produced).c_str(), exp.size(), hexs(exp).c_str());
  size_t size = produced.size() - trunc;
  info.cls(trunc ? "deserializer_input_truncated" : "deserializer_input_complete");
  Blk in(produced.data(), size);
  Deserializer r(in.u8(), size, big0 ? Endian::kBig : Endian::kLittle);
  if (r.size() != size || r.start() != in.u8()) return "Deserializer::size()/start() do not return the constructor arguments";
  size_t pos = 0; big = big0;
  bool failed_fetch = false, huge_seen = false, moved = false;
  for (size_t k = 0; k < fields.size(); ++k) {
    Field &f = fields[k];
    const Op &op = s.ops[first + k];
    if (f.code == ENDIAN) {
      Endian e = f.v ? Endian::kLittle : Endian::kBig;
      if (f.stream) r >> e; else r.setEndian(e);
      big = !f.v; continue;
    }
    if (f.code >= SKIP && f.code <= SETPOS) {
      bool huge; size_t n = pick_n(op, size - pos, huge);
      huge_seen |= huge;
      bool fits = n <= size - pos;
      if (f.code == SKIP) {
        bool ok = r.skip(n);
        if (ok != fits) return fmt("Deserializer::skip(%zu) at pos %zu of %zu returned %s", n, pos, size, ok ? "true" : "false");
        if (fits) { pos += n; moved = true; }
      } else if (f.code == CHECK) {
        bool ok = r.checkSize(n);
        if (ok != fits) return fmt("Deserializer::checkSize(%zu) at pos %zu of %zu returned %s", n, pos, size, ok ? "true" : "false");
      } else if (f.code == NOCOPY) {
        const void *p = r.fetchNoCopy(n);
        if ((p != nullptr) != fits) return fmt("Deserializer::fetchNoCopy(%zu) at pos %zu of %zu returned %s", n, pos, size, p ? "a pointer" : "nullptr");
        if (fits) { if (p != in.u8() + pos) return "Deserializer::fetchNoCopy returned a pointer that is not start()+pos()"; pos += n; moved = true; }
      } else {
        bool ok = r.set_pos(n);
        if (n > size && ok) return fmt("Deserializer::set_pos(%zu) accepted a position beyond the size %zu", n, size);
        if (ok) { pos = n; moved = true; }   // n == size: either answer is left free
      }
      if (r.pos() != pos) return fmt("Deserializer::pos()=%zu after %s(%zu), expected %zu (size %zu)", r.pos(), def_name(f.code), n, pos, size);
      continue;
    }
    if (!is_field(f.code) || !f.written) continue;
    size_t sz = f.code <= F64 ? int_size(f.code) : f.blob.size();
    bool fits = sz <= size - pos;
    bool ok = true, have_ret = true;
    uint64_t got = 0; std::vector<uint8_t> gotb;
    switch (f.code) {
      case U8: { uint8_t x = 0x5a; if (f.stream) { r >> x; have_ret = false; } else ok = r.fetch(x); got = x; break; }
      case U16: { uint16_t x = 0x5a5a; if (f.stream) { r >> x; have_ret = false; } else ok = r.fetch(x); got = x; break; }
      case U32: { uint32_t x = 0x5a5a5a5a; if (f.stream) { r >> x; have_ret = false; } else ok = r.fetch(x); got = x; break; }
      case U64: { uint64_t x = 0x5a5a5a5a5a5a5a5aull; if (f.stream) { r >> x; have_ret = false; } else ok = r.fetch(x); got = x; break; }
      case I8: { int8_t x = 0x5a; r >> x; have_ret = false; got = (uint8_t)x; break; }
      case I16: { int16_t x = 0x5a5a; r >> x; have_ret = false; got = (uint16_t)x; break; }
      case I32: { int32_t x = 0x5a5a5a5a; r >> x; have_ret = false; got = (uint32_t)x; break; }
      case I64: { int64_t x = 0x5a5a5a5a5a5a5a5all; r >> x; have_ret = false; got = (uint64_t)x; break; }
      case F32: { float x = 0; if (f.stream) { r >> x; have_ret = false; } else ok = r.fetchPOD(&x, 4); uint32_t b; memcpy(&b, &x, 4); got = b; break; }
      case F64: { double x = 0; if (f.stream) { r >> x; have_ret = false; } else ok = r.fetchPOD(&x, 8); memcpy(&got, &x, 8); break; }
      case BYTES: { Blk dst(sz); ok = r.fetch(dst.u8(), sz); gotb.assign(dst.u8(), dst.u8() + sz); break; }
      case POD: { Blk dst(sz); ok = r.fetchPOD(dst.u8(), sz); gotb.assign(dst.u8(), dst.u8() + sz); break; }
    }
    if (have_ret && ok != fits) return fmt("Deserializer fetch of field #%zu (%s, %zu bytes) at pos %zu of %zu returned %s", k, def_name(f.code), sz, pos, size, ok ? "true" : "false");
    if (fits) {
      if (f.code <= F64) {
        uint64_t want = get_int(in.u8() + pos, sz, big);
        if (got != want) return fmt("Deserializer fetched 0x%llx for field #%zu (%s, %s endian) from bytes %s", (unsigned long long)got, k, def_name(f.code), big ? "big" : "little", hexs(in.u8() + pos, sz).c_str());
        // the round-trip law proper: nothing was skipped or refused before this field, so it must read back the value written
        if (!trunc && !refused && !huge_seen && !failed_fetch && !moved && want != f.v) return fmt("round trip: wrote 0x%llx, read 0x%llx (field #%zu %s)", (unsigned long long)f.v, (unsigned long long)want, k, def_name(f.code));
      } else {
        std::vector<uint8_t> want(in.u8() + pos, in.u8() + pos + sz);
        if (f.code == POD && big) std::reverse(want.begin(), want.end());
        if (gotb != want) return fmt("Deserializer fetched %s for field #%zu (%s), the stream holds %s", hexs(gotb).c_str(), k, def_name(f.code), hexs(want).c_str());
      }
      pos += sz;
    } else failed_fetch = true;
    if (r.pos() != pos) return fmt("Deserializer::pos()=%zu after field #%zu (%s), expected %zu (size %zu)", r.pos(), k, def_name(f.code), pos, size);
    if (r.ptr() != in.u8() + pos) return "Deserializer::ptr() != start()+pos()";
  }
  // complete stream, every field fetched in order, no skip: nothing may be left over
  if (!trunc && !moved && !failed_fetch && pos != size) return fmt("message %zu: %zu bytes are left in the output after all %zu-byte worth of fields were read back", msg_index, size - pos, pos);
  info.cls_if(failed_fetch, "deserializer_refused_a_field");
  info.cls_if(huge_seen, "size_argument_near_SIZE_MAX");
  bool stale = vec_backend && append_called && vec_initial > exp.size();
  info.cls_if(stale, "vector_held_more_bytes_than_the_message_produces");
  info.cls_if(stale && msg_index > 0, "vector_reused_long_then_short");
  info.nontrivial |= (!vec_backend && capmode <= 1 && total > 0) || (trunc > 0 && failed_fetch) || huge_seen || stale;
  return "";
}

std::string run(const Scenario &s, CaseInfo &info) {
  selftest();
  Op cfg; size_t first = 0;
  if (!s.ops.empty() && s.ops[0].code == CFG) { cfg = s.ops[0]; first = 1; }
  // `newmsg` ops split the case into up to 3 messages
  std::vector<std::pair<size_t, size_t>> msgs;
  size_t b = first;
  for (size_t k = first; k < s.ops.size(); ++k)
    if (s.ops[k].code == NEWMSG && msgs.size() < 2) { msgs.push_back({b, k}); b = k + 1; }
  msgs.push_back({b, s.ops.size()});
  info.cls(msgs.size() == 1 ? "messages_1" : msgs.size() == 2 ? "messages_2" : "messages_3");
  std::vector<uint8_t> vecbuf;
  for (size_t m = 0; m < msgs.size(); ++m) {
    std::string e = run_message(s, cfg, msgs[m].first, msgs[m].second, m, vecbuf, info);
    if (!e.empty()) return e;
  }
  return "";
}


SubDef def = [] {
  SubDef d; d.name = "serializer";
  d.op_names = {"cfg", "u8", "u16", "u32", "u64", "i8", "i16", "i32", "i64", "f32", "f64", "bytes", "pod", "endian", "skip", "check", "nocopy", "setpos", "newmsg"};
  d.op_arity = {9, 2, 2, 2, 2, 2, 2, 2, 2, 2, 2, 2, 2, 2, 2, 2, 2, 2, 0};
  d.nt_rule = "vector back end whose vector (generated initial content, or the previous message of the case) holds more bytes than the message produces, or raw back end at exactly sufficient or one-short capacity with at least one field, or a truncated stream on which a fetch is refused, or a size argument within 40 of SIZE_MAX (or SIZE_MAX/2) given to skip/checkSize/fetchNoCopy/set_pos";
  d.run = run;
#ifndef VERIF_ENGINE_FUZZ
  d.gen = [] {
    auto api = range(0, 1);
    auto sizeop = [](int code) { return mkop(code, {rc::gen::weightedOneOf<int64_t>({{3, rc::gen::just<int64_t>(0)}, {2, range(1, 2)}, {3, range(3, 4)}, {1, rc::gen::just<int64_t>(5)}}), range(0, 40)}); };
    auto opg = rc::gen::weightedOneOf<Op>({
      {3, mkop(U8, {anyI64(), api})}, {3, mkop(U16, {anyI64(), api})}, {3, mkop(U32, {anyI64(), api})}, {3, mkop(U64, {anyI64(), api})},
      {1, mkop(I8, {anyI64(), api})}, {1, mkop(I16, {anyI64(), api})}, {1, mkop(I32, {anyI64(), api})}, {1, mkop(I64, {anyI64(), api})},
      {2, mkop(F32, {anyI64(), api})}, {2, mkop(F64, {anyI64(), api})},
      {3, mkop(BYTES, {rc::gen::weightedOneOf<int64_t>({{4, range(0, 20)}, {1, range(0, 300)}}), range(0, 1 << 20)})},
      {2, mkop(POD, {range(1, 16), range(0, 1 << 20)})},
      {2, mkop(ENDIAN, {range(0, 1), api})},
      {1, sizeop(SKIP)}, {1, sizeop(CHECK)}, {1, sizeop(NOCOPY)}, {1, sizeop(SETPOS)},
      {1, mkop(NEWMSG, {})}});
    auto cfg = mkop(CFG, {range(0, 1), rc::gen::weightedOneOf<int64_t>({{3, rc::gen::just<int64_t>(0)}, {2, rc::gen::just<int64_t>(1)}}),
                          rc::gen::weightedOneOf<int64_t>({{3, rc::gen::just<int64_t>(0)}, {3, rc::gen::just<int64_t>(1)}, {1, range(2, 4)}}), range(1, 9), range(0, 2), range(0, 400),
                          range(0, 5), range(0, 2), range(0, 1 << 20)});
    return scenarioOf(fixedOps({cfg}), opsOf(opg));
  };
#endif
  return d;
}();
VERIF_REGISTER(&def);
}  // namespace ser

// =================================================================================================
// URL percent-coding
// =================================================================================================
namespace url {
namespace H = tbox::http;

// reference: every '%' must be followed by two hex digits
bool ref_decode(const std::string &t, std::string &out) {
  out.clear();
  for (size_t i = 0; i < t.size(); ++i) {
    if (t[i] != '%') { out += t[i]; continue; }
    if (t.size() - i < 3) return false;
    if (!is_hex((uint8_t)t[i + 1]) || !is_hex((uint8_t)t[i + 2])) return false;
    out += (char)(hex_val((uint8_t)t[i + 1]) << 4 | hex_val((uint8_t)t[i + 2]));
    i += 2;
  }
  return true;
}

std::string check_decode(const std::string &text, bool from_encoder, CaseInfo &info) {
  std::string want;
  bool valid = ref_decode(text, want);
  info.cls(valid ? (from_encoder ? "dec_encoder_output" : "dec_wellformed") : "dec_malformed");
  if (has_high(text)) info.cls("dec_input_has_byte_ge_0x80");
  std::string got; bool threw = false;
  {
    // exact-size copy of the input characters (std::string storage has slack that would hide an over-read)
    Blk in(text.data(), text.size());
    std::string arg(in.ch(), in.n);
    arg.shrink_to_fit();
    try { got = H::UrlDecode(arg); } catch (const std::exception &) { threw = true; }
  }
  if (threw) { if (valid) return fmt("UrlDecode threw on well-formed %s '%s'", from_encoder ? "encoder output" : "text", text.substr(0, 40).c_str()); return ""; }
  if (got.size() > text.size()) return fmt("UrlDecode produced %zu bytes from %zu", got.size(), text.size());
  if (valid && got != want) return fmt("UrlDecode('%s') gave %s, expected %s", text.substr(0, 40).c_str(), hexs(got).c_str(), hexs(want).c_str());
  return "";
}

// large strings: all-escaped text passes 65535 characters at 21846 bytes, 2^17 at 43691, 2^18 at 87382
const size_t kBigBases[] = {21845, 21846, 32768, 43691, 65535, 65536, 87382, 131072};
const BigSpec kBig = {kBigBases, 8, 20000, 204800};

std::string run(const Scenario &s, CaseInfo &info) {
  selftest();
  CfgData cd = split(s, &kBig);
  if (cd.big) { info.cls("large_value_20KiB_to_200KiB"); info.cls(kBigDataPattern[cd.pattern]); }
  int mode = (int)cd.cfg.in(0, 0, 3);
  bool path_mode = cd.cfg.in(1, 0, 1) == 1;
  std::string data(cd.data.begin(), cd.data.end());
  if (mode == 1) {
    info.cls("mode_arbitrary_text");
    info.nontrivial = data.find('%') != std::string::npos || has_high(data);
    return check_decode(data, false, info);
  }
  if (mode == 3) {
    // the URL parser drives UrlDecode over sub-strings: totality only (result or C++ exception, no fault)
    info.cls("mode_string_to_url");
    info.nontrivial = data.find('%') != std::string::npos;
    try {
      H::Url u;
      bool ok = H::StringToUrl(data, u);
      if (ok) { std::string back = H::UrlToString(u); (void)back; info.cls("string_to_url_accepted"); }
      H::Url::Host h; H::StringToUrlHost(data, h);
      H::Url::Path p; H::StringToUrlPath(data, p);
    } catch (const std::exception &) { info.cls("string_to_url_threw"); }
    return "";
  }
  std::string enc = path_mode ? H::UrlEncode(data, true) : (cd.cfg.in(2, 0, 1) ? H::UrlEncode(data) : H::UrlEncode(data, false));
  info.cls(path_mode ? "path_mode" : "full_mode");
  // well-formed percent-encoding: visible ASCII only, '%' only as the introducer of two hex digits
  size_t escapes = 0;
  for (size_t i = 0; i < enc.size(); ++i) {
    unsigned char c = (unsigned char)enc[i];
    if (c <= 0x20 || c >= 0x7f) return fmt("UrlEncode output contains the raw byte 0x%02x at offset %zu (input %s)", c, i, hexs(data).c_str());
    if (c == '%') {
      if (enc.size() - i < 3) return "UrlEncode output ends inside a %XX escape";
      if (!is_hex((uint8_t)enc[i + 1]) || !is_hex((uint8_t)enc[i + 2])) return fmt("UrlEncode output has '%%' not followed by two hex digits at offset %zu", i);
      ++escapes; i += 2;
    }
  }
  if (enc.size() != data.size() + 2 * escapes) return fmt("UrlEncode output has %zu chars for %zu input bytes and %zu escapes", enc.size(), data.size(), escapes);
  info.cls_if(escapes > 0, "has_escapes");
  if (mode == 0) {
    info.cls("mode_roundtrip");
    info.nontrivial = escapes > 0;
    std::string e = check_decode(enc, true, info);
    if (!e.empty()) return e;
    std::string back = H::UrlDecode(enc);
    if (back != data) return fmt("UrlDecode(UrlEncode(x,%s)) != x for x=%s: got %s", path_mode ? "path" : "full", hexs(data).c_str(), hexs(back).c_str());
    return "";
  }
  std::string text = enc;
  info.cls("mode_mutated_encoding");
  info.cls(mutate(text, cd.cfg, 3));
  info.nontrivial = text != enc;
  return check_decode(text, false, info);
}

SubDef def = [] {
  SubDef d; d.name = "url";
  d.op_names = {"cfg", "data", "big"};
  d.op_arity = {6, 8, 4};
  d.nt_rule = "(about 0.2 % of the rapidcheck cases use a 20-200 KiB string, classes large_*) round trip of a string that needs at least one escape, or decoder input that is a really mutated encoding or arbitrary text containing '%' or a byte >= 0x80";
  d.run = run;
  d.decode = [](const uint8_t *p, size_t n) { return cfg_data_decode(p, n, 6); };
#ifndef VERIF_ENGINE_FUZZ
  d.gen = [] {
    auto any = byteGen(chars(" +&=<>\"#,%{}|\\^[]`;?:@$/.azAZ09-_~"), 4, 3, 1);
    auto texty = byteGen(chars("%%%%%%0123456789abcdefABCDEFgz/:@?;=&#.+ "), 30, 1, 1);
    auto cfg = [](int mode) { return mkop(CFG, {rc::gen::just<int64_t>(mode), range(0, 1), range(0, 1), range(0, 5), range(0, 255), byteGen({'%', 'g', 0, 0x80, 0xff, '2'}, 3, 2, 2)}); };
    return rc::gen::weightedOneOf<Scenario>({
      {600, scenarioOf(fixedOps({cfg(0)}), fixedOps({opOfBytes(DATA, any)}))},
      {450, scenarioOf(fixedOps({cfg(2)}), fixedOps({opOfBytes(DATA, any)}))},
      {450, scenarioOf(fixedOps({cfg(1)}), fixedOps({opOfBytes(DATA, texty)}))},
      {150, scenarioOf(fixedOps({cfg(3)}), fixedOps({opOfBytes(DATA, texty)}))},
      {2, scenarioOf(fixedOps({cfg(0)}), fixedOps({bigDataOp(kBig)}))},        // large string: round trip
      {1, scenarioOf(fixedOps({cfg(2)}), fixedOps({bigDataOp(kBig)}))}});      // large string: mutated encoding
  };
#endif
  return d;
}();
VERIF_REGISTER(&def);
}  // namespace url

// =================================================================================================
// CRC-16, CRC-32, 8/16-bit checksums
// =================================================================================================
namespace crc {
using namespace tbox::util;
enum { BIG = 2 };

// Large inputs (128 KiB .. 2 MiB): the sum of the big-endian 16-bit words (and of the octets) leaves 32 bits only here,
// e.g. all-0xff from 131076 bytes, high-valued bytes from ~170 KiB, uniform bytes from ~256 KiB, ASCII from ~512 KiB.
// big <sizemode> <delta> <pattern> <seed>
const size_t kBigBase[] = {131072, 131076, 131080, (size_t)1 << 18, (size_t)1 << 19, (size_t)1 << 20, (size_t)1 << 21};
const char *kBigPattern[] = {"large_all_0xff", "large_0xff_heavy", "large_high_bytes_0x80_0xff", "large_uniform_bytes", "large_ascii_text", "large_0xfffe_words"};
std::vector<uint8_t> big_data(const Op &op, int &pattern) {
  int mode = (int)op.in(0, 0, 9);
  int64_t delta = op.in(1, -4, 8);
  pattern = (int)op.in(2, 0, 5);
  uint32_t seed = (uint32_t)op.in(3, 0, 1 << 20);
  size_t n;
  if (mode <= 6) n = (size_t)((int64_t)kBigBase[mode] + delta);
  else n = 131072 + (size_t)(((uint64_t)seed * 2654435761u + (uint64_t)mode * 40503u) % ((2u << 20) - 131072 + 1));   // anywhere in 128 KiB .. 2 MiB
  if (n > (2u << 20) + 8) n = (2u << 20) + 8;
  std::vector<uint8_t> v(n);
  uint32_t g = seed * 2654435761u + 12345u;
  auto next = [&]() -> uint32_t { g = g * 1664525u + 1013904223u; return g >> 8; };
  switch (pattern) {
    case 0: std::fill(v.begin(), v.end(), 0xff); break;
    case 1: std::fill(v.begin(), v.end(), 0xff); for (size_t k = 0; k < n / 64 + 1; ++k) v[next() % n] = (uint8_t)next(); break;
    case 2: for (auto &b : v) b = (uint8_t)(0x80 | (next() & 0x7f)); break;
    case 3: for (auto &b : v) b = (uint8_t)next(); break;
    case 4: for (auto &b : v) b = (uint8_t)(0x20 + next() % 95); break;
    default: for (size_t i = 0; i < n; ++i) v[i] = (i & 1) ? 0xfe : 0xff; break;
  }
  return v;
}

std::string run(const Scenario &s, CaseInfo &info) {
  selftest();
  CfgData cd = split(s);
  const Op *big = nullptr;
  for (auto &op : s.ops) if (op.code == BIG) { big = &op; break; }
  bool dflt = cd.cfg.in(0, 0, 3) == 0;       // use the default seed arguments
  uint16_t seed16 = (uint16_t)(cd.cfg.in(1, 0, 255) | cd.cfg.in(2, 0, 255) << 8);
  uint32_t seed32 = (uint32_t)(cd.cfg.in(3, 0, 255) | cd.cfg.in(4, 0, 255) << 8 | cd.cfg.in(5, 0, 255) << 16 | (uint64_t)cd.cfg.in(6, 0, 255) << 24);
  size_t cut = (size_t)cd.cfg.in(7, 0, 255);
  // the `fill` form gives long messages cheaply: cfg[8] * 97 extra pseudo-random bytes
  std::vector<uint8_t> data = cd.data;
  size_t more = (size_t)cd.cfg.in(8, 0, 60) * 97;
  if (more) { auto x = lcg_bytes(more, (uint32_t)cd.cfg.in(9, 0, 255)); data.insert(data.end(), x.begin(), x.end()); }
  int pattern = -1;
  if (big) data = big_data(*big, pattern);      // a `big` op replaces the message
  size_t n = data.size();
  size_t align = (size_t)cd.cfg.in(10, 0, 7), align2 = (size_t)cd.cfg.in(11, 0, 7);   // alignment of the message start / of the second part
  ABlk in(data, align);
  if (dflt) { seed16 = 0xffff; seed32 = 0xffffffffu; }
  uint16_t c16 = dflt ? CalcCrc16(in.u8(), n) : CalcCrc16(in.u8(), n, seed16);
  uint32_t c32 = dflt ? CalcCrc32(in.u8(), n) : CalcCrc32(in.u8(), n, seed32);
  uint16_t r16 = ref::crc16(data.data(), n, seed16);
  uint32_t r32 = ref::crc32(data.data(), n, seed32);
  if (c16 != r16) return fmt("CalcCrc16(%s [%zu bytes], seed 0x%04x) = 0x%04x, bit-serial CRC-16/CCITT gives 0x%04x", hexs(data).c_str(), n, seed16, c16, r16);
  if (c32 != r32) return fmt("CalcCrc32(%s [%zu bytes], seed 0x%08x) = 0x%08x, bit-serial CRC-32 gives 0x%08x", hexs(data).c_str(), n, seed32, c32, r32);
  uint8_t s8 = CalcCheckSum8(in.u8(), n), q8 = ref::sum8(data.data(), n);
  uint16_t s16 = CalcCheckSum16(in.u8(), n), q16 = ref::sum16(data.data(), n);
  if (s8 != q8) return fmt("CalcCheckSum8(%s [%zu bytes]) = 0x%02x, one's-complement sum gives 0x%02x", hexs(data).c_str(), n, s8, q8);
  if (s16 != q16) return fmt("CalcCheckSum16(%s [%zu bytes]) = 0x%04x, RFC 1071 sum gives 0x%04x", hexs(data).c_str(), n, s16, q16);
  // a sub-range starting at an odd offset (alignment independence, exact-size block again)
  if (n) {
    size_t off = cut % n;
    ABlk part(data.data() + off, n - off, align2);
    if (!big) {   // (the bit-serial CRC references are the expensive part of a large case: whole message only there)
      if (CalcCrc16(part.u8(), part.n, seed16) != ref::crc16(data.data() + off, n - off, seed16)) return fmt("CalcCrc16 differs from the reference on the suffix at offset %zu", off);
      if (CalcCrc32(part.u8(), part.n, seed32) != ref::crc32(data.data() + off, n - off, seed32)) return fmt("CalcCrc32 differs from the reference on the suffix at offset %zu", off);
    }
    if (CalcCheckSum16(part.u8(), part.n) != ref::sum16(data.data() + off, n - off)) return fmt("CalcCheckSum16 differs from the reference on the suffix at offset %zu", off);
    if (CalcCheckSum8(part.u8(), part.n) != ref::sum8(data.data() + off, n - off)) return fmt("CalcCheckSum8 differs from the reference on the suffix at offset %zu", off);
  }
  // seeded continuation: the message cut in two, each part in its own block at its own alignment; the second call is
  // seeded with the state after the first (CRC-32 returns the complemented state)
  if (!big) {
    size_t k = n ? (cut / 7) % (n + 1) : 0;
    ABlk p1(data.data(), k, align2), p2(data.data() + k, n - k, align);
    uint16_t a16 = CalcCrc16(p2.u8(), p2.n, CalcCrc16(p1.u8(), p1.n, seed16));
    uint32_t a32 = CalcCrc32(p2.u8(), p2.n, ~CalcCrc32(p1.u8(), p1.n, seed32));
    if (a16 != r16) return fmt("CalcCrc16 of %zu+%zu bytes in two seeded calls (alignments %zu/%zu) = 0x%04x, the whole message gives 0x%04x", k, n - k, align2, align, a16, r16);
    if (a32 != r32) return fmt("CalcCrc32 of %zu+%zu bytes in two seeded calls (alignments %zu/%zu) = 0x%08x, the whole message gives 0x%08x", k, n - k, align2, align, a32, r32);
    info.cls_if(k < 4 || n - k < 4, "continuation_part_shorter_than_4_bytes");
  }
  static const char *al[] = {"align0", "align1", "align2", "align3", "align4", "align5", "align6", "align7"};
  info.cls(al[align]);
  info.cls_if((align & 3) && n < 4 - (align & 3), "unaligned_start_and_message_ends_before_next_4byte_boundary");
  info.cls_if(n <= 16, "len0_16");
  info.cls(dflt ? "default_seed" : "explicit_seed");
  info.cls(n == 0 ? "len0" : n < 4 ? "len1_3" : n < 64 ? "len4_63" : n < 600 ? "len64_599" : "len600plus");
  info.cls_if(n & 1, "odd_length");
  uint64_t sum = 0; for (auto b : data) sum += b;
  info.cls_if(sum > 0xffff, "sum_carries_out_of_16_bits");
  if (big) {
    info.cls("large_input_128KiB_to_2MiB");
    info.cls(kBigPattern[pattern]);
    uint64_t words = 0;
    for (size_t i = 0; i + 1 < n; i += 2) words += (uint64_t)data[i] << 8 | data[i + 1];
    if (n & 1) words += (uint64_t)data[n - 1] << 8;
    info.cls_if(words >> 32, "large_sum_of_16bit_words_needs_more_than_32_bits");
    info.cls_if(sum >> 16 > 0xff, "large_sum_of_octets_needs_more_than_24_bits");
  }
  info.nontrivial = n >= 2;
  return "";
}

SubDef def = [] {
  SubDef d; d.name = "crc_checksum";
  d.op_names = {"cfg", "data", "big"};
  d.op_arity = {12, 8, 4};
  d.nt_rule = "(every message starts at a generated alignment 0..7 and ends at the end of its heap block; a third of the rapidcheck cases have 0..16 bytes) message of at least 2 bytes (all four functions compared with bit-serial / 64-bit-accumulator references, whole message and a suffix); about 0.5 % of the rapidcheck cases are 128 KiB .. 2 MiB messages (classes large_*), most of them with a word sum >= 2^32";
  d.run = run;
  d.decode = [](const uint8_t *p, size_t n) { return cfg_data_decode(p, n, 12); };
#ifndef VERIF_ENGINE_FUZZ
  d.gen = [] {
    auto any = byteGen({0, 255, 0xff, 0xff, 0xfe, 1}, 2, 6, 2);
    auto b = range(0, 255);
    auto cfg = mkop(CFG, {range(0, 3), b, b, b, b, b, b, b, rc::gen::weightedOneOf<int64_t>({{3, rc::gen::just<int64_t>(0)}, {1, range(1, 60)}}), b, range(0, 7), range(0, 7)});
    auto cfgSmall = mkop(CFG, {range(0, 3), b, b, b, b, b, b, b, rc::gen::just<int64_t>(0), b, range(0, 7), range(0, 7)});
    // short messages 0..16 bytes (heads and tails of word-at-a-time loops)
    auto smallData = rc::gen::mapcat(range(0, 16), [=](int64_t len) { return rc::gen::map(fixedBytes((size_t)len, any), [](std::vector<int64_t> v) { Op o; o.code = DATA; o.a = std::move(v); return o; }); });
    // large messages: sizes around 131072..131080 and 2^18 (cheap) are favoured over 2^19..2^21 and arbitrary sizes;
    // patterns with high-valued bytes (word sum wraps 32 bits early) over uniform bytes and text
    auto bigop = mkop(BIG, {rc::gen::weightedOneOf<int64_t>({{8, range(0, 2)}, {5, rc::gen::just<int64_t>(3)}, {3, rc::gen::just<int64_t>(4)}, {2, range(5, 6)}, {3, range(7, 9)}}),
                            range(-4, 8),
                            rc::gen::weightedOneOf<int64_t>({{5, rc::gen::just<int64_t>(0)}, {3, rc::gen::just<int64_t>(1)}, {3, rc::gen::just<int64_t>(2)}, {3, rc::gen::just<int64_t>(3)}, {1, rc::gen::just<int64_t>(4)}, {2, rc::gen::just<int64_t>(5)}}),
                            range(0, 1 << 20)});
    return rc::gen::weightedOneOf<Scenario>({
      {130, scenarioOf(fixedOps({cfg}), fixedOps({opOfBytes(DATA, any)}))},
      {69, scenarioOf(fixedOps({cfgSmall}), fixedOps({smallData}))},
      {1, scenarioOf(fixedOps({cfg}), fixedOps({bigop}))}});
  };
#endif
  return d;
}();
VERIF_REGISTER(&def);
}  // namespace crc

// =================================================================================================
// MD5
// =================================================================================================
namespace md5 {
using tbox::crypto::MD5;
enum { CHUNK = 0, FILL = 1 };
const size_t kEdges[] = {0, 1, 55, 56, 57, 63, 64, 65, 119, 120, 121, 127, 128, 129, 191, 192, 193, 4095, 4096, 4097};

std::string digest_hex(const uint8_t d[16]) { return hexs(d, 16, 16); }

std::string run(const Scenario &s, CaseInfo &info) {
  selftest();
  std::vector<std::vector<uint8_t>> chunks;
  size_t total = 0;
  for (auto &op : s.ops) {
    if (chunks.size() >= 64 || total > (1u << 20)) break;
    if (op.code == CHUNK) chunks.push_back(bytes_of(op));
    else if (op.code == FILL) {
      size_t n;
      switch (op.in(0, 0, 2)) {
        case 0: n = (size_t)op.in(1, 0, 5000); break;
        case 1: n = kEdges[op.in(1, 0, (int64_t)(sizeof kEdges / sizeof kEdges[0]) - 1)]; break;
        default: n = (64 - total % 64) % 64 + (size_t)op.in(1, 0, 2); n = n ? n - 1 : 0; break;   // up to the block edge -1/0/+1
      }
      chunks.push_back(lcg_bytes(n, (uint32_t)op.in(2, 0, 1 << 20)));
    } else continue;
    total += chunks.back().size();
  }
  std::vector<uint8_t> msg; msg.reserve(total);
  for (auto &c : chunks) msg.insert(msg.end(), c.begin(), c.end());
  uint8_t want[16]; ref::md5(msg.data(), msg.size(), want);

  // one-shot
  uint8_t one[16];
  {
    Blk in(msg); Blk out(16);
    MD5 m; m.update(in.u8(), in.n); m.finish(out.u8());
    memcpy(one, out.u8(), 16);
  }
  if (memcmp(one, want, 16)) return fmt("MD5 of a %zu-byte message in one update = %s, RFC 1321 reference = %s", msg.size(), digest_hex(one).c_str(), digest_hex(want).c_str());
  // one update per chunk (each from its own exact-size block)
  uint8_t split[16];
  size_t crossings = 0, off = 0;
  {
    MD5 m;
    for (auto &c : chunks) {
      ABlk in(c, (off * 3 + c.size() + chunks.size()) & 7);      // start alignment varies with the position in the message
      m.update(in.u8(), in.n);
      if (!c.empty() && off / 64 != (off + c.size()) / 64 && off % 64 != 0) ++crossings;
      off += c.size();
    }
    Blk out(16);
    m.finish(out.u8());
    memcpy(split, out.u8(), 16);
  }
  if (memcmp(split, want, 16)) {
    std::string sizes; for (auto &c : chunks) sizes += std::to_string(c.size()) + ",";
    return fmt("MD5 of a %zu-byte message fed as updates of sizes [%s] = %s, one-shot/reference = %s", msg.size(), sizes.substr(0, 200).c_str(), digest_hex(split).c_str(), digest_hex(want).c_str());
  }
  // no update at all == empty message
  if (chunks.empty()) info.cls("no_update");
  size_t tail = msg.size() % 64;
  info.cls(tail == 0 ? "tail_0" : tail < 55 ? "tail_1_54" : tail == 55 ? "tail_55" : "tail_56_63");
  info.cls(chunks.size() <= 1 ? "updates_0_1" : chunks.size() < 3 ? "updates_2" : "updates_3plus");
  info.cls_if(crossings > 0, "update_crosses_block_boundary_midblock");
  bool zero = false; for (auto &c : chunks) if (c.empty()) zero = true;
  info.cls_if(zero, "has_zero_length_update");
  info.nontrivial = chunks.size() >= 3 && crossings > 0;
  return "";
}

Scenario decode(const uint8_t *p, size_t n) {
  Scenario s; size_t i = 0;
  auto u8 = [&]() -> int64_t { return i < n ? p[i++] : 0; };
  while (i < n && s.ops.size() < 64) {
    Op op; int64_t c = u8();
    if (c & 1) { op.code = FILL; int64_t m = (c >> 1) % 3; int64_t a = u8(); if (m == 0) a = a << 8 | u8(); op.a = {m, a, u8()}; }
    else { op.code = CHUNK; size_t len = (size_t)(c >> 1); for (size_t k = 0; k < len && i < n; ++k) op.a.push_back(u8()); }
    s.ops.push_back(op);
  }
  return s;
}

SubDef def = [] {
  SubDef d; d.name = "md5";
  d.op_names = {"chunk", "fill"};
  d.op_arity = {8, 3};
  d.nt_rule = "message fed in at least 3 updates of which at least one starts inside a 64-byte block and crosses its end";
  d.run = run;
  d.decode = decode;
#ifndef VERIF_ENGINE_FUZZ
  d.gen = [] {
    auto opg = rc::gen::weightedOneOf<Op>({
      {3, opOfBytes(CHUNK, range(0, 255))},
      {2, mkop(FILL, {rc::gen::just<int64_t>(0), rc::gen::weightedOneOf<int64_t>({{5, range(0, 130)}, {1, range(0, 5000)}}), range(0, 1 << 20)})},
      {3, mkop(FILL, {rc::gen::just<int64_t>(1), range(0, 19), range(0, 1 << 20)})},
      {2, mkop(FILL, {rc::gen::just<int64_t>(2), range(0, 2), range(0, 1 << 20)})}});
    return scenarioOf(rc::gen::just(std::vector<Op>()), opsOf(opg));
  };
#endif
  return d;
}();
VERIF_REGISTER(&def);

// ---- messages of 2^29 bytes and more (bit count needs the high length word): few, slow cases; rapidcheck only
enum { LONGMSG = 0 };
std::string run_long(const Scenario &s, CaseInfo &info) {
  selftest();
  const uint64_t kBase = (uint64_t)1 << 29;
  size_t done = 0;
  for (auto &op : s.ops) {
    if (op.code != LONGMSG || done >= 1) continue;     // one long message per case
    ++done;
    int shape = (int)op.in(0, 0, 3);
    size_t extra = (size_t)op.in(1, 0, 200);
    size_t lead = (size_t)op.in(2, 0, 130);
    size_t total = (size_t)kBase + extra;
    // sparse content: zero pages from calloc with a few marked bytes (keeps the case cheap)
    std::unique_ptr<uint8_t, void (*)(void *)> mem((uint8_t *)calloc(total ? total : 1, 1), free);
    if (!mem) return "";   // not enough memory on this box: skip
    uint8_t *p = mem.get();
    uint32_t g = (uint32_t)op.in(3, 0, 1 << 20);
    for (int k = 0; k < 64; ++k) { g = g * 1664525u + 1013904223u; p[(size_t)(((uint64_t)g * 2654435761u) % total)] = (uint8_t)(g >> 24) | 1; }
    uint8_t want[16];
    { ref::Md5 m; size_t o = 0; while (o < total) { size_t c = std::min<size_t>(1u << 24, total - o); m.update(p + o, c); o += c; } m.finish(want); }
    // every case runs two shapes on the same message: one with a single update of >= 2^29 bytes (0/1) and one whose
    // running 32-bit bit counter wraps between updates (2/3)
    static const char *cl[] = {"long_single_update", "long_short_then_rest", "long_16MiB_updates", "long_two_halves"};
    for (int pass = 0; pass < 2; ++pass) {
      int sh = pass == 0 ? shape : (shape + 2) % 4;
      uint8_t got[16];
      MD5 m;
      const char *what;
      switch (sh) {
        case 0: what = "one update of the whole message"; m.update(p, total); break;
        case 1: what = "a short update followed by one update of the rest"; m.update(p, lead); m.update(p + lead, total - lead); break;
        case 2: { what = "updates of 16 MiB + 3 bytes"; size_t o = 0; while (o < total) { size_t c = std::min<size_t>((1u << 24) + 3, total - o); m.update(p + o, c); o += c; } break; }
        default: { what = "an update of 2^28 bytes followed by one update of the rest"; size_t h = (size_t)1 << 28; m.update(p, h); m.update(p + h, total - h); break; }
      }
      m.finish(got);
      info.cls(cl[sh]);
      info.nontrivial = true;
      if (memcmp(got, want, 16)) return fmt("MD5 of a %zu-byte message (2^29+%zu) fed as %s = %s, RFC 1321 reference = %s", total, extra, what, digest_hex(got).c_str(), digest_hex(want).c_str());
    }
  }
  return "";
}
SubDef def_long = [] {
  SubDef d; d.name = "md5_long";
  d.op_names = {"long"};
  d.op_arity = {4};
  d.nt_rule = "message of at least 2^29 bytes (bit length does not fit 32 bits) compared with the reference; each case feeds it once with a single update of >= 2^29 bytes and once in pieces whose 32-bit bit counter wraps";
  d.run = run_long;
#ifndef VERIF_ENGINE_FUZZ
  d.gen = [] { return scenarioOf(fixedOps({mkop(LONGMSG, {range(0, 3), range(0, 200), range(0, 130), range(0, 1 << 20)})}), rc::gen::just(std::vector<Op>())); };
#endif
  return d;
}();
VERIF_REGISTER(&def_long);
}  // namespace md5

// =================================================================================================
// AES-128 single block
// =================================================================================================
namespace aes {
using tbox::crypto::AES;
enum { KEY = 0, BLK = 1 };

std::string run(const Scenario &s, CaseInfo &info) {
  selftest();
  std::vector<uint8_t> key(16, 0);
  std::unique_ptr<AES> a;
  size_t nblk = 0, nkeys = 0, nops = 0;
  auto fix16 = [](std::vector<uint8_t> v) { v.resize(16, 0); return v; };
  for (auto &op : s.ops) {
    if (++nops > 60) break;
    if (op.code == KEY) {
      key = fix16(bytes_of(op, 1));
      Blk k(key);
      switch (op.in(0, 0, 2)) {
        case 0: a.reset(new AES(k.u8())); info.cls("key_by_constructor"); break;
        case 1: a.reset(new AES(nullptr)); a->setKey(k.u8()); info.cls("key_by_setKey_after_null_ctor"); break;
        default: if (a) { a->setKey(k.u8()); info.cls("rekey_same_object"); } else a.reset(new AES(k.u8())); break;
      }
      ++nkeys;
      // the key block is released here: the object must have expanded it, not kept the pointer
    } else if (op.code == BLK) {
      if (!a) { Blk k(key); a.reset(new AES(k.u8())); }
      std::vector<uint8_t> pt = fix16(bytes_of(op, 1));
      bool inplace = op.in(0, 0, 1) == 1;
      uint8_t wc[16], wd[16];
      ref::aes().encrypt(key.data(), pt.data(), wc);
      ref::aes().decrypt(key.data(), pt.data(), wd);
      ABlk in(pt, nops + (size_t)op.in(0, 0, 1) * 3);
      Blk c(16), back(16), d(16), again(16);
      if (inplace) { memcpy(c.u8(), pt.data(), 16); a->cipher(c.u8(), c.u8()); info.cls("in_place"); }
      else a->cipher(in.u8(), c.u8());
      if (memcmp(c.u8(), wc, 16)) return fmt("AES cipher(key %s, block %s) = %s, FIPS-197 reference = %s", hexs(key).c_str(), hexs(pt).c_str(), hexs(c.u8(), 16).c_str(), hexs(wc, 16).c_str());
      if (inplace) { memcpy(back.u8(), c.u8(), 16); a->invcipher(back.u8(), back.u8()); }
      else a->invcipher(c.u8(), back.u8());
      if (memcmp(back.u8(), pt.data(), 16)) return fmt("AES invcipher(cipher(x)) != x for key %s, x %s: got %s", hexs(key).c_str(), hexs(pt).c_str(), hexs(back.u8(), 16).c_str());
      a->invcipher(in.u8(), d.u8());
      if (memcmp(d.u8(), wd, 16)) return fmt("AES invcipher(key %s, block %s) = %s, FIPS-197 reference = %s", hexs(key).c_str(), hexs(pt).c_str(), hexs(d.u8(), 16).c_str(), hexs(wd, 16).c_str());
      a->cipher(d.u8(), again.u8());
      if (memcmp(again.u8(), pt.data(), 16)) return fmt("AES cipher(invcipher(x)) != x for key %s, x %s", hexs(key).c_str(), hexs(pt).c_str());
      ++nblk;
    }
  }
  info.cls_if(nkeys >= 2, "several_keys");
  info.nontrivial = nblk > 0 && nkeys > 0;
  return "";
}

Scenario decode(const uint8_t *p, size_t n) {
  Scenario s; size_t i = 0;
  while (i < n && s.ops.size() < 64) {
    Op op; uint8_t c = p[i++];
    op.code = c & 1; op.a.push_back(c >> 1);
    for (int k = 0; k < 16 && i < n; ++k) op.a.push_back(p[i++]);
    s.ops.push_back(op);
  }
  return s;
}

SubDef def = [] {
  SubDef d; d.name = "aes";
  d.op_names = {"key", "blk"};
  d.op_arity = {17, 17};
  d.nt_rule = "at least one block processed under an explicitly set key (cipher and invcipher each compared with the FIPS-197 reference, plus both compositions)";
  d.run = run;
  d.decode = decode;
#ifndef VERIF_ENGINE_FUZZ
  d.gen = [] {
    auto b16 = rc::gen::weightedOneOf<std::vector<int64_t>>({
      {6, fixedBytes(16, range(0, 255))},
      {1, fixedBytes(16, rc::gen::elementOf(std::vector<int64_t>{0, 0xff}))},
      {1, fixedBytes(16, rc::gen::elementOf(std::vector<int64_t>{0, 1, 0x80, 0x52, 0x63, 0x1b}))}});
    auto opg = rc::gen::weightedOneOf<Op>({{2, opHeadBytes(KEY, {range(0, 2)}, b16)}, {5, opHeadBytes(BLK, {range(0, 1)}, b16)}});
    return scenarioOf(fixedOps({opHeadBytes(KEY, {range(0, 1)}, b16)}), opsOf(opg));
  };
#endif
  return d;
}();
VERIF_REGISTER(&def);
}  // namespace aes

}  // namespace
