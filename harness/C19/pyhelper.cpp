// C19(b) — persistent helper process for the Hypothesis differential (harness/C19/diff_py.py).
// Line protocol on stdin/stdout, all binary data hex-encoded ("-" = empty):
//   request :  <cmd> <arg> ...
//   reply   :  ok <hex-or-dash> [<number>]   |   exc <exception text>   |   bad <why>
// Every input and output handed to cpp-tbox lives in an exact-size heap block (ASan build), as in codecs.cpp.
#include <tbox/util/base64.h>
#include <tbox/util/string.h>
#include <tbox/util/scalable_integer.h>
#include <tbox/util/crc.h>
#include <tbox/util/checksum.h>
#include <tbox/http/url.h>
#include <tbox/crypto/md5.h>
#include <tbox/crypto/aes.h>
#include <cstdio>
#include <cstring>
#include <cstdlib>
#include <iostream>
#include <sstream>
#include <memory>
#include <string>
#include <vector>

namespace {
typedef std::vector<uint8_t> Bytes;

int hv(char c) { return c <= '9' ? c - '0' : (c | 0x20) - 'a' + 10; }
Bytes unhex(const std::string &s) {
  Bytes v;
  if (s == "-") return v;
  v.reserve(s.size() / 2);
  for (size_t i = 0; i + 1 < s.size(); i += 2) v.push_back((uint8_t)(hv(s[i]) << 4 | hv(s[i + 1])));
  return v;
}
std::string hex(const uint8_t *p, size_t n) {
  if (!n) return "-";
  static const char *d = "0123456789abcdef";
  std::string o;
  for (size_t i = 0; i < n; ++i) { o += d[p[i] >> 4]; o += d[p[i] & 15]; }
  return o;
}
std::string hex(const Bytes &v) { return hex(v.data(), v.size()); }
std::string hex(const std::string &v) { return hex((const uint8_t *)v.data(), v.size()); }

struct Blk {   // exact-size heap copy (size 0 -> 1 byte that is never passed with a non-zero length)
  std::unique_ptr<uint8_t[]> p; size_t n;
  explicit Blk(const Bytes &v) : p(new uint8_t[v.size() ? v.size() : 1]), n(v.size()) { if (n) memcpy(p.get(), v.data(), n); }
  explicit Blk(size_t n_) : p(new uint8_t[n_ ? n_ : 1]), n(n_) {}
  uint8_t *u8() { return p.get(); }
};
std::string str_of(const Bytes &v) { std::string s(v.begin(), v.end()); s.shrink_to_fit(); return s; }

std::string handle(const std::vector<std::string> &a) {
  using namespace tbox;
  const std::string &c = a[0];
  auto need = [&](size_t n) { return a.size() >= n + 1; };
  if (c == "b64e" && need(1)) {          // raw -> text (all three overloads must agree)
    Bytes raw = unhex(a[1]);
    if (raw.empty()) return "bad empty input is outside Encode's asserted precondition";
    Blk in(raw);
    std::string s1 = util::base64::Encode(in.u8(), in.n), s2 = util::base64::Encode(raw);
    Blk out(util::base64::EncodeLength(raw.size()));
    size_t r = util::base64::Encode(in.u8(), in.n, (char *)out.u8(), out.n);
    if (s1 != s2 || r != s1.size() || memcmp(out.u8(), s1.data(), r)) return "bad Encode overloads disagree";
    return "ok " + hex(s1);
  }
  if (c == "b64d" && need(1)) {          // text -> raw via the exact-capacity buffer overload and the vector overload
    Bytes t = unhex(a[1]);
    Blk in(t);
    size_t dl = util::base64::DecodeLength((const char *)in.u8(), in.n);
    Blk out(dl);
    size_t r = util::base64::Decode((const char *)in.u8(), in.n, out.u8(), dl);
    Bytes v;
    size_t r2 = util::base64::Decode(str_of(t), v);
    std::ostringstream os;
    os << "ok " << hex(out.u8(), r) << " " << r << " " << dl << " " << hex(v) << " " << r2;
    return os.str();
  }
  if (c == "hexe" && need(2)) {
    Bytes raw = unhex(a[2]); Blk in(raw);
    std::string delim = a.size() > 3 ? str_of(unhex(a[3])) : std::string();        // hexe <upper> <hex> [delimiter-hex]
    return "ok " + hex(util::string::RawDataToHexStr(in.u8(), (uint16_t)in.n, a[1] == "1", delim));
  }
  if (c == "hexd" && need(1)) {
    Bytes t = unhex(a[1]);
    Bytes v;
    std::string delim = a.size() > 2 ? str_of(unhex(a[2])) : std::string();        // hexd <hex text> [delimiter-hex]
    size_t r = util::string::HexStrToRawData(str_of(t), v, delim);
    Blk out(delim.empty() && t.size() / 2 <= 65535 ? t.size() / 2 : 0);
    size_t r2 = out.n ? util::string::HexStrToRawData(str_of(t), out.u8(), (uint16_t)out.n) : 0;
    (void)r2;
    return "ok " + hex(v) + " " + std::to_string(r);
  }
  if (c == "urle" && need(2)) return "ok " + hex(http::UrlEncode(str_of(unhex(a[2])), a[1] == "1"));
  if (c == "urld" && need(1)) return "ok " + hex(http::UrlDecode(str_of(unhex(a[1]))));
  if (c == "crc16" && need(1)) { Bytes d = unhex(a[1]); Blk in(d); return "ok - " + std::to_string(util::CalcCrc16(in.u8(), in.n)); }
  if (c == "crc32" && need(1)) { Bytes d = unhex(a[1]); Blk in(d); return "ok - " + std::to_string(util::CalcCrc32(in.u8(), in.n)); }
  if (c == "sum16" && need(1)) { Bytes d = unhex(a[1]); Blk in(d); return "ok - " + std::to_string(util::CalcCheckSum16(in.u8(), in.n)); }
  if (c == "sum8" && need(1)) { Bytes d = unhex(a[1]); Blk in(d); return "ok - " + std::to_string(util::CalcCheckSum8(in.u8(), in.n)); }
  if (c == "crcall" && need(1)) {         // all four in one transfer (large inputs): crc16 crc32 sum16 sum8
    Bytes d = unhex(a[1]); Blk in(d);
    std::ostringstream os;
    os << "ok - " << util::CalcCrc16(in.u8(), in.n) << " " << util::CalcCrc32(in.u8(), in.n) << " " << util::CalcCheckSum16(in.u8(), in.n) << " " << (unsigned)util::CalcCheckSum8(in.u8(), in.n);
    return os.str();
  }
  if (c == "md5" && need(1)) {           // md5 <hex> [cut ...] : one update per piece
    Bytes d = unhex(a[1]);
    crypto::MD5 m;
    size_t off = 0;
    for (size_t i = 2; i <= a.size(); ++i) {
      size_t end = i < a.size() ? std::min<size_t>(d.size(), std::max<size_t>(off, strtoull(a[i].c_str(), nullptr, 10))) : d.size();
      Bytes piece(d.begin() + (long)off, d.begin() + (long)end);
      Blk in(piece);
      m.update(in.u8(), in.n);
      off = end;
    }
    Blk out(16); m.finish(out.u8());
    return "ok " + hex(out.u8(), 16);
  }
  if ((c == "aese" || c == "aesd") && need(2)) {
    Bytes k = unhex(a[1]), b = unhex(a[2]);
    if (k.size() != 16 || b.size() != 16) return "bad key and block must be 16 bytes";
    Blk kb(k), in(b), out(16);
    crypto::AES aes(kb.u8());
    if (c == "aese") aes.cipher(in.u8(), out.u8()); else aes.invcipher(in.u8(), out.u8());
    return "ok " + hex(out.u8(), 16);
  }
  if (c == "sintd" && need(1)) {         // decimal u64 -> encoding (exact capacity found by growing)
    uint64_t v = strtoull(a[1].c_str(), nullptr, 10);
    for (size_t cap = 0; cap <= 10; ++cap) {
      Blk out(cap);
      size_t r = util::DumpScalableInteger(v, out.u8(), cap);
      if (r) return "ok " + hex(out.u8(), r) + " " + std::to_string(cap);
    }
    return "bad Dump failed with 10 bytes";
  }
  if (c == "sintp" && need(1)) {
    Bytes d = unhex(a[1]); Blk in(d);
    uint64_t v = 0;
    size_t r = util::ParseScalableInteger(in.u8(), in.n, v);
    return "ok - " + std::to_string(r) + " " + std::to_string(r ? v : 0);
  }
  return "bad unknown command";
}
}  // namespace

int main() {
  std::ios::sync_with_stdio(false);
  std::string line;
  while (std::getline(std::cin, line)) {
    std::istringstream is(line);
    std::vector<std::string> a; std::string w;
    while (is >> w) a.push_back(w);
    if (a.empty()) continue;
    if (a[0] == "quit") break;
    std::string reply;
    try { reply = handle(a); }
    catch (const std::exception &e) { reply = std::string("exc ") + e.what(); }
    std::cout << reply << "\n" << std::flush;
  }
  return 0;
}
