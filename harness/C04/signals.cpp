// C04 — signal events: every delivery of S reaches every enabled subscriber exactly once, on its loop's thread,
// in every loop; a previously installed handler is still invoked; one-shot fires at most once; when the last
// subscriber of S goes away the process's disposition for S is exactly what it was before.
// Real signals (kill(getpid(), S)), 1-3 loops each on its own thread, subscription changes issued on the owning
// loop's thread and never concurrent with a delivery (the statement's domain).
#define VERIF_MAIN
#include "../common/verif.h"
#include <tbox/event/loop.h>
#include <tbox/event/signal_event.h>
#include <thread>
#include <atomic>
#include <memory>
#include <mutex>
#include <condition_variable>
#include <signal.h>
#include <set>
#include <vector>
#include <algorithm>

using namespace verif;
using tbox::event::Loop;
using tbox::event::SignalEvent;

namespace {
enum { CFG, NEW, ENABLE, DISABLE, DESTROY, RAISE, BATCH, BURST, REINIT, ADDSIG, NOPS };
const int kNSig = 6, kMaxLoops = 3, kMaxEvents = 10;
int sig_of(int i) { static const int base[2] = {SIGUSR1, SIGUSR2}; return i < 2 ? base[i] : SIGRTMIN + 1 + (i - 2); }

std::atomic<int> g_sentinel_calls[kNSig];
std::atomic<int> g_sentinel_bad{0};
void sentinel_plain(int signo) { for (int i = 0; i < kNSig; ++i) if (sig_of(i) == signo) { g_sentinel_calls[i]++; return; } g_sentinel_bad++; }
void sentinel_info(int signo, siginfo_t *si, void *) { if (si == nullptr || si->si_signo != signo) g_sentinel_bad++; for (int i = 0; i < kNSig; ++i) if (sig_of(i) == signo) { g_sentinel_calls[i]++; return; } g_sentinel_bad++; }

struct LoopThread {
  Loop *loop = nullptr; std::thread th; std::thread::id tid;
  // run fn on the loop thread and wait for it
  void call(std::function<void()> fn) {
    std::mutex mu; std::condition_variable cv; bool done = false;
    loop->runInLoop([&] { fn(); std::lock_guard<std::mutex> lg(mu); done = true; cv.notify_one(); }, "call");
    std::unique_lock<std::mutex> lk(mu); cv.wait(lk, [&] { return done; });
  }
};

struct Ev {
  SignalEvent *ev = nullptr; int loop = 0; unsigned mask = 0; bool oneshot = false; bool enabled = false; bool alive = false;
  int act = 0;   // what the event's callback does: 0 nothing, 1 enable() itself (re-arms a one-shot event), 2 disable() itself, 3 disable() then enable() itself,
                 // 4 disable() the sibling event `tgt` (an event of the same loop that was created earlier and has act 0)
  int tgt = -1; std::atomic<bool> tgt_alive{false};
  bool bad = false;   // its signal set contains SIGKILL, which sigaction() refuses: enable() must fail and leave everything else alone (model mask 0)
  int reinits = 0;
  int slack[kNSig] = {0};   // deliveries for which 0 or 1 callback is acceptable (the event was disabled by a sibling's callback during that very dispatch)
  std::atomic<int> act_failed{0};
  std::atomic<int> calls[kNSig]; std::atomic<int> wrong_thread{0}, wrong_signo{0};
  int expect[kNSig] = {0};
};

bool same_action(const struct sigaction &a, const struct sigaction &b, std::string &why) {
  bool ai = a.sa_flags & SA_SIGINFO, bi = b.sa_flags & SA_SIGINFO;
  if (ai != bi) { why = "SA_SIGINFO flag differs"; return false; }
  if (ai ? (a.sa_sigaction != b.sa_sigaction) : (a.sa_handler != b.sa_handler)) { why = "handler pointer differs"; return false; }
  if (a.sa_flags != b.sa_flags) { char buf[80]; snprintf(buf, sizeof buf, "sa_flags differ (0x%x vs 0x%x)", (unsigned)a.sa_flags, (unsigned)b.sa_flags); why = buf; return false; }
  for (int s = 1; s < 65; ++s) if (sigismember(&a.sa_mask, s) != sigismember(&b.sa_mask, s)) { why = "sa_mask differs"; return false; }
  return true;
}

std::string run(const Scenario &s, CaseInfo &info) {
  int nloops = 1; int orig_kind[kNSig] = {0};
  for (auto &op : s.ops) if (op.code == CFG) { nloops = (int)op.in(0, 1, kMaxLoops); for (int i = 0; i < kNSig; ++i) orig_kind[i] = (int)op.in(1 + i, 0, 5); }

  // ---- install the original dispositions and remember exactly what the kernel reports for them
  struct sigaction pre[kNSig], orig[kNSig];
  for (int i = 0; i < kNSig; ++i) {
    g_sentinel_calls[i] = 0;
    struct sigaction sa; memset(&sa, 0, sizeof sa); sigemptyset(&sa.sa_mask);
    switch (orig_kind[i]) {
      case 0: sa.sa_handler = SIG_DFL; break;
      case 1: sa.sa_handler = SIG_IGN; break;
      case 2: sa.sa_handler = sentinel_plain; break;
      case 3: sa.sa_sigaction = sentinel_info; sa.sa_flags = SA_SIGINFO; break;
      case 5: sa.sa_handler = sentinel_plain; sa.sa_flags = SA_RESETHAND; break;   // the 'second Ctrl+C kills' idiom: only ever raised while somebody subscribes
      default: sa.sa_handler = sentinel_plain; sa.sa_flags = SA_RESTART; sigaddset(&sa.sa_mask, SIGUSR1); sigaddset(&sa.sa_mask, SIGPIPE); break;
    }
    sigaction(sig_of(i), &sa, &pre[i]);
    sigaction(sig_of(i), nullptr, &orig[i]);
  }
  g_sentinel_bad = 0;

  LoopThread lt[kMaxLoops];
  for (int l = 0; l < nloops; ++l) {
    lt[l].loop = Loop::New(l % 2 ? "select" : "epoll");
    std::atomic<bool> started{false};
    lt[l].th = std::thread([&, l] { lt[l].loop->runNext([&] { started = true; }, "started"); lt[l].loop->runLoop(Loop::Mode::kForever); });
    while (!started.load()) std::this_thread::yield();
    lt[l].call([&, l] { lt[l].tid = std::this_thread::get_id(); });
  }

  std::unique_ptr<Ev[]> evs(new Ev[kMaxEvents]); int nev = 0;
  for (int e = 0; e < kMaxEvents; ++e) for (int i = 0; i < kNSig; ++i) evs[e].calls[i] = 0;
  std::string err; char buf[300];
  int sentinel_expect[kNSig] = {0};
  bool nt_two_loops_one_sig = false, nt_resubscribe_after_zero = false; bool went_zero[kNSig] = {false};
  int raises = 0, skipped_raises = 0, oneshot_fired = 0, nt_batches = 0, nt_bursts = 0, nt_rearm = 0, nt_self_disable = 0, nt_sibling = 0, nt_sibling_in_dispatch = 0, nt_failed_enable = 0, nt_reinit = 0, nt_addsig_enabled = 0;

  auto subs_of = [&](int si) { int n = 0; for (int e = 0; e < nev; ++e) if (evs[e].alive && evs[e].enabled && (evs[e].mask >> si & 1)) n++; return n; };
  auto check_disposition = [&](const char *after) {
    for (int i = 0; i < kNSig && err.empty(); ++i) {
      if (subs_of(i) != 0) continue;
      struct sigaction cur; sigaction(sig_of(i), nullptr, &cur); std::string why;
      if (!same_action(cur, orig[i], why)) { snprintf(buf, sizeof buf, "after %s: nobody subscribes signal #%d any more but its disposition is not what it was before the first subscription: %s (original kind %d)", after, i, why.c_str(), orig_kind[i]); err = buf; }
    }
  };
  auto sync_loops = [&] { for (int r = 0; r < 2; ++r) for (int l = 0; l < nloops; ++l) lt[l].call([] {}); };
  auto check_counts = [&](const char *after) {
    for (int e = 0; e < nev && err.empty(); ++e) {
      if (evs[e].wrong_thread.load()) { snprintf(buf, sizeof buf, "after %s: event %d got a callback on a thread other than its loop's thread", after, e); err = buf; break; }
      if (evs[e].act_failed.load()) { snprintf(buf, sizeof buf, "after %s: enable()/disable() called by event %d on itself inside its callback returned false", after, e); err = buf; break; }
      if (evs[e].wrong_signo.load()) { snprintf(buf, sizeof buf, "after %s: event %d got a callback for a signal it never subscribed", after, e); err = buf; break; }
      for (int i = 0; i < kNSig; ++i) { int got = evs[e].calls[i].load(); if (got > evs[e].expect[i] || got < evs[e].expect[i] - evs[e].slack[i]) {
        snprintf(buf, sizeof buf, "after %s: event %d (loop %d, %s, mask 0x%x) has %d callbacks for signal #%d, expected %d%s", after, e, evs[e].loop, evs[e].oneshot ? "one-shot" : "persistent", evs[e].mask, got, i, evs[e].expect[i], evs[e].slack[i] ? " (minus those of deliveries during which a sibling's callback disabled it)" : ""); err = buf; break; } }
    }
    for (int i = 0; i < kNSig && err.empty(); ++i) if (g_sentinel_calls[i].load() != sentinel_expect[i]) {
      snprintf(buf, sizeof buf, "after %s: the handler installed before the first subscription ran %d time(s) for signal #%d, expected %d (original kind %d)", after, g_sentinel_calls[i].load(), i, sentinel_expect[i], orig_kind[i]); err = buf; }
    if (err.empty() && g_sentinel_bad.load()) err = "the previously installed handler was called with wrong arguments";
  };

  for (size_t k = 0; k < s.ops.size() && err.empty(); ++k) {
    const Op &op = s.ops[k];
    switch (op.code) {
      case NEW: {
        if (nev >= kMaxEvents) break;
        Ev &E = evs[nev]; E.loop = (int)op.in(0, 0, nloops - 1); E.mask = (unsigned)op.in(1, 1, (1 << kNSig) - 1); E.oneshot = op.in(2, 0, 3) == 0; E.alive = true; E.enabled = false;
        { static const int kAct[10] = {0, 0, 0, 0, 1, 2, 3, 1, 4, 4}; E.act = kAct[op.in(3, 0, 9)]; }
        if (E.act == 4) {   // pick the sibling: an alive event of the same loop with act 0
          std::vector<int> cand; for (int j = 0; j < nev; ++j) if (evs[j].alive && evs[j].loop == E.loop && evs[j].act == 0) cand.push_back(j);
          if (cand.empty()) E.act = 0; else { E.tgt = cand[op.in(4, 0, (int64_t)cand.size() - 1)]; E.tgt_alive = true; }
        }
        unsigned real_mask = E.mask;
        if (op.in(5, 0, 7) == 7) { E.bad = true; E.mask = 0; E.act = 0; E.tgt = -1; }
        int e = nev; LoopThread *L = &lt[E.loop]; Ev *Ep = &E; Ev *Tp = E.tgt >= 0 ? &evs[E.tgt] : nullptr;
        L->call([&, e, L, Ep, Tp, real_mask] {
          Ep->ev = L->loop->newSignalEvent("c04");
          std::set<int> ss; for (int i = 0; i < kNSig; ++i) if (real_mask >> i & 1) ss.insert(sig_of(i));
          if (Ep->bad) ss.insert(SIGKILL);   // the smallest number of the set: the subscription fails before anything else was subscribed
          if (ss.size() == 1 && (e & 1)) Ep->ev->initialize(*ss.begin(), Ep->oneshot ? tbox::event::Event::Mode::kOneshot : tbox::event::Event::Mode::kPersist);
          else Ep->ev->initialize(ss, Ep->oneshot ? tbox::event::Event::Mode::kOneshot : tbox::event::Event::Mode::kPersist);
          Ep->ev->setCallback([Ep, L, Tp](int signo) {
            if (std::this_thread::get_id() != L->tid) Ep->wrong_thread++;
            bool found = false; for (int i = 0; i < kNSig; ++i) if (sig_of(i) == signo && (Ep->mask >> i & 1)) { Ep->calls[i]++; found = true; }
            if (!found) Ep->wrong_signo++;
            if (Ep->act == 2 || Ep->act == 3) { if (!Ep->ev->disable()) Ep->act_failed++; }
            if (Ep->act == 4 && Ep->tgt_alive.load() && Tp->ev) { if (!Tp->ev->disable()) Ep->act_failed++; }
            if (Ep->act == 1 || Ep->act == 3) { if (!Ep->ev->enable()) Ep->act_failed++; }
          });
        });
        nev++; break; }
      case ENABLE: case DISABLE: case DESTROY: {
        if (nev == 0) break;
        int e = (int)op.in(0, 0, nev - 1); Ev &E = evs[e]; if (!E.alive) break;
        bool en_after = false; bool ok = true;
        if (op.code == ENABLE) for (int i = 0; i < kNSig; ++i) if ((E.mask >> i & 1) && subs_of(i) == 0 && went_zero[i]) nt_resubscribe_after_zero = true;
        lt[E.loop].call([&] {
          if (op.code == ENABLE) ok = E.ev->enable(); else if (op.code == DISABLE) ok = E.ev->disable(); else { delete E.ev; E.ev = nullptr; }
          if (E.ev) en_after = E.ev->isEnabled();
        });
        if (op.code == ENABLE) E.enabled = true; else E.enabled = false;
        if (op.code == ENABLE && E.bad) {   // a subscription sigaction() refuses
          E.enabled = false; nt_failed_enable++;
          if (ok) { snprintf(buf, sizeof buf, "op %zu: enable() of event %d, whose signal set contains SIGKILL, returned true", k, e); err = buf; break; }
          ok = true;
        }
        if (op.code == DESTROY) { E.alive = false; for (int j = 0; j < nev; ++j) if (evs[j].tgt == e) evs[j].tgt_alive = false; }
        if (!ok) { snprintf(buf, sizeof buf, "op %zu: %s of event %d returned false", k, op.code == ENABLE ? "enable()" : "disable()", e); err = buf; break; }
        if (E.alive && en_after != E.enabled) { snprintf(buf, sizeof buf, "op %zu: isEnabled() of event %d is %d, model says %d", k, e, (int)en_after, (int)E.enabled); err = buf; break; }
        for (int i = 0; i < kNSig; ++i) if ((E.mask >> i & 1) && subs_of(i) == 0) went_zero[i] = true;
        check_disposition(op.code == ENABLE ? "enable" : op.code == DISABLE ? "disable" : "destroy");
        break; }
      case REINIT: {   // the same event object gets another signal set / mode (std::set overload of initialize(): replaces the set)
        if (nev == 0) break;
        int e = (int)op.in(0, 0, nev - 1); Ev &E = evs[e]; if (!E.alive || E.bad) break;
        unsigned nm = (unsigned)op.in(1, 1, (1 << kNSig) - 1); bool no = op.in(2, 0, 3) == 0; bool ok1 = true, ok2 = true;
        lt[E.loop].call([&] {
          ok1 = E.ev->disable();
          std::set<int> ss; for (int i = 0; i < kNSig; ++i) if (nm >> i & 1) ss.insert(sig_of(i));
          ok2 = E.ev->initialize(ss, no ? tbox::event::Event::Mode::kOneshot : tbox::event::Event::Mode::kPersist);
        });
        unsigned old = E.mask; E.enabled = false; E.mask = nm; E.oneshot = no; E.reinits++; nt_reinit++;
        if (!ok1 || !ok2) { snprintf(buf, sizeof buf, "op %zu: disable()/initialize() of event %d returned false", k, e); err = buf; break; }
        for (int i = 0; i < kNSig; ++i) if (((old | nm) >> i & 1) && subs_of(i) == 0) went_zero[i] = true;
        check_disposition("re-initialisation");
        break; }
      case ADDSIG: {   // a further signal for an existing event through the int overload of initialize() (which adds to the set), then enable()
        if (nev == 0) break;
        int e = (int)op.in(0, 0, nev - 1); Ev &E = evs[e]; if (!E.alive || E.bad) break;
        int si = (int)op.in(1, 0, kNSig - 1); bool ok1 = true, ok2 = true, en_after = false;
        if (E.enabled && !(E.mask >> si & 1)) nt_addsig_enabled++;
        if (subs_of(si) == 0 && went_zero[si]) nt_resubscribe_after_zero = true;
        lt[E.loop].call([&] {
          ok1 = E.ev->initialize(sig_of(si), E.oneshot ? tbox::event::Event::Mode::kOneshot : tbox::event::Event::Mode::kPersist);
          ok2 = E.ev->enable(); en_after = E.ev->isEnabled();
        });
        E.mask |= 1u << si; E.enabled = true;
        if (!ok1 || !ok2) { snprintf(buf, sizeof buf, "op %zu: initialize(signal)/enable() of event %d returned false", k, e); err = buf; break; }
        if (!en_after) { snprintf(buf, sizeof buf, "op %zu: isEnabled() of event %d is false after enable()", k, e); err = buf; break; }
        check_disposition("adding a signal");
        break; }
      case BATCH: {
        // several subscription changes on events of ONE loop inside ONE loop task (e.g. "disable the loop's last
        // subscriber, then enable another event" before the loop has run its deferred tasks)
        if (nev == 0) break;
        int first = (int)op.in(0, 0, nev - 1); if (!evs[first].alive) break;
        int L = evs[first].loop;
        struct Step { int e; int act; }; std::vector<Step> steps;     // act 0 enable, 1 disable
        for (int j = 0; j < 4; ++j) {
          int e = (int)op.in(1 + 2 * j, 0, nev - 1); int act = (int)op.in(2 + 2 * j, 0, 1);
          if (j == 0) e = first;
          if (!evs[e].alive || evs[e].loop != L || evs[e].bad) continue;
          steps.push_back({e, act});
        }
        if (steps.size() >= 2) nt_batches++;
        std::vector<int> oks(steps.size(), 1), ens(steps.size(), 0);
        for (auto &st : steps) if (st.act == 0) for (int i = 0; i < kNSig; ++i) if ((evs[st.e].mask >> i & 1) && subs_of(i) == 0 && went_zero[i]) nt_resubscribe_after_zero = true;
        lt[L].call([&] {
          for (size_t j = 0; j < steps.size(); ++j) {
            Ev &E = evs[steps[j].e];
            oks[j] = steps[j].act == 0 ? E.ev->enable() : E.ev->disable();
            ens[j] = E.ev->isEnabled();
          }
        });
        for (size_t j = 0; j < steps.size() && err.empty(); ++j) {
          Ev &E = evs[steps[j].e]; E.enabled = steps[j].act == 0;
          if (!oks[j]) { snprintf(buf, sizeof buf, "op %zu: batched %s of event %d returned false", k, steps[j].act == 0 ? "enable()" : "disable()", steps[j].e); err = buf; }
          else if ((bool)ens[j] != E.enabled) { snprintf(buf, sizeof buf, "op %zu: isEnabled() of event %d after a batched change is %d, model says %d", k, steps[j].e, ens[j], (int)E.enabled); err = buf; }
          for (int i = 0; i < kNSig; ++i) if ((E.mask >> i & 1) && subs_of(i) == 0) went_zero[i] = true;
        }
        if (err.empty()) check_disposition("batched changes");
        break; }
      case RAISE: case BURST: {
        // RAISE: one delivery, then wait until every loop has processed it.
        // BURST: 2-7 deliveries raised one after the other (each kill() returns after the handler has run, so the
        // kernel never merges them) while every loop thread is held busy, so that several notifications are waiting
        // in a loop's pipe when it gets to read them; the loops are released afterwards.
        std::vector<int> sigs;
        if (op.code == RAISE) sigs.push_back((int)op.in(0, 0, kNSig - 1));
        else { int n = (int)op.in(0, 2, 7); for (int j = 0; j < n; ++j) sigs.push_back((int)op.in(1 + j, 0, kNSig - 1)); }
        int subs_at_start[kNSig]; for (int i = 0; i < kNSig; ++i) subs_at_start[i] = subs_of(i);
        // shared, because a loop thread may still be leaving its hold task after this block has been left
        auto held = std::make_shared<std::atomic<int>>(0); auto release_loops = std::make_shared<std::atomic<bool>>(false);
        if (op.code == BURST) {
          for (int l = 0; l < nloops; ++l) lt[l].loop->runInLoop([held, release_loops] { (*held)++; while (!release_loops->load()) std::this_thread::yield(); }, "hold");
          while (held->load() < nloops) std::this_thread::yield();
          nt_bursts++;
        }
        int last_si = -1;
        for (int si : sigs) {
          if (subs_at_start[si] == 0 && (orig_kind[si] == 0 || orig_kind[si] == 5)) { skipped_raises++; continue; }     // default action would kill the process (kind 5: the kernel would reset the handler)
          // expectations: deliveries are processed per loop in the order they were raised
          bool loops_seen[kMaxLoops] = {false}; int nl = 0;
          std::vector<int> hit;   // events that take part in this delivery
          if (subs_at_start[si] > 0)
            for (int e = 0; e < nev; ++e) if (evs[e].alive && evs[e].enabled && (evs[e].mask >> si & 1)) {
              hit.push_back(e);
              evs[e].expect[si]++; if (!loops_seen[evs[e].loop]) { loops_seen[evs[e].loop] = true; nl++; }
              if (evs[e].oneshot) { evs[e].enabled = false; oneshot_fired++; }
              // then its callback runs and may change the event's own subscription
              if (evs[e].act == 2) { evs[e].enabled = false; nt_self_disable++; }
              if (evs[e].act == 1 || evs[e].act == 3) { evs[e].enabled = true; if (evs[e].oneshot) nt_rearm++; }
            }
          // callbacks that disable a sibling: the sibling ends up disabled; if it takes part in this very delivery it gets its
          // callback or not, depending on the (unspecified) order in which the loop serves the subscribers
          { std::set<int> slacked;
            for (int e : hit) if (evs[e].act == 4 && evs[e].tgt_alive.load() && evs[evs[e].tgt].alive) {
              int b = evs[e].tgt; bool takes_part = std::find(hit.begin(), hit.end(), b) != hit.end();
              if (takes_part && !slacked.count(b)) { evs[b].slack[si]++; slacked.insert(b); nt_sibling_in_dispatch++; }
              if (evs[b].enabled || takes_part) nt_sibling++;
              evs[b].enabled = false;
            } }
          if (nl >= 2) nt_two_loops_one_sig = true;
          if (orig_kind[si] >= 2) sentinel_expect[si]++;
          raises++; last_si = si;
          kill(getpid(), sig_of(si));
        }
        *release_loops = true;
        if (last_si < 0) break;
        int si = last_si;
        sync_loops();
        int64_t deadline = steady_ms() + 3000;
        auto settled = [&] { for (int e = 0; e < nev; ++e) for (int i = 0; i < kNSig; ++i) if (evs[e].calls[i].load() < evs[e].expect[i] - evs[e].slack[i]) return false; return g_sentinel_calls[si].load() >= sentinel_expect[si]; };
        while (!settled() && steady_ms() < deadline) { std::this_thread::sleep_for(std::chrono::microseconds(200)); }
        sync_loops();
        check_counts(op.code == RAISE ? "raise" : "burst of raises");
        // one-shot events have disabled themselves: their signals may have lost the last subscriber
        for (int i = 0; i < kNSig; ++i) if (subs_of(i) == 0) { bool any = false; for (int e = 0; e < nev; ++e) if (evs[e].mask >> i & 1) any = true; if (any) went_zero[i] = true; }
        if (err.empty()) check_disposition("one-shot delivery");
        for (int e = 0; e < nev && err.empty(); ++e) if (evs[e].alive) { bool en = false; Ev *Ep = &evs[e]; lt[Ep->loop].call([&] { en = Ep->ev->isEnabled(); }); if (en != Ep->enabled) { snprintf(buf, sizeof buf, "after raise: isEnabled() of event %d is %d, model says %d", e, (int)en, (int)Ep->enabled); err = buf; } }
        break; }
      default: break;
    }
  }
  // ---- tear down: destroy events on their loops, stop loops
  for (int e = 0; e < nev; ++e) if (evs[e].alive) { Ev *Ep = &evs[e]; lt[Ep->loop].call([Ep] { delete Ep->ev; Ep->ev = nullptr; }); Ep->alive = false; Ep->enabled = false; }
  if (err.empty()) check_disposition("destroying all events");
  for (int l = 0; l < nloops; ++l) { Loop *lp = lt[l].loop; lp->runInLoop([lp] { lp->exitLoop(); }, "exit"); lt[l].th.join(); delete lp; }
  if (err.empty()) check_counts("teardown");
  for (int i = 0; i < kNSig; ++i) sigaction(sig_of(i), &pre[i], nullptr);
  if (!err.empty()) return err;

  info.cls_if(nloops >= 2, "multi_loop");
  info.cls_if(nt_two_loops_one_sig, "signal_delivered_to_two_loops");
  info.cls_if(nt_resubscribe_after_zero, "resubscribe_after_unsubscribe_to_zero");
  info.cls_if(oneshot_fired > 0, "oneshot_fired");
  info.cls_if(skipped_raises > 0, "raise_skipped_default_action");
  info.cls_if(nt_batches > 0, "several_changes_in_one_loop_task");
  info.cls_if(nt_bursts > 0, "burst_of_deliveries_while_loops_busy");
  info.cls_if(nt_rearm > 0, "oneshot_rearmed_in_its_own_callback");
  info.cls_if(nt_self_disable > 0, "event_disabled_itself_in_its_callback");
  info.cls_if(nt_failed_enable > 0, "enable_of_an_uncatchable_signal_refused");
  info.cls_if(nt_addsig_enabled > 0, "signal_added_to_an_enabled_event_then_enable_again");
  { bool rh = false; for (int i = 0; i < kNSig; ++i) if (orig_kind[i] == 5) rh = true; info.cls_if(rh && raises > 0, "original_handler_with_SA_RESETHAND"); }
  info.cls_if(nt_reinit > 0, "event_object_initialised_again_with_another_signal_set");
  info.cls_if(nt_sibling > 0, "callback_disabled_a_sibling_event");
  info.cls_if(nt_sibling_in_dispatch > 0, "sibling_disabled_during_the_dispatch_it_takes_part_in");
  info.nontrivial = raises > 0 && nt_two_loops_one_sig && nt_resubscribe_after_zero;
  return "";
}

SubDef def = [] {
  SubDef d; d.name = "signals";
  d.op_names = {"cfg", "new", "enable", "disable", "destroy", "raise", "batch", "burst", "reinit", "addsig"};
  d.op_arity = {7, 6, 1, 1, 1, 1, 9, 8, 3, 2};
  d.nt_rule = "history with a delivery that reaches subscribers in >= 2 loops and >= 1 unsubscribe-to-zero of a signal followed by a re-subscription of it";
  d.run = run;
#ifndef VERIF_ENGINE_FUZZ
  d.gen = [] {
    auto ev = range(0, kMaxEvents - 1);
    auto mask = rc::gen::weightedOneOf<int64_t>({{3, oneOfValues({1, 2, 4, 3})}, {2, range(1, 63)}});
    auto opg = rc::gen::weightedOneOf<Op>({
      {4, mkop(NEW, {range(0, kMaxLoops - 1), mask, range(0, 3), range(0, 9), range(0, kMaxEvents - 1), rc::gen::weightedOneOf<int64_t>({{6, range(0, 6)}, {1, rc::gen::just<int64_t>(7)}})})},
      {6, mkop(ENABLE, {ev})},
      {4, mkop(DISABLE, {ev})},
      {1, mkop(DESTROY, {ev})},
      {6, mkop(RAISE, {rc::gen::weightedOneOf<int64_t>({{3, range(0, 1)}, {1, range(0, kNSig - 1)}})})},
      {3, mkop(BATCH, {ev, ev, range(0, 1), ev, range(0, 1), ev, range(0, 1), ev, range(0, 1)})},
      {2, mkop(REINIT, {ev, mask, range(0, 3)})},
      {2, mkop(ADDSIG, {ev, rc::gen::weightedOneOf<int64_t>({{3, range(0, 1)}, {1, range(0, kNSig - 1)}})})},
      {2, mkop(BURST, {range(2, 7), range(0, 2), range(0, 2), range(0, 2), range(0, 2), range(0, 2), range(0, kNSig - 1), range(0, kNSig - 1)})},
    });
    auto cfg = mkop(CFG, {rc::gen::weightedOneOf<int64_t>({{1, rc::gen::just<int64_t>(1)}, {3, range(2, kMaxLoops)}}), range(0, 5), range(0, 5), range(0, 5), range(0, 5), range(0, 5), range(0, 5)});
    auto mk = mkop(NEW, {range(0, kMaxLoops - 1), mask, range(0, 3), range(0, 9), range(0, kMaxEvents - 1), rc::gen::weightedOneOf<int64_t>({{6, range(0, 6)}, {1, rc::gen::just<int64_t>(7)}})});
    auto en = mkop(ENABLE, {ev});
    return scenarioOf(fixedOps({cfg, mk, mk, mk, mk, en, en, en}), opsOf(opg));
  };
#endif
  return d;
}();
VERIF_REGISTER(&def);

// ---------------------------------------------------------------------------------------------------------------
// sub "many_loops": 1..48 loops (alternating back-ends) owned by ONE thread, one event per loop; a delivery must
// reach every loop that has an enabled subscriber, however many loops there are ("in every loop that has one").
// The loops are not run on threads: after raise() (thread-directed, so the handler has run when it returns) every
// loop gets two non-blocking passes.
enum { M_CFG, M_TOGGLE, M_RAISE, M_BADENABLE, M_NOPS };
std::string run_many(const Scenario &s, CaseInfo &info) {
  const int kSigs = 2;
  int nloops = 1, orig_kind = 1; unsigned masks_seed = 1; bool free_fd0 = false;
  for (auto &op : s.ops) if (op.code == M_CFG) { nloops = (int)op.in(0, 1, 48); orig_kind = (int)op.in(1, 1, 2); masks_seed = (unsigned)op.in(2, 1, 1 << 20); free_fd0 = op.in(3, 0, 3) == 3; }
  // a process started with stdin closed (a daemon): descriptor number 0 is free, so the first loop's notification pipe gets it
  // (number 0 is freed after the loops exist - their own epoll/event descriptors would take it otherwise - and before the first subscription)
  int saved_stdin = -1;
  struct sigaction pre[kSigs], orig[kSigs];
  for (int i = 0; i < kSigs; ++i) {
    g_sentinel_calls[i] = 0;
    struct sigaction sa; memset(&sa, 0, sizeof sa); sigemptyset(&sa.sa_mask);
    if (orig_kind == 1) sa.sa_handler = SIG_IGN; else sa.sa_handler = sentinel_plain;
    sigaction(sig_of(i), &sa, &pre[i]); sigaction(sig_of(i), nullptr, &orig[i]);
  }
  g_sentinel_bad = 0;
  struct L { Loop *loop = nullptr; SignalEvent *ev = nullptr; unsigned mask = 1; bool enabled = false; int calls[kSigs] = {0, 0}, expect[kSigs] = {0, 0}; int wrong = 0; };
  std::vector<L> ls(nloops);
  unsigned g = masks_seed;
  for (int l = 0; l < nloops; ++l) ls[l].loop = Loop::New(l % 2 ? "select" : "epoll");
  if (free_fd0) { saved_stdin = dup(0); if (saved_stdin >= 0) close(0); else free_fd0 = false; }
  for (int l = 0; l < nloops; ++l) {
    L &x = ls[l];
    g = g * 1664525u + 1013904223u; x.mask = 1 + (g >> 16) % 3;      // {S0}, {S1} or both
    x.ev = x.loop->newSignalEvent("c04m");
    std::set<int> ss; for (int i = 0; i < kSigs; ++i) if (x.mask >> i & 1) ss.insert(sig_of(i));
    x.ev->initialize(ss, tbox::event::Event::Mode::kPersist);
    L *xp = &x;
    x.ev->setCallback([xp](int signo) { bool f = false; for (int i = 0; i < 2; ++i) if (sig_of(i) == signo && (xp->mask >> i & 1)) { xp->calls[i]++; f = true; } if (!f) xp->wrong++; });
    g = g * 1664525u + 1013904223u;
    if ((g >> 16) % 8 != 0) { if (!x.ev->enable()) return "enable() returned false"; x.enabled = true; }
  }
  std::string err; char buf[300];
  int sentinel_expect[kSigs] = {0, 0}; int max_subs = 0, raises = 0, bad_enables = 0;
  auto pump = [&] { for (int r = 0; r < 2; ++r) for (auto &x : ls) { x.loop->runNext([] {}, "nop"); x.loop->runLoop(Loop::Mode::kOnce); } };
  auto subs_of = [&](int si) { int n = 0; for (auto &x : ls) if (x.enabled && (x.mask >> si & 1)) n++; return n; };
  for (size_t k = 0; k < s.ops.size() && err.empty(); ++k) {
    const Op &op = s.ops[k];
    if (op.code == M_TOGGLE) { L &x = ls[op.in(0, 0, nloops - 1)]; bool ok = x.enabled ? x.ev->disable() : x.ev->enable(); x.enabled = !x.enabled; if (!ok) err = "enable()/disable() returned false"; }
    else if (op.code == M_BADENABLE) {   // a subscription sigaction() refuses, made on this very thread: it must leave the thread able to take signals
      L &x = ls[op.in(0, 0, nloops - 1)]; SignalEvent *bad = x.loop->newSignalEvent("c04bad");
      bad->initialize(SIGKILL, tbox::event::Event::Mode::kPersist);
      if (bad->enable()) err = "enable() of an event on SIGKILL returned true";
      delete bad; bad_enables++;
    }
    else if (op.code == M_RAISE) {
      int si = (int)op.in(0, 0, kSigs - 1);
      int n = subs_of(si); max_subs = std::max(max_subs, n);
      for (auto &x : ls) if (x.enabled && (x.mask >> si & 1)) x.expect[si]++;
      if (orig_kind == 2) sentinel_expect[si]++;
      raise(sig_of(si)); raises++;
      pump();
      for (int l = 0; l < nloops && err.empty(); ++l) for (int i = 0; i < kSigs; ++i) if (ls[l].calls[i] != ls[l].expect[i]) {
        snprintf(buf, sizeof buf, "op %zu: after a delivery of signal #%d with %d loops subscribed (%d loops in all): the event of loop %d (%s, mask 0x%x, %s) has %d callbacks for signal #%d, expected %d", k, si, n, nloops, l, l % 2 ? "select" : "epoll", ls[l].mask, ls[l].enabled ? "enabled" : "disabled", ls[l].calls[i], i, ls[l].expect[i]); err = buf; break; }
      for (int i = 0; i < kSigs && err.empty(); ++i) if (g_sentinel_calls[i].load() != sentinel_expect[i]) { snprintf(buf, sizeof buf, "op %zu: the previously installed handler ran %d time(s) for signal #%d, expected %d", k, g_sentinel_calls[i].load(), i, sentinel_expect[i]); err = buf; }
    }
    for (int i = 0; i < kSigs && err.empty(); ++i) if (subs_of(i) == 0) { struct sigaction cur; sigaction(sig_of(i), nullptr, &cur); std::string why; if (!same_action(cur, orig[i], why)) { snprintf(buf, sizeof buf, "op %zu: nobody subscribes signal #%d but its disposition is not the original one: %s", k, i, why.c_str()); err = buf; } }
  }
  for (auto &x : ls) { if (x.wrong && err.empty()) err = "callback for a signal the event never subscribed"; delete x.ev; }
  for (int i = 0; i < kSigs && err.empty(); ++i) { struct sigaction cur; sigaction(sig_of(i), nullptr, &cur); std::string why; if (!same_action(cur, orig[i], why)) { snprintf(buf, sizeof buf, "after destroying all events: disposition of signal #%d is not the original one: %s", i, why.c_str()); err = buf; } }
  for (auto &x : ls) delete x.loop;
  for (int i = 0; i < kSigs; ++i) sigaction(sig_of(i), &pre[i], nullptr);
  if (saved_stdin >= 0) { dup2(saved_stdin, 0); close(saved_stdin); }
  if (!err.empty()) return err;
  info.cls_if(free_fd0, "descriptor_0_free_when_the_first_subscription_is_made");
  info.cls_if(bad_enables > 0, "refused_subscription_on_the_raising_thread");
  info.cls_if(max_subs > 16, "delivery_to_more_than_16_loops");
  info.cls_if(max_subs > 32, "delivery_to_more_than_32_loops");
  info.cls_if(max_subs >= 2 && max_subs <= 16, "delivery_to_2_16_loops");
  info.nontrivial = raises > 0 && max_subs >= 2;
  return "";
}

SubDef def_many = [] {
  SubDef d; d.name = "many_loops";
  d.op_names = {"cfg", "toggle", "raise", "badenable"};
  d.op_arity = {4, 1, 1, 1};
  d.nt_rule = "history with a delivery that reaches enabled subscribers in >= 2 loops";
  d.run = run_many;
#ifndef VERIF_ENGINE_FUZZ
  d.gen = [] {
    auto cfg = mkop(M_CFG, {rc::gen::weightedOneOf<int64_t>({{2, range(1, 8)}, {2, range(9, 24)}, {2, range(25, 48)}}), range(1, 2), range(1, 1 << 20), range(0, 3)});
    auto opg = rc::gen::weightedOneOf<Op>({
      {4, mkop(M_RAISE, {range(0, 1)})},
      {2, mkop(M_TOGGLE, {range(0, 47)})},
      {1, mkop(M_BADENABLE, {range(0, 47)})},
    });
    return scenarioOf(fixedOps({cfg, mkop(M_RAISE, {range(0, 1)})}), opsOf(opg));
  };
#endif
  return d;
}();
VERIF_REGISTER(&def_many);
}  // namespace
