TARGETS = {
    "c04_signals_asan":  {"src": "C04/signals.cpp", "variant": "asan",  "engine": "rc", "libs": ["event", "base"]},
    "c04_signals_plain": {"src": "C04/signals.cpp", "variant": "plain", "engine": "rc", "libs": ["event", "base"]},
}
PROP = {
    "subchecks": [
        {"target": "c04_signals_asan", "sub": "signals",
         "quick": {"cases": 3000, "max_size": 60, "workers": 6, "case_alarm": 60},
         "thorough": {"cases": 30000, "max_size": 100, "workers": 8, "case_alarm": 60}},
        {"target": "c04_signals_plain", "sub": "signals",
         "quick": {"cases": 3000, "max_size": 60, "workers": 6, "case_alarm": 60},
         "thorough": {"cases": 30000, "max_size": 100, "workers": 8, "case_alarm": 60}},
        {"target": "c04_signals_asan", "sub": "many_loops",
         "quick": {"cases": 2500, "max_size": 40, "workers": 2, "case_alarm": 60},
         "thorough": {"cases": 30000, "max_size": 80, "workers": 4, "case_alarm": 60}},
    ],
    "assumptions": ["signals are raised one at a time with kill(getpid(), S) and only while no subscription change is in progress (the statement's domain); callbacks may enable/disable their own event or disable one sibling event of the same loop (whose callback for that very delivery is then left free: the order in which a loop serves the subscribers of one signal is unspecified)",
                    "sub many_loops: 1-48 loops owned by one thread, signals raised with raise() (thread-directed), every loop then gets two non-blocking passes",
                    "subscription changes are issued on the owning loop's thread",
                    "a signal whose original disposition is SIG_DFL is raised only while it has a subscriber",
                    "each worker is a separate process and owns its process-wide signal dispositions; one scenario at a time per process",
                    "ThreadSanitizer is not used here: it defers asynchronous signal delivery, which would make 'one delivery -> one callback per subscriber' unobservable"],
}
META = {
    "design_ref": "DESIGN.md section 4, C04",
    "technique": "model-based stateful PBT (rapidcheck) with real signals and 1-3 loops on their own threads (plus sub many_loops: up to 48 loops with one subscriber each); model = signal -> enabled subscribers per loop; per-delivery exact callback counts, thread affinity, chained previous handler (sentinel), sigaction() compared with the saved original whenever a signal loses its last subscriber; ASan and plain builds; epoll and select",
    "level_text": "Generated histories of new/enable/disable/destroy on signal events (6 signals, several events per signal, persistent and one-shot, 1-3 loops each on its own thread) interleaved with deliveries raised one at a time; before each history every signal gets a generated original disposition (SIG_DFL, SIG_IGN, sa_handler sentinel, SA_SIGINFO sentinel, sentinel with sa_mask and SA_RESTART). After every delivery each modelled subscriber has exactly one more callback for that signal on its loop's thread, nobody else has any, the sentinel ran exactly once; whenever a signal's subscriber count drops to zero the kernel-reported disposition equals the original in handler, flags and mask. Exploration only. Later additions (seeding rounds): callbacks that enable/disable their own event or disable a sibling, bursts of deliveries while the loops are held busy, several subscription changes in one loop task, re-initialisation of an event object with another signal set, a signal added to an enabled event, subscriptions sigaction() refuses (SIGKILL in the set), original handlers with SA_RESETHAND, and the many_loops sub (1-48 loops owned by one thread, descriptor 0 free at the first subscription, refused subscription on the raising thread).",
    "level_note": "Trusted: the subscriber model, kill()/sigaction() semantics of Linux, the two-round-trip barrier per loop after each delivery (plus a 3 s settle bound for missing callbacks).",
}
