// C02 — timers never fire early, never skip a period, never fire after disable/destroy.
//
// sub `timers`               virtual clock (hook H1, vloop driver): generated histories on up to 12 TimerEvent objects
//                            (or eventx::TimerPool tasks in a third of the cases) on one loop, both back-ends;
//                            reference model + model-independent invariants, checked inside every callback and
//                            after every loop pass.
// sub `realtime_never_early` real steady_clock, no hook: asserts only "never early", so that the hook itself
//                            cannot mask an early fire.
// sub `wait_arg`             (wait_arg.h) one real loop pass per step with the kernel wait interposed: with a timer armed
//                            the loop must not ask the kernel for an unlimited sleep, nor for one beyond the deadline.
//
// Only public headers are used (Loop, TimerEvent, TimerPool) plus the hook symbol H1 (through vloop.h).
#define VERIF_MAIN
#include "../common/verif.h"
#include "../common/vloop.h"
#include <tbox/event/loop.h>
#include <tbox/event/timer_event.h>
#include <tbox/eventx/timer_pool.h>
#include <algorithm>
#include <memory>

using namespace verif;
using tbox::event::Event;
using tbox::event::Loop;
using tbox::event::TimerEvent;
using tbox::eventx::TimerPool;

namespace {

// ---------------------------------------------------------------------------------------------------------------
// sub `timers`
// ---------------------------------------------------------------------------------------------------------------
enum { CFG, NEW, INIT, ENABLE, DISABLE, DESTROY, ADV, CLEANUP, CANCEL_STALE, WORK, NOPS };
// callback script actions
enum { A_NONE, A_DIS_SELF, A_DIS_OTHER, A_EN_OTHER, A_REINIT_OTHER, A_DESTROY_OTHER, A_NEW, A_EN_SELF, A_REINIT_EN_OTHER, A_RESTART_OTHER, A_REINIT_SELF, A_CANCEL_STALE, A_CLEANUP, NACT };
// clock advance kinds
enum { ADV_0, ADV_1, ADV_NEXT_M1, ADV_NEXT, ADV_PERIODS, ADV_2P31, ADV_2P40, ADV_RAW, ADV_2P32M1, ADV_2P32, ADV_2P32P, NADV };

const int kMaxAlive = 12;          // timers alive at once
const int kMaxTotal = 64;          // timers created per case
const int kScript = 4;             // script entries per timer (firing number modulo 4)
const uint64_t kFireCap = 300;     // callbacks per loop pass after which every firing persistent timer disables itself
const int kGracePasses = 3;        // extra passes (clock unchanged) a due timer is given before it counts as missing
const int64_t kMaxInterval = (int64_t)1 << 41;   // ~69 years; everything in the harness is 64-bit arithmetic
const int64_t kOldMaxInterval = 10000000;
const uint64_t kStarts[] = {1000000, 1, (1ull << 31) - 3, (1ull << 32) - 3, 1ull << 52};
// "this callback takes x ms": the virtual clock moves on INSIDE a timer callback (index 6/7: the acting timer's own interval / +1)
const uint64_t kDawdle[] = {1, 2, 3, 7, 20, 90, 0, 0};
const int64_t kCbIntervals[] = {1, 2, 3, 10, 100, 1000, 65536, 10000000};   // intervals chosen by callback actions
// ... and their huge counterparts (script `extra` bits 5-9 all set): around 2^31, 2^32, 2^33, multiples, 2^40
const int64_t kCbHuge[] = {((int64_t)1 << 32) + 1, ((int64_t)1 << 32) + 3, (int64_t)1 << 32, ((int64_t)1 << 32) - 1, ((int64_t)1 << 31) + 2,
                           ((int64_t)1 << 33) + 5, 3 * ((int64_t)1 << 32) + 2, ((int64_t)1 << 40) + 7};

// "parked" timers: intervals of 2^62 ms and more, up to 2^63-1 = std::chrono::milliseconds::max().  The loop computes
// expired = now + interval in uint64 (no wrap for any int64 interval while now < 2^63) and never reaches such a deadline.
const int64_t kParkedMin = (int64_t)1 << 62;
const int64_t kParkedToSignedMax = ((int64_t)1 << 62) + 1;   // special value: interval = 2^63-1-now, i.e. deadline exactly 2^63-1
const uint64_t kFarAway = 1ull << 45;                        // deadlines further away than this are never advanced to

// integer argument: the value itself when it is inside [lo,hi] (friendly to hand-written replays), otherwise reduced
int64_t argIn(const Op &op, size_t i, int64_t lo, int64_t hi) {
  int64_t v = op.arg(i, lo);
  return (v >= lo && v <= hi) ? v : op.in(i, lo, hi);
}
// index into a list of n: v >= 0 counts from the front, v < 0 from the back (-1 = last)
size_t idxIn(int64_t v, size_t n) {
  if (n == 0) return 0;
  if (v >= 0) return (size_t)((uint64_t)v % n);
  return n - 1 - (size_t)((uint64_t)(-(v + 1)) % n);
}

// VERIF_C02_TRACE=1: print every operation and every callback to stderr (for reading replays; never changes behaviour)
bool traceOn() { static const bool on = getenv("VERIF_C02_TRACE") != nullptr; return on; }
#define C02_TRACE(...) do { if (traceOn()) { fprintf(stderr, "[c02] " __VA_ARGS__); fputc('\n', stderr); } } while (0)

struct Runaway {};
struct Ctx;   // thrown out of a timer callback when, after a recorded failure, the loop keeps invoking callbacks without end

struct T {
  int id = 0;
  // --- reference model (statement: enabled, deadline, interval, mode)
  bool alive = true, enabled = false, oneshot = false;
  uint64_t interval = 1, deadline = 0;
  // --- bookkeeping for the model-independent checks
  uint64_t t_enable = 0;    // virtual time of the enable() that is in force
  uint64_t fires = 0;       // callbacks since that enable()
  uint64_t total = 0;       // callbacks over the whole life (script index)
  const char *why = "created"; int why_by = -1; uint64_t why_at = 0;   // how it got into its present state (diagnosis only)
  bool ever_enabled = false;
  int last_pass = -1;       // pass number of the latest callback
  int64_t script[kScript] = {0, 0, 0, 0};
  bool in_cb = false;
  bool self_enabled_in_cb = false;   // enabled by its own callback that is still running
  // --- real side
  TimerEvent *ev = nullptr;          // direct mode
  TimerPool::TimerToken tok;         // pool mode
  int life = 0;                      // pool mode: number of TimerPool::cleanup() calls before the task was scheduled
};

struct Ctx {
  const Scenario &scn;
  CaseInfo &info;
  Loop *loop = nullptr;
  TimerPool *pool = nullptr;
  bool use_pool = false;
  std::unique_ptr<vloop::Clock> clk;
  std::vector<std::unique_ptr<T>> ts;   // by id, never shrinks
  std::string err;
  size_t ip = 0;
  int grace = 0, finale = 0;
  int cur_cb = -1;                      // id of the timer whose callback is running
  uint64_t pass_start = 0;              // clock value at the end of the latest driver step = when the loop pass began
  int life = 0;                         // pool mode: cleanup() calls so far (the SAME pool object is used on)
  bool not_running = false;             // operations are being issued before runLoop()
  uint64_t storm = 0;                   // callbacks seen after the first failure
  uint64_t pass_fires = 0, cb_total = 0; int pass_no = 0;
  uint64_t group_deadline = 0; int group_n = 0; std::vector<int> group_ids;
  // statistics
  int max_alive = 0;
  bool c_kill_due = false, c_late2 = false, c_group3 = false, c_cap = false, c_en_while_en = false, c_reinit_en = false,
       c_restart_oneshot_cb = false, c_destroy_cb = false, c_new_cb = false, c_restart_other_cb = false, c_huge = false,
       c_exact = false, c_minus1 = false, c_dis_self_persist = false, c_en_other_cb = false, c_oneshot_fired = false,
       c_persist_fired = false, c_grace = false, c_cleanup = false, c_reenable = false, c_same_pass_multi = false,
       c_heap_middle = false, c_reinit_self_cb = false,
       c_cleanup_cb = false, c_stale_old_life = false, c_stale_same_life = false, c_stale_cb = false, c_new_life_fired = false,
       c_cleanup_then_followup_cb = false, c_dawdle = false, c_enable_after_dawdle = false, c_due_within_pass = false, c_work = false,
       c_iv_ge_2p32 = false, c_iv_2p31_2p32 = false, c_huge_fired = false,
       c_parked = false, c_removed_next_to_parked = false,
       c_sequence = false, c_oneshot_self_en_dis = false, c_persist_self_en_dis = false;

  Ctx(const Scenario &s, CaseInfo &i) : scn(s), info(i) {}

  uint64_t now() const { return clk->now; }
  // interval argument: 1 .. 2^41 (reduced), or a parked value 2^62 .. 2^63-1 taken literally
  uint64_t ivArg(const Op &op, size_t i) const {
    int64_t v = op.arg(i, 1);
    if (v == kParkedToSignedMax) return (uint64_t)INT64_MAX - now();
    if (v >= kParkedMin) return (uint64_t)v;
    return (uint64_t)argIn(op, i, 1, kMaxInterval);
  }
  bool farAway(const T &x) const { return x.deadline > now() && x.deadline - now() > kFarAway; }
  void fail(const std::string &m) { if (err.empty()) err = m; }
  static std::string u(uint64_t v) { return std::to_string(v); }
  std::string desc(const T &x) const {
    return "timer " + std::to_string(x.id) + " (" + (x.oneshot ? "one-shot" : "persistent") + ", interval " + u(x.interval) + " ms" +
           (x.enabled ? ", enabled at " + u(x.t_enable) + ", " + u(x.fires) + " callbacks since, next deadline " + u(x.deadline) : ", not enabled") +
           "; last change: " + x.why + " by " + (x.why_by >= 0 ? "the callback of timer " + std::to_string(x.why_by) : std::string(x.why_by == -2 ? "the loop" : "an operation outside callbacks")) + " at " + u(x.why_at) + ")";
  }
  std::string who() const { return not_running ? std::string("an operation before runLoop()") : cur_cb >= 0 ? "the callback of timer " + std::to_string(cur_cb) + " at " + u(now()) : "an operation outside callbacks at " + u(now()); }
  void setWhy(T &x, const char *what) {
    x.why = what; x.why_by = cur_cb; x.why_at = now();
    C02_TRACE("t=%llu  timer %d (%s, %llu ms): %s%s", (unsigned long long)now(), x.id, x.oneshot ? "one-shot" : "persistent", (unsigned long long)x.interval, what,
              not_running ? "  [before runLoop()]" : cur_cb >= 0 ? ("  [in the callback of timer " + std::to_string(cur_cb) + "]").c_str() : "");
  }

  std::vector<T*> aliveList() const { std::vector<T*> v; for (auto &p : ts) if (p->alive) v.push_back(p.get()); return v; }
  int aliveCount() const { int n = 0; for (auto &p : ts) if (p->alive) ++n; return n; }
  // due in the loop pass that is running / has just run: the loop reads its clock once when the pass begins
  // (pass_start); a deadline that is reached only because the clock moves on during the pass belongs to the next pass
  bool isDue(const T &x) const { return x.alive && x.enabled && x.deadline <= pass_start; }

  // ---- operations: applied to the real object and to the model at once -----------------------------------------
  T *opNew(uint64_t interval, bool oneshot, const int64_t *script) {
    if (aliveCount() >= kMaxAlive || (int)ts.size() >= kMaxTotal) return nullptr;
    ts.emplace_back(new T);
    T *x = ts.back().get();
    x->id = (int)ts.size() - 1; x->interval = interval; x->oneshot = oneshot;
    for (int i = 0; i < kScript; ++i) x->script[i] = script ? script[i] : 0;
    int id = x->id; Ctx *self = this;
    if (use_pool) {
      // created enabled: doEvery/doAfter start the interval now
      x->enabled = true; x->t_enable = now(); x->deadline = now() + interval; x->fires = 0; x->life = life;
      if (cur_cb >= 0 && now() > pass_start) c_enable_after_dawdle = true;
      setWhy(*x, "created through TimerPool (enabled)"); x->ever_enabled = true;
      auto cb = [self, id] { self->onFire(id); };
      x->tok = oneshot ? pool->doAfter(std::chrono::milliseconds(interval), cb) : pool->doEvery(std::chrono::milliseconds(interval), cb);
    } else {
      setWhy(*x, "created and initialised");
      x->ev = loop->newTimerEvent("c02");
      x->ev->setCallback([self, id] { self->onFire(id); });
      x->ev->initialize(std::chrono::milliseconds(interval), oneshot ? Event::Mode::kOneshot : Event::Mode::kPersist);
    }
    max_alive = std::max(max_alive, aliveCount());
    noteInterval(interval);
    return x;
  }
  void noteInterval(uint64_t d) {
    if (d >= (uint64_t)kParkedMin) c_parked = true;
    if (d >= (1ull << 32)) c_iv_ge_2p32 = true;
    else if (d >= (1ull << 31)) c_iv_2p31_2p32 = true;
  }
  void opEnable(T &x) {   // direct mode only
    if (x.enabled) c_en_while_en = true;   // idempotent: the running interval is not restarted (see NOTES.md)
    else {
      if (x.ever_enabled) c_reenable = true;
      x.enabled = true; x.ever_enabled = true; x.t_enable = now(); x.deadline = now() + x.interval; x.fires = 0;
      if (cur_cb >= 0 && now() > pass_start) c_enable_after_dawdle = true;
      if (cur_cb == x.id) x.self_enabled_in_cb = true;
      setWhy(x, "enabled");
    }
    x.ev->enable();
  }
  void opDisable(T &x) {
    if (use_pool) { opDestroy(x); return; }
    if (x.enabled) { noteParkedNeighbour(x); noteKill(x); setWhy(x, "disabled"); if (cur_cb == x.id && x.self_enabled_in_cb) (x.oneshot ? c_oneshot_self_en_dis : c_persist_self_en_dis) = true; }
    x.enabled = false;
    x.ev->disable();
  }
  void opInit(T &x, uint64_t interval, bool oneshot) {   // direct mode only; initialize() leaves the timer disabled
    if (x.enabled) { noteParkedNeighbour(x); c_reinit_en = true; noteKill(x); if (cur_cb == x.id && x.self_enabled_in_cb) (x.oneshot ? c_oneshot_self_en_dis : c_persist_self_en_dis) = true; }
    x.enabled = false; x.interval = interval; x.oneshot = oneshot; noteInterval(interval);
    setWhy(x, "re-initialised (which disables)");
    x.ev->initialize(std::chrono::milliseconds(interval), oneshot ? Event::Mode::kOneshot : Event::Mode::kPersist);
  }
  void opDestroy(T &x) {
    if (x.in_cb && !use_pool) return;   // asserted precondition of ~TimerEventImpl: never inside its own callback
    if (x.enabled) { noteParkedNeighbour(x); noteKill(x); }
    x.alive = false; x.enabled = false;
    setWhy(x, use_pool ? "cancelled" : "destroyed");
    if (use_pool) {
      // cancel() with the task's OWN token while the task is pending.  (Inside a doAfter task's own callback the
      // answer is left free: the pool releases the token only after the callback has returned.)
      bool self_oneshot_cb = x.in_cb && x.oneshot;
      bool r = pool->cancel(x.tok);
      if (!r && !self_oneshot_cb) fail("TimerPool::cancel() with the own token of the pending " + desc(x) + " returned false");
    } else { delete x.ev; x.ev = nullptr; }
  }
  // TimerPool::cleanup() on the pool that stays in use: every pending task is cancelled; tokens of earlier lives are stale
  void opCleanup() {
    c_cleanup = true; if (cur_cb >= 0) c_cleanup_cb = true;
    for (auto &p : ts) if (p->alive) { if (p->enabled) noteKill(*p); p->alive = false; p->enabled = false; setWhy(*p, "cancelled by TimerPool::cleanup()"); }
    ++life;
    pool->cleanup();
  }
  // cancel() with the token of a task that is gone (cancelled, fired doAfter task, or swept by an earlier cleanup()):
  // the token addresses nothing - cancel() answers false and no pending task is touched (the model does not change,
  // so a task that is killed by it is reported as MISSING at its deadline at the latest)
  void opCancelStale(int64_t k) {
    std::vector<T*> dead;
    for (auto &p : ts) if (!p->alive && !p->in_cb && !p->tok.isNull()) dead.push_back(p.get());
    if (dead.empty()) return;
    T *y = dead[idxIn(k, dead.size())];
    (y->life < life ? c_stale_old_life : c_stale_same_life) = true;
    if (cur_cb >= 0) c_stale_cb = true;
    C02_TRACE("t=%llu  cancel() with the stale token of timer %d (life %d, now life %d)", (unsigned long long)now(), y->id, y->life, life);
    if (pool->cancel(y->tok))
      fail("TimerPool::cancel() with the stale token of " + desc(*y) + " (scheduled in life " + std::to_string(y->life) + " of the pool, now life " + std::to_string(life) +
           ") returned true, issued by " + who());
  }
  // an enabled timer leaves the loop while ANOTHER timer is armed with a deadline >= 2^63 (removal sentinel vs. parked deadline)
  void noteParkedNeighbour(const T &x) {
    for (auto &p : ts) if (p->alive && p->enabled && p.get() != &x && p->deadline >= (1ull << 63)) { c_removed_next_to_parked = true; return; }
  }
  void noteKill(const T &x) {
    if (!isDue(x)) return;
    if (cur_cb >= 0 && cur_cb != x.id) {
      c_kill_due = true;
      // was it somewhere in the middle of the pending set (not the next one to fire, not the last one)?
      int earlier = 0, later = 0;
      for (auto &p : ts) if (p->alive && p->enabled && p.get() != &x) { if (p->deadline < x.deadline) ++earlier; else if (p->deadline > x.deadline) ++later; }
      if (earlier && later) c_heap_middle = true;
    }
  }

  // isEnabled() of every live TimerEvent agrees with the model
  void checkEnabled(const char *after) {
    if (use_pool || !err.empty()) return;
    for (auto &p : ts) {
      if (!p->alive || !p->ev) continue;
      bool r = p->ev->isEnabled();
      if (r != p->enabled) { fail(std::string("after ") + after + " (" + who() + "): isEnabled() of " + desc(*p) + " returns " + (r ? "true" : "false")); return; }
    }
  }

  // ---- target selection for script actions ----------------------------------------------------------------------
  // pref 0: prefer timers that are due in this pass, pref 1: prefer disabled timers
  T *pickOther(const T &self, unsigned sel, int pref) {
    std::vector<T*> a, b, c;
    for (auto &p : ts) {
      if (!p->alive || p.get() == &self) continue;
      c.push_back(p.get());
      if (pref == 0) { if (isDue(*p)) a.push_back(p.get()); if (p->enabled) b.push_back(p.get()); }
      else { if (!p->enabled) a.push_back(p.get()); }
    }
    unsigned mode = sel & 3, k = sel >> 2;
    std::vector<T*> *l = (mode <= 1 && !a.empty()) ? &a : (mode == 2 && !b.empty()) ? &b : &c;
    if (l->empty()) return nullptr;
    return (*l)[k % l->size()];
  }

  // ---- the timer callback ------------------------------------------------------------------------------------------
  void onFire(int id) {
    T &x = *ts[id];
    ++cb_total; ++pass_fires;
    uint64_t n = now();
    bool ok = err.empty();
    if (ok) {
      if (cur_cb >= 0) fail("callback of timer " + std::to_string(id) + " invoked while the callback of timer " + std::to_string(cur_cb) + " is still running");
      else if (!x.alive) fail("callback invoked at " + u(n) + " for " + desc(x) + " which no longer exists");
      else if (!x.enabled) fail("callback invoked at " + u(n) + " for " + desc(x) + " which is disabled at that moment");
      else {
        // model: it must be one of the enabled timers with the smallest deadline, and that deadline must have been reached
        uint64_t mind = x.deadline; const T *m = &x;
        for (auto &p : ts) if (p->alive && p->enabled && p->deadline < mind) { mind = p->deadline; m = p.get(); }
        if (x.deadline > n) fail("EARLY: callback of " + desc(x) + " invoked at " + u(n) + ", before its deadline");
        else if (m != &x) fail("ORDER: callback of " + desc(x) + " invoked at " + u(n) + " although " + desc(*m) + " has an earlier deadline and has not been invoked yet");
        // independent of the model's deadline arithmetic: k-th callback not before t_enable + k*d
        else if (n < x.t_enable + (x.fires + 1) * x.interval) fail("EARLY: callback number " + u(x.fires + 1) + " of " + desc(x) + " invoked at " + u(n));
      }
      ok = err.empty();
    }
    if (!ok) {
      // keep the real loop finite after a failure: a persistent timer that is far behind would go on for ever
      if (x.alive && !x.oneshot) { if (use_pool) pool->cancel(x.tok); else if (x.ev) x.ev->disable(); x.enabled = false; }
      if (++storm > 5000) throw Runaway();   // the real loop does not stop invoking callbacks: abandon it (see go())
      return;
    }
    // statistics of the firing sequence
    if (group_n > 0 && x.deadline == group_deadline) { ++group_n; group_ids.push_back(id); } else { group_deadline = x.deadline; group_n = 1; group_ids.assign(1, id); }
    if (group_n >= 3) { std::vector<int> g = group_ids; std::sort(g.begin(), g.end()); if (std::unique(g.begin(), g.end()) - g.begin() >= 3) c_group3 = true; }
    if (!x.oneshot && n >= x.deadline + x.interval) c_late2 = true;
    if (!x.oneshot && x.last_pass == pass_no) c_same_pass_multi = true;
    x.last_pass = pass_no;
    (x.oneshot ? c_oneshot_fired : c_persist_fired) = true;
    if (x.interval >= (1ull << 31)) c_huge_fired = true;
    if (use_pool && x.life > 0) c_new_life_fired = true;
    C02_TRACE("t=%llu  CALLBACK timer %d (deadline %llu, callback %llu since enable at %llu)", (unsigned long long)n, id, (unsigned long long)x.deadline, (unsigned long long)x.fires + 1, (unsigned long long)x.t_enable);
    // model step
    ++x.fires; ++x.total;
    if (x.oneshot) { x.enabled = false; setWhy(x, "fired (a one-shot is disabled by firing)"); x.why_by = -2; }
    else x.deadline += x.interval;
    if (!use_pool) {
      bool r = x.ev->isEnabled();
      if (r != x.enabled) { fail("inside the callback of " + desc(x) + " at " + u(n) + ": isEnabled() returns " + (r ? "true" : "false")); return; }
    }
    cur_cb = id; x.in_cb = true; x.self_enabled_in_cb = false;
    int64_t sc = x.script[(x.total - 1) % kScript];
    if (!x.oneshot && pass_fires > kFireCap) { if (finale == 0) c_cap = true; sc = A_DIS_SELF; }
    action(x, sc);
    x.in_cb = false; cur_cb = -1;
    if (use_pool && x.oneshot && x.alive) { x.alive = false; setWhy(x, "released by TimerPool after its doAfter callback"); }
    checkEnabled("a timer callback");
  }

  void action(T &x, int64_t sc) {
    uint64_t us = sc < 0 ? (uint64_t)(-(sc + 1)) : (uint64_t)sc;
    int act = (int)((us & 15) % NACT);
    unsigned sel = (unsigned)((us >> 4) & 63);
    unsigned extra = (unsigned)((us >> 10) & 1023);
    uint64_t niv = (extra & 8) ? x.interval : (uint64_t)(((extra >> 5) & 31) == 31 ? kCbHuge : kCbIntervals)[extra & 7];   // bit 3: same interval as the acting timer; bits 5-9 all set: huge table
    if (((extra >> 5) & 31) == 29) niv = (extra & 1) ? (uint64_t)INT64_MAX : (uint64_t)INT64_MAX - (extra & 6);   // bits 5-9 = 11101: a parked timer (milliseconds::max() or a little less)
    bool nshot = (extra >> 4) & 1;
    unsigned pre = (unsigned)((us >> 20) & 15) % 9, post = (unsigned)((us >> 24) & 15) % 9;   // 0 = none, 1..8 = kDawdle index + 1
    if (pre) dawdle(x, pre - 1);
    act2(x, act, sel, extra, niv, nshot);
    // bits 28-39: up to three further steps of the SAME callback (a short sequence of actions on its own timer and on
    // others), applied one after the other at the virtual time of each step
    for (int i = 1; i <= 3 && err.empty(); ++i) {
      unsigned nib = (unsigned)((us >> (24 + 4 * i)) & 15);
      if (!nib) continue;
      c_sequence = true;
      unsigned sel_i = ((sel >> i) | (sel << (6 - i))) & 63, extra_i = (extra & ~7u) | ((extra + 3 * i) & 7);
      uint64_t niv_i = (extra_i & 8) ? x.interval : (uint64_t)(((extra_i >> 5) & 31) == 31 ? kCbHuge : kCbIntervals)[extra_i & 7];
      bool nshot_i = (i & 1) ? !nshot : nshot;
      switch (nib) {
        case 1: case 13: act2(x, A_EN_SELF, sel_i, extra_i, niv_i, nshot_i); break;
        case 2: case 14: act2(x, A_DIS_SELF, sel_i, extra_i, niv_i, nshot_i); break;
        case 3: case 15: act2(x, A_REINIT_SELF, sel_i & ~1u, extra_i, niv_i, nshot_i); break;   // initialize(new interval/mode), left disabled
        case 4: act2(x, A_REINIT_SELF, sel_i | 1u, extra_i, niv_i, nshot_i); break;               // initialize + enable
        case 5: act2(x, A_EN_OTHER, sel_i, extra_i, niv_i, nshot_i); break;
        case 6: act2(x, A_DIS_OTHER, sel_i, extra_i, niv_i, nshot_i); break;
        case 7: act2(x, A_REINIT_OTHER, sel_i, extra_i, niv_i, nshot_i); break;
        case 8: act2(x, A_RESTART_OTHER, sel_i, extra_i, niv_i, nshot_i); break;
        case 9: act2(x, A_DESTROY_OTHER, sel_i, extra_i, niv_i, nshot_i); break;
        case 10: act2(x, A_REINIT_EN_OTHER, sel_i, extra_i, niv_i, nshot_i); break;
        case 11: act2(x, A_NEW, sel_i, extra_i, niv_i, nshot_i); break;
        default: if (!use_pool) { opDisable(x); opEnable(x); } break;                               // 12: restart self
      }
    }
    if (post) dawdle(x, post - 1);
  }
  // the callback of x works for a while: the monotonic clock moves on inside the loop pass
  void dawdle(const T &x, unsigned i) {
    uint64_t d = i == 6 ? x.interval : i == 7 ? x.interval + 1 : kDawdle[i];
    if (d > 100000) d = 100000;
    clk->now += d; c_dawdle = true;
    C02_TRACE("t=%llu  the callback of timer %d took %llu ms", (unsigned long long)now(), x.id, (unsigned long long)d);
  }
  void act2(T &x, int act, unsigned sel, unsigned extra, uint64_t niv, bool nshot) {
    if (use_pool) {   // TimerPool offers only create and cancel
      switch (act) {
        case A_DIS_SELF: case A_REINIT_SELF: if (!x.alive) break; if (!x.oneshot) c_dis_self_persist = true; opDestroy(x); break;
        case A_DIS_OTHER: case A_DESTROY_OTHER: case A_RESTART_OTHER: if (T *y = pickOther(x, sel, 0)) { c_destroy_cb = true; opDestroy(*y); } break;
        case A_CANCEL_STALE: opCancelStale((int64_t)(sel >> 1) * ((sel & 1) ? -1 : 1) - (sel & 1)); break;   // sel even: from the oldest, odd: from the newest
        case A_CLEANUP:   // cleanup() from inside a task, optionally followed by follow-up tasks on the same pool
          opCleanup();
          for (unsigned i = 0; i < (sel & 3); ++i) { int64_t s2[kScript] = {x.script[1], x.script[2], x.script[3], 0}; if (opNew(i ? (uint64_t)kCbIntervals[(extra + i) & 7] : niv, i ? !nshot : nshot, s2)) { c_new_cb = true; c_cleanup_then_followup_cb = true; } }
          break;
        default: break;
      }
      if (act == A_NEW || act == A_EN_SELF || act == A_RESTART_OTHER || act == A_REINIT_SELF) {   // RESTART_OTHER / REINIT_SELF: cancel and create a replacement
        int64_t s2[kScript] = {x.script[1], x.script[2], x.script[3], 0};
        if (opNew(niv, nshot, s2)) c_new_cb = true;
      }
      return;
    }
    switch (act) {
      case A_DIS_SELF: if (!x.oneshot) c_dis_self_persist = true; opDisable(x); break;
      case A_DIS_OTHER: if (T *y = pickOther(x, sel, 0)) opDisable(*y); break;
      case A_EN_OTHER: if (T *y = pickOther(x, sel, 1)) { c_en_other_cb = true; opEnable(*y); } break;
      case A_REINIT_OTHER: if (T *y = pickOther(x, sel, 0)) opInit(*y, niv, nshot); break;
      case A_DESTROY_OTHER: if (T *y = pickOther(x, sel, 0)) { c_destroy_cb = true; opDestroy(*y); } break;
      case A_NEW: { int64_t s2[kScript] = {x.script[1], x.script[2], x.script[3], 0}; if (T *y = opNew(niv, nshot, s2)) { c_new_cb = true; opEnable(*y); } break; }
      case A_EN_SELF: if (x.oneshot) c_restart_oneshot_cb = true; opEnable(x); break;
      case A_REINIT_EN_OTHER: if (T *y = pickOther(x, sel, 0)) { opInit(*y, niv, nshot); opEnable(*y); } break;
      case A_RESTART_OTHER: if (T *y = pickOther(x, sel, 0)) { c_restart_other_cb = true; opDisable(*y); opEnable(*y); } break;
      case A_REINIT_SELF: c_reinit_self_cb = true; opInit(x, niv, nshot); if (sel & 1) opEnable(x); break;   // change own period/mode from the callback
      default: break;
    }
  }

  // ---- clock ---------------------------------------------------------------------------------------------------------
  uint64_t advance(const Op &op) {
    int kind = (int)argIn(op, 0, 0, NADV - 1);
    int64_t xr = op.arg(1, 0); uint64_t x = xr < 0 ? (uint64_t)(-(xr + 1)) : (uint64_t)xr;
    bool has = false; uint64_t nd = 0;
    std::vector<T*> pers;
    for (auto &p : ts) if (p->alive && p->enabled && !farAway(*p)) { if (!has || p->deadline < nd) nd = p->deadline; has = true; if (!p->oneshot) pers.push_back(p.get()); }
    uint64_t n = now();
    switch (kind) {
      case ADV_0: return 0;
      case ADV_1: return 1;
      // (a deadline may already lie behind the clock when the clock moved on inside the previous pass: advance by 0 then)
      case ADV_NEXT_M1: if (!has) return x % 50; if (nd > n) c_minus1 = true; return nd > n ? nd - n - 1 : 0;
      case ADV_NEXT: if (!has) return x % 50; c_exact = true; return nd > n ? nd - n : 0;
      case ADV_PERIODS: {
        if (pers.empty()) return has ? (nd > n ? nd - n : 0) + x % 7 : x % 50;
        T *p = pers[x % pers.size()];
        uint64_t k = 2 + (x >> 4) % 4, r;
        switch ((x >> 6) % 4) { case 0: r = 0; break; case 1: r = 1 % p->interval; break; case 2: r = p->interval - 1; break; default: r = p->interval / 2; }
        return (p->deadline > n ? p->deadline - n : 0) + (k - 1) * p->interval + r;
      }
      case ADV_2P31: if (has) c_huge = true; return 1ull << 31;
      case ADV_2P40: if (has) c_huge = true; return 1ull << 40;
      case ADV_2P32M1: if (has) c_huge = true; return (1ull << 32) - 1;
      case ADV_2P32: if (has) c_huge = true; return 1ull << 32;
      case ADV_2P32P: if (has) c_huge = true; return (1ull << 32) + 1 + x % 16;
      default: return x % 2000;
    }
  }

  // ---- one step of the driver task (inside the loop thread, outside any event callback) -----------------------------
  bool step(int) {
    bool more = step2();
    pass_start = clk->now;   // the loop pass that follows this driver step begins now
    return more;
  }
  bool step2() {
    if (!err.empty()) return false;
    uint64_t n = now();            // may be later than P when callbacks of the pass took time
    const uint64_t P = pass_start; // the clock when the pass that has just run began
    // (a) nothing missing: every enabled timer whose deadline had been reached when the pass began has been invoked
    //     by now.  (A deadline in (P, n] was reached only while the pass was running: that timer may fire in that
    //     pass or in the next one - nothing is demanded here, the next pass begins at >= n and then it counts.)
    //     The number of passes the loop needs is not asserted either: a due timer gets a few more passes with the
    //     clock unchanged before it counts as missing.
    for (auto &p : ts) if (isDue(*p)) {
      if (grace < kGracePasses) { ++grace; return true; }
      fail("MISSING: " + desc(*p) + " reached its deadline but was not invoked in the loop passes that began at " + u(P) + " (clock now " + u(n) + ")");
      return false;
    }
    for (auto &p : ts) if (p->alive && p->enabled && p->deadline <= n) c_due_within_pass = true;
    if (grace) c_grace = true;
    grace = 0;
    // (b) model-independent count: no period skipped (every period that had elapsed when the pass began, however late
    //     that was), nothing extra (never more than the periods elapsed by now).  With a clock that does not move inside
    //     the pass P == n and this is "exactly floor((now - t_enable) / interval) callbacks".
    for (auto &p : ts) if (p->alive && p->enabled) {
      uint64_t lo = P > p->t_enable ? (P - p->t_enable) / p->interval : 0, hi = (n - p->t_enable) / p->interval;
      if (p->oneshot) { if (lo >= 1) { fail("MISSING: one-shot " + desc(*p) + " was not invoked although the pass began at " + u(P) + " >= t_enable + interval"); return false; } }
      else if (p->fires < lo || p->fires > hi) { fail("COUNT: " + desc(*p) + " has been invoked " + u(p->fires) + " times; pass began at " + u(P) + ", clock now " + u(n) + ": expected between floor((P - t_enable) / interval) = " + u(lo) + " and floor((now - t_enable) / interval) = " + u(hi)); return false; }
    }
    pass_fires = 0; group_n = 0; ++pass_no;
    // (c) outside-callback operations up to the next clock advance
    if (applyOps()) return true;
    if (!err.empty()) return false;
    return finaleStep();
  }

  // applies the operations up to and including the next clock advance; true = advanced, false = out of operations or failed
  bool applyOps() {
    while (ip < scn.ops.size()) {
      const Op &op = scn.ops[ip++];
      std::vector<T*> al = aliveList();
      switch (op.code) {
        case NEW: {
          int64_t s[kScript]; for (int i = 0; i < kScript; ++i) s[i] = op.arg(2 + i, 0);
          opNew(ivArg(op, 0), argIn(op, 1, 0, 1) == 1, s);
          checkEnabled("new"); break; }
        case INIT:
          if (use_pool) { opNew(ivArg(op, 1), argIn(op, 2, 0, 1) == 1, nullptr); break; }
          if (al.empty()) break;
          opInit(*al[idxIn(op.arg(0), al.size())], ivArg(op, 1), argIn(op, 2, 0, 1) == 1);
          checkEnabled("initialize"); break;
        case ENABLE: if (use_pool || al.empty()) break; opEnable(*al[idxIn(op.arg(0), al.size())]); checkEnabled("enable"); break;
        case DISABLE: if (al.empty()) break; opDisable(*al[idxIn(op.arg(0), al.size())]); checkEnabled("disable"); break;
        case DESTROY: if (al.empty()) break; opDestroy(*al[idxIn(op.arg(0), al.size())]); checkEnabled("destroy"); break;
        case CLEANUP: if (use_pool) opCleanup(); break;
        case CANCEL_STALE: if (use_pool) opCancelStale(op.arg(0)); break;
        case WORK: { uint64_t d = (uint64_t)argIn(op, 0, 0, 200); clk->now += d; c_work = true; C02_TRACE("t=%llu  slow non-timer work: clock moved on by %llu (same driver step)", (unsigned long long)now(), (unsigned long long)d); break; }
        case ADV: { uint64_t d = advance(op); clk->now += d; C02_TRACE("t=%llu  clock advanced by %llu", (unsigned long long)now(), (unsigned long long)d); return true; }
        default: break;   // CFG after the first position: ignored
      }
      if (!err.empty()) return false;
    }
    return false;
  }

  bool finaleStep() {
    uint64_t n = now();
    // (d) finale: let what is pending fire once more, then disable everything, then destroy everything; the loop
    //     keeps running with the clock moving on — any callback now is a callback after disable/destroy
    switch (finale++) {
      case 0: { uint64_t maxd = n; for (auto &p : ts) if (p->alive && p->enabled && !farAway(*p)) maxd = std::max(maxd, p->deadline); clk->now = maxd; return true; }
      case 1: for (T *p : aliveList()) opDisable(*p); checkEnabled("disable (finale)"); clk->now += (1ull << 34) + 1; return true;
      case 2: for (T *p : aliveList()) opDestroy(*p); if (use_pool) pool->cleanup(); clk->now += (1ull << 35) + 1; return true;
      case 3: case 4: clk->now += 1; return true;
      default: return false;
    }
  }

  std::string go() {
    size_t first = 0; int backend = 0, start = 0; bool prestart = false;
    if (!scn.ops.empty() && scn.ops[0].code == CFG) {
      const Op &c = scn.ops[0];
      backend = (int)argIn(c, 0, 0, 1); use_pool = argIn(c, 1, 0, 2) == 2; start = (int)argIn(c, 2, 0, 4); prestart = argIn(c, 3, 0, 1) == 1; first = 1;
    }
    ip = first;
    loop = Loop::New(backend ? "select" : "epoll");
    if (!loop) return "Loop::New failed";
    clk.reset(new vloop::Clock(kStarts[start]));
    if (use_pool) pool = new TimerPool(loop);
    // set-up before runLoop(): the operations up to the first clock advance are issued while the loop is not running
    pass_start = clk->now;
    if (prestart) { not_running = true; applyOps(); not_running = false; checkEnabled("the operations before runLoop()"); }
    pass_start = clk->now;
    try {
      vloop::drive(loop, [this](int p) { return step(p); });
    } catch (const Runaway &) {
      // The loop is still inside its timer dispatch; it cannot be torn down safely.  Leak it (the failure is
      // already recorded, the process reports it and the leak is irrelevant).
      clk.reset();
      return err + "  [and the loop went on invoking timer callbacks more than 5000 times; loop abandoned]";
    }
    // teardown (after a failure some timers may still exist)
    for (auto &p : ts) if (p->alive && p->ev) { delete p->ev; p->ev = nullptr; }
    delete pool; pool = nullptr;
    loop->cleanup();
    delete loop; loop = nullptr;
    clk.reset();
    info.cls(backend ? "backend_select" : "backend_epoll");
    info.cls(use_pool ? "via_TimerPool" : "via_TimerEvent");
    info.cls_if(start != 0, "clock_start_boundary");
    info.cls_if(prestart, "setup_before_runLoop");
    info.cls_if(max_alive >= 3, "alive>=3");
    info.cls_if(max_alive >= 8, "alive>=8");
    info.cls_if(c_kill_due, "callback_disables_or_destroys_other_due_timer");
    info.cls_if(c_heap_middle, "callback_removes_due_timer_from_middle_of_pending_set");
    info.cls_if(c_late2, "late_pass_covers>=2_periods");
    info.cls_if(c_group3, ">=3_timers_share_a_deadline");
    info.cls_if(c_same_pass_multi, "persistent_fires_repeatedly_in_one_pass");
    info.cls_if(c_cap, "firing_cap_hit");
    info.cls_if(c_en_while_en, "enable_while_enabled");
    info.cls_if(c_reinit_en, "reinit_while_enabled");
    info.cls_if(c_reenable, "re-enable_after_disable_or_firing");
    info.cls_if(c_restart_oneshot_cb, "one-shot_re-enabled_in_own_callback");
    info.cls_if(c_dis_self_persist, "persistent_disables_or_cancels_self");
    info.cls_if(c_destroy_cb, "destroy_or_cancel_other_in_callback");
    info.cls_if(c_new_cb, "new_timer_in_callback");
    info.cls_if(c_en_other_cb, "enable_other_in_callback");
    info.cls_if(c_restart_other_cb, "restart_other_in_callback");
    info.cls_if(c_reinit_self_cb, "reinit_self_in_callback");
    info.cls_if(c_huge, "huge_jump_with_enabled_timers");
    info.cls_if(c_exact, "advance_exactly_to_deadline");
    info.cls_if(c_minus1, "advance_to_deadline-1");
    info.cls_if(c_oneshot_fired, "one-shot_fired");
    info.cls_if(c_persist_fired, "persistent_fired");
    info.cls_if(cb_total == 0, "no_callback_at_all");
    info.cls_if(cb_total >= 20, "callbacks>=20");
    info.cls_if(c_grace, "needed_extra_pass");
    info.cls_if(c_sequence, "callback_performs_a_sequence_of_actions");
    info.cls_if(c_oneshot_self_en_dis, "one-shot_enabled_then_disabled_or_reinitialised_in_its_own_callback");
    info.cls_if(c_persist_self_en_dis, "persistent_re-enabled_then_disabled_or_reinitialised_in_its_own_callback");
    info.cls_if(c_parked, "parked_timer_(interval>=2^62ms)");
    info.cls_if(c_removed_next_to_parked, "timer_disabled_or_destroyed_while_another_is_armed_with_deadline>=2^63");
    info.cls_if(c_iv_ge_2p32, "interval>=2^32ms");
    info.cls_if(c_iv_2p31_2p32, "interval_in_[2^31,2^32)ms");
    info.cls_if(c_huge_fired, "timer_with_interval>=2^31ms_fired");
    info.cls_if(c_dawdle, "callback_takes_time_(clock_moves_inside_pass)");
    info.cls_if(c_enable_after_dawdle, "enable_in_callback_after_clock_moved_inside_pass");
    info.cls_if(c_due_within_pass, "deadline_reached_only_while_pass_was_running");
    info.cls_if(c_work, "slow_work_between_operations");
    info.cls_if(c_cleanup, "pool_cleanup_mid_history");
    info.cls_if(c_cleanup_cb, "pool_cleanup_inside_callback");
    info.cls_if(c_cleanup_then_followup_cb, "pool_cleanup_then_followup_task_in_same_callback");
    info.cls_if(c_new_life_fired, "pool_task_of_a_later_life_fired");
    info.cls_if(c_stale_old_life, "pool_cancel_stale_token_of_earlier_life");
    info.cls_if(c_stale_same_life, "pool_cancel_stale_token_of_same_life");
    info.cls_if(c_stale_cb, "pool_cancel_stale_token_inside_callback");
    info.nontrivial = max_alive >= 3 && (c_kill_due || c_late2 || c_group3);
    return err;
  }
};

std::string run(const Scenario &s, CaseInfo &info) {
  Ctx c(s, info);
  return c.go();
}

#ifndef VERIF_ENGINE_FUZZ
// Seed-corpus writer (maintenance aid, off unless VERIF_C02_DUMP_DIR is set): stores non-trivial generated cases in
// the byte encoding understood by verif::default_decode, for corpus/C02/timers/.
void dumpSeed(const Scenario &s, const std::vector<int> &arity) {
  static const char *dir = getenv("VERIF_C02_DUMP_DIR");
  static int written = 0;
  if (!dir || written >= 48) return;
  std::string b;
  for (auto &op : s.ops) {
    b += (char)op.code;
    for (int k = 0; k < arity[op.code]; ++k) {
      int64_t v = op.arg(k);
      if (v >= 0 && v < 128) { b += (char)v; continue; }
      uint64_t uu = v < 0 ? 0 - (uint64_t)v : (uint64_t)v; int n = 1; while (n < 8 && (uu >> (8 * n))) ++n;
      b += (char)(0x80 | ((n - 1) << 4) | (v < 0 ? 1 : 0));
      for (int j = n - 1; j >= 0; --j) b += (char)(uu >> (8 * j));
    }
  }
  if (b.size() > 700) return;
  char name[600]; snprintf(name, sizeof name, "%s/gen-%016llx.bin", dir, (unsigned long long)fnv1a(b));
  write_file(name, b); ++written;
}

// Deterministic expansion of one 62-bit number (+ the rapidcheck size) into a scenario; see C16 for why.
Scenario expand(int64_t seed, int size) {
  uint64_t st = (uint64_t)seed * 0x9E3779B97F4A7C15ull + 0x2545F4914F6CDD1Dull;
  auto next = [&st]() -> uint64_t { uint64_t z = (st += 0x9E3779B97F4A7C15ull); z = (z ^ (z >> 30)) * 0xBF58476D1CE4E5B9ull; z = (z ^ (z >> 27)) * 0x94D049BB133111EBull; return z ^ (z >> 31); };
  auto rng = [&next](int64_t lo, int64_t hi) -> int64_t { return lo + (int64_t)(next() % (uint64_t)(hi - lo + 1)); };
  auto pick = [&rng](std::initializer_list<std::pair<int, int64_t>> w) -> int64_t {
    int total = 0; for (auto &p : w) total += p.first;
    int64_t x = rng(0, total - 1);
    for (auto &p : w) { if (x < p.first) return p.second; x -= p.first; }
    return 0;
  };
  Scenario sc; auto &v = sc.ops;
  auto mk = [&v](int code, std::vector<int64_t> a) { Op o; o.code = code; o.a = std::move(a); v.push_back(std::move(o)); };
  bool pool = rng(0, 2) == 2;
  mk(CFG, {rng(0, 1), pool ? 2 : rng(0, 1), pick({{8, 0}, {1, 1}, {1, 2}, {1, 3}, {1, 4}}), pick({{2, 0}, {1, 1}})});
  // interval palette: most timers of a case share 1-3 interval values, so equal deadlines are common
  int mag = (int)pick({{5, 0}, {3, 1}, {1, 2}, {2, 3}});
  auto fresh = [&](int m) -> int64_t {
    if (m == 3) m = (int)rng(0, 2);
    switch (m) {
      case 0: return pick({{3, 1}, {2, 2}, {2, 3}, {1, 4}, {1, 5}, {1, 7}, {1, 10}});
      case 1: return rng(0, 1) ? rng(10, 1000) : pick({{2, 10}, {1, 100}, {1, 1000}});
      default: return rng(0, 2) == 0 ? rng(100000, kOldMaxInterval) : pick({{1, 65536}, {1, 1000000}, {2, kOldMaxInterval}});
    }
  };
  // a fifth of the cases: a tail of huge intervals around 2^31, 2^32 (49.7 days), 2^33, multiples of 2^32, 2^40 ms, mostly
  // "boundary + a few ms" so that a truncated interval would come due within the first small clock advances
  bool hugecase = rng(0, 4) == 0;
  auto hugeIv = [&]() -> int64_t {
    const int64_t B31 = (int64_t)1 << 31, B32 = (int64_t)1 << 32;
    int64_t x = pick({{3, 1}, {2, 2}, {2, 3}, {1, 5}, {1, 10}, {1, 1000}});
    switch (pick({{2, 0}, {1, 1}, {2, 2}, {3, 3}, {3, 4}, {8, 5}, {3, 6}, {3, 7}, {2, 8}, {2, 9}, {1, 10}})) {
      case 0: return B31 - x; case 1: return B31; case 2: return B31 + x;
      case 3: return B32 - 1; case 4: return B32; case 5: return B32 + x;
      case 6: return 2 * B32 + x; case 7: return rng(2, 200) * B32 + x; case 8: return rng(2, 255) * B32;
      case 9: return ((int64_t)1 << 40) + x; default: return rng(B31, (int64_t)1 << 40);
    }
  };
  int npal = (int)rng(1, 3); int64_t pal[3];
  for (int i = 0; i < npal; ++i) pal[i] = fresh(mag);
  if (hugecase && rng(0, 1)) pal[rng(0, npal - 1)] = hugeIv();
  // a sixth of the cases: "parked" timers (milliseconds::max(), a little less, 2^63-1-now, 2^62), usually armed early
  bool parkcase = rng(0, 5) == 0; int parked_made = 0;
  auto iv = [&]() -> int64_t { if (parkcase && (parked_made == 0 || rng(0, 9) < 1)) { ++parked_made; return pick({{6, INT64_MAX}, {2, INT64_MAX - 1}, {1, INT64_MAX - rng(2, 1000)}, {2, kParkedToSignedMax}, {2, kParkedMin}, {1, kParkedMin + rng(2, 1000000)}}); }
    if (hugecase && rng(0, 9) < 3) return hugeIv(); return rng(0, 9) < 7 ? pal[rng(0, npal - 1)] : fresh(mag); };
  bool seqcase = rng(0, 2) == 0;    // a third of the cases: callbacks that perform a sequence of 2-4 actions
  bool slowcase = rng(0, 2) == 0;   // a third of the cases: callbacks that take time (the clock moves on inside a loop pass)
  auto script = [&]() -> int64_t {
    int64_t act = pick({{8, A_NONE}, {2, A_DIS_SELF}, {4, A_DIS_OTHER}, {2, A_EN_OTHER}, {2, A_REINIT_OTHER}, {3, A_DESTROY_OTHER}, {2, A_NEW}, {2, A_EN_SELF}, {2, A_REINIT_EN_OTHER}, {2, A_RESTART_OTHER}, {2, A_REINIT_SELF}, {pool ? 2 : 0, A_CANCEL_STALE}, {pool ? 1 : 0, A_CLEANUP}});
    int64_t slow = 0;   // bits 20-23: the callback takes time before its action, bits 24-27: after it
    if (slowcase && rng(0, 1)) slow = (rng(0, 2) ? rng(1, 8) : 0) * (1 << 20) + (rng(0, 2) == 0 ? rng(1, 8) : 0) * (1 << 24);
    int64_t steps = 0;   // bits 28-39: further steps of the same callback
    if (seqcase && rng(0, 9) < 6) {
      if (rng(0, 9) < 4) act = pick({{3, A_EN_SELF}, {2, A_REINIT_SELF}, {1, A_DIS_SELF}});   // sequences that start on the own timer
      int ns = (int)pick({{3, 1}, {2, 2}, {1, 3}});
      for (int i = 0; i < ns; ++i) steps |= pick({{4, 1}, {5, 2}, {4, 3}, {4, 4}, {2, 5}, {2, 6}, {2, 7}, {1, 8}, {1, 9}, {1, 10}, {1, 11}, {2, 12}}) << (28 + 4 * i);
    }
    if (act == A_NONE && !slow && !steps) return 0;
    int64_t extra = rng(0, 1023);
    if (((extra >> 5) & 31) == 31 || ((extra >> 5) & 31) == 29) extra &= ~(1 << 9);   // the special interval patterns only on purpose:
    if (hugecase && rng(0, 9) < 3) extra |= 31 << 5;                                     // huge callback intervals only in huge cases
    else if (parkcase && rng(0, 9) < 1) extra = (extra & ~(31 << 5)) | (29 << 5);        // parked callback intervals only in park cases
    return act + 16 * rng(0, 63) + 1024 * extra + slow + steps;
  };
  bool quiet = rng(0, 5) == 0;   // a sixth of the cases: no scripts at all (pure outside-callback histories)
  auto mkNew = [&]() { mk(NEW, {iv(), pick({{3, 0}, {2, 1}}), quiet ? 0 : script(), quiet ? 0 : script(), quiet ? 0 : script(), quiet ? 0 : script()}); };
  auto advOp = [&]() {
    int64_t kind = pick({{4, ADV_0}, {6, ADV_1}, {10, ADV_NEXT_M1}, {24, ADV_NEXT}, {16, ADV_PERIODS}, {1, ADV_2P31}, {1, ADV_2P40}, {6, ADV_RAW}, {hugecase ? 1 : 0, ADV_2P32M1}, {hugecase ? 1 : 0, ADV_2P32}, {hugecase ? 1 : 0, ADV_2P32P}});
    mk(ADV, {kind, rng(0, 4095)});
  };
  int n0 = (int)rng(3, 9);
  for (int i = 0; i < n0; ++i) mkNew();
  if (!pool) for (int i = 0; i < n0; ++i) if (rng(0, 9) < 8) mk(ENABLE, {i});
  int len = 10 + size; int nops = (int)rng(len / 3, len);
  while ((int)v.size() < nops) {
    switch (pick({{30, ADV}, {pool ? 0 : 14, ENABLE}, {7, DISABLE}, {4, DESTROY}, {7, NEW}, {pool ? 2 : 6, INIT}, {pool ? 2 : 0, CLEANUP}, {pool ? 3 : 0, CANCEL_STALE}, {slowcase ? 3 : 0, WORK}})) {
      case ADV: advOp(); break;
      case ENABLE: mk(ENABLE, {rng(-3, 11)}); break;
      case DISABLE: mk(DISABLE, {rng(-3, 11)}); if (!pool && rng(0, 2) == 0) mk(ENABLE, {v.back().a[0]}); break;   // disable + re-enable: fresh interval
      case DESTROY: mk(DESTROY, {rng(-3, 11)}); break;
      case NEW: mkNew(); if (!pool && rng(0, 9) < 8) mk(ENABLE, {-1}); break;
      case INIT: { int64_t t = rng(-3, 11); mk(INIT, {t, iv(), pick({{3, 0}, {2, 1}})}); if (!pool && rng(0, 9) < 7) mk(ENABLE, {t}); break; }
      case CLEANUP: {   // the pool lives on: new tasks on the same pool, then (often) tokens of the earlier life are used again
        mk(CLEANUP, {});
        int nn = (int)rng(1, 5); for (int i = 0; i < nn; ++i) mkNew();
        if (rng(0, 9) < 7) { int nc = (int)rng(1, 3); for (int i = 0; i < nc; ++i) mk(CANCEL_STALE, {rng(0, 9) < 7 ? rng(0, 7) : rng(-4, 40)}); }
        if (rng(0, 1)) advOp();
        break; }
      case WORK: mk(WORK, {pick({{3, 1}, {2, 5}, {2, 30}, {1, 90}})}); break;
      case CANCEL_STALE: mk(CANCEL_STALE, {rng(0, 2) ? rng(0, 9) : rng(-6, 40)}); break;
    }
  }
  return sc;
}
#endif

SubDef def = [] {
  SubDef d; d.name = "timers";
  d.op_names = {"cfg", "new", "init", "enable", "disable", "destroy", "adv", "cleanup", "cancelstale", "work"};
  d.op_arity = {4, 6, 3, 1, 1, 1, 2, 0, 1, 1};
  d.nt_rule = ">= 3 timers alive at once and (a callback disabled/re-initialised/destroyed a DIFFERENT timer that was due in the same pass, "
              "or a persistent timer was served by a pass that was >= 2 of its periods late, or >= 3 distinct timers fired on one shared deadline)";
#ifndef VERIF_ENGINE_FUZZ
  std::vector<int> arity = d.op_arity;
  d.run = [arity](const Scenario &s, CaseInfo &info) { std::string e = run(s, info); if (e.empty() && info.nontrivial) dumpSeed(s, arity); return e; };
  d.gen = [] {
    auto base = rc::gen::withSize([](int size) {
      return rc::gen::map(rc::gen::noShrink(range(0, (int64_t)1 << 62)), [size](int64_t seed) { return expand(seed, size); });
    });
    // shrinking on the op list itself (every op list is a valid scenario): drop chunks / single ops, then zero arguments
    return rc::gen::shrink(base, [](const Scenario &s) {
      std::vector<Scenario> out;
      size_t n = s.ops.size();
      for (size_t chunk = n / 2; chunk >= 1; chunk /= 2) {
        for (size_t at = 0; at + chunk <= n; at += chunk) {
          Scenario t; t.ops.reserve(n - chunk);
          for (size_t i = 0; i < n; ++i) if (i < at || i >= at + chunk) t.ops.push_back(s.ops[i]);
          out.push_back(std::move(t));
        }
        if (chunk == 1) break;
      }
      for (size_t i = 0; i < n; ++i)
        for (size_t k = 0; k < s.ops[i].a.size(); ++k)
          if (s.ops[i].a[k] != 0) { Scenario t = s; t.ops[i].a[k] = 0; out.push_back(std::move(t)); }
      return rc::seq::fromContainer(std::move(out));
    });
  };
#else
  d.run = run;
#endif
  return d;
}();
VERIF_REGISTER(&def);

// ---------------------------------------------------------------------------------------------------------------
// sub `realtime_never_early`: real steady_clock, hook not installed.  Only "never early" is asserted:
// the k-th callback after an enable() is not before ms(before that enable()) + k * interval, where ms() is the
// steady clock truncated to milliseconds exactly as the loop reads it.  (The harness reads the clock BEFORE calling
// enable() and AFTER entering the callback, so the inequality holds for every correct implementation whatever
// the machine load is.)
// ---------------------------------------------------------------------------------------------------------------
enum { RCFG, RTM };

int64_t realMs() { return std::chrono::duration_cast<std::chrono::milliseconds>(std::chrono::steady_clock::now().time_since_epoch()).count(); }

std::string run_rt(const Scenario &s, CaseInfo &info) {
  tbox::event::verif_steady_ms_hook = nullptr;
  struct R { TimerEvent *ev = nullptr; int64_t d = 1; bool oneshot = false; int act = 0; int64_t t_en = 0; int64_t k = 0; int total = 0; };
  int backend = 0; int64_t run_ms = 25;
  std::vector<R> rs;
  for (auto &op : s.ops) {
    if (op.code == RCFG) { backend = (int)argIn(op, 0, 0, 1); run_ms = argIn(op, 1, 10, 45); }
    else if (op.code == RTM && rs.size() < 3) { R r; r.d = argIn(op, 0, 1, 15); r.oneshot = argIn(op, 1, 0, 1) == 1; r.act = (int)argIn(op, 2, 0, 3); rs.push_back(r); }
  }
  if (rs.empty()) return "";
  Loop *loop = Loop::New(backend ? "select" : "epoll");
  if (!loop) return "Loop::New failed";
  std::string err;
  auto enable = [&rs](size_t i) { rs[i].t_en = realMs(); rs[i].k = 0; rs[i].ev->enable(); };
  for (size_t i = 0; i < rs.size(); ++i) {
    rs[i].ev = loop->newTimerEvent("c02rt");
    rs[i].ev->initialize(std::chrono::milliseconds(rs[i].d), rs[i].oneshot ? Event::Mode::kOneshot : Event::Mode::kPersist);
    rs[i].ev->setCallback([&rs, &err, &enable, i] {
      int64_t n = realMs();
      R &r = rs[i];
      ++r.k; ++r.total;
      if (n < r.t_en + r.k * r.d && err.empty())
        err = "EARLY (real clock): callback number " + std::to_string(r.k) + " of timer " + std::to_string(i) + " (interval " + std::to_string(r.d) + " ms, " + (r.oneshot ? "one-shot" : "persistent") +
              ") at steady ms " + std::to_string(n) + ", enabled not before " + std::to_string(r.t_en);
      switch (r.act) {
        case 1: if (r.total >= 2) r.ev->disable(); break;
        case 2: if (r.total == 1 && rs.size() > 1) { size_t o = (i + 1) % rs.size(); rs[o].ev->disable(); enable(o); } break;   // restart the next timer: fresh full interval
        case 3: if (r.oneshot && r.total < 4) enable(i); break;
        default: break;
      }
    });
  }
  for (size_t i = 0; i < rs.size(); ++i) enable(i);
  loop->exitLoop(std::chrono::milliseconds(run_ms));
  loop->runLoop();
  int fired = 0; bool adjacent = false;
  for (size_t i = 0; i < rs.size(); ++i) { if (rs[i].total > 0) ++fired; for (size_t j = 0; j < rs.size(); ++j) if (rs[j].d == rs[i].d + 1) adjacent = true; delete rs[i].ev; }
  loop->cleanup();
  delete loop;
  info.cls(backend ? "backend_select" : "backend_epoll");
  info.cls_if(adjacent, "deadlines_1ms_apart");
  info.cls_if(fired == 0, "nothing_fired");
  info.nontrivial = rs.size() >= 3 && fired >= 3;
  return err;
}

SubDef def_rt = [] {
  SubDef d; d.name = "realtime_never_early";
  d.op_names = {"rcfg", "rtm"};
  d.op_arity = {2, 3};
  d.nt_rule = "3 timers on the real clock and each of them was invoked at least once";
  d.run = run_rt;
#ifndef VERIF_ENGINE_FUZZ
  d.gen = [] {
    // three timers, mostly with intervals 1 ms apart (a wake-up for one deadline is then 1 ms before the next one)
    auto trio = rc::gen::apply([](int64_t b, int64_t shape, int64_t m0, int64_t m1, int64_t m2, int64_t a0, int64_t a1, int64_t a2, int64_t be, int64_t len) {
      Scenario sc; auto mk = [&sc](int code, std::vector<int64_t> a) { Op o; o.code = code; o.a = std::move(a); sc.ops.push_back(std::move(o)); };
      mk(RCFG, {be, len});
      int64_t d1 = shape == 0 ? b : shape == 1 ? b + 1 : b + 1, d2 = shape == 0 ? b : shape == 1 ? b + 2 : b + 3;
      mk(RTM, {b, m0, a0}); mk(RTM, {d1, m1, a1}); mk(RTM, {d2, m2, a2});
      return sc;
    }, range(1, 10), range(0, 3), range(0, 1), range(0, 1), range(0, 1), range(0, 3), range(0, 3), range(0, 3), range(0, 1), range(15, 40));
    return trio;
  };
#endif
  return d;
}();
VERIF_REGISTER(&def_rt);

}  // namespace

// sub `wait_arg`: the timeout the loop hands to the kernel while timers are armed (interposed epoll_wait / select)
#include "wait_arg.h"
