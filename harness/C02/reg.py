TARGETS = {
    "c02_timers_rc":   {"src": "C02/timers.cpp", "variant": "asan", "engine": "rc",   "libs": ["eventx", "event", "base"]},
    "c02_timers_fuzz": {"src": "C02/timers.cpp", "variant": "asan", "engine": "fuzz", "libs": ["eventx", "event", "base"]},
}
PROP = {
    "subchecks": [
        # virtual clock (hook H1): ~2 000 cases/s/worker at max_size 50, ~500 cases/s/worker at max_size 290 on an idle core.
        # case_alarm: a timer that never stops firing is turned into a failure by the harness itself (see Runaway in
        # timers.cpp); the watchdog only backs that up for loops the harness cannot see.
        {"target": "c02_timers_rc", "sub": "timers",
         "quick": {"cases": 20000, "max_size": 50, "workers": 8, "case_alarm": 60},
         "thorough": {"cases": 150000, "max_size": 290, "workers": 12, "case_alarm": 60}},
        # real steady_clock, hook not installed; ~30 ms of real time per case
        {"target": "c02_timers_rc", "sub": "realtime_never_early",
         "quick": {"cases": 200, "max_size": 50, "workers": 3},
         "thorough": {"cases": 2500, "max_size": 50, "workers": 4}},
        # kernel wait argument (epoll_wait / select interposed by the harness executable), one real loop pass per step
        {"target": "c02_timers_rc", "sub": "wait_arg",
         "quick": {"cases": 5000, "max_size": 50, "workers": 3, "case_alarm": 60},
         "thorough": {"cases": 150000, "max_size": 50, "workers": 4, "case_alarm": 60}},
        # same op-stream under libFuzzer (default byte decoder, seed corpus corpus/C02/timers on the even workers)
        {"target": "c02_timers_fuzz", "sub": "timers",
         "quick": {"runs": 25000, "max_len": 600, "workers": 3, "unit_timeout": 60},
         "thorough": {"runs": 400000, "max_len": 1000, "workers": 4, "unit_timeout": 60}},
    ],
    "assumptions": [
        "intervals are 1 ms .. 2^41 ms plus parked timers of 2^62 .. 2^63-1 ms (milliseconds::max()), with a generated tail around 2^31, 2^32, 2^33, multiples of 2^32 and 2^40 ms (the statement's d >= 1 ms; an interval of 0 is outside the domain)",
        "a TimerEvent is never destroyed inside its own callback (asserted precondition of ~TimerEventImpl); every other operation is also issued from inside callbacks",
        "enable() on a timer that is already enabled is taken to be idempotent: it does not restart the running interval (Event::enable() returns true and does nothing, as in the other event kinds); 'enabled at time t' is the enable() that took the timer from disabled to enabled",
        "initialize() on an enabled timer disables it (the implementation documents this by calling disable() first); the new interval/mode apply from the next enable()",
        "a due timer counts as missing only after 3 further loop passes with the clock unchanged (the number of passes between cause and effect is not asserted; on the present code no case ever needs an extra pass)",
        "a timer whose deadline equals the loop's clock is due (deadline <= now), as getWaitTime() makes the loop wake exactly at the deadline",
        "after more than 300 callbacks in one loop pass every persistent timer that fires disables (cancels) itself in its callback, in the model and in the real code alike; this bounds 2^31/2^40 ms jumps over 1 ms timers",
        "TimerPool: one pool object is used across cleanup() calls (from outside and from inside task callbacks); a token whose task is gone (cancelled, fired doAfter task, swept by an earlier cleanup()) is stale: cancel() with it must answer false and must not touch any pending task; cancel() with the own token of a pending task must answer true (left free only inside that doAfter task's own callback, where the pool has not released the token yet); doAt() is not used (wall clock)",
        "the clock may move on inside a loop pass (callbacks that take time): t_enable is the clock at the enable() call; after a pass only deadlines that had been reached when the pass began (the loop reads its clock once per pass) must have been served, a deadline reached while the pass was running may be served in that pass or the next; deadline order is required among all enabled timers at every callback",
        "wait_arg: epoll_wait / epoll_pwait / select are interposed by the harness executable (recorded, forwarded with a zero timeout while a pass of that sub runs); with a timer armed the wait must be finite and not longer than the distance to the nearest deadline; passes with a runInLoop task pending are left free; an unlimited wait on an idle loop is expected but not demanded; a zero wait with nothing due is only counted (busy loop)",
        "all operations are issued on the loop thread (before runLoop() or inside the loop); the real sleep length of epoll_wait/select is not observable under the virtual clock",
        "realtime_never_early: times are compared in whole milliseconds of steady_clock exactly as the loop reads it (read before enable() and after entering the callback), so the check is independent of machine load",
    ],
}
META = {
    "design_ref": "DESIGN.md section 4, C02",
    "technique": "kernel-wait interposition (epoll_wait/select defined by the harness executable) + model-based stateful PBT (rapidcheck) + coverage-guided fuzzing (libFuzzer) of generated timer histories dispatched by the production loop in virtual time (hook H1), checked inside every callback and after every loop pass against a reference model of the statement and against model-independent invariants, under ASan/UBSan with pool poisoning (H3); plus a real-clock never-early sub-check without the hook",
    "level_text": "Generated histories on up to 12 live TimerEvent objects (64 per history) of one loop, on both back-ends (epoll, select), a third of them through one eventx::TimerPool object (doEvery/doAfter/cancel with own and with stale tokens, cleanup() from outside and from inside task callbacks with the pool used on afterwards): operations outside callbacks (create, initialize / re-initialize while enabled, enable, enable twice, disable, destroy, before runLoop() or inside the running loop) slow non-timer work between operations, callbacks that take 1..90 ms or a whole interval before and/or after their action (the virtual clock moves inside the loop pass), interleaved with virtual-clock advances (0, 1, to the next deadline minus 1, exactly to the next deadline, k periods + r of a persistent timer, 2^31, 2^32-1, 2^32, 2^32+x, 2^40; clock origins 1, 10^6, 2^31-3, 2^32-3, 2^52) and per-timer callback scripts indexed by firing number, each a single action or a sequence of up to 4 actions on the own timer and on others (disable/cancel self, disable / enable / re-initialize / re-initialize+enable / restart / destroy another timer with a bias to timers that are due in the same pass, re-initialize self with a new period or mode, re-enable a one-shot from its own callback, create and enable a brand-new timer). Inside every callback the harness checks that the timer exists, is enabled, has reached its deadline and holds the smallest deadline of all enabled timers (sequence of groups of equal deadline, order inside a group free), that the k-th callback is not before t_enable + k*d, and isEnabled() (false inside a one-shot's callback); after every pass that no enabled timer is left whose deadline had been reached when the pass began and that every enabled persistent timer has been invoked between floor((pass_start - t_enable)/d) and floor((now - t_enable)/d) times (equal unless a callback took time); after every operation that isEnabled() of every live timer agrees with the model; at the end everything pending is served, everything is disabled, then destroyed, and the loop keeps running 2^34+2^35 ms further without any callback. Use-after-free of pooled timer records or destroyed events is reported by ASan. A third sub-check (wait_arg) runs one real loop pass per step with epoll_wait/select interposed and checks the timeout handed to the kernel for generated sets of armed/disabled timers (intervals incl. the 2^31/2^32 tails), pending runNext/runInLoop work and clock positions relative to the nearest deadline: finite while a timer is armed, never beyond the nearest deadline. A second sub-check runs 3 timers (intervals mostly 1 ms apart, restart/disable scripts) on the real steady_clock without the hook and asserts only 'never early'. Exploration only: no counter-example among N generated histories.",
    "level_note": "Trusted: the reference model in harness/C02/timers.cpp (a handful of lines per operation, written from the statement), the virtual clock hook H1 (cross-checked by the real-clock sub-check for the never-early direction), ASan/UBSan. Not asserted: order inside a group of equal deadlines, the number of loop passes between deadline and callback (up to 3 extra passes tolerated, never needed), return values of enable/disable/initialize/cancel, real sleep lengths. Bounds: intervals 1..2^41 ms, <= 12 live timers, <= 300 operations per history, firing storms cut off after 300 callbacks per pass by self-disabling callbacks.",
}
