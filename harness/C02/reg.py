TARGETS = {
    "c02_timers_rc":   {"src": "C02/timers.cpp", "variant": "asan", "engine": "rc",   "libs": ["eventx", "event", "base"]},
    "c02_timers_fuzz": {"src": "C02/timers.cpp", "variant": "asan", "engine": "fuzz", "libs": ["eventx", "event", "base"]},
}
PROP = {
    "subchecks": [
        {"target": "c02_timers_rc", "sub": "timers",
         "quick": {"cases": 20000, "max_size": 50, "workers": 8, "case_alarm": 60},
         "thorough": {"cases": 150000, "max_size": 290, "workers": 12, "case_alarm": 60}},
        {"target": "c02_timers_rc", "sub": "realtime_never_early",
         "quick": {"cases": 200, "max_size": 50, "workers": 3},
         "thorough": {"cases": 2500, "max_size": 50, "workers": 4}},
        {"target": "c02_timers_fuzz", "sub": "timers",
         "quick": {"runs": 25000, "max_len": 600, "workers": 3, "unit_timeout": 60},
         "thorough": {"runs": 1000000, "max_len": 1500, "workers": 4, "unit_timeout": 60}},
    ],
    "assumptions": [],
}
META = {"design_ref": "DESIGN.md section 4, C02", "technique": "", "level_text": "", "level_note": ""}
