// C02 sub `wait_arg` — how long does the loop ask the kernel to sleep while timers are armed?
//
// The virtual-clock driver of sub `timers` keeps a task pending in every pass, so the loop never really sleeps and a
// wrong sleep length is invisible there.  But a timer is only invoked if the loop wakes up for it: on an otherwise idle
// loop a wait that is infinite although a timer is armed means that this timer is never invoked ("invokes its callback
// exactly once" is violated by zero invocations).  This sub runs ONE real loop pass per step (runLoop(kOnce), virtual
// clock through hook H1) and looks at the timeout the back-end hands to the kernel: the harness executable defines
// epoll_wait / epoll_pwait / select itself (these definitions take precedence over libc's for the statically linked
// tbox libraries), records the argument while a pass of this sub is running and forwards to the real call — with a zero
// timeout while recording, unchanged otherwise (the other subs of this binary are not affected).
//
// Included at the end of timers.cpp (same translation unit; uses argIn / idxIn from there).
#pragma once
#include <dlfcn.h>
#include <sys/epoll.h>
#include <sys/select.h>
#include <climits>

namespace c02wait {
struct Rec {
  const char *call;      // "epoll_wait" | "epoll_pwait" | "select"
  bool infinite;         // epoll: timeout < 0; select: NULL timeval
  bool bad_field;        // select: a negative timeval field
  long long raw_a, raw_b;// epoll: timeout ms, 0; select: tv_sec, tv_usec
  unsigned long long us; // finite waits: length in microseconds
};
inline bool &capture() { static bool c = false; return c; }
inline std::vector<Rec> &recs() { static std::vector<Rec> r; return r; }
inline void noteEpoll(const char *call, int timeout) {
  Rec r; r.call = call; r.infinite = timeout < 0; r.bad_field = false; r.raw_a = timeout; r.raw_b = 0;
  r.us = timeout < 0 ? 0 : (unsigned long long)timeout * 1000ull;
  recs().push_back(r);
}
}  // namespace c02wait

extern "C" int epoll_wait(int epfd, struct epoll_event *events, int maxevents, int timeout) {
  using Fn = int (*)(int, struct epoll_event *, int, int);
  static Fn real = (Fn)dlsym(RTLD_NEXT, "epoll_wait");
  if (c02wait::capture()) { c02wait::noteEpoll("epoll_wait", timeout); timeout = 0; }
  return real(epfd, events, maxevents, timeout);
}
extern "C" int epoll_pwait(int epfd, struct epoll_event *events, int maxevents, int timeout, const sigset_t *ss) {
  using Fn = int (*)(int, struct epoll_event *, int, int, const sigset_t *);
  static Fn real = (Fn)dlsym(RTLD_NEXT, "epoll_pwait");
  if (c02wait::capture()) { c02wait::noteEpoll("epoll_pwait", timeout); timeout = 0; }
  return real(epfd, events, maxevents, timeout, ss);
}
extern "C" int select(int nfds, fd_set *rd, fd_set *wr, fd_set *ex, struct timeval *tv) {
  using Fn = int (*)(int, fd_set *, fd_set *, fd_set *, struct timeval *);
  static Fn real = (Fn)dlsym(RTLD_NEXT, "select");
  if (c02wait::capture()) {
    c02wait::Rec r; r.call = "select"; r.infinite = tv == nullptr; r.bad_field = false; r.raw_a = r.raw_b = 0; r.us = 0;
    if (tv) {
      r.raw_a = (long long)tv->tv_sec; r.raw_b = (long long)tv->tv_usec;
      r.bad_field = tv->tv_sec < 0 || tv->tv_usec < 0;
      if (!r.bad_field) {
        unsigned long long s = (unsigned long long)tv->tv_sec;
        r.us = s > (ULLONG_MAX - 2000000ull) / 1000000ull ? ULLONG_MAX : s * 1000000ull + (unsigned long long)tv->tv_usec;
      }
    }
    c02wait::recs().push_back(r);
    struct timeval zero; zero.tv_sec = 0; zero.tv_usec = 0;
    return real(nfds, rd, wr, ex, &zero);
  }
  return real(nfds, rd, wr, ex, tv);
}

namespace {

enum { WCFG, WTM, WEN, WDIS, WPASS };
enum { WADV_0, WADV_1, WADV_NEAR_M1, WADV_NEAR, WADV_NEAR_P, WADV_SMALL, WADV_HALF, NWADV };
const int kWMaxTimers = 8;

std::string run_wait(const Scenario &s, CaseInfo &info) {
  struct W { TimerEvent *ev = nullptr; uint64_t d = 1; bool oneshot = false, enabled = false; uint64_t deadline = 0, fires = 0, expect = 0; };
  size_t first = 0; int backend = 0, start = 0;
  if (!s.ops.empty() && s.ops[0].code == WCFG) { backend = (int)argIn(s.ops[0], 0, 0, 1); start = (int)argIn(s.ops[0], 1, 0, 4); first = 1; }
  Loop *loop = Loop::New(backend ? "select" : "epoll");
  if (!loop) return "Loop::New failed";
  vloop::Clock clk(kStarts[start]);
  std::vector<std::unique_ptr<W>> ws;
  std::string err;
  auto U = [](unsigned long long v) { return std::to_string(v); };
  bool hidden_pending = false;   // a disable() since the last pass left a deferred task the model does not track
  bool c_nt = false, c_inf_idle = false, c_finite_idle = false, c_zero_nothing_due = false, c_pending_next = false, c_pending_inloop = false,
       c_some_disabled = false, c_fired = false, c_dist_int_max = false, c_clamped = false, c_exact = false;
  int passes = 0, zero_streak = 0, max_zero_streak = 0;
  uint64_t zero_clock = 0;

  for (size_t k = first; k < s.ops.size() && err.empty(); ++k) {
    const Op &op = s.ops[k];
    switch (op.code) {
      case WTM: {
        if ((int)ws.size() >= kWMaxTimers) break;
        ws.emplace_back(new W); W *w = ws.back().get();
        w->d = (uint64_t)argIn(op, 0, 1, kMaxInterval); w->oneshot = argIn(op, 1, 0, 1) == 1;
        w->ev = loop->newTimerEvent("c02w");
        w->ev->setCallback([w] { ++w->fires; });
        w->ev->initialize(std::chrono::milliseconds(w->d), w->oneshot ? Event::Mode::kOneshot : Event::Mode::kPersist);
        if (argIn(op, 2, 0, 1) == 1) { w->enabled = true; w->deadline = clk.now + w->d; w->ev->enable(); }
        break; }
      case WEN: { if (ws.empty()) break; W &w = *ws[idxIn(op.arg(0), ws.size())];
        if (!w.enabled) { w.enabled = true; w.deadline = clk.now + w.d; } w.ev->enable(); break; }
      case WDIS: { if (ws.empty()) break; W &w = *ws[idxIn(op.arg(0), ws.size())];
        if (w.enabled) hidden_pending = true; w.enabled = false; w.ev->disable(); break; }
      case WPASS: {
        // 1. move the clock relative to the nearest deadline (never far beyond it: no firing storms in this sub)
        bool armed = false; uint64_t near = 0;
        for (auto &w : ws) if (w->enabled && (!armed || w->deadline < near)) { near = w->deadline; armed = true; }
        int64_t xr = op.arg(1, 0); uint64_t x = xr < 0 ? (uint64_t)(-(xr + 1)) : (uint64_t)xr;
        uint64_t dist0 = armed && near > clk.now ? near - clk.now : 0, adv;
        switch ((int)argIn(op, 0, 0, NWADV - 1)) {
          case WADV_0: adv = 0; break;
          case WADV_1: adv = 1; break;
          case WADV_NEAR_M1: adv = armed ? (dist0 ? dist0 - 1 : 0) : x % 100; break;
          case WADV_NEAR: adv = armed ? dist0 : x % 100; break;
          case WADV_NEAR_P: adv = armed ? dist0 + 1 + x % 5 : x % 100; break;
          case WADV_SMALL: adv = x % 1000; if (armed && adv > dist0 + 50) adv = dist0 + 50; break;
          default: adv = armed ? dist0 / 2 : x % 100; break;
        }
        clk.now += adv;
        const uint64_t n = clk.now;
        // 2. other work pending for the loop?
        int pend = (int)argIn(op, 2, 0, 3); int ran_next = 0, ran_inloop = 0;
        if (pend & 1) { loop->runNext([&ran_next] { ++ran_next; }, "c02w-next"); c_pending_next = true; }
        if (pend & 2) { loop->runInLoop([&ran_inloop] { ++ran_inloop; }, "c02w-inloop"); c_pending_inloop = true; }
        // 3. what the model expects of this pass
        armed = false; near = 0; bool some_disabled = false;
        for (auto &w : ws) { if (w->enabled) { if (!armed || w->deadline < near) near = w->deadline; armed = true; } else some_disabled = true; }
        if (armed && some_disabled) c_some_disabled = true;
        const uint64_t dist = armed && near > n ? near - n : 0;
        const bool due = armed && near <= n;
        for (auto &w : ws) if (w->enabled && w->deadline <= n) {
          if (w->oneshot) { w->expect += 1; w->enabled = false; }
          else { uint64_t kk = (n - w->deadline) / w->d + 1; w->expect += kk; w->deadline += kk * w->d; }
        }
        // 4. ONE real loop pass with the kernel wait recorded
        c02wait::recs().clear(); c02wait::capture() = true;
        loop->runLoop(Loop::Mode::kOnce);
        c02wait::capture() = false;
        ++passes;
        std::string where = "pass " + std::to_string(passes) + " (" + (backend ? "select" : "epoll") + ", clock " + U(n) + ", " +
                            (armed ? "nearest deadline of an armed timer " + U(near) + " = " + U(dist) + " ms away" : std::string("no timer armed")) +
                            (pend ? std::string(", pending: ") + ((pend & 1) ? "runNext " : "") + ((pend & 2) ? "runInLoop" : "") : std::string()) + "): ";
        if (c02wait::recs().empty()) { err = "HARNESS: " + where + "the loop pass made no epoll_wait/epoll_pwait/select call that the harness can see (back-end changed?)"; break; }
        if (armed && dist >= (1ull << 31)) c_nt = true;
        if (armed && dist > (uint64_t)INT_MAX) c_dist_int_max = true;
        for (auto &r : c02wait::recs()) {
          std::string arg = std::string(r.call) + (r.call[0] == 's' ? (r.infinite ? "(timeout = NULL)" : "(timeval {" + std::to_string(r.raw_a) + " s, " + std::to_string(r.raw_b) + " us})")
                                                                   : "(timeout = " + std::to_string(r.raw_a) + " ms)");
          if (pend & 2) continue;   // a runInLoop task is pending: the wake-up fd is readable, the kernel returns at once whatever the timeout is - left free
          // (a) an armed timer and an infinite wait: on an idle loop that timer is never invoked
          if (armed && (r.infinite || r.bad_field)) {
            err = "INFINITE-WAIT: " + where + "the loop calls " + arg + ", i.e. it " + (r.bad_field ? "passes a negative time" : "sleeps without limit") +
                  " although a timer is armed: on an otherwise idle loop that timer is never invoked";
            break;
          }
          // (b) not beyond the nearest deadline (in whole microseconds; epoll has millisecond granularity, select microseconds)
          if (armed && r.us > dist * 1000ull) {
            err = "OVERSLEEP: " + where + "the loop calls " + arg + " which is longer than the " + U(dist) + " ms to the nearest deadline";
            break;
          }
          // (c) nothing armed, nothing pending: an infinite wait is expected but not demanded
          if (!armed && !pend && !hidden_pending) (r.infinite ? c_inf_idle : c_finite_idle) = true;
          if (armed && !r.infinite && r.us == dist * 1000ull) c_exact = true;
          if (armed && !r.infinite && r.us < dist * 1000ull && dist > (uint64_t)INT_MAX) c_clamped = true;
          // (d) zero wait although nothing is due and nothing pending = the loop would spin; class only
          if (armed && !due && !pend && !hidden_pending && !r.infinite && r.us == 0) {
            c_zero_nothing_due = true;
            zero_streak = (zero_streak && zero_clock == n) ? zero_streak + 1 : 1; zero_clock = n;
            max_zero_streak = std::max(max_zero_streak, zero_streak);
          }
        }
        hidden_pending = false;
        if (!err.empty()) break;
        // 5. the pass itself: callbacks and deferred work
        for (size_t i = 0; i < ws.size(); ++i) {
          W &w = *ws[i];
          if (w.fires != w.expect) { err = "COUNT: " + where + "timer " + std::to_string(i) + " (" + (w.oneshot ? "one-shot" : "persistent") + ", " + U(w.d) + " ms) has been invoked " + U(w.fires) + " times in all, expected " + U(w.expect); break; }
          if (w.ev->isEnabled() != w.enabled) { err = where + "isEnabled() of timer " + std::to_string(i) + " is " + (w.enabled ? "false" : "true"); break; }
          if (w.fires) c_fired = true;
        }
        if (err.empty() && (ran_next != (pend & 1) || ran_inloop != ((pend >> 1) & 1))) err = where + "pending work was not run exactly once by the pass (runNext " + std::to_string(ran_next) + ", runInLoop " + std::to_string(ran_inloop) + ")";
        break; }
      default: break;
    }
  }
  for (auto &w : ws) delete w->ev;
  loop->cleanup();
  delete loop;
  info.cls(backend ? "backend_select" : "backend_epoll");
  info.cls_if(c_nt, "nearest_deadline>=2^31ms_away");
  info.cls_if(c_dist_int_max, "nearest_deadline>INT_MAX_ms_away");
  info.cls_if(c_clamped, "finite_wait_shorter_than_a_far_deadline");
  info.cls_if(c_exact, "wait_equals_distance_to_nearest_deadline");
  info.cls_if(c_some_disabled, "armed_and_disabled_timers_mixed");
  info.cls_if(c_pending_next, "runNext_pending");
  info.cls_if(c_pending_inloop, "runInLoop_pending_(wait_left_free)");
  info.cls_if(c_inf_idle, "idle_loop_waits_without_limit");
  info.cls_if(c_finite_idle, "idle_loop_polls");
  info.cls_if(c_zero_nothing_due, "BUSY:zero_wait_although_nothing_due_or_pending");
  info.cls_if(max_zero_streak >= 2, "BUSY:zero_wait_repeated_at_unchanged_clock");
  info.cls_if(c_fired, "timer_fired");
  info.cls_if(passes == 0, "no_pass");
  info.nontrivial = c_nt;
  return err;
}

SubDef def_wait = [] {
  SubDef d; d.name = "wait_arg";
  d.op_names = {"wcfg", "tm", "en", "dis", "pass"};
  d.op_arity = {2, 3, 1, 1, 3};
  d.nt_rule = "some real loop pass ran while the nearest deadline of an armed timer was >= 2^31 ms away";
  d.run = run_wait;
#ifndef VERIF_ENGINE_FUZZ
  d.gen = [] {
    auto expandW = [](int64_t seed) -> Scenario {
      uint64_t st = (uint64_t)seed * 0x9E3779B97F4A7C15ull + 0x51ED270B1ull;
      auto next = [&st]() -> uint64_t { uint64_t z = (st += 0x9E3779B97F4A7C15ull); z = (z ^ (z >> 30)) * 0xBF58476D1CE4E5B9ull; z = (z ^ (z >> 27)) * 0x94D049BB133111EBull; return z ^ (z >> 31); };
      auto rng = [&next](int64_t lo, int64_t hi) -> int64_t { return lo + (int64_t)(next() % (uint64_t)(hi - lo + 1)); };
      auto pick = [&rng](std::initializer_list<std::pair<int, int64_t>> w) -> int64_t {
        int total = 0; for (auto &p : w) total += p.first;
        int64_t x = rng(0, total - 1);
        for (auto &p : w) { if (x < p.first) return p.second; x -= p.first; }
        return 0;
      };
      Scenario sc; auto &v = sc.ops;
      auto mk = [&v](int code, std::vector<int64_t> a) { Op o; o.code = code; o.a = std::move(a); v.push_back(std::move(o)); };
      mk(WCFG, {rng(0, 1), pick({{6, 0}, {1, 1}, {1, 2}, {1, 3}, {1, 4}})});
      int flavour = (int)pick({{5, 0}, {3, 1}, {2, 2}});   // 0: only far-away timers, 1: mixed, 2: only everyday intervals
      const int64_t B31 = (int64_t)1 << 31, B32 = (int64_t)1 << 32;
      auto far = [&]() -> int64_t {
        int64_t x = pick({{3, 0}, {2, 1}, {2, 3}, {1, 10}, {1, 1000}});
        switch (pick({{1, 0}, {3, 1}, {3, 2}, {2, 3}, {2, 4}, {3, 5}, {2, 6}, {2, 7}, {1, 8}, {2, 9}})) {
          case 0: return B31 - 1 - x; case 1: return B31 + x; case 2: return rng(B31, B32 - 1); case 3: return B32 - 1 - x; case 4: return B32;
          case 5: return B32 + 1 + x; case 6: return rng(1, 200) * B32 + B31 + x; case 7: return rng(2, 200) * B32 + x; case 8: return (int64_t)1 << 40;
          default: return rng(B31, (int64_t)1 << 40);
        }
      };
      auto everyday = [&]() -> int64_t { return pick({{2, 1}, {1, 2}, {1, 10}, {1, 100}, {1, 1000}, {1, 60000}, {1, 10000000}, {1, B31 - 1000}}); };
      auto iv = [&]() -> int64_t { return flavour == 0 ? far() : flavour == 2 ? everyday() : (rng(0, 1) ? far() : everyday()); };
      int nt = (int)rng(0, 5) == 0 ? 0 : (int)rng(1, 5);
      for (int i = 0; i < nt; ++i) {
        // in the "far" flavour everyday timers may exist too, but disabled ("some disabled")
        if (flavour == 0 && rng(0, 4) == 0) mk(WTM, {everyday(), rng(0, 1), 0});
        else mk(WTM, {iv(), pick({{3, 1}, {2, 0}}), pick({{4, 1}, {1, 0}})});
      }
      int np = (int)rng(1, 8);
      for (int i = 0; i < np; ++i) {
        switch (pick({{3, 0}, {2, WEN}, {2, WDIS}, {1, WTM}})) {
          case WEN: mk(WEN, {rng(-2, 6)}); break;
          case WDIS: mk(WDIS, {rng(-2, 6)}); break;
          case WTM: mk(WTM, {iv(), rng(0, 1), 1}); break;
          default: break;
        }
        mk(WPASS, {pick({{5, WADV_0}, {4, WADV_1}, {2, WADV_NEAR_M1}, {2, WADV_NEAR}, {1, WADV_NEAR_P}, {4, WADV_SMALL}, {3, WADV_HALF}}), rng(0, 4095), pick({{7, 0}, {1, 1}, {1, 2}, {1, 3}})});
      }
      return sc;
    };
    auto base = rc::gen::map(rc::gen::noShrink(range(0, (int64_t)1 << 62)), expandW);
    return rc::gen::shrink(base, [](const Scenario &s) {
      std::vector<Scenario> out;
      size_t n = s.ops.size();
      for (size_t chunk = n / 2; chunk >= 1; chunk /= 2) {
        for (size_t at = 0; at + chunk <= n; at += chunk) {
          Scenario t; t.ops.reserve(n - chunk);
          for (size_t i = 0; i < n; ++i) if (i < at || i >= at + chunk) t.ops.push_back(s.ops[i]);
          out.push_back(std::move(t));
        }
        if (chunk == 1) break;
      }
      for (size_t i = 0; i < n; ++i)
        for (size_t k = 0; k < s.ops[i].a.size(); ++k)
          if (s.ops[i].a[k] != 0) { Scenario t = s; t.ops[i].a[k] = 0; out.push_back(std::move(t)); }
      return rc::seq::fromContainer(std::move(out));
    });
  };
#endif
  return d;
}();
VERIF_REGISTER(&def_wait);

}  // namespace
