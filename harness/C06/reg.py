TARGETS = {
    "c06_stream_rc": {"src": "C06/stream.cpp", "variant": "asan", "engine": "rc", "libs": ["network", "event", "util", "base"]},
}
PROP = {
    "subchecks": [
        # one binary, three sub-checks; every case costs 1-5 ms of CPU (<= 3 MiB sent / 1.5 MiB received per case), so the
        # per-case watchdog (60 s) is four orders of magnitude away
        {"target": "c06_stream_rc", "sub": "bfd",
         "quick": {"cases": 7000, "max_size": 40, "workers": 6, "case_alarm": 60},
         "thorough": {"cases": 150000, "max_size": 60, "workers": 6, "case_alarm": 60}},
        {"target": "c06_stream_rc", "sub": "server",
         "quick": {"cases": 5000, "max_size": 40, "workers": 5, "case_alarm": 60},
         "thorough": {"cases": 80000, "max_size": 60, "workers": 5, "case_alarm": 60}},
        {"target": "c06_stream_rc", "sub": "client",
         "quick": {"cases": 5000, "max_size": 40, "workers": 5, "case_alarm": 60},
         "thorough": {"cases": 80000, "max_size": 60, "workers": 5, "case_alarm": 60}},
    ],
    "assumptions": [
        "SIGPIPE is ignored by the process (as tbox::main does); writes after the peer is gone are exercised for crash-freedom only",
        "after the peer closed or shut down its sending side the connection counts as over: TcpConnection tears itself down on read-zero and drops what is still queued, and the harness (like TcpConnection, the only in-tree user of the read-zero callback) disables a raw BufferedFd inside that callback",
        "a local close (disconnect / stop / delete) exempts only bytes that may still be queued in user space: when the last send-complete notification had covered everything accepted, nothing written by the peer was unread and the peer only reads from then on, the peer must receive every byte followed by EOF (not a reset); the peer does not write after such a close (data sent to a closed TCP socket is answered with a reset by the kernel)",
        "bytes below the receive threshold when the peer closes are not required to be presented (the TCP classes give no access to them after the close)",
        "a send-complete notification that is lost because disable() was called between the send and the notification is left free; without disable() it must follow the last send (pinned by the unit tests)",
        "callbacks that still arrive for a connection in the pass in which the harness disconnected it are verified for content but not forbidden (fd-event dispatch after disable is C03's subject); stale TcpServer tokens after stop() are not used (cabinet token aliasing is C08's subject)",
        "after 'peer writes its last bytes and closes, the application sends at once' (op pfin) on TCP only the bytes the local kernel already held when the peer closed are required to be presented (a send to a closed TCP peer makes its kernel discard what it had not transmitted); on unix sockets all of them",
        "sizes: one send <= 1 MiB + 4 KiB, <= 3 MiB sent and <= 1.5 MiB received per case; loopback TCP is 1/4 of the server/client cases, the tbox socket keeps its default buffers and the peer's are not shrunk below 8 KiB (a 2 KiB window stalls for seconds on zero-window probes); while the missing bytes are demonstrably in the kernel (TIOCOUTQ of the tbox socket > 0, or the socket already closed orderly) the harness waits up to 3 s of real time per case; a TCP case whose missing bytes are all demonstrably held by the kernel when that budget ends (zero-window probing with back-off) is counted as inconclusive (class tcp_kernel_stall_inconclusive), not as a violation",
        "unix-domain clients do not bind their own socket (a bound client makes TcpAcceptor read past a 16-byte sockaddr: outside this statement, see NOTES.md / proposed-fixes/02)",
    ],
}
META = {
    "design_ref": "DESIGN.md section 4, C06",
    "technique": "model-based stateful PBT (rapidcheck) of BufferedFd / TcpServer / TcpClient against raw peer descriptors (socketpair, pipes, unix-domain paths, 127.0.0.1) with minimum-size kernel buffers, driven pass by pass through the production event loop (virtual clock), position-coded payload and two FIFO byte counters per direction, under ASan/UBSan",
    "level_text": "Generated histories (sends of 1 byte to 1 MiB biased around the measured kernel-buffer capacity, sends before enable()/during disable(), sends and disconnects from inside callbacks, peer reads of k bytes / nothing for p passes / k bytes per pass, peer writes biased around the receive buffer's free space and the 1 KiB spill buffer, receive thresholds, consumption patterns by call number {all | k bytes | nothing | fetch k | all but k}, consumption between callbacks, buffer shrinking, kernel-buffer resizing, peer shutdown(WR)/close, tbox-side disconnect/stop/restart (also 'large reply, then close from inside / right after the send-complete notification' towards a peer that reads slowly or not at all), up to 3 simultaneous server connections and up to 6 client reconnections) are executed against the real classes over real descriptors. Every byte of a direction is a function of its stream offset; the oracle checks that what the peer reads is exactly the prefix of what send() accepted, that totals match at quiescence while neither side closed, that every receive callback sees exactly unconsumed-suffix ++ new bytes with at least threshold bytes, that a send-complete notification finds every accepted byte already written to the descriptor (peer drained or FIONREAD; on TCP: read by the peer + its FIONREAD <= accepted <= that + TIOCOUTQ of the tbox socket, measured at the notification), that it follows the last send, that after a local close which followed such a notification the peer still reads every accepted byte and then EOF (no reset), and that a peer close is reported exactly once, only after the peer closed and after all earlier inbound data was presented. Exploration only: no counter-example among N generated histories.",
    "level_note": "Trusted: the kernel's stream semantics for unix sockets and pipes (FIFO, FIONREAD), the position-coded payload function, ASan/UBSan. Timing: unix sockets and pipes are synchronous, so the check is a pure function of the scenario; loopback TCP cases wait in real time (bounded 3 s) for bytes in flight. Not asserted: number of loop passes between cause and effect, callbacks per readv chunk, delivery of bytes still queued in user space at a local close, delivery after the peer closed, error-path behaviour (EPIPE/ECONNRESET) beyond crash-freedom, a send-complete notification lost across disable()/enable(). Sizes are bounded to 1 MiB per send and 3 MiB per case.",
}
