TARGETS = {
    "c06_stream_rc": {"src": "C06/stream.cpp", "variant": "asan", "engine": "rc", "libs": ["network", "event", "util", "base"]},
}
PROP = {
    "subchecks": [
        {"target": "c06_stream_rc", "sub": "bfd",
         "quick": {"cases": 5000, "max_size": 40, "workers": 6, "case_alarm": 60},
         "thorough": {"cases": 30000, "max_size": 60, "workers": 6, "case_alarm": 60}},
        {"target": "c06_stream_rc", "sub": "server",
         "quick": {"cases": 3500, "max_size": 40, "workers": 5, "case_alarm": 60},
         "thorough": {"cases": 24000, "max_size": 60, "workers": 5, "case_alarm": 60}},
        {"target": "c06_stream_rc", "sub": "client",
         "quick": {"cases": 3500, "max_size": 40, "workers": 5, "case_alarm": 60},
         "thorough": {"cases": 24000, "max_size": 60, "workers": 5, "case_alarm": 60}},
    ],
    "assumptions": [],
}
META = {"design_ref": "DESIGN.md section 4, C06", "technique": "", "level_text": "", "level_note": ""}
