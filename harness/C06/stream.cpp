// C06 — Buffered descriptor / TCP connection preserves the byte stream.
//
// Three sub-checks share one op interpreter and one oracle (two FIFO byte counters per direction):
//   bfd     BufferedFd over socketpair(AF_UNIX) / over a pipe (tbox writes) / over a pipe (tbox reads)
//   server  TcpServer on a unix-domain path (or 127.0.0.1) + up to 3 raw client sockets
//   client  TcpClient (optionally auto-reconnecting) + raw listening socket on a unix-domain path (or 127.0.0.1)
// Single-threaded; the production loop is driven pass by pass with the virtual-clock driver (vloop.h); one op is
// applied per pass (outside any callback), peers read/write at the generated pace between passes.
// Payload byte i of a direction of a connection is fbyte(salt, i), so every window identifies its own offset.
// See NOTES.md for the op table and the oracle.
#define VERIF_MAIN
#include "../common/verif.h"
#include "../common/vloop.h"
#include <tbox/network/buffered_fd.h>
#include <tbox/network/tcp_server.h>
#include <tbox/network/tcp_client.h>
#include <tbox/network/sockaddr.h>
#include <tbox/network/ip_address.h>
#include <tbox/event/timer_event.h>
#include <sys/socket.h>
#include <sys/un.h>
#include <sys/ioctl.h>
#include <netinet/in.h>
#include <netinet/tcp.h>
#include <arpa/inet.h>
#include <poll.h>
#include <algorithm>
#include <memory>

using namespace verif;
using tbox::network::Buffer;
using tbox::network::BufferedFd;
using tbox::network::TcpServer;
using tbox::network::TcpClient;
using tbox::network::SockAddr;

namespace {

enum { CFG, CONS, SEND, ENABLE, DISABLE, CONNECT, PREAD, PAUTO, IDLE, PWRITE, PSHUT, DISC, THR, SHRINK, BUFSZ, CBSEND, PEEK, WAITSC, PFIN, NOPS };
const std::vector<const char*> kOpNames = {"cfg", "cons", "send", "enable", "disable", "connect", "pread", "pauto", "idle", "pwrite",
                                           "pshut", "disc", "thr", "shrink", "bufsz", "cbsend", "peek", "waitsc", "pfin"};
const std::vector<int> kOpArity = {8, 2, 3, 0, 1, 0, 2, 2, 1, 3, 2, 2, 2, 2, 3, 3, 2, 2, 6};

// per-case caps (keep every case far below the watchdog)
const uint64_t kBudgetOut = 3u << 20;       // bytes handed to send() per case (all connections)
const uint64_t kBudgetIn = 3u << 19;        // bytes written by the peers per case
const size_t kMaxOne = (1u << 20) + 4096;   // one send / one peer write
const int kMaxDrainPasses = 60000;
const int kTcpKernelWaitMs = 3000;          // real-time budget per case for TCP bytes in flight; see kernel_holds_bytes() and tcp_kernel_stall_inconclusive

// the liveness half of "send-complete" (it does fire once everything accepted was written) is pinned by the unit tests
// BufferedFd.sendComplete_LittleData / _HugeData; the statement itself only has the "fires only when" half
static const bool kCheckSendCompleteFires = true;

// A unix-domain client that bound its own socket to a path of 14+ characters makes TcpAcceptor::onClientConnected() read past
// its 16-byte `struct sockaddr` (stack-buffer-overflow under ASan; proposed-fixes/02).  The defect is outside the C06 statement
// (it is about the peer address, not the byte stream), so the shape is not generated unless C06_NAMED_CLIENT is set in the
// environment (replay corpus/C06/outside-statement/server-named-client.txt with it to see the report).
static const bool kAvoid_named_unix_client = getenv("C06_NAMED_CLIENT") == nullptr;

// ---- payload --------------------------------------------------------------------------------------
inline uint8_t fbyte(uint32_t salt, uint64_t i) {
  uint32_t x = (uint32_t)i * 2654435761u + salt;
  x ^= x >> 15; x *= 0x2C1B3C6Du; x ^= x >> 13;
  return (uint8_t)(x >> 9);
}
void fill(uint32_t salt, uint64_t off, uint8_t *p, size_t n) { for (size_t i = 0; i < n; ++i) p[i] = fbyte(salt, off + i); }
// index of the first byte that is not the expected one, or -1
ssize_t mismatch(uint32_t salt, uint64_t off, const uint8_t *p, size_t n) {
  for (size_t i = 0; i < n; ++i) if (p[i] != fbyte(salt, off + i)) return (ssize_t)i;
  return -1;
}
// where in the stream (if anywhere near) does this window come from — diagnosis only
std::string locate(uint32_t salt, const uint8_t *p, size_t n, uint64_t upto) {
  if (n < 4) return "window too short to locate";
  size_t w = std::min<size_t>(n, 8);
  for (uint64_t o = 0; o + w <= upto + w; ++o) { bool ok = true; for (size_t i = 0; i < w && ok; ++i) ok = p[i] == fbyte(salt, o + i); if (ok) return "the bytes found there are stream bytes from offset " + std::to_string(o); }
  return "the bytes found there occur nowhere in the stream";
}

// ---- descriptors ------------------------------------------------------------------------------------
void set_nonblock(int fd) { int fl = fcntl(fd, F_GETFL, 0); fcntl(fd, F_SETFL, fl | O_NONBLOCK); }
const int kSockBuf[4] = {1, 4096, 16384, 0};        // SO_SNDBUF/SO_RCVBUF request (0 = leave the default); 1 = kernel minimum
const int kPipeBuf[4] = {4096, 8192, 16384, 0};     // F_SETPIPE_SZ
void apply_sockbuf(int fd, int idx) {
  int v = kSockBuf[idx & 3]; if (!v) return;
  setsockopt(fd, SOL_SOCKET, SO_SNDBUF, &v, sizeof v);
  setsockopt(fd, SOL_SOCKET, SO_RCVBUF, &v, sizeof v);
}
void apply_pipebuf(int fd, int idx) { int v = kPipeBuf[idx & 3]; if (v) fcntl(fd, F_SETPIPE_SZ, v); }
size_t inq(int fd) { int n = 0; if (fd < 0 || ioctl(fd, FIONREAD, &n) != 0 || n < 0) return 0; return (size_t)n; }

// how many bytes ONE write() on a fresh unix stream socket with this buffer setting takes (the boundary of a partial write)
size_t sock_capacity(int idx) {
  static size_t cache[4] = {0, 0, 0, 0};
  idx &= 3;
  if (cache[idx]) return cache[idx];
  int sv[2];
  if (socketpair(AF_UNIX, SOCK_STREAM | SOCK_NONBLOCK | SOCK_CLOEXEC, 0, sv) != 0) return 4096;
  apply_sockbuf(sv[0], idx);
  std::vector<uint8_t> junk(2u << 20, 0);
  ssize_t n = ::send(sv[0], junk.data(), junk.size(), MSG_NOSIGNAL);
  ::close(sv[0]); ::close(sv[1]);
  cache[idx] = n > 0 ? (size_t)n : 4096;
  return cache[idx];
}

std::vector<int> open_fds() { std::vector<int> v; for (int fd = 0; fd < 96; ++fd) if (fcntl(fd, F_GETFD) != -1) v.push_back(fd); return v; }
bool is_stream_socket(int fd) {
  int t = 0, l = 0; socklen_t sl = sizeof t;
  if (getsockopt(fd, SOL_SOCKET, SO_TYPE, &t, &sl) != 0 || t != SOCK_STREAM) return false;
  sl = sizeof l; if (getsockopt(fd, SOL_SOCKET, SO_ACCEPTCONN, &l, &sl) != 0 || l) return false;
  return true;
}

// per-process scratch directory under the current working directory
const std::string &scratch_dir() {
  static std::string d = [] {
    char b[64]; snprintf(b, sizeof b, "c06-%d", (int)getpid());
    mkdir(b, 0755);
    static std::string keep = b;
    atexit([] { std::string p = keep; ::unlink((p + "/s").c_str()); ::unlink((p + "/c").c_str()); ::rmdir(p.c_str()); });
    return std::string(b);
  }();
  return d;
}

// ---- model ------------------------------------------------------------------------------------------
struct Act { int where; int kind; size_t n; int target = -1; int count = 1; };   // where: 1 receive cb, 2 send-complete cb, 3 closed cb; kind: 0 send, 1 disconnect, 2 shrink recv, 3 shrink send, 4 disable, 5 `count` sends of n bytes on connection `target`

struct Conn {
  int idx = 0;
  int prd = -1, pwr = -1;            // the raw peer's descriptors (the same for sockets)
  bool peer_sock = true;
  bool inet = false;
  int tfd = -1;                      // the tbox side's descriptor if the harness knows it (buffer sizing only)
  int tbuf = 3, pbuf = 3;            // buffer-size settings in force (index into kSockBuf/kPipeBuf)
  uint32_t osalt = 0, isalt = 0;
  // tbox -> peer
  uint64_t out_acc = 0;              // bytes send() accepted
  uint64_t out_got = 0;              // bytes the peer has read (and verified)
  uint64_t acc_at_last_sc = 0; int sc_calls = 0;
  bool sc_excused = false;           // disable() came between a send and its notification: the notification may be lost (left free)
  bool peer_eof = false;
  int peer_rd_err = 0;               // errno of a failed read of the peer (ECONNRESET, ...)
  // orderly local close: the tbox side disconnected when everything accepted had been reported written (send-complete)
  // and nothing the peer wrote was unread; the peer then only reads, and must get every byte followed by EOF
  bool orderly = false; uint64_t must_deliver = 0;
  // peer -> tbox
  uint64_t in_wrote = 0;             // bytes the kernel took from the peer
  uint64_t in_cons = 0;              // bytes the receive callback consumed
  uint64_t in_hw = 0;                // highest stream offset presented to a receive callback so far
  uint64_t peer_backlog = 0;         // bytes the peer still wants to write
  size_t thr = 0; bool thr_stable = true;
  int recv_calls = 0;
  size_t auto_read = 0;
  bool left_unconsumed = false;      // the previous callback left bytes behind
  // life cycle
  bool can_write = true, can_read = true;   // what the tbox side was initialised for
  bool tbox_up = false;              // the tbox side exists (object created / connection reported)
  bool tbox_gone = false;            // ... and was disconnected / destroyed by the harness
  bool running = false;              // bfd: between enable() and disable()
  bool peer_shut = false, peer_closed = false;
  int close_reports = 0;
  bool err_seen = false;
  // pfin: the peer wrote its last bytes and closed/reset in one go and the tbox side sent right away (before the loop could read):
  // in_floor = what the local kernel demonstrably held for the tbox side at that moment (consumed + buffered + FIONREAD of its
  // socket; unix: everything) — a send to a closed TCP peer makes the peer's kernel discard what it had not transmitted yet,
  // so for TCP only this much is guaranteed to be deliverable
  bool has_floor = false; uint64_t in_floor = 0;
  bool bound = false;                // bfd: bind(self) — everything received is sent back, no receive callbacks
  std::vector<Act> acts;
};

struct Engine {
  const Scenario &s;
  CaseInfo &info;
  const char *sub;
  vloop::Clock clk;
  std::unique_ptr<tbox::event::Loop> loop;
  std::vector<std::unique_ptr<Conn>> conns;
  std::vector<std::pair<int, size_t>> pattern;   // consumption pattern by receive-callback number
  int pattern_calls = 0;
  std::string err;
  bool progress = false;
  size_t pc = 0; int idle_left = 0; int phase = 0; int quiet = 0, quiet_need = 8; int drain_passes = 0; int tick_ms = 1; int tear = 0;
  uint64_t used_out = 0, used_in = 0;
  int sc_mode = 0;
  const Op *cfg = nullptr;
  std::vector<uint8_t> rbuf;
  uint32_t salt_seq = 0;
  // shapes seen (classes / non-trivial rule)
  bool c_partial = false, c_eagain = false, c_before_enable = false, c_leftover_more = false, c_thr_held = false, c_sc = false,
       c_close_reported = false, c_close_pending_in = false, c_disc_in_cb = false, c_cb_send = false, c_disc = false, c_big = false,
       c_err = false, c_cross = false, c_orderly = false, c_orderly_unread = false, c_orderly_unread_inet = false, c_pfin = false,
       c_pfin_send_before_read = false, c_pfin_send_before_read_tcp = false, c_pfin_send_in_cb = false;

  Engine(const Scenario &sc, CaseInfo &ci, const char *subname) : s(sc), info(ci), sub(subname), loop(tbox::event::Loop::New()), rbuf(1u << 16) {
    if (!s.ops.empty() && s.ops[0].code == CFG) cfg = &s.ops[0];
    for (auto &op : s.ops) if (op.code == CONS) pattern.push_back({(int)op.in(0, 0, 4), (size_t)op.in(1, 0, 70000)});
    if (pattern.empty()) pattern.push_back({0, 0});
    if (pattern.size() > 8) pattern.resize(8);
  }
  virtual ~Engine() {}

  int64_t cfgv(size_t i, int64_t lo, int64_t hi) const { return cfg ? cfg->in(i, lo, hi) : lo; }
  void fail(const std::string &m) { if (err.empty()) err = m; }
  std::string tag(const Conn &c) const { return std::string(sub) + " conn " + std::to_string(c.idx) + ": "; }
  Conn *new_conn() { conns.emplace_back(new Conn); Conn *c = conns.back().get(); c->idx = (int)conns.size() - 1; c->osalt = 0x1000193u * (++salt_seq) + 7; c->isalt = 0x9E3779B9u * salt_seq + 11; return c; }

  // ---- sub-specific ------------------------------------------------------------------------------
  virtual bool setup() = 0;
  virtual bool ep_send(Conn &c, const void *p, size_t n) = 0;
  virtual Buffer *ep_rbuf(Conn &c) = 0;
  virtual void ep_disconnect(Conn &c, bool in_cb) = 0;
  virtual void ep_set_thr(Conn &c, size_t t) = 0;
  virtual void ep_shrink(Conn &, int) {}
  virtual void op_enable() {}
  virtual void op_disable() {}
  virtual void op_connect() {}
  virtual void per_pass() {}
  virtual void before_drain() {}
  virtual void teardown() = 0;
  virtual Conn *pick(const Op &op) { if (conns.empty()) return nullptr; return conns[(size_t)op.in(0, 0, (int64_t)conns.size() - 1)].get(); }
  virtual Conn *pick_for_send(const Op &op) { return pick(op); }

  // ---- raw peer ----------------------------------------------------------------------------------
  size_t peer_read(Conn &c, size_t maxn) {
    size_t total = 0;
    while (c.prd >= 0 && total < maxn) {
      size_t want = std::min(maxn - total, rbuf.size());
      ssize_t r = ::read(c.prd, rbuf.data(), want);
      if (r > 0) {
        progress = true;
        uint64_t lim = c.bound ? c.in_wrote : c.out_acc;
        if (c.out_got + (uint64_t)r > lim) { fail(tag(c) + "the peer received " + std::to_string(c.out_got + r) + " bytes, " + (c.bound ? "it wrote only " : "send() accepted only ") + std::to_string(lim) + " (bytes duplicated or invented)"); }
        ssize_t k = mismatch(c.osalt, c.out_got, rbuf.data(), (size_t)r);
        if (k >= 0) fail(tag(c) + "byte " + std::to_string(c.out_got + k) + " of the stream received by the peer is not the byte that was sent at that offset (" + std::to_string(c.out_acc) + " accepted so far; " + locate(c.osalt, rbuf.data() + k, (size_t)r - k, c.out_acc) + ")");
        c.out_got += (uint64_t)r; total += (size_t)r;
      } else if (r == 0) { if (!c.peer_rd_err) c.peer_eof = true; break; }
      else { if (errno != EAGAIN && errno != EINTR && !c.peer_eof && !c.peer_rd_err) { c.peer_rd_err = errno; progress = true; } break; }
    }
    return total;
  }
  void peer_flush(Conn &c) {
    if (c.orderly) { c.peer_backlog = 0; return; }     // after an orderly local close the peer only reads (data sent to a closed TCP socket is answered with a reset)
    if (c.pwr < 0 || c.peer_backlog == 0 || c.peer_shut) return;
    size_t n = (size_t)std::min<uint64_t>(c.peer_backlog, kMaxOne);
    std::unique_ptr<uint8_t[]> d(new uint8_t[n]); fill(c.isalt, c.in_wrote, d.get(), n);
    ssize_t r = c.peer_sock ? ::send(c.pwr, d.get(), n, MSG_NOSIGNAL | MSG_DONTWAIT) : ::write(c.pwr, d.get(), n);
    if (r > 0) { c.in_wrote += (uint64_t)r; c.peer_backlog -= (uint64_t)r; c.thr_stable = true; progress = true; }
    else if (r < 0 && errno != EAGAIN && errno != EINTR) c.peer_backlog = 0;   // the other side is gone
  }
  void peer_close_fds(Conn &c) {
    if (c.prd >= 0) ::close(c.prd);
    if (c.pwr >= 0 && c.pwr != c.prd) ::close(c.pwr);
    c.prd = c.pwr = -1;
  }

  // free room in the kernel for the next direct write of the tbox side (estimate; exact on an idle connection)
  size_t kernel_free(Conn &c) {
    if (!c.peer_sock) { int sz = c.tfd >= 0 ? fcntl(c.tfd, F_GETPIPE_SZ) : 65536; size_t q = inq(c.prd); return (size_t)sz > q ? (size_t)sz - q : 0; }
    size_t cap = c.inet ? 65536 : sock_capacity(c.tbuf), q = (size_t)(c.out_acc - c.out_got);
    return cap > q ? cap - q : 0;
  }

  // called right before the tbox side closes a connection by itself (disconnect / stop / delete)
  void note_local_close(Conn &c) {
    if (!c.tbox_up || c.tbox_gone || c.bound || !c.can_write || c.err_seen || c.close_reports || c.peer_shut || c.peer_closed) return;
    if (c.out_acc == 0 || c.acc_at_last_sc != c.out_acc || c.peer_backlog) return;   // nothing handed over / something may still be queued in user space: exempt
    if (!c.running) return;
    Buffer *rb = ep_rbuf(c);
    if (c.can_read && (!rb || c.in_cons + rb->readableSize() != c.in_wrote)) return;   // unread inbound data: the kernel may reset the connection by itself
    c.orderly = true; c.must_deliver = c.out_acc;
    c_orderly = true;
    if (c.out_got < c.out_acc) { c_orderly_unread = true; if (c.inet) c_orderly_unread_inet = true; }
  }

  // ---- callbacks of the code under test ----------------------------------------------------------
  void run_acts(Conn &c, int where) {
    std::vector<Act> todo;
    for (size_t i = 0; i < c.acts.size();) if (c.acts[i].where == where) { todo.push_back(c.acts[i]); c.acts.erase(c.acts.begin() + i); } else ++i;
    for (auto &a : todo) {
      if (c.tbox_gone) break;
      if (a.kind == 0) {     // server: half of these go to the NEXT connection (relay between clients, as a chat/proxy server does)
        Conn &t = (conns.size() > 1 && (a.n & 1) == 0 && std::string(sub) == "server") ? *conns[(size_t)(c.idx + 1) % conns.size()] : c;
        do_send(t, a.n, true); c_cb_send = true; if (&t != &c) c_cross = true;
      }
      else if (a.kind == 1) { ep_disconnect(c, true); c_disc_in_cb = true; }
      else if (a.kind == 4) op_disable();
      else if (a.kind == 5) { if (a.target >= 0 && (size_t)a.target < conns.size()) sends_after_pfin(*conns[(size_t)a.target], a.count, a.n, true); }
      else ep_shrink(c, a.kind - 2);
    }
  }

  void on_recv(Conn &c, Buffer &b) {
    progress = true;
    if (c.bound) { fail(tag(c) + "receive callback called although a receiver is bound"); return; }
    c.recv_calls++;
    size_t R = b.readableSize();
    if (c.in_cons + R > c.in_wrote) fail(tag(c) + "receive callback " + std::to_string(c.recv_calls) + " presents stream bytes up to offset " + std::to_string(c.in_cons + R) + ", the peer wrote only " + std::to_string(c.in_wrote) + " (bytes duplicated or invented)");
    if (R > 0) {
      ssize_t k = mismatch(c.isalt, c.in_cons, b.readableBegin(), R);
      if (k >= 0) fail(tag(c) + "receive callback " + std::to_string(c.recv_calls) + ": buffer byte " + std::to_string(k) + " of " + std::to_string(R) + " is not stream byte " + std::to_string(c.in_cons + k) + " (" + std::to_string(c.in_cons) + " consumed so far, previous callback saw up to " + std::to_string(c.in_hw) + "; " + locate(c.isalt, b.readableBegin() + k, R - k, c.in_wrote) + ")");
    }
    if (R < c.thr) fail(tag(c) + "receive callback " + std::to_string(c.recv_calls) + " called with " + std::to_string(R) + " readable bytes, threshold is " + std::to_string(c.thr));
    uint64_t hw = c.in_cons + R;
    if (c.left_unconsumed && hw > c.in_hw) c_leftover_more = true;
    if (hw < c.in_hw) fail(tag(c) + "receive callback " + std::to_string(c.recv_calls) + " presents the stream only up to offset " + std::to_string(hw) + ", the previous callback already saw up to " + std::to_string(c.in_hw) + " and consumed up to " + std::to_string(c.in_cons) + " (unconsumed bytes vanished)");
    c.in_hw = std::max(c.in_hw, hw);
    // consume by call number
    auto pat = pattern[(size_t)(pattern_calls++) % pattern.size()];
    size_t take = 0;
    switch (pat.first) {
      case 0: take = R; b.hasReadAll(); break;
      case 1: take = std::min(pat.second, R); b.hasRead(take); break;
      case 2: take = 0; break;
      case 3: { take = std::min(std::max<size_t>(pat.second, 1), R); std::unique_ptr<uint8_t[]> d(new uint8_t[take ? take : 1]);
                size_t g = b.fetch(d.get(), take);
                if (g != take) fail(tag(c) + "Buffer::fetch(" + std::to_string(take) + ") inside the receive callback returned " + std::to_string(g));
                else if (mismatch(c.isalt, c.in_cons, d.get(), take) >= 0) fail(tag(c) + "Buffer::fetch inside the receive callback returned other bytes than readableBegin() showed");
                break; }
      default: take = R - std::min(pat.second % 2048, R); b.hasRead(take); break;   // leave a tail behind
    }
    c.in_cons += take;
    c.left_unconsumed = take < R;
    if (b.readableSize() != R - take) fail(tag(c) + "after consuming " + std::to_string(take) + " of " + std::to_string(R) + " bytes the buffer holds " + std::to_string(b.readableSize()));
    run_acts(c, 1);
  }

  void on_sc(Conn &c) {
    progress = true; c_sc = true;
    c.sc_calls++;
    uint64_t acc = c.out_acc;
    c.acc_at_last_sc = acc;
    if (c.prd >= 0 && !c.peer_closed && !c.tbox_gone && !c.bound) {
      bool drain = sc_mode == 0;
      if (c.inet && c.tfd >= 0) {
        // Loopback TCP, measured at the moment of the notification and without waiting: bytes accepted by write() sit in the send queue
        // of the tbox socket until the peer's window lets them through, so "written to the descriptor" is
        //   read by the peer + waiting in its receive queue <= accepted <= that + TIOCOUTQ of the tbox socket
        // (TIOCOUTQ counts unacknowledged bytes, which may already sit in the peer's queue, so only the bounds are exact).
        // How fast the kernel moves the rest to the peer (small windows stall on zero-window probes for seconds) is not tbox's doing.
        int outq = 0; if (ioctl(c.tfd, TIOCOUTQ, &outq) != 0 || outq < 0) outq = 0;
        uint64_t lo = c.out_got + inq(c.prd);
        if (getenv("C06_DEBUG")) fprintf(stderr, "C06_DEBUG send-complete %d on conn %d: accepted %llu, peer read %llu, peer FIONREAD %llu, tbox TIOCOUTQ %d\n", c.sc_calls, c.idx, (unsigned long long)acc, (unsigned long long)c.out_got, (unsigned long long)(lo - c.out_got), outq);
        if (lo > acc || lo + (uint64_t)outq < acc)
          fail(tag(c) + "send-complete notification " + std::to_string(c.sc_calls) + " fired when " + std::to_string(acc) + " bytes had been accepted by send(), but the peer read " + std::to_string(c.out_got) + ", " + std::to_string(lo - c.out_got) + " wait in its receive queue and " + std::to_string(outq) + " in the connection's send queue");
        if (drain) {       // the drain variant lets the peer catch up with what has arrived (as on the synchronous transports), briefly
          peer_read(c, SIZE_MAX);
          if (c.out_got < acc) { struct pollfd pf = {c.prd, POLLIN, 0}; ::poll(&pf, 1, 5); inet_waited_ms += 5; peer_read(c, SIZE_MAX); }
        }
        run_acts(c, 2);
        return;
      }
      if (c.inet) {            // tbox socket not identified (rare): only the peer can be asked; wait (bounded, real time) for the bytes in flight
        drain = true;
        for (int waited = 0; c.out_got + inq(c.prd) < acc && waited < kTcpKernelWaitMs && inet_waited_ms < kTcpKernelWaitMs; waited += 5) { peer_read(c, SIZE_MAX); struct pollfd pf = {c.prd, POLLIN, 0}; ::poll(&pf, 1, 5); inet_waited_ms += 5; }
        peer_read(c, SIZE_MAX);
        if (c.out_got < acc && !c.peer_rd_err && !c.peer_eof && tcp_state(c.prd) == 1 /* TCP_ESTABLISHED */) {   // cannot be told apart from a kernel stall without the tbox socket
          stats().counters["tcp_kernel_still_delivering_at_end"]++; info.cls("tcp_kernel_stall_inconclusive");
          run_acts(c, 2);
          return;
        }
      }
      uint64_t seen;
      if (drain) { peer_read(c, SIZE_MAX); seen = c.out_got; } else seen = c.out_got + inq(c.prd);
      if (seen != acc)
        fail(tag(c) + "send-complete notification " + std::to_string(c.sc_calls) + " fired when " + std::to_string(acc) + " bytes had been accepted by send(), but only " + std::to_string(seen) + " of them have been written to the descriptor (" + std::to_string(c.out_got) + " read by the peer" + (drain ? "" : " + " + std::to_string(seen - c.out_got) + " waiting in the kernel") + ")");
    }
    run_acts(c, 2);
  }

  // peer close as the tbox side reports it: read-zero / read-error of BufferedFd, disconnected callback of the TCP classes
  void on_closed(Conn &c, const char *how, Buffer *rb) {
    progress = true; c_close_reported = true;
    c.close_reports++;
    if (c.close_reports > 1) fail(tag(c) + "peer close reported " + std::to_string(c.close_reports) + " times (" + how + ")");
    if (!c.peer_shut && !c.peer_closed) fail(tag(c) + std::string("peer close reported (") + how + ") although the peer neither closed nor shut down its sending side");
    if (c.in_cons < c.in_wrote) c_close_pending_in = true;
    if (c.close_reports == 1 && !c.tbox_gone && !c.bound) {
      if (rb) {
        size_t R = rb->readableSize();
        if (c.has_floor ? c.in_cons + R < c.in_floor : c.in_cons + R != c.in_wrote)
          fail(tag(c) + std::string("peer close reported (") + how + ") when only " + std::to_string(c.in_cons + R) + " of the " + std::to_string(c.in_wrote) + " bytes the peer wrote before closing had been received (" + std::to_string(c.in_cons) + " consumed + " + std::to_string(R) + " in the receive buffer)");
        else if (R && mismatch(c.isalt, c.in_cons, rb->readableBegin(), R) >= 0) fail(tag(c) + "receive buffer content at the peer-close report is not the unconsumed part of the stream");
      }
      uint64_t need = c.has_floor ? c.in_floor : c.in_wrote;
      uint64_t pending = need > c.in_cons ? need - c.in_cons : 0;
      if (c.in_hw < need && c.thr_stable && pending >= std::max<size_t>(c.thr, 1))
        fail(tag(c) + std::string("peer close reported (") + how + ") before all data that preceded it was presented: the peer wrote " + std::to_string(c.in_wrote) + " bytes, receive callbacks saw the stream only up to offset " + std::to_string(c.in_hw) + " (" + std::to_string(c.in_cons) + " consumed, threshold " + std::to_string(c.thr) + ")");
    }
    c.tfd = -1; c.running = false;
    run_acts(c, 3);
  }

  // ---- ops ---------------------------------------------------------------------------------------
  void do_send(Conn &c, size_t n, bool in_cb) {
    if (!c.can_write) return;          // read end of a pipe
    if (n < 1) n = 1;
    if (n > kMaxOne) n = kMaxOne;
    if (used_out + n > kBudgetOut) n = 1 + n % 1500;
    used_out += n;
    std::unique_ptr<uint8_t[]> d(new uint8_t[n]);      // exact-size block: an over-read of the source is an ASan report
    fill(c.osalt, c.out_acc, d.get(), n);
    size_t inflight_before = (size_t)(c.out_acc - c.out_got), q_before = inq(c.prd);
    bool direct = c.running && c.prd >= 0 && !c.inet && inflight_before == q_before;   // nothing is waiting in the user-space send buffer
    if (!c.tbox_up || c.tbox_gone) {
      // no connection: the only acceptable answer is "not accepted"
      if (ep_send(c, d.get(), n)) fail(tag(c) + "send() returned true although there is no connection (the bytes cannot reach anybody)");
      return;
    }
    bool ok = ep_send(c, d.get(), n);
    if (!ok) { if (c.can_write && c.close_reports == 0 && !in_cb) fail(tag(c) + "send() refused " + std::to_string(n) + " bytes on a live connection"); return; }
    c.out_acc += n;
    if (!c.running) c_before_enable = true; else c.sc_excused = false;
    if (n >= (64u << 10)) c_big = true;
    if (direct && !c.peer_closed) {
      size_t q_after = inq(c.prd);
      if (q_after < inflight_before + n) { if (q_after > q_before) c_partial = true; else c_eagain = true; }
    }
  }

  // the local sends that follow a pfin (outside a callback, from a timer callback, from another connection's receive callback)
  void sends_after_pfin(Conn &c, int count, size_t m, bool in_cb) {
    if (c.in_hw < c.in_wrote && c.close_reports == 0 && c.tbox_up && !c.tbox_gone) { c_pfin_send_before_read = true; if (c.inet) c_pfin_send_before_read_tcp = true; if (in_cb) c_pfin_send_in_cb = true; }
    for (int i = 0; i < count; ++i) do_send(c, m, in_cb);
  }
  std::vector<tbox::event::TimerEvent*> timers;
  void op_pfin(const Op &op) {
    Conn *cp = pick(op); if (!cp) return;
    Conn &c = *cp;
    if (c.pwr < 0 || c.peer_shut || c.peer_closed || c.orderly || c.bound || !c.peer_sock) return;
    int how = (int)op.in(1, 0, 1), via = (int)op.in(3, 0, 2), count = (int)op.in(4, 1, 3);
    size_t n = (size_t)op.in(2, 1, 70000), m = (size_t)op.in(5, 1, 4000);
    if (used_in + n > kBudgetIn) n = 1 + n % 1500;
    used_in += n;
    // via 2 (server): another connection's peer writes FIRST, so that its read event is dispatched before this connection's
    Conn *other = nullptr;
    if (via == 2) {
      for (auto &x : conns) if (x.get() != &c && x->tbox_up && !x->tbox_gone && x->close_reports == 0 && x->pwr >= 0 && !x->peer_shut && !x->peer_closed && !x->orderly && !x->bound && x->peer_backlog == 0) { other = x.get(); break; }
      if (!other || std::string(sub) != "server") via = 1;
      else { other->peer_backlog = 1 + m % 64; peer_flush(*other); if (other->peer_backlog) { other->peer_backlog = 0; via = 1; } }
    }
    // the peer's last bytes ...
    c.peer_backlog = 0;
    std::unique_ptr<uint8_t[]> d(new uint8_t[n]); fill(c.isalt, c.in_wrote, d.get(), n);
    ssize_t r = ::send(c.pwr, d.get(), n, MSG_NOSIGNAL | MSG_DONTWAIT);
    if (r > 0) { c.in_wrote += (uint64_t)r; c.thr_stable = true; progress = true; }
    // ... and its close: orderly, or a reset (TCP: SO_LINGER {on, 0}; unix: a close with unread input is a reset by itself)
    if (how == 1 && c.inet) { struct linger lg = {1, 0}; setsockopt(c.pwr, SOL_SOCKET, SO_LINGER, &lg, sizeof lg); }
    peer_close_fds(c); c.peer_closed = true;
    c_pfin = true;
    // what is guaranteed to be deliverable from here on
    c.has_floor = true;
    if (!c.inet) c.in_floor = c.in_wrote;
    else {
      Buffer *rb = (c.tbox_up && !c.tbox_gone) ? ep_rbuf(c) : nullptr;
      c.in_floor = c.in_cons + (rb ? rb->readableSize() : 0) + (c.tfd >= 0 ? inq(c.tfd) : 0);
      if (c.in_floor > c.in_wrote) c.in_floor = c.in_wrote;
      if (c.in_floor < c.in_hw) c.in_floor = c.in_hw;
    }
    if (!c.tbox_up || c.tbox_gone || c.close_reports) return;
    // the application writes before the loop gets to read
    if (via == 0) sends_after_pfin(c, count, m, false);
    else if (via == 1) {      // from a timer callback: timers are handled before the fd events of the next pass
      Conn *t = &c;
      auto *tm = loop->newTimerEvent("c06: heartbeat");
      tm->initialize(std::chrono::milliseconds(1), tbox::event::Event::Mode::kOneshot);
      tm->setCallback([this, t, count, m] { progress = true; if (t->tbox_up && !t->tbox_gone) sends_after_pfin(*t, count, m, true); });
      tm->enable();
      timers.push_back(tm);
      clk.now += 2;
    } else { Act a{1, 5, m}; a.target = c.idx; a.count = count; other->acts.push_back(a); }
  }

  size_t send_size(Conn &c, int mode, size_t n) {
    size_t K = kernel_free(c);
    switch (mode) {
      case 0: return n;
      case 1: { int64_t v = (int64_t)K + (int64_t)(n % 129) - 64; return v < 1 ? 1 : (size_t)v; }
      case 2: { int64_t v = (int64_t)K + (int64_t)(n % 3) - 1; return v < 1 ? 1 : (size_t)v; }
      case 3: return 2 * K + n % 3;
      default: return 1024 * (1 + n % 8) + (n / 8) % 3 - 1;
    }
  }
  size_t pwrite_size(Conn &c, int mode, size_t n) {
    Buffer *rb = (c.tbox_up && !c.tbox_gone) ? ep_rbuf(c) : nullptr;
    size_t w = rb ? rb->writableSize() : 0;
    switch (mode) {
      case 0: return n;
      case 1: { int64_t v = (int64_t)w + (int64_t)(n % 3) - 1; return v < 1 ? 1 : (size_t)v; }
      case 2: return w + 1024 + n % 3 - 1;
      case 3: return w + 1025 + n % 5000;
      default: return 1024 + n % 3 - 1;
    }
  }

  void exec(const Op &op) {
    switch (op.code) {
      case SEND: { Conn *c = pick_for_send(op); if (!c) break; do_send(*c, send_size(*c, (int)op.in(1, 0, 4), (size_t)op.in(2, 1, 1 << 20)), false); break; }
      case ENABLE: op_enable(); break;
      case DISABLE: { int where = (int)op.in(0, 0, 2); Conn *c = conns.empty() ? nullptr : conns[0].get();
        if (where == 0 || !c || std::string(sub) != "bfd") op_disable(); else if (c->tbox_up && !c->tbox_gone) c->acts.push_back({where, 4, 0});
        break; }
      case CONNECT: op_connect(); break;
      case PREAD: { Conn *c = pick(op); if (c) peer_read(*c, (size_t)op.in(1, 1, 1 << 20)); break; }
      case PAUTO: { Conn *c = pick(op); if (c) { int64_t k = op.in(1, 0, 70000); c->auto_read = k > 65536 ? SIZE_MAX : (size_t)k; } break; }
      case IDLE: idle_left = (int)op.in(0, 1, 40); break;
      case PWRITE: { Conn *c = pick(op); if (!c || c->pwr < 0 || c->peer_shut || c->orderly) break;
        size_t n = pwrite_size(*c, (int)op.in(1, 0, 4), (size_t)op.in(2, 1, 300000));
        if (n > kMaxOne) n = kMaxOne;
        if (used_in + n > kBudgetIn) n = 1 + n % 1500;
        used_in += n; c->peer_backlog += n; peer_flush(*c); break; }
      case PSHUT: { Conn *c = pick(op); if (!c || c->peer_closed || (c->prd < 0 && c->pwr < 0)) break;
        c->peer_backlog = 0;
        if (op.in(1, 0, 2) == 0) {                           // stop sending, keep reading
          if (c->peer_shut || c->pwr < 0) break;
          if (c->peer_sock) ::shutdown(c->pwr, SHUT_WR); else { ::close(c->pwr); c->pwr = -1; }
          c->peer_shut = true;
        } else { peer_close_fds(*c); c->peer_closed = true; }
        break; }
      case DISC: { Conn *c = pick(op); if (!c || !c->tbox_up || c->tbox_gone) break;
        int where = (int)op.in(1, 0, 3);
        if (where == 0) ep_disconnect(*c, false); else c->acts.push_back({where, 1, 0});
        break; }
      case THR: { Conn *c = pick(op); size_t t = (size_t)op.in(1, 0, 5000); if (c) ep_set_thr(*c, t); break; }
      case SHRINK: { Conn *c = pick(op); if (!c || !c->tbox_up || c->tbox_gone) break;
        int64_t a = op.in(1, 0, 3);
        if (a < 2) ep_shrink(*c, (int)a); else c->acts.push_back({1, (int)a, 0});
        break; }
      case BUFSZ: { Conn *c = pick(op); if (!c) break;
        int side = (int)op.in(1, 0, 1), idx = (int)op.in(2, 0, 3);
        if (!kSockBuf[idx] || c->inet) break;
        if (c->peer_sock) { int fd = side ? c->pwr : c->tfd; if (fd >= 0 && !c->tbox_gone) { apply_sockbuf(fd, idx); (side ? c->pbuf : c->tbuf) = idx; } }
        else { int fd = c->pwr >= 0 ? c->pwr : c->prd; if (fd >= 0) apply_pipebuf(fd, idx); }
        break; }
      case CBSEND: { Conn *c = pick_for_send(op); if (!c || !c->tbox_up || c->tbox_gone) break;
        c->acts.push_back({(int)op.in(1, 1, 3), 0, (size_t)op.in(2, 1, 70000)}); break; }
      case PEEK: { Conn *c = pick(op); if (!c || !c->tbox_up || c->tbox_gone) break;
        Buffer *rb = ep_rbuf(*c); if (!rb || c->bound) break;
        size_t R = rb->readableSize();
        if (c->in_cons + R > c->in_wrote) fail(tag(*c) + "receive buffer holds stream bytes up to offset " + std::to_string(c->in_cons + R) + ", the peer wrote only " + std::to_string(c->in_wrote));
        else if (R && mismatch(c->isalt, c->in_cons, rb->readableBegin(), R) >= 0) fail(tag(*c) + "receive buffer content (looked at between two loop passes) is not the unconsumed part of the stream");
        else if (!c->bound) { size_t k = std::min((size_t)op.in(1, 0, 3000), R); if (k) { rb->hasRead(k); c->in_cons += k; c->left_unconsumed = k < R; } }   // the user may also consume between callbacks (getReceiveBuffer "for use on the spot")
        break; }
      case PFIN: op_pfin(op); break;
      case WAITSC: { Conn *c = pick(op); if (c) { wait_conn = c; wait_left = (int)op.in(1, 1, 400); } break; }
      default: break;   // cfg / cons are definitions
    }
  }

  void final_check(Conn &c) {
    if (c.orderly && c.prd >= 0 && !c.peer_shut && !c.peer_closed) {
      std::string what = tag(c) + "the tbox side disconnected after the send-complete notification had covered all " + std::to_string(c.must_deliver) + " accepted bytes (nothing unread from the peer, the peer only read from then on): ";
      if (c.peer_rd_err)
        fail(what + "the peer's read failed with errno " + std::to_string(c.peer_rd_err) + " (" + strerror(c.peer_rd_err) + ") after " + std::to_string(c.out_got) + " bytes instead of delivering everything and ending with EOF (a reset discards what is still in the kernel's send queue)");
      else if (c.peer_eof && c.out_got != c.must_deliver)
        fail(what + "the peer read until EOF and got only " + std::to_string(c.out_got) + " bytes");
      else if (!c.peer_eof) {
        // TCP: the peer's socket is still ESTABLISHED (no FIN, no reset) and bytes are missing: the closed tbox socket lives on in the
        // kernel and is still delivering (zero-window probing with back-off can take arbitrarily long) — not tbox's doing, inconclusive
        if (c.inet && c.out_got < c.must_deliver && tcp_state(c.prd) == 1 /* TCP_ESTABLISHED */) { stats().counters["tcp_kernel_still_delivering_at_end"]++; info.cls("tcp_kernel_stall_inconclusive"); }
        else fail(std::string(c.inet ? "TIMING: " : "") + what + "the peer got " + std::to_string(c.out_got) + " bytes and never saw EOF");
      }
    }
    bool alive = c.tbox_up && !c.tbox_gone && !c.err_seen;
    if (!alive) return;
    if (c.can_read && (c.peer_shut || c.peer_closed) && c.close_reports == 0)
      fail(tag(c) + "the peer " + (c.peer_closed ? "closed" : "shut down its sending side") + ", the tbox side was enabled and idle at the end, but the close was never reported");
    if (c.close_reports) return;                  // the connection ended with the peer's close; checked in on_closed
    if (c.peer_shut || c.peer_closed) return;
    if (c.bound) {
      if (c.out_got != c.in_wrote) fail(tag(c) + "bound to itself: the peer wrote " + std::to_string(c.in_wrote) + " bytes and got " + std::to_string(c.out_got) + " back");
      return;
    }
    if (c.can_write && c.prd >= 0) {
      int outq = 0;
      if (c.inet && c.out_got < c.out_acc && c.tfd >= 0 && ioctl(c.tfd, TIOCOUTQ, &outq) == 0 && outq > 0 && c.out_got + inq(c.prd) + (uint64_t)outq >= c.out_acc) {
        // every missing byte sits in the send queue of the tbox socket: written by tbox, held back by the kernel (see kernel_holds_bytes)
        stats().counters["tcp_kernel_still_delivering_at_end"]++; info.cls("tcp_kernel_stall_inconclusive");
      }
      else if (c.out_got != c.out_acc)
        fail(tag(c) + "send() accepted " + std::to_string(c.out_acc) + " bytes, the peer read until nothing more arrived and got only " + std::to_string(c.out_got) + " (neither side closed; " + std::to_string(c.sc_calls) + " send-complete notifications)");
      else if (kCheckSendCompleteFires && c.out_acc > c.acc_at_last_sc && !c.sc_excused)
        fail(tag(c) + "all " + std::to_string(c.out_acc) + " accepted bytes reached the peer but no send-complete notification followed the last send (last one fired at " + std::to_string(c.acc_at_last_sc) + " accepted bytes, " + std::to_string(c.sc_calls) + " in total)");
    }
    if (c.can_read) {
      Buffer *rb = ep_rbuf(c);
      if (rb) {
        size_t R = rb->readableSize();
        if (c.in_cons + R != c.in_wrote)
          fail(tag(c) + "the peer wrote " + std::to_string(c.in_wrote) + " bytes; at the end " + std::to_string(c.in_cons) + " were consumed and " + std::to_string(R) + " sit in the receive buffer (bytes lost or duplicated)");
        else if (R && mismatch(c.isalt, c.in_cons, rb->readableBegin(), R) >= 0) fail(tag(c) + "receive buffer content at the end is not the unconsumed part of the stream");
        else if (c.thr_stable && R >= std::max<size_t>(c.thr, 1) && c.in_hw != c.in_wrote)
          fail(tag(c) + "the peer wrote " + std::to_string(c.in_wrote) + " bytes and " + std::to_string(R) + " unconsumed bytes (>= threshold " + std::to_string(c.thr) + ") are in the receive buffer, but receive callbacks saw the stream only up to offset " + std::to_string(c.in_hw));
        if (R && R < c.thr) c_thr_held = true;
      }
    }
  }

  bool last_progress = false, last_progress_any = false; int inet_waited_ms = 0;
  Conn *wait_conn = nullptr; int wait_left = 0, wait_waited_ms = 0;
  bool progress_seen_this_pass() const { return last_progress; }
  // Loopback TCP with a small receive window occasionally stalls on the kernel's zero-window probe timer (0.2 s, doubling): when the
  // missing bytes are demonstrably in the kernel's hands (send queue of the tbox socket not empty, or the socket already closed by an
  // orderly disconnect) the delay is not tbox's, and the harness waits much longer than for bytes that were never written
  static int tcp_state(int fd) { struct tcp_info ti; socklen_t l = sizeof ti; memset(&ti, 0, sizeof ti); return (fd >= 0 && getsockopt(fd, IPPROTO_TCP, TCP_INFO, &ti, &l) == 0) ? (int)ti.tcpi_state : -1; }
  bool kernel_holds_bytes(Conn &c) {
    if (!c.inet) return false;
    if (c.orderly) return true;
    int outq = 0;
    return c.tfd >= 0 && ioctl(c.tfd, TIOCOUTQ, &outq) == 0 && outq > 0;
  }
  bool inet_pending(Conn &c) {
    if (c.orderly) return c.prd >= 0 && !c.peer_shut && !c.peer_closed && !c.peer_eof && !c.peer_rd_err;
    if (!(c.tbox_up && !c.tbox_gone && !c.err_seen && c.close_reports == 0)) return false;
    if (c.peer_shut || c.peer_closed) return true;                       // the close has to be reported
    if (c.prd >= 0 && c.out_got < c.out_acc) return true;
    if (c.peer_backlog) return true;
    Buffer *rb = ep_rbuf(c);
    return rb && c.in_cons + rb->readableSize() < c.in_wrote;
  }
  // one step per loop pass, outside any callback
  bool step(int) {
    clk.now += (uint64_t)tick_ms;
    if (!err.empty() && phase < 2) phase = 2;
    if (phase < 2) {
      per_pass();
      for (auto &c : conns) { if (phase == 1) peer_read(*c, SIZE_MAX); else if (c->auto_read) peer_read(*c, c->auto_read); peer_flush(*c); }
    }
    if (phase == 0) {
      if (idle_left > 0) { --idle_left; return true; }
      if (wait_conn) {     // waitsc: until the send-complete notification has covered everything accepted (bounded)
        if (wait_conn->acc_at_last_sc != wait_conn->out_acc && !wait_conn->tbox_gone && wait_conn->close_reports == 0 && --wait_left > 0) {
          if (wait_conn->inet && !last_progress_any && wait_waited_ms < 1000) { struct pollfd pf = {wait_conn->prd, POLLIN, 0}; ::poll(&pf, wait_conn->prd >= 0 ? 1 : 0, 1); wait_waited_ms += 1; }
          last_progress_any = progress; progress = false;
          return true;
        }
        wait_conn = nullptr;
      }
      while (pc < s.ops.size() && (s.ops[pc].code == CFG || s.ops[pc].code == CONS)) ++pc;
      if (pc < s.ops.size()) { exec(s.ops[pc++]); return true; }
      phase = 1; before_drain(); progress = true;
    }
    if (phase == 1) {
      if (progress) quiet = 0; else ++quiet;
      last_progress = progress; progress = false;
      // loopback TCP needs real time: while something is known to be in flight, wait (bounded) instead of counting a quiet pass
      if (!progress_seen_this_pass()) for (auto &c : conns) if (c->inet && inet_pending(*c) && inet_waited_ms < (kernel_holds_bytes(*c) ? kTcpKernelWaitMs : 3000)) {
        struct pollfd pf = {c->prd, POLLIN, 0}; ::poll(&pf, c->prd >= 0 ? 1 : 0, 2); inet_waited_ms += 2; quiet = 0; break;
      }
      if (quiet < quiet_need && ++drain_passes < kMaxDrainPasses) return true;
      if (drain_passes >= kMaxDrainPasses) fail(std::string(sub) + ": no quiescence after " + std::to_string(drain_passes) + " passes of draining");
      for (auto &c : conns) if (err.empty()) final_check(*c);
      phase = 2;
    }
    // tear down inside the loop thread, then let the loop run its deferred deletions
    if (tear == 0) { for (auto *t : timers) { t->disable(); delete t; } timers.clear(); teardown(); for (auto &c : conns) peer_close_fds(*c); }
    return ++tear < 4;
  }

  std::string run() {
    static bool once = [] { signal(SIGPIPE, SIG_IGN); return true; }();
    (void)once;
    if (!setup()) {
      for (auto *t : timers) delete t;
      timers.clear();
      teardown(); for (auto &c : conns) peer_close_fds(*c);
      if (err.empty() || err.compare(0, 6, "INFRA:") == 0) { stats().counters["infra_skipped_case"]++; info.cls("skipped_infrastructure"); return ""; }   // e.g. no free loopback port
      return err;
    }
    vloop::drive(loop.get(), [this](int p) { return step(p); });
    if (inet_waited_ms + wait_waited_ms > 0) { stats().counters["tcp_real_time_wait_ms"] += (uint64_t)(inet_waited_ms + wait_waited_ms); if (inet_waited_ms + wait_waited_ms > 200) stats().counters["tcp_cases_waiting_over_200ms"]++; }
    bool nt = c_partial || c_eagain || c_before_enable || c_leftover_more;
    info.nontrivial = nt;
    info.cls_if(c_partial, "partial_direct_write");
    info.cls_if(c_eagain, "direct_write_eagain");
    info.cls_if(c_before_enable, "send_while_not_enabled");
    info.cls_if(c_leftover_more, "unconsumed_then_more_data");
    info.cls_if(c_thr_held, "held_below_threshold_at_end");
    info.cls_if(c_sc, "send_complete_fired");
    info.cls_if(c_close_reported, "peer_close_reported");
    info.cls_if(c_close_pending_in, "peer_close_with_unconsumed_inbound");
    info.cls_if(c_disc, "tbox_disconnect");
    info.cls_if(c_disc_in_cb, "tbox_disconnect_in_callback");
    info.cls_if(c_cb_send, "send_from_callback");
    info.cls_if(c_cross, "send_to_other_connection_from_callback");
    info.cls_if(c_pfin, "peer_writes_and_closes_then_local_send");
    info.cls_if(c_pfin_send_before_read, "local_send_hits_closed_peer_before_its_last_bytes_were_read");
    info.cls_if(c_pfin_send_before_read_tcp, "local_send_hits_closed_peer_before_its_last_bytes_were_read_tcp");
    info.cls_if(c_pfin_send_in_cb, "local_send_hits_closed_peer_before_its_last_bytes_were_read_from_a_callback");
    info.cls_if(c_orderly, "local_close_after_send_complete");
    info.cls_if(c_orderly_unread, "local_close_after_send_complete_with_bytes_unread_by_peer");
    info.cls_if(c_orderly_unread_inet, "local_close_after_send_complete_with_bytes_unread_by_peer_tcp");
    info.cls_if(c_big, "send_64k_or_more");
    info.cls_if(c_err, "error_callback");
    info.cls_if(conns.size() > 1, "several_connections");
    bool any_in = false, any_out = false; for (auto &c : conns) { any_in |= c->in_wrote > 0; any_out |= c->out_acc > 0; }
    info.cls_if(any_in && any_out, "both_directions");
    return err;
  }
};

// =====================================================================================================
// bfd: one BufferedFd over socketpair / pipe
struct BfdEngine : Engine {
  BufferedFd *bfd = nullptr;
  Conn *c = nullptr;
  int transport = 0;
  BfdEngine(const Scenario &sc, CaseInfo &ci) : Engine(sc, ci, "bfd") {}

  bool setup() override {
    transport = (int)cfgv(0, 0, 2);
    int evmode = (int)cfgv(1, 0, 1);
    int tbuf = (int)cfgv(2, 0, 3), pbuf = (int)cfgv(3, 0, 3);
    sc_mode = (int)cfgv(5, 0, 1);
    c = new_conn();
    c->tbuf = tbuf; c->pbuf = pbuf;
    int tfd = -1;
    if (transport == 0) {
      int sv[2]; if (socketpair(AF_UNIX, SOCK_STREAM | SOCK_CLOEXEC, 0, sv) != 0) return false;
      tfd = sv[0]; c->prd = c->pwr = sv[1]; set_nonblock(sv[1]);
      apply_sockbuf(sv[0], tbuf); apply_sockbuf(sv[1], pbuf);
      info.cls("socketpair");
    } else {
      int p[2]; if (pipe2(p, O_CLOEXEC) != 0) return false;
      c->peer_sock = false;
      if (transport == 1) { tfd = p[1]; c->prd = p[0]; set_nonblock(p[0]); c->can_read = false; apply_pipebuf(p[1], tbuf); info.cls("pipe_tbox_writes"); }   // a read event on a write end (kReadWrite, as the unit tests do) never fires
      else { tfd = p[0]; c->pwr = p[1]; set_nonblock(p[1]); c->can_write = false; apply_pipebuf(p[1], pbuf); info.cls("pipe_tbox_reads"); }
    }
    c->tfd = tfd;
    bfd = new BufferedFd(loop.get());
    short ev = BufferedFd::kReadWrite;
    if (evmode == 0 && transport == 1) ev = BufferedFd::kWriteOnly;
    if (evmode == 0 && transport == 2) ev = BufferedFd::kReadOnly;
    if (!bfd->initialize(tbox::network::Fd(tfd), ev)) { fail("bfd: initialize() failed"); return false; }
    c->thr = (size_t)cfgv(4, 0, 3000);
    if (cfgv(6, 0, 3) == 0) c->thr = 0;
    bfd->setReceiveCallback([this](Buffer &b) { on_recv(*c, b); }, c->thr);
    bfd->setSendCompleteCallback([this] { on_sc(*c); });
    bfd->setReadZeroCallback([this] { peer_gone("read-zero callback"); });
    bfd->setReadErrorCallback([this](int) { c_err = true; peer_gone("read-error callback"); });
    bfd->setWriteErrorCallback([this](int e) { c_err = true; progress = true; if (e != EAGAIN && bfd) { c->err_seen = true; bfd->disable(); c->running = false; } });
    c->tbox_up = true;
    if (transport == 0 && cfgv(7, 0, 6) == 6) {      // echo: the descriptor is its own receiver (ByteStream::bind)
      c->bound = true; c->osalt = c->isalt; c->can_write = false;
      bfd->bind(bfd);
      info.cls("bound_to_itself");
    }
    return true;
  }
  // the one in-tree user of the read-zero callback (TcpConnection) disables the descriptor inside the callback; so does the harness
  void peer_gone(const char *how) {
    if (!bfd) return;
    on_closed(*c, how, bfd ? bfd->getReceiveBuffer() : nullptr);
    if (bfd) { bfd->disable(); c->running = false; }
  }
  bool ep_send(Conn &, const void *p, size_t n) override { return bfd ? bfd->send(p, n) : false; }
  Buffer *ep_rbuf(Conn &) override { return bfd ? bfd->getReceiveBuffer() : nullptr; }
  void ep_disconnect(Conn &, bool in_cb) override {
    if (!bfd) return;
    c_disc = true;
    note_local_close(*c);
    BufferedFd *p = bfd; bfd = nullptr; c->tbox_gone = true; c->running = false; c->tfd = -1;
    if (in_cb) { p->disable(); loop->runNext([p] { delete p; }, "c06: delete BufferedFd"); }
    else delete p;
  }
  void ep_set_thr(Conn &, size_t t) override { if (!bfd) return; c->thr = t; c->thr_stable = false; bfd->setReceiveCallback([this](Buffer &b) { on_recv(*c, b); }, t); }
  void ep_shrink(Conn &, int which) override { if (!bfd) return; if (which & 1) bfd->shrinkSendBuffer(); else bfd->shrinkRecvBuffer(); }
  void op_enable() override {
    if (!bfd || c->close_reports || c->err_seen) return;
    if (!bfd->enable()) fail("bfd: enable() returned false on an initialised descriptor");
    c->running = true;
  }
  void op_disable() override {
    if (!bfd) return;
    if (!bfd->disable()) fail("bfd: disable() returned false on an initialised descriptor");
    c->running = false;
    if (c->out_acc > c->acc_at_last_sc) { c->sc_excused = true; stats().counters["disable_between_send_and_notification"]++; }
  }
  void before_drain() override { op_enable(); }
  void per_pass() override { if (phase == 1 && bfd && !c->running) op_enable(); }   // a callback scheduled earlier may disable it while draining
  void teardown() override { if (bfd) { delete bfd; bfd = nullptr; c->tbox_gone = true; } }
};

// =====================================================================================================
// address helpers for the TCP subs
struct Addr {
  bool inet = false; std::string path; uint16_t port = 0;
  SockAddr tbox() const { return inet ? SockAddr(tbox::network::IPAddress::FromString("127.0.0.1"), port) : SockAddr(tbox::network::DomainSockPath(path)); }
  int raw_socket() const { return ::socket(inet ? AF_INET : AF_UNIX, SOCK_STREAM | SOCK_NONBLOCK | SOCK_CLOEXEC, 0); }
  socklen_t fill_raw(struct sockaddr_storage &ss) const {
    memset(&ss, 0, sizeof ss);
    if (inet) { auto *a = (struct sockaddr_in*)&ss; a->sin_family = AF_INET; a->sin_port = htons(port); a->sin_addr.s_addr = htonl(INADDR_LOOPBACK); return sizeof *a; }
    auto *u = (struct sockaddr_un*)&ss; u->sun_family = AF_UNIX; strncpy(u->sun_path, path.c_str(), sizeof u->sun_path - 1); return sizeof *u;
  }
};
uint16_t pick_port(int attempt) { static unsigned seq = 0; return (uint16_t)(21000 + ((unsigned)getpid() * 131u + (seq++) * 17u + (unsigned)attempt * 4099u) % 40000u); }

// finds the one stream socket that was opened since `known` was recorded (the tbox side of a new connection); -1 if not unique
int find_new_socket(const std::vector<int> &known, const std::vector<int> &exclude) {
  int found = -1, n = 0;
  for (int fd : open_fds()) {
    if (std::find(known.begin(), known.end(), fd) != known.end()) continue;
    if (std::find(exclude.begin(), exclude.end(), fd) != exclude.end()) continue;
    if (!is_stream_socket(fd)) continue;
    found = fd; ++n;
  }
  return n == 1 ? found : -1;
}

// =====================================================================================================
// server: TcpServer + raw clients
struct ServerEngine : Engine {
  std::unique_ptr<TcpServer> srv;
  Addr addr;
  std::vector<TcpServer::ConnToken> tokens;   // by conn index (null token = not connected yet)
  std::vector<int> base_fds;
  size_t srv_thr = 0;
  int tbuf = 3, pbuf = 3, backlog = 4;
  std::vector<std::string> named;
  ServerEngine(const Scenario &sc, CaseInfo &ci) : Engine(sc, ci, "server") {}

  Conn *by_token(const TcpServer::ConnToken &t) { for (size_t i = 0; i < tokens.size(); ++i) if (tokens[i] == t && !tokens[i].isNull()) return conns[i].get(); return nullptr; }

  bool setup() override {
    addr.inet = cfgv(0, 0, 11) >= 9;
    backlog = (int)cfgv(1, 1, 4);
    tbuf = (int)cfgv(2, 0, 3); pbuf = (int)cfgv(3, 0, 3);
    if (addr.inet) { tbuf = 3; if (pbuf == 0) pbuf = 1; }   // TCP: only the peer's buffers (receive window) are shrunk, and not below 8 KiB: a 2 KiB window stalls on persist timers for seconds
    srv_thr = (size_t)cfgv(4, 0, 3000); if (cfgv(6, 0, 3) == 0) srv_thr = 0;
    sc_mode = (int)cfgv(5, 0, 1);
    addr.path = scratch_dir() + "/s";
    srv.reset(new TcpServer(loop.get()));
    bool ok = false;
    for (int a = 0; a < 8 && !ok; ++a) { if (addr.inet) addr.port = pick_port(a); ok = srv->initialize(addr.tbox(), backlog); if (!addr.inet) break; }
    if (!ok) { fail(std::string("INFRA: server: cannot listen on ") + (addr.inet ? "127.0.0.1" : addr.path.c_str())); return false; }
    info.cls(addr.inet ? "tcp_loopback" : "unix_path");
    srv->setConnectedCallback([this](const TcpServer::ConnToken &t) { on_connected(t); });
    srv->setDisconnectedCallback([this](const TcpServer::ConnToken &t) {
      Conn *c = by_token(t); if (!c) { fail("server: disconnected callback for a token that was never reported as connected (or twice)"); return; }
      if (!srv->isClientValid(t)) fail(tag(*c) + "isClientValid() is already false inside the disconnected callback");
      on_closed(*c, "disconnected callback", nullptr);
    });
    srv->setReceiveCallback([this](const TcpServer::ConnToken &t, Buffer &b) {
      Conn *c = by_token(t); if (!c) { fail("server: receive callback for an unknown connection token"); return; }
      on_recv(*c, b);
    }, srv_thr);
    srv->setSendCompleteCallback([this](const TcpServer::ConnToken &t) {
      Conn *c = by_token(t); if (!c) { fail("server: send-complete callback for an unknown connection token"); return; }
      on_sc(*c);
    });
    if (!srv->start()) { fail("INFRA: server: start() failed"); return false; }
    base_fds = open_fds();
    op_connect();
    return true;
  }
  void on_connected(const TcpServer::ConnToken &t) {
    progress = true;
    size_t i = 0; while (i < conns.size() && conns[i]->tbox_up) ++i;       // accept order = connect order
    if (i == conns.size()) { fail("server: connected callback without a pending client connection"); return; }
    if (by_token(t)) { fail("server: the token of a new connection equals the token of an earlier one"); return; }
    Conn &c = *conns[i];
    tokens[i] = t; c.tbox_up = true; c.running = true; c.thr = srv_thr;
    // the accepted descriptor is not exposed by TcpServer: find it in the descriptor table to size its kernel buffers
    std::vector<int> mine, others;
    for (auto &x : conns) { if (x->prd >= 0) mine.push_back(x->prd); if (x->tfd >= 0) others.push_back(x->tfd); }
    std::vector<int> known = base_fds; known.insert(known.end(), mine.begin(), mine.end());
    c.tfd = find_new_socket(known, others);
    if (c.tfd >= 0) { apply_sockbuf(c.tfd, tbuf); c.tbuf = tbuf; stats().counters["tbox_fd_found"]++; } else { c.tbuf = 3; stats().counters["tbox_fd_not_found"]++; }
  }
  void op_connect() override {
    if (conns.size() >= 3) return;
    int fd = addr.raw_socket(); if (fd < 0) return;
    apply_sockbuf(fd, pbuf);
    if (!addr.inet && cfgv(7, 0, 6) == 6) {
      if (kAvoid_named_unix_client) stats().counters["avoided_named_unix_client"]++;
      else {
        struct sockaddr_un me; memset(&me, 0, sizeof me); me.sun_family = AF_UNIX;
        snprintf(me.sun_path, sizeof me.sun_path, "%s/client-%d-bound-to-a-path", scratch_dir().c_str(), (int)conns.size());
        ::unlink(me.sun_path);
        if (::bind(fd, (struct sockaddr*)&me, sizeof me) == 0) info.cls("named_unix_client");
        named.push_back(me.sun_path);
      }
    }
    struct sockaddr_storage ss; socklen_t sl = addr.fill_raw(ss);
    int r = ::connect(fd, (struct sockaddr*)&ss, sl);
    if (r != 0 && addr.inet && errno == EINPROGRESS) { struct pollfd pf = {fd, POLLOUT, 0}; ::poll(&pf, 1, 200); r = 0; }
    if (r != 0) { ::close(fd); stats().counters["connect_refused"]++; return; }
    if (addr.inet) { int one = 1; setsockopt(fd, IPPROTO_TCP, TCP_NODELAY, &one, sizeof one); }
    Conn *c = new_conn(); tokens.emplace_back();
    c->prd = c->pwr = fd; c->pbuf = pbuf; c->inet = addr.inet;
    progress = true;
  }
  bool ep_send(Conn &c, const void *p, size_t n) override { return srv && srv->send(tokens[c.idx], p, n); }
  Buffer *ep_rbuf(Conn &c) override { return (srv && c.tbox_up && !c.tbox_gone && c.close_reports == 0) ? srv->getClientReceiveBuffer(tokens[c.idx]) : nullptr; }
  void ep_disconnect(Conn &c, bool) override {
    if (!srv || c.tbox_gone) return;
    c_disc = true;
    note_local_close(c);
    bool r = srv->disconnect(tokens[c.idx]);
    if (!r && c.close_reports == 0) fail(tag(c) + "disconnect() of a live connection returned false");
    if (srv->isClientValid(tokens[c.idx])) fail(tag(c) + "isClientValid() still true after disconnect()");
    c.tbox_gone = true; c.running = false; c.tfd = -1;
  }
  void ep_set_thr(Conn &, size_t t) override {   // applies to connections accepted from now on
    if (!srv) return;
    srv_thr = t;
    srv->setReceiveCallback([this](const TcpServer::ConnToken &tk, Buffer &b) { Conn *c = by_token(tk); if (!c) { fail("server: receive callback for an unknown connection token"); return; } on_recv(*c, b); }, t);
  }
  // DISABLE / ENABLE = stop() (disconnects every client, keeps the listening socket) / start() (accepts what queued up meanwhile)
  void op_disable() override {
    if (!srv || srv->state() != TcpServer::State::kRunning) return;
    for (auto &c : conns) note_local_close(*c);
    srv->stop(); c_disc = true;
    for (auto &c : conns) if (c->tbox_up && !c->tbox_gone) { c->tbox_gone = true; c->running = false; c->tfd = -1; }
    // stop() empties the connection cabinet, which restarts its id sequence: tokens handed out before are forgotten here, as a
    // user has to (a stale token may equal the token of a later connection — cabinet token aliasing is C08's subject)
    for (size_t i = 0; i < tokens.size(); ++i) if (conns[i]->tbox_gone) tokens[i].reset();
    if (srv->state() != TcpServer::State::kInited) fail("server: state after stop() is not kInited");
    info.cls("server_stop");
  }
  void op_enable() override { if (srv && srv->state() == TcpServer::State::kInited && !srv->start()) fail("server: start() after stop() failed"); }
  void before_drain() override { op_enable(); }
  void teardown() override {
    if (srv) { srv->cleanup(); srv.reset(); for (auto &c : conns) c->tbox_gone = true; }
    for (auto &p : named) ::unlink(p.c_str());
    named.clear();
  }
};

// =====================================================================================================
// client: TcpClient + raw listening socket; every (re)connection is a new Conn with fresh streams
struct ClientEngine : Engine {
  std::unique_ptr<TcpClient> cli;
  Addr addr;
  int lfd = -1;
  std::vector<int> base_fds;
  std::vector<int> accepted;        // raw peer sockets not yet matched with a connected callback
  int accept_delay = 0, pending_age = 0;
  int tbuf = 3, pbuf = 3;
  size_t cli_thr = 0;
  bool reconnect = false;
  ClientEngine(const Scenario &sc, CaseInfo &ci) : Engine(sc, ci, "client") { tick_ms = 60; quiet_need = 40; }

  Conn *cur() { return conns.empty() ? nullptr : conns.back().get(); }
  Conn *pick(const Op &) override { return cur(); }
  Conn *pick_for_send(const Op &) override {
    Conn *c = cur();
    if (c) return c;
    // not connected yet: send() must refuse
    static uint8_t z[4] = {1, 2, 3, 4};
    if (cli && cli->send(z, sizeof z)) fail("client: send() returned true before any connection was established");
    return nullptr;
  }

  bool setup() override {
    addr.inet = cfgv(0, 0, 11) >= 9;
    reconnect = cfgv(1, 0, 1) == 1;
    tbuf = (int)cfgv(2, 0, 3); pbuf = (int)cfgv(3, 0, 3);
    if (addr.inet) { tbuf = 3; if (pbuf == 0) pbuf = 1; }
    cli_thr = (size_t)cfgv(4, 0, 3000); if (cfgv(6, 0, 3) == 0) cli_thr = 0;
    sc_mode = (int)cfgv(5, 0, 1);
    accept_delay = (int)cfgv(7, 0, 6);
    addr.path = scratch_dir() + "/c";
    bool ok = false;
    for (int a = 0; a < 8 && !ok; ++a) {
      lfd = addr.raw_socket(); if (lfd < 0) return false;
      if (addr.inet) { addr.port = pick_port(a); int one = 1; setsockopt(lfd, SOL_SOCKET, SO_REUSEADDR, &one, sizeof one); } else ::unlink(addr.path.c_str());
      apply_sockbuf(lfd, pbuf);            // TCP: accepted sockets inherit the listener's buffer sizes
      struct sockaddr_storage ss; socklen_t sl = addr.fill_raw(ss);
      ok = ::bind(lfd, (struct sockaddr*)&ss, sl) == 0 && ::listen(lfd, 4) == 0;
      if (!ok) { ::close(lfd); lfd = -1; if (!addr.inet) break; }
    }
    if (!ok) { fail("INFRA: client: cannot listen"); return false; }
    info.cls(addr.inet ? "tcp_loopback" : "unix_path");
    cli.reset(new TcpClient(loop.get()));
    if (!cli->initialize(addr.tbox())) { fail("client: initialize() failed"); return false; }
    cli->setAutoReconnect(reconnect);
    cli->setConnectedCallback([this] { on_connected(); });
    cli->setDisconnectedCallback([this] { Conn *c = cur(); if (!c || !c->tbox_up) { fail("client: disconnected callback without a connection"); return; } on_closed(*c, "disconnected callback", nullptr); c->tfd = -1; c->running = false; });
    cli->setReceiveCallback([this](Buffer &b) { Conn *c = cur(); if (!c) { fail("client: receive callback without a connection"); return; } on_recv(*c, b); }, cli_thr);
    cli->setSendCompleteCallback([this] { Conn *c = cur(); if (!c) { fail("client: send-complete callback without a connection"); return; } on_sc(*c); });
    base_fds = open_fds();
    if (!cli->start()) { fail("client: start() failed"); return false; }
    return true;
  }
  void on_connected() {
    progress = true;
    if (Conn *o = cur()) if (o->tbox_up && !o->tbox_gone && o->close_reports == 0) { fail("client: connected callback while the previous connection was neither closed by the peer nor stopped"); return; }
    Conn *c = new_conn();
    if (conns.size() >= 6) cli->setAutoReconnect(false);        // enough epochs
    c->tbox_up = true; c->running = true; c->thr = cli_thr; c->inet = addr.inet; c->pbuf = pbuf;
    std::vector<int> known = base_fds; known.insert(known.end(), accepted.begin(), accepted.end());
    for (auto &x : conns) if (x->prd >= 0) known.push_back(x->prd);
    c->tfd = find_new_socket(known, {});
    if (c->tfd >= 0) { apply_sockbuf(c->tfd, tbuf); c->tbuf = tbuf; stats().counters["tbox_fd_found"]++; } else { c->tbuf = 3; stats().counters["tbox_fd_not_found"]++; }
    match();
  }
  void match() {   // k-th connected callback <-> k-th accepted socket
    for (auto &c : conns) if (c->prd < 0 && !c->peer_closed && !accepted.empty()) { c->prd = c->pwr = accepted.front(); accepted.erase(accepted.begin()); }
  }
  void per_pass() override {
    if (lfd < 0) return;
    struct pollfd pf = {lfd, POLLIN, 0};
    if (::poll(&pf, 1, 0) > 0 && (pf.revents & POLLIN)) {
      if (pending_age++ < accept_delay) return;
      int fd = ::accept4(lfd, nullptr, nullptr, SOCK_NONBLOCK | SOCK_CLOEXEC);
      if (fd >= 0) { pending_age = 0; progress = true; if (addr.inet) { int one = 1; setsockopt(fd, IPPROTO_TCP, TCP_NODELAY, &one, sizeof one); } else apply_sockbuf(fd, pbuf); accepted.push_back(fd); match(); }
    }
  }
  void op_connect() override { if (cli && conns.size() < 6 && cli->state() == TcpClient::State::kInited) { cli->start(); progress = true; } }
  bool ep_send(Conn &c, const void *p, size_t n) override { return cli && &c == cur() && cli->send(p, n); }
  Buffer *ep_rbuf(Conn &c) override { return (cli && &c == cur() && c.close_reports == 0 && !c.tbox_gone) ? cli->getReceiveBuffer() : nullptr; }
  void ep_disconnect(Conn &c, bool) override {
    if (!cli || &c != cur() || c.tbox_gone || c.close_reports) return;
    c_disc = true;
    note_local_close(c);
    cli->stop();
    if (cli->state() != TcpClient::State::kInited) fail("client: state after stop() is not kInited");
    c.tbox_gone = true; c.running = false; c.tfd = -1;
  }
  void ep_set_thr(Conn &c, size_t t) override {
    if (!cli) return;
    cli_thr = t; if (&c == cur() && c.tbox_up && !c.tbox_gone) { c.thr = t; c.thr_stable = false; }
    cli->setReceiveCallback([this](Buffer &b) { Conn *k = cur(); if (!k) { fail("client: receive callback without a connection"); return; } on_recv(*k, b); }, t);
  }
  void before_drain() override { accept_delay = 0; }
  void teardown() override {
    if (cli) { cli->cleanup(); cli.reset(); for (auto &c : conns) c->tbox_gone = true; }
    for (int fd : accepted) ::close(fd);
    accepted.clear();
    if (lfd >= 0) { ::close(lfd); lfd = -1; if (!addr.inet) ::unlink(addr.path.c_str()); }
  }
};

// =====================================================================================================
template <class E> std::string run_sub(const Scenario &s, CaseInfo &info) {
  std::vector<int> before = open_fds();
  std::string e;
  { E eng(s, info); e = eng.run(); }
  if (e.empty()) {
    std::vector<int> after = open_fds();
    if (after != before) stats().counters["descriptor_table_changed"]++;
    for (int fd : after) if (std::find(before.begin(), before.end(), fd) == before.end()) ::close(fd);   // keep a long campaign alive; counted, not judged (C08 owns descriptor lifetime)
  }
  return e;
}

#ifndef VERIF_ENGINE_FUZZ
rc::Gen<int64_t> size_gen() {
  return rc::gen::weightedOneOf<int64_t>({{4, range(1, 64)}, {4, range(65, 2100)}, {3, range(2101, 70000)}, {1, range(70001, 1 << 20)}});
}
rc::Gen<int64_t> psize_gen() {
  return rc::gen::weightedOneOf<int64_t>({{4, range(1, 64)}, {4, range(65, 2100)}, {3, range(2101, 40000)}, {1, range(40001, 300000)}});
}
rc::Gen<Scenario> make_gen(int kind) {   // 0 bfd, 1 server, 2 client
  auto conn = range(0, 2);
  auto cfg = mkop(CFG, {kind == 0 ? range(0, 2) : range(0, 11), range(0, 3), rc::gen::weightedOneOf<int64_t>({{3, rc::gen::just<int64_t>(0)}, {2, range(1, 3)}}),
                        rc::gen::weightedOneOf<int64_t>({{2, rc::gen::just<int64_t>(0)}, {3, range(1, 3)}}),
                        rc::gen::weightedOneOf<int64_t>({{3, range(0, 40)}, {2, range(41, 3000)}}), range(0, 1), range(0, 3), range(0, 6)});
  auto cons = mkop(CONS, {range(0, 4), rc::gen::weightedOneOf<int64_t>({{3, range(0, 40)}, {2, range(41, 3000)}, {1, range(3001, 70000)}})});
  auto head = rc::gen::apply([](Op c, std::vector<Op> cs) { std::vector<Op> v; v.push_back(std::move(c)); if (cs.size() > 4) cs.resize(4); for (auto &o : cs) v.push_back(std::move(o)); return v; },
                             cfg, rc::gen::resize(3, rc::gen::container<std::vector<Op>>(cons)));
  auto common = rc::gen::weightedOneOf<Op>({
    {10, mkop(SEND, {conn, rc::gen::weightedOneOf<int64_t>({{5, rc::gen::just<int64_t>(0)}, {4, range(1, 4)}}), size_gen()})},
    {5, mkop(PREAD, {conn, size_gen()})},
    {3, mkop(PAUTO, {conn, rc::gen::weightedOneOf<int64_t>({{2, rc::gen::just<int64_t>(0)}, {2, range(1, 3000)}, {1, range(3001, 70000)}})})},
    {4, mkop(IDLE, {rc::gen::weightedOneOf<int64_t>({{4, range(1, 4)}, {1, range(5, 40)}})})},
    {7, mkop(PWRITE, {conn, rc::gen::weightedOneOf<int64_t>({{5, rc::gen::just<int64_t>(0)}, {4, range(1, 4)}}), psize_gen()})},
    {1, mkop(PSHUT, {conn, range(0, 2)})},
    {1, mkop(PFIN, {conn, range(0, 1), rc::gen::weightedOneOf<int64_t>({{2, range(1, 200)}, {3, range(201, 9000)}, {1, range(9001, 70000)}}), range(0, 2), range(1, 3),
                                              rc::gen::weightedOneOf<int64_t>({{3, range(1, 64)}, {1, range(65, 4000)}})})},
    {1, mkop(DISC, {conn, range(0, 3)})},
    {2, mkop(THR, {conn, rc::gen::weightedOneOf<int64_t>({{3, range(0, 40)}, {2, range(41, 5000)}})})},
    {1, mkop(BUFSZ, {conn, range(0, 1), range(0, 3)})},
    {2, mkop(CBSEND, {conn, range(1, 3), size_gen()})},
    {1, mkop(PEEK, {conn, rc::gen::weightedOneOf<int64_t>({{2, rc::gen::just<int64_t>(0)}, {1, range(1, 3000)}})})},
  });
  auto special = kind == 0 ? rc::gen::weightedOneOf<Op>({{4, mkop(ENABLE, {})}, {2, mkop(DISABLE, {rc::gen::weightedOneOf<int64_t>({{3, rc::gen::just<int64_t>(0)}, {1, range(1, 2)}})})}, {1, mkop(SHRINK, {conn, range(0, 3)})}})
                           : kind == 1 ? rc::gen::weightedOneOf<Op>({{6, mkop(CONNECT, {})}, {1, mkop(DISABLE, {rc::gen::just<int64_t>(0)})}, {2, mkop(ENABLE, {})}})
                                       : mkop(CONNECT, {});
  auto single = rc::gen::map(rc::gen::weightedOneOf<Op>({{37, common}, {(size_t)(kind == 0 ? 7 : kind == 1 ? 3 : 2), special}}), [](Op o) { return std::vector<Op>{std::move(o)}; });
  // "reply, and close once it has been written": large send to a peer that reads slowly or not at all, local disconnect from inside
  // the send-complete callback or (after waiting for the notification) from outside, then the peer keeps reading
  auto big = rc::gen::weightedOneOf<int64_t>({{2, range(5000, 60000)}, {3, range(60001, 400000)}, {2, range(400001, 1 << 20)}});
  auto slow = rc::gen::weightedOneOf<int64_t>({{1, rc::gen::just<int64_t>(0)}, {3, range(500, 9000)}, {2, range(9001, 70000)}});
  auto reply_close = rc::gen::apply([](int64_t c, int64_t n, int64_t k, int64_t v, int64_t k2) {
    auto mk = [](int code, std::vector<int64_t> a) { Op o; o.code = code; o.a = std::move(a); return o; };
    std::vector<Op> r;
    r.push_back(mk(PAUTO, {c, k}));
    if (v == 0) r.push_back(mk(DISC, {c, 2}));                                             // inside the next notification (scheduled first: the kernel may take the whole send at once)
    r.push_back(mk(SEND, {c, 0, n}));
    if (v == 0) r.push_back(mk(IDLE, {2}));
    else { r.push_back(mk(PAUTO, {c, k ? k : 20000})); r.push_back(mk(WAITSC, {c, 399})); r.push_back(mk(DISC, {c, 0})); }   // outside, after it
    r.push_back(mk(PAUTO, {c, k2}));
    return r;
  }, conn, big, slow, range(0, 1), slow);
  auto chunks = rc::gen::container<std::vector<std::vector<Op>>>(rc::gen::weightedOneOf<std::vector<Op>>({{(size_t)(kind == 0 ? 40 : 30), single}, {1, reply_close}}));
  auto body = rc::gen::map(chunks, [](std::vector<std::vector<Op>> cs) { std::vector<Op> v; for (auto &c : cs) for (auto &o : c) v.push_back(std::move(o)); return v; });
  return scenarioOf(head, body);
}
#endif

SubDef make_def(const char *name, int kind, std::function<std::string(const Scenario&, CaseInfo&)> run) {
  SubDef d; d.name = name; d.op_names = kOpNames; d.op_arity = kOpArity;
  d.nt_rule = "history with a partial or refused direct write (send larger than the free kernel buffer while the peer is not reading), or a send issued while the descriptor is not enabled, or a receive callback that leaves bytes unconsumed followed by more data";
  d.run = std::move(run);
#ifndef VERIF_ENGINE_FUZZ
  d.gen = [kind] { return make_gen(kind); };
#else
  (void)kind;
#endif
  return d;
}
SubDef def_bfd = make_def("bfd", 0, run_sub<BfdEngine>);
SubDef def_server = make_def("server", 1, run_sub<ServerEngine>);
SubDef def_client = make_def("client", 2, run_sub<ClientEngine>);
VERIF_REGISTER(&def_bfd);
VERIF_REGISTER(&def_server);
VERIF_REGISTER(&def_client);
}  // namespace
