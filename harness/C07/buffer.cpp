// C07 — tbox::util::Buffer is a FIFO byte queue under every operation mix.
// Oracle: std::string model per variable, compared after every op (size + full content), plus ASan.
#define VERIF_MAIN
#include "../common/verif.h"
#include <tbox/util/buffer.h>
#include <memory>
#include <new>
#include <cstdlib>

using namespace verif;
using tbox::util::Buffer;

// Allocation-failure injection: array allocations of 2 GiB and more fail with std::bad_alloc (as they would on a
// machine that cannot provide them); everything else goes to malloc(), which the sanitizer still tracks.  Used by
// the RESERVEFAIL op: a reservation that cannot be satisfied must leave the buffer usable and within its storage.
static const size_t kAllocLimit = (size_t)1 << 31;
void *operator new[](size_t n) { if (n >= kAllocLimit) throw std::bad_alloc(); void *p = malloc(n ? n : 1); if (!p) throw std::bad_alloc(); return p; }
void *operator new[](size_t n, const std::nothrow_t &) noexcept { if (n >= kAllocLimit) return nullptr; return malloc(n ? n : 1); }
void operator delete[](void *p) noexcept { free(p); }
void operator delete[](void *p, size_t) noexcept { free(p); }
void operator delete[](void *p, const std::nothrow_t &) noexcept { free(p); }

namespace {
enum { CFG, APPEND, RESERVE, FETCH, HASREAD, READALL, SHRINK, COPYCTOR, COPYASSIGN, MOVECTOR, MOVEASSIGN, SWAP, RESET, RESERVEFAIL, NOPS };
const int64_t kCaps[] = {0, 1, 2, 255, 256, 257, 4096};
const int kVars = 4;

struct Var {
  std::unique_ptr<Buffer> b;
  std::string m;          // model: readable bytes
  size_t rd = 0;          // shadow of the read offset (statistics / size biasing only)
};

struct Ctx {
  Var v[kVars];
  uint32_t g = 12345;     // payload generator state
  uint8_t next() { g = g * 1664525u + 1013904223u; return (uint8_t)(g >> 24); }
  bool compacted = false, grown = false; int failed_reservations = 0, mid_consume = 0;
};

// size selection relative to the buffer's current shape
size_t pick_size_raw(const Var &x, int64_t mode, int64_t n) {
  size_t w = x.b->writableSize();
  switch (mode) {
    case 0: return (size_t)n;
    case 1: return w ? w - 1 : 0;
    case 2: return w;
    case 3: return w + 1;
    case 4: return w + x.rd;
    case 5: return w + x.rd + 1;
    case 6: return 2 * (w + x.m.size() + x.rd);
    case 7: return x.m.size();
    case 8: return x.m.size() ? x.m.size() - 1 : 0;
    default: return x.m.size() + 1;
  }
}

// sizes are capped at 1 MiB so that repeated doubling cannot exhaust memory (domain bound of this harness)
size_t pick_size(const Var &x, int64_t mode, int64_t n) {
  size_t r = pick_size_raw(x, mode, n);
  return r > (1u << 20) ? (size_t)n : r;
}

std::string verify(const Ctx &c, const char *after, size_t step) {
  for (int i = 0; i < kVars; ++i) {
    const Var &x = c.v[i];
    char buf[256];
    if (x.b->readableSize() != x.m.size()) {
      snprintf(buf, sizeof buf, "step %zu after %s: var %d readableSize()=%zu, model %zu", step, after, i, x.b->readableSize(), x.m.size());
      return buf;
    }
    if (!x.m.empty()) {
      const uint8_t *p = x.b->readableBegin();
      if (!p) { snprintf(buf, sizeof buf, "step %zu after %s: var %d readableBegin()==nullptr with %zu readable", step, after, i, x.m.size()); return buf; }
      if (memcmp(p, x.m.data(), x.m.size()) != 0) {
        size_t k = 0; while (p[k] == (uint8_t)x.m[k]) ++k;
        snprintf(buf, sizeof buf, "step %zu after %s: var %d content differs from FIFO model at offset %zu of %zu", step, after, i, k, x.m.size());
        return buf;
      }
    }
  }
  return "";
}

// note what ensureWritableSize(n) is about to do (shadow only, for statistics)
void shadow_ensure(Ctx &c, Var &x, size_t n) {
  if (n == 0) return;
  size_t w = x.b->writableSize();
  if (w >= n) return;
  if (w + x.rd >= n) { if (x.rd > 0 && !x.m.empty()) c.compacted = true; x.rd = 0; }
  else { if (x.rd > 0 && !x.m.empty()) c.grown = true; }
}
void shadow_read(Var &x, size_t n) { if (n >= x.m.size()) x.rd = 0; else x.rd += n; }

std::string run(const Scenario &s, CaseInfo &info) {
  Ctx c;
  size_t first = 0;
  int64_t caps[kVars] = {4, 4, 0, 1};
  if (!s.ops.empty() && s.ops[0].code == CFG) { for (int i = 0; i < kVars; ++i) caps[i] = s.ops[0].in(i, 0, 6); first = 1; }
  for (int i = 0; i < kVars; ++i) c.v[i].b.reset(new Buffer((size_t)kCaps[caps[i]]));
  std::string err;
  for (size_t k = first; k < s.ops.size(); ++k) {
    const Op &op = s.ops[k];
    Var &x = c.v[op.in(0, 0, kVars - 1)];
    Var &y = c.v[op.in(1, 0, kVars - 1)];
    const char *name = "?";
    switch (op.code) {
      case APPEND: { name = "append";
        size_t n = pick_size(x, op.in(1, 0, 6), op.in(2, 0, 9000));
        std::string d(n, 0); for (auto &ch : d) ch = (char)c.next();
        // exact-size heap copy so that an over-read of the source is an ASan report
        std::unique_ptr<uint8_t[]> src(new uint8_t[n ? n : 1]); memcpy(src.get(), d.data(), n);
        shadow_ensure(c, x, n);
        size_t r = x.b->append(src.get(), n);
        if (r != n) return "append returned " + std::to_string(r) + " for " + std::to_string(n);
        x.m += d; break; }
      case RESERVE: { name = "reserve+commit";
        size_t n = pick_size(x, op.in(1, 0, 6), op.in(2, 0, 9000));
        shadow_ensure(c, x, n);
        if (!x.b->ensureWritableSize(n)) return "ensureWritableSize failed";
        size_t w = x.b->writableSize();
        if (w < n) return "ensureWritableSize(" + std::to_string(n) + ") left writableSize()=" + std::to_string(w);
        uint8_t *p = x.b->writableBegin();
        if (w > 0 && !p) return "writableBegin()==nullptr with writable space";
        // fill the whole writable window (or, once the window exceeds 1 MiB, only the requested part, so that
        // repeated "commit everything" cannot double the buffer without bound)
        bool big = w > (1u << 20);
        size_t fill = big ? n : w;
        std::string d(fill, 0); for (auto &ch : d) ch = (char)c.next();
        if (fill) memcpy(p, d.data(), fill);
        // between writing into the reserved window and committing it, the reader side may consume PART of the unread data
        // (a partial consume only moves the read offset; consuming everything would rewind the buffer and is not done here)
        if (op.in(5, 0, 3) >= 2 && x.m.size() >= 2) {
          size_t kk = 1 + (size_t)op.in(4, 0, 1000) % (x.m.size() - 1);   // 1 .. readable-1
          if (op.in(5, 0, 3) == 2) x.b->hasRead(kk);
          else { std::unique_ptr<uint8_t[]> dst(new uint8_t[kk]); size_t r = x.b->fetch(dst.get(), kk); if (r != kk || memcmp(dst.get(), x.m.data(), kk) != 0) return "fetch between write and commit returned wrong data"; }
          x.m.erase(0, kk); x.rd += kk; c.mid_consume++;
        }
        size_t commit;
        switch (big ? op.in(3, 0, 1) : op.in(3, 0, 4)) { case 0: commit = n; break; case 1: commit = n / 2; break; case 2: commit = w; break; case 3: commit = w + 1 + (size_t)op.in(4, 0, 1000); break; default: commit = 0; }
        x.b->hasWritten(commit);
        x.m += d.substr(0, std::min(commit, fill));   // documented clamp
        break; }
      case RESERVEFAIL: { name = "failed reservation";
        // a reservation nobody can satisfy (2^33 .. 2^60 bytes: the allocation fails, see operator new[] above)
        size_t n = ((size_t)1 << (33 + op.in(1, 0, 27))) + (size_t)op.in(2, 0, 9000);
        bool ok = false, threw = false;
        try { ok = x.b->ensureWritableSize(n); } catch (const std::bad_alloc &) { threw = true; }
        if (ok && !threw) return "ensureWritableSize(" + std::to_string(n) + ") reported success although the allocation cannot have succeeded";
        c.failed_reservations++;
        // whatever writable window the buffer advertises now must be its own storage: touch both ends of it
        size_t w = x.b->writableSize();
        if (w > 0) { volatile uint8_t *p = x.b->writableBegin(); if (!p) return "writableBegin()==nullptr with writable space after a failed reservation"; p[0] = 0xA5; p[w - 1] = 0x5A; }
        break; }
      case FETCH: { name = "fetch";
        size_t n = pick_size(x, op.in(1, 0, 9), op.in(2, 0, 9000));
        std::unique_ptr<uint8_t[]> dst(new uint8_t[n ? n : 1]);
        size_t exp = std::min(n, x.m.size());
        size_t r = x.b->fetch(dst.get(), n);
        if (r != exp) return "fetch(" + std::to_string(n) + ") returned " + std::to_string(r) + ", model " + std::to_string(exp);
        if (memcmp(dst.get(), x.m.data(), exp) != 0) return "fetch returned bytes that are not the FIFO prefix";
        shadow_read(x, exp); x.m.erase(0, exp); break; }
      case HASREAD: { name = "hasRead";
        size_t n = pick_size(x, op.in(1, 0, 9), op.in(2, 0, 9000));
        x.b->hasRead(n);
        if (n > x.m.size()) { x.m.clear(); x.rd = 0; } else { shadow_read(x, n); x.m.erase(0, n); }
        break; }
      case READALL: name = "hasReadAll"; x.b->hasReadAll(); x.m.clear(); x.rd = 0; break;
      case SHRINK: name = "shrink"; x.b->shrink(); x.rd = 0; break;
      case COPYCTOR: name = "copy-construct"; if (&x != &y) { y.b.reset(new Buffer(*x.b)); y.m = x.m; y.rd = 0; } break;
      case COPYASSIGN: name = "copy-assign"; { Buffer &src = *x.b; *y.b = src; if (&x != &y) { y.m = x.m; y.rd = 0; } } break;
      case MOVECTOR: name = "move-construct"; if (&x != &y) { y.b.reset(new Buffer(std::move(*x.b))); y.m = x.m; y.rd = x.rd; x.m.clear(); x.rd = 0; } break;
      case MOVEASSIGN: name = "move-assign"; { Buffer &src = *x.b; *y.b = std::move(src); if (&x != &y) { y.m = x.m; y.rd = x.rd; x.m.clear(); x.rd = 0; } } break;
      case SWAP: name = "swap"; x.b->swap(*y.b); if (&x != &y) { std::swap(x.m, y.m); std::swap(x.rd, y.rd); } break;
      case RESET: name = "reset"; x.b->reset(); x.m.clear(); x.rd = 0; break;
      default: continue;
    }
    err = verify(c, name, k);
    if (!err.empty()) return err;
  }
  info.cls_if(c.compacted, "compaction_with_nonzero_read_offset");
  info.cls_if(c.grown, "growth_with_nonzero_read_offset");
  info.cls_if(c.mid_consume > 0, "partial_consume_between_write_and_commit");
  info.cls_if(c.failed_reservations > 0, "reservation_failed_for_lack_of_memory_then_buffer_used_again");
  info.nontrivial = c.compacted && c.grown;
  return "";
}

SubDef def = [] {
  SubDef d; d.name = "buffer";
  d.op_names = {"cfg", "append", "reserve", "fetch", "hasread", "readall", "shrink", "copyctor", "copyassign", "movector", "moveassign", "swap", "reset", "reservefail"};
  d.op_arity = {4, 3, 6, 3, 3, 1, 1, 2, 2, 2, 2, 2, 1, 3};
  d.nt_rule = "history takes both the compaction branch and the growth branch of ensureWritableSize with a non-zero read offset and readable data";
  d.run = run;
#ifndef VERIF_ENGINE_FUZZ
  d.gen = [] {
    auto var = range(0, kVars - 1);
    auto mode7 = rc::gen::weightedOneOf<int64_t>({{3, rc::gen::just<int64_t>(0)}, {5, range(1, 6)}});
    auto mode10 = rc::gen::weightedOneOf<int64_t>({{3, rc::gen::just<int64_t>(0)}, {5, range(1, 9)}});
    auto sz = rc::gen::weightedOneOf<int64_t>({{4, range(0, 40)}, {3, range(0, 600)}, {1, range(0, 9000)}});
    auto opg = rc::gen::weightedOneOf<Op>({
      {8, mkop(APPEND, {var, mode7, sz})},
      {5, mkop(RESERVE, {var, mode7, sz, range(0, 4), range(0, 1000), range(0, 3)})},
      {6, mkop(FETCH, {var, mode10, sz})},
      {6, mkop(HASREAD, {var, mode10, sz})},
      {1, mkop(READALL, {var})},
      {1, mkop(SHRINK, {var})},
      {1, mkop(COPYCTOR, {var, var})},
      {1, mkop(COPYASSIGN, {var, var})},
      {1, mkop(MOVECTOR, {var, var})},
      {1, mkop(MOVEASSIGN, {var, var})},
      {1, mkop(SWAP, {var, var})},
      {1, mkop(RESET, {var})},
      {1, mkop(RESERVEFAIL, {var, range(0, 27), range(0, 9000)})},
    });
    return scenarioOf(fixedOps({mkop(CFG, {range(0, 6), range(0, 6), range(0, 6), range(0, 6)})}), opsOf(opg));
  };
#endif
  return d;
}();
VERIF_REGISTER(&def);
}  // namespace
