TARGETS = {
    "c07_buffer_rc":   {"src": "C07/buffer.cpp", "variant": "asan", "engine": "rc",   "libs": ["util", "base"]},
    "c07_buffer_fuzz": {"src": "C07/buffer.cpp", "variant": "asan", "engine": "fuzz", "libs": ["util", "base"]},
}
PROP = {
    "subchecks": [
        {"target": "c07_buffer_rc", "sub": "buffer",
         "quick": {"cases": 30000, "max_size": 120, "workers": 6},
         "thorough": {"cases": 120000, "max_size": 200, "workers": 12}},
        {"target": "c07_buffer_fuzz", "sub": "buffer",
         "quick": {"runs": 150000, "max_len": 600, "workers": 4},
         "thorough": {"runs": 300000, "max_len": 1500, "workers": 6}},
    ],
    "assumptions": ["memcpy(dst, nullptr, 0) (formally UB) is not flagged: no listed property claims UB-freedom",
                    "hasWritten() beyond writableSize() is clamped as the header documents",
                    "operation sizes are bounded to 1 MiB"],
}
META = {
    "design_ref": "DESIGN.md section 4, C07",
    "technique": "model-based stateful PBT (rapidcheck) + coverage-guided fuzzing (libFuzzer) of the same op-stream against a std::string FIFO reference model, under ASan/UBSan",
    "level_text": "Generated operation histories on up to 4 Buffer variables (all public operations, boundary-biased sizes, all initial capacities) are compared after every step with a FIFO reference model (size and full content, fetch results, copy independence, moved-from/reset emptiness); ASan with exact-size source/destination blocks catches out-of-storage accesses. Exploration only: no counter-example among N generated histories. Later additions (seeding rounds): reservations that fail for lack of memory (array allocations >= 2 GiB fail through a replaced operator new[]; the buffer is used again and both ends of its advertised writable window are touched), a partial consume between writing into the reserved window and committing it, self copy/move assignment through aliases.",
    "level_note": "Trusted: the reference model (std::string per variable), ASan/UBSan instrumentation, the harness's clamp of over-committed hasWritten() to writableSize() as documented in the header. Sizes are bounded to 1 MiB per operation. memcpy(_, nullptr, 0) is not flagged.",
}
