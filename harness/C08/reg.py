# rapidcheck's lazily evaluated generator trees produce an unbounded number of distinct deep allocation stacks; with the
# driver's default malloc_context_size=12 ASan's stack depot grows by ~15 KB per case (2.7 GB after 120k cases) and the
# per-case cost grows with it.  Allocation/free stacks are therefore capped at 5 frames and the quarantine at 64 MB for
# these workers (the stack of the faulting access itself is always complete; a case allocates a few KB).
_ASAN = ("detect_leaks=1:detect_stack_use_after_return=0:allocator_may_return_null=1:handle_abort=0:symbolize=1:"
         "malloc_context_size=5:quarantine_size_mb=64")
_ENV = {"ASAN_OPTIONS": _ASAN}
TARGETS = {
    "c08_handles_rc":   {"src": "C08/handles.cpp", "variant": "asan", "engine": "rc",   "libs": ["util", "base"]},
    "c08_handles_fuzz": {"src": "C08/handles.cpp", "variant": "asan", "engine": "fuzz", "libs": ["util", "base"]},
}
PROP = {
    "subchecks": [
        {"target": "c08_handles_rc", "sub": "cabinet", "env": _ENV,
         "quick": {"cases": 15000, "max_size": 150, "workers": 3},
         "thorough": {"cases": 300000, "max_size": 300, "workers": 3}},
        {"target": "c08_handles_rc", "sub": "pool", "env": _ENV,
         "quick": {"cases": 15000, "max_size": 120, "workers": 3},
         "thorough": {"cases": 300000, "max_size": 250, "workers": 3}},
        {"target": "c08_handles_rc", "sub": "pool_tree", "env": _ENV,
         "quick": {"cases": 25000, "max_size": 100, "workers": 2},
         "thorough": {"cases": 300000, "max_size": 200, "workers": 3}},
        {"target": "c08_handles_rc", "sub": "fd", "env": _ENV,
         "quick": {"cases": 28000, "max_size": 150, "workers": 2},
         "thorough": {"cases": 300000, "max_size": 300, "workers": 3}},
        {"target": "c08_handles_rc", "sub": "lifetime_tag", "env": _ENV,
         "quick": {"cases": 56000, "max_size": 150, "workers": 2},
         "thorough": {"cases": 600000, "max_size": 300, "workers": 3}},
        {"target": "c08_handles_fuzz", "sub": "cabinet", "env": _ENV,
         "quick": {"runs": 120000, "max_len": 600, "workers": 1, "unit_timeout": 60},
         "thorough": {"runs": 800000, "max_len": 1500, "workers": 1, "unit_timeout": 60}},
        {"target": "c08_handles_fuzz", "sub": "pool", "env": _ENV,
         "quick": {"runs": 40000, "max_len": 400, "workers": 1, "unit_timeout": 60},
         "thorough": {"runs": 100000, "max_len": 1000, "workers": 1, "unit_timeout": 60}},
        {"target": "c08_handles_fuzz", "sub": "pool_tree", "env": _ENV,
         "quick": {"runs": 80000, "max_len": 300, "workers": 1, "unit_timeout": 60},
         "thorough": {"runs": 300000, "max_len": 800, "workers": 1, "unit_timeout": 60}},
        {"target": "c08_handles_fuzz", "sub": "fd", "env": _ENV,
         "quick": {"runs": 100000, "max_len": 500, "workers": 1, "unit_timeout": 60},
         "thorough": {"runs": 600000, "max_len": 1200, "workers": 1, "unit_timeout": 60}},
        {"target": "c08_handles_fuzz", "sub": "lifetime_tag", "env": _ENV,
         "quick": {"runs": 200000, "max_len": 500, "workers": 1, "unit_timeout": 60},
         "thorough": {"runs": 1500000, "max_len": 1200, "workers": 1, "unit_timeout": 60}},
    ],
    "assumptions": [
        "single-threaded use (none of the four classes claims thread safety)",
        "the cabinet does not own the stored objects: the harness releases them when an entry is freed or cleared, as the in-tree callers do",
        "no alloc() inside Cabinet::foreach (only removal is documented as allowed during traversal)",
        "id wrap-around of the cabinet (2^64 allocations) is out of reach and not exercised",
        "pooled probe types need no more than malloc alignment; a constructor that throws has released what it allocated itself (pool_tree)",
        "close() of a case-owned descriptor number is observed (and, when armed, made to report EINTR after closing) through a close() defined in the harness executable; other numbers pass through untouched", "a close function is never invoked re-entrantly on the handle being closed; calls of the close function with a negative argument are ignored",
        "ObjectPool statistics are compared with the documented retention rule (a freed block is parked while fewer than the limit are parked)",
    ],
}
META = {
    "design_ref": "DESIGN.md section 4, C08",
    "technique": "model-based stateful PBT (rapidcheck) + coverage-guided fuzzing (libFuzzer) of the same op-streams: Cabinet vs. a map of every token ever issued; ObjectPool vs. ctor/dtor counters, id patterns, address ranges and a retention model, also used re-entrantly by tree nodes whose constructors allocate / destructors free from the same pool and whose constructors may throw; Fd vs. reference-counted cells with a recording close function and real descriptors; LifetimeTag vs. tag-existence model; all under ASan/UBSan with pool poisoning (H3) and a per-case heap-balance check",
    "level_text": "Generated histories of cabinet operations (tokens drawn from all tokens ever returned: live, freed, pre-clear, default, forged), pool alloc/free with retention limits {0,1,2,64,unbounded} and four object sizes, handle operations on up to 6 Fd variables (copy/move/assign/self-assign/swap/reset/close/destroy/temporary chains) and tag/watcher operations are compared step by step with reference models; every step checks size, resolution of stale tokens, address disjointness and patterns of live pooled objects, constructor/destructor balance, the exact set of descriptors closed by the step, and get()/isNull(). Exploration only: no counter-example among N generated histories.",
    "level_note": "Trusted: the reference models, ASan/UBSan, __sanitizer_get_current_allocated_bytes for the per-case heap balance, fcntl(F_GETFD) as the open/closed probe for real descriptors. Not covered: multi-threaded use, cabinet id wrap-around, over-aligned pooled types, re-entrant close functions.",
}
