// C08 — Handles never dangle or alias: cabinet tokens, pooled objects, shared fds (+ lifetime tags).
//
// Five independent model-based state machines in one binary:
//   cabinet       tbox::cabinet::Cabinet<Obj> against "every token ever returned -> object or nothing"
//   pool          tbox::ObjectPool<Probe<N>>  against ctor/dtor counters, id patterns, address ranges, stats
//   pool_tree     the same pool used re-entrantly: nodes whose constructor allocs / destructor frees nodes of the same pool, throwing constructors
//   fd            tbox::util::Fd handle variables against reference-counted cells and a recording close function
//   lifetime_tag  tbox::LifetimeTag / Watcher against "watcher is alive iff the tag it was taken from still exists"
// Besides the explicit oracles, ASan/UBSan watch every access, H3 poisons parked pool blocks, and the
// heap balance of every case is checked (nothing allocated inside a case may survive it).
#define VERIF_MAIN
#define LOG_MODULE_ID "verif.c08"
#include "../common/verif.h"
#include <utility>
#include <memory>
#include <algorithm>
#include <cerrno>
#include <cstdarg>
#include <tbox/base/cabinet.hpp>
#include <tbox/base/object_pool.hpp>
#include <tbox/base/lifetime_tag.hpp>
#include <tbox/util/fd.h>

// The per-case heap balance needs ASan's allocator statistics.  The detection is done here (not through a macro of
// the shared header, whose name changed once and silently turned this oracle into a no-op), a build without ASan is
// refused, and heap_selftest() proves at run time that the counter really moves.
#if defined(__has_feature)
#  if __has_feature(address_sanitizer)
#    define C08_HAVE_ASAN 1
#  endif
#endif
#if defined(__SANITIZE_ADDRESS__)
#  define C08_HAVE_ASAN 1
#endif
#ifndef C08_HAVE_ASAN
#  error "C08/handles.cpp must be built with AddressSanitizer (variant asan): the heap-balance oracle depends on it"
#endif
#include <sanitizer/allocator_interface.h>
static size_t heap_now() { return __sanitizer_get_current_allocated_bytes(); }
// "" if the allocator statistics react to an allocation and to its release, else a diagnosis
static std::string heap_selftest() {
  for (int attempt = 0; attempt < 3; ++attempt) {   // a foreign thread may allocate in between: up to three tries
    size_t a = heap_now();
    void *volatile p = malloc(4096);
    size_t b = heap_now();
    free(p);
    size_t c = heap_now();
    if (b >= a + 4096 && c == a) return "";
  }
  return "harness self-test: the allocator statistics do not follow malloc/free; the heap-balance oracle would be blind";
}

using namespace verif;

// ---- close() fault injection (fd sub) ---------------------------------------------------------------
// The executable's close() overrides libc's for the statically linked tbox libraries (and for everybody else in the
// process: ASan, libFuzzer, rapidcheck).  It is transparent except for descriptor NUMBERS the running case has
// registered: for those it counts the real close() calls, and - armed by the case for one number - it performs the
// real close and then reports EINTR (on Linux the descriptor is gone at that point), optionally opening a bystander
// descriptor in between, which normally receives the number that has just become free.
#include <sys/syscall.h>
namespace c08fault {
const int kMax = 4096;
bool watch[kMax]; int closes[kMax];
int inject_fd = -1; bool inject_reopen = false;
int bystander_fd = -1; bool fired = false; int fired_fd = -1;
void reset() { for (int i = 0; i < kMax; ++i) { watch[i] = false; closes[i] = 0; } inject_fd = -1; inject_reopen = false; bystander_fd = -1; fired = false; fired_fd = -1; }
inline bool watched(int fd) { return fd >= 0 && fd < kMax && watch[fd]; }
}
extern "C" int close(int fd) {
  int ret = (int)syscall(SYS_close, fd);
  if (c08fault::watched(fd)) {
    ++c08fault::closes[fd];
    if (c08fault::inject_fd == fd) {
      c08fault::inject_fd = -1; c08fault::fired = true; c08fault::fired_fd = fd;
      if (c08fault::inject_reopen && c08fault::bystander_fd < 0) c08fault::bystander_fd = (int)syscall(SYS_openat, AT_FDCWD, "/dev/null", O_RDONLY | O_CLOEXEC);
      errno = EINTR;
      return -1;
    }
  }
  return ret;
}

namespace {

std::string fmt(const char *f, ...) __attribute__((format(printf, 1, 2)));
std::string fmt(const char *f, ...) {
  char buf[512];
  va_list ap; va_start(ap, f); vsnprintf(buf, sizeof buf, f, ap); va_end(ap);
  return buf;
}

// Runs `body` (which owns every heap object of the case) and reports a heap imbalance as a leak.
// Cases are pure functions of the scenario, so an imbalance caused by the code under test repeats on every execution;
// one caused by a foreign thread (libFuzzer's RSS watchdog thread allocates while it starts up) does not.  An imbalance is
// therefore reported only if it shows up in three consecutive executions of the same case.
template <typename Body>
std::string with_leak_check(const char *what, Body body) {
  static const std::string selftest = heap_selftest();
  if (!selftest.empty()) return selftest;
  long long delta = 0;
  for (int attempt = 0; attempt < 3; ++attempt) {
    size_t h0 = heap_now();
    std::string err = body();
    if (!err.empty()) return err;
    size_t h1 = heap_now();
    if (h1 == h0) { if (attempt > 0) stats().counters["heap_balance_rechecks"]++; return ""; }
    delta = (long long)h1 - (long long)h0;
  }
  return fmt("%s: heap balance after the case is %+lld bytes (storage leaked or released twice)", what, delta);
}

// =====================================================================================================
// cabinet
// =====================================================================================================
namespace cab {
using tbox::cabinet::Cabinet;
using tbox::cabinet::Token;

enum { ALLOC, UPDATE, FREE, AT, SIZE, CLEAR, FOREACH, RESERVE, SWEEP, NOPS };

struct Obj { uint64_t serial; size_t tokidx; };

struct TokRec {
  Token t;
  bool live = false;
  Obj *obj = nullptr;     // model: object stored with the token while live
  size_t ord = 0;         // how many allocations had been made at t.pos() when it was issued (incl. itself)
  int era = 0;            // number of clear() calls before it was issued
};

struct Flags {
  bool stale_after_reuse = false, preclear_after_realloc = false, forged_hit = false, forged_miss = false,
       foreach_rm_current = false, foreach_rm_other = false, foreach_rm_unvisited = false, null_obj = false, cleared = false,
       deep_free_list = false;
  size_t max_live = 0;
};

struct Ctx {
  Cabinet<Obj> c;
  std::vector<TokRec> toks;
  std::vector<size_t> live, dead;                      // indices into toks
  std::map<size_t, size_t> pos_allocs;                 // pos -> allocations ever made at that pos
  std::map<size_t, std::vector<size_t>> by_pos;        // pos -> all records issued at that pos
  std::map<std::pair<size_t, size_t>, size_t> issued;  // (id,pos) -> record, every token ever returned
  std::map<std::pair<size_t, size_t>, size_t> live_by_value;
  std::map<Obj*, size_t> live_objs;
  int era = 0;
  uint64_t serial = 0;
  size_t last_id = 0, max_pos = 0;
  size_t frees_in_row = 0;
  Flags f;

  ~Ctx() { for (auto &kv : live_objs) delete kv.first; }
};

struct Pick { Token t; long rec = -1; bool forged = false; };

Pick pick(Ctx &x, const Op &op, size_t base) {
  Pick p;
  int64_t mode = op.in(base, 0, 5);
  size_t idx = (size_t)op.in(base + 1, 0, 1 << 20);
  size_t aux = (size_t)op.in(base + 2, 0, 1 << 20);
  auto any = [&]() { if (!x.toks.empty()) { p.rec = (long)(idx % x.toks.size()); p.t = x.toks[p.rec].t; } };
  switch (mode) {
    case 0: any(); break;
    case 1: if (!x.live.empty()) { p.rec = (long)x.live[x.live.size() - 1 - idx % x.live.size()]; p.t = x.toks[p.rec].t; } else any(); break;
    case 2: if (!x.dead.empty()) { p.rec = (long)x.dead[x.dead.size() - 1 - idx % x.dead.size()]; p.t = x.toks[p.rec].t; } else any(); break;
    case 3: break;   // default-constructed token
    case 4: {
      p.forged = true;
      size_t id;
      switch (aux % 6) { case 0: id = 0; break; case 1: id = 1; break; case 2: id = x.last_id; break; case 3: id = x.last_id + 1; break;
                         case 4: id = (aux / 6) % (x.last_id + 2); break; default: id = std::numeric_limits<size_t>::max(); }
      size_t pos = idx % (x.max_pos + 4);
      if (pos == x.max_pos + 2) pos = std::numeric_limits<size_t>::max();
      else if (pos == x.max_pos + 3) pos = std::numeric_limits<size_t>::max() / 2;
      p.t = Token(id, pos);
      break; }
    default: {   // a token issued before the most recent clear()
      size_t n = 0; for (auto &r : x.toks) if (r.era < x.era) ++n;
      if (n) { size_t k = idx % n; for (size_t i = 0; i < x.toks.size(); ++i) if (x.toks[i].era < x.era && k-- == 0) { p.rec = (long)i; break; } p.t = x.toks[p.rec].t; }
      else any();
    }
  }
  return p;
}

// what the token must resolve to: (is it a live entry, which object)
struct Expect { bool live; Obj *obj; long rec; };
Expect expect(Ctx &x, const Pick &p) {
  if (p.rec >= 0) { auto &r = x.toks[p.rec]; return {r.live, r.live ? r.obj : nullptr, p.rec}; }
  auto it = x.live_by_value.find({p.t.id(), p.t.pos()});
  if (p.t.id() != 0 && it != x.live_by_value.end()) { x.f.forged_hit = true; return {true, x.toks[it->second].obj, (long)it->second}; }
  if (p.forged) x.f.forged_miss = true;
  return {false, nullptr, -1};
}

void note_presented(Ctx &x, const Pick &p) {
  if (p.rec < 0) return;
  auto &r = x.toks[p.rec];
  if (r.live) return;
  if (x.pos_allocs[r.t.pos()] > r.ord) {
    x.f.stale_after_reuse = true;
    if (r.era < x.era) x.f.preclear_after_realloc = true;
  }
}

std::string tokstr(const Token &t) { return fmt("(id=%zu,pos=%zu)", t.id(), t.pos()); }
std::string describe(Ctx &x, long rec) {
  if (rec < 0) return "forged/default token";
  auto &r = x.toks[rec];
  return fmt("token #%ld %s issued in era %d, %s", rec, tokstr(r.t).c_str(), r.era, r.live ? "live" : (r.era < x.era ? "invalidated by clear()" : "freed"));
}

void model_kill(Ctx &x, size_t rec) {
  auto &r = x.toks[rec];
  r.live = false;
  x.live.erase(std::find(x.live.begin(), x.live.end(), rec));
  x.dead.push_back(rec);
  x.live_by_value.erase({r.t.id(), r.t.pos()});
  if (r.obj) { x.live_objs.erase(r.obj); delete r.obj; }
  r.obj = nullptr;
}

std::string check_size(Ctx &x, const char *after) {
  if (x.c.size() != x.live.size()) return fmt("after %s: size()=%zu but %zu entries are live", after, x.c.size(), x.live.size());
  if (x.c.empty() != x.live.empty()) return fmt("after %s: empty()=%d but %zu entries are live", after, (int)x.c.empty(), x.live.size());
  return "";
}

std::string check_rec(Ctx &x, size_t rec, const char *after) {
  auto &r = x.toks[rec];
  Obj *got = x.c.at(r.t);
  Obj *want = r.live ? r.obj : nullptr;
  if (got != want) {
    if (!r.live) return fmt("after %s: stale %s resolves to an object (serial %llu) instead of nothing", after, describe(x, rec).c_str(),
                            x.live_objs.count(got) ? (unsigned long long)got->serial : 0ull);
    return fmt("after %s: %s resolves to %s instead of its object", after, describe(x, rec).c_str(), got ? "another object" : "nothing");
  }
  return "";
}

std::string sweep(Ctx &x, const char *after) {
  std::string e = check_size(x, after);
  if (!e.empty()) return e;
  for (size_t i = 0; i < x.toks.size(); ++i) { e = check_rec(x, i, after); if (!e.empty()) return e; }
  return "";
}

std::string body(const Scenario &s, Flags &out) {
  Ctx x;
  std::string e;
  for (size_t k = 0; k < s.ops.size(); ++k) {
    const Op &op = s.ops[k];
    const char *name = "?";
    switch (op.code) {
      case ALLOC: { name = "alloc";
        bool null_obj = op.in(0, 0, 9) == 0;
        Obj *o = null_obj ? nullptr : new Obj{++x.serial, x.toks.size()};
        if (null_obj) x.f.null_obj = true;
        Token t = null_obj && op.in(0, 0, 19) == 0 ? x.c.alloc() : x.c.alloc(o);
        if (o) x.live_objs[o] = x.toks.size();
        TokRec r; r.t = t; r.live = true; r.obj = o; r.era = x.era; r.ord = ++x.pos_allocs[t.pos()];
        size_t rec = x.toks.size();
        x.toks.push_back(r); x.live.push_back(rec);
        if (t.isNull() || !t) return fmt("step %zu: alloc returned a null token %s", k, tokstr(t).c_str());
        // distinct from every live token (checked through the token's own comparison operators as well)
        for (size_t li : x.live) if (li != rec) { const Token &u = x.toks[li].t;
          if (u == t || !(u != t) || (!(u < t) && !(t < u))) return fmt("step %zu: alloc returned %s which equals live %s", k, tokstr(t).c_str(), describe(x, li).c_str()); }
        auto ins = x.issued.insert({{t.id(), t.pos()}, rec});
        if (!ins.second) return fmt("step %zu: alloc returned %s, the same value as %s: the old token now aliases the new entry", k, tokstr(t).c_str(), describe(x, ins.first->second).c_str());
        x.live_by_value[{t.id(), t.pos()}] = rec;
        x.last_id = t.id(); x.max_pos = std::max(x.max_pos, t.pos());
        x.f.max_live = std::max(x.f.max_live, x.live.size());
        if (x.frees_in_row >= 3) x.f.deep_free_list = true;
        x.frees_in_row = 0;
        // every earlier token for the same slot must now resolve to nothing, the new one to its object
        for (size_t i : x.by_pos[t.pos()]) { e = check_rec(x, i, "alloc (slot reused)"); if (!e.empty()) return fmt("step %zu ", k) + e; }
        x.by_pos[t.pos()].push_back(rec);
        e = check_rec(x, rec, "alloc"); if (!e.empty()) return fmt("step %zu ", k) + e;
        break; }
      case UPDATE: { name = "update";
        Pick p = pick(x, op, 0); Expect ex = expect(x, p); note_presented(x, p);
        bool null_obj = op.in(3, 0, 9) == 0;
        Obj *o = null_obj ? nullptr : new Obj{++x.serial, ex.rec >= 0 ? (size_t)ex.rec : 0};
        bool ok = x.c.update(p.t, o);
        if (ok != ex.live) { delete o; return fmt("step %zu: update(%s) returned %d, expected %d", k, describe(x, p.rec).c_str(), (int)ok, (int)ex.live); }
        if (ok) {
          auto &r = x.toks[ex.rec];
          if (r.obj) { x.live_objs.erase(r.obj); delete r.obj; }
          r.obj = o; if (o) x.live_objs[o] = ex.rec; else x.f.null_obj = true;
          e = check_rec(x, ex.rec, "update"); if (!e.empty()) return fmt("step %zu ", k) + e;
        } else delete o;
        break; }
      case FREE: { name = "free";
        Pick p = pick(x, op, 0); Expect ex = expect(x, p); note_presented(x, p);
        Obj *got = x.c.free(p.t);
        if (got != ex.obj) return fmt("step %zu: free(%s) returned %s, expected %s", k, describe(x, p.rec).c_str(), got ? "an object" : "nothing", ex.obj ? "its object" : "nothing");
        if (ex.live) { model_kill(x, ex.rec); ++x.frees_in_row;
          e = check_rec(x, ex.rec, "free"); if (!e.empty()) return fmt("step %zu ", k) + e; }
        break; }
      case AT: { name = "at";
        Pick p = pick(x, op, 0); Expect ex = expect(x, p); note_presented(x, p);
        Obj *got = x.c.at(p.t), *got2 = x.c[p.t];
        if (got != got2) return fmt("step %zu: at() and operator[] disagree for %s", k, describe(x, p.rec).c_str());
        if (got != ex.obj) {
          if (!ex.live) return fmt("step %zu: at(%s) resolves to an object instead of nothing", k, describe(x, p.rec).c_str());
          return fmt("step %zu: at(%s) resolves to %s instead of its object", k, describe(x, p.rec).c_str(), got ? "another object" : "nothing");
        }
        if (got && got->tokidx != (size_t)ex.rec) return fmt("step %zu: at(%s) returned the object of token #%zu", k, describe(x, p.rec).c_str(), got->tokidx);
        break; }
      case SIZE: name = "size"; break;   // size/empty are compared after every step
      case CLEAR: { name = "clear";
        // the cabinet does not own the objects: like the in-tree callers, release them, then clear()
        x.c.clear();
        while (!x.live.empty()) model_kill(x, x.live.back());
        ++x.era; x.f.cleared = true; x.frees_in_row = 0;
        e = sweep(x, "clear"); if (!e.empty()) return fmt("step %zu ", k) + e;
        break; }
      case FOREACH: { name = "foreach";
        int64_t mode = op.in(0, 0, 3); uint64_t salt = (uint64_t)op.in(1, 0, 1000);
        std::vector<size_t> start = x.live;
        size_t null_start = 0; for (size_t i : start) if (!x.toks[i].obj) ++null_start;
        std::set<Obj*> visited; size_t null_visits = 0; std::string fe;
        x.c.foreach([&](Obj *o) {
          if (!fe.empty()) return;
          if (!o) { ++null_visits; return; }
          auto it = x.live_objs.find(o);   // membership is decided before the pointer is dereferenced
          if (it == x.live_objs.end()) { fe = "foreach handed out a pointer that is not stored in the cabinet (freed entry)"; return; }
          if (!visited.insert(o).second) { fe = fmt("foreach visited object serial %llu twice", (unsigned long long)o->serial); return; }
          size_t rec = it->second;
          if (x.c.at(x.toks[rec].t) != o) { fe = fmt("inside foreach: %s does not resolve to the visited object", describe(x, rec).c_str()); return; }
          uint64_t r = (o->serial * 7 + salt) % 6;
          bool rm_cur = mode == 2 || (mode == 1 && r <= 1), rm_other = mode == 3 || (mode == 1 && r == 2);
          if (rm_cur) {
            if (x.c.free(x.toks[rec].t) != o) { fe = "inside foreach: free(current) did not return the visited object"; return; }
            model_kill(x, rec); x.f.foreach_rm_current = true;
          } else if (rm_other && !x.live.empty()) {
            size_t orec = x.live[(size_t)((o->serial + salt) % x.live.size())];
            Obj *oo = x.toks[orec].obj;
            if (oo && !visited.count(oo)) x.f.foreach_rm_unvisited = true;
            if (x.c.free(x.toks[orec].t) != oo) { fe = "inside foreach: free(other) did not return that entry's object"; return; }
            model_kill(x, orec); x.f.foreach_rm_other = true;
          }
        });
        if (!fe.empty()) return fmt("step %zu: ", k) + fe;
        size_t null_end = 0;
        for (size_t i : start) { auto &r = x.toks[i]; if (!r.live) continue;
          if (!r.obj) { ++null_end; continue; }
          if (!visited.count(r.obj)) return fmt("step %zu: foreach skipped live %s", k, describe(x, i).c_str()); }
        if (null_visits > null_start || null_visits < null_end) return fmt("step %zu: foreach visited %zu null entries, between %zu and %zu expected", k, null_visits, null_end, null_start);
        x.frees_in_row = 0;
        e = sweep(x, "foreach"); if (!e.empty()) return fmt("step %zu ", k) + e;
        break; }
      case RESERVE: name = "reserve"; x.c.reserve((size_t)op.in(0, 0, 4096)); break;
      case SWEEP: name = "sweep"; e = sweep(x, "sweep"); if (!e.empty()) return fmt("step %zu ", k) + e; break;
      default: continue;
    }
    e = check_size(x, name);
    if (!e.empty()) return fmt("step %zu ", k) + e;
  }
  e = sweep(x, "end of history");
  if (!e.empty()) return e;
  // drain: every live entry is freed through its token, the rest must stay unresolvable
  while (!x.live.empty()) {
    size_t rec = x.live.back(); Obj *o = x.toks[rec].obj;
    if (x.c.free(x.toks[rec].t) != o) return fmt("drain: free(%s) did not return its object", describe(x, rec).c_str());
    model_kill(x, rec);
  }
  e = sweep(x, "drain");
  out = x.f;
  return e;
}

std::string run(const Scenario &s, CaseInfo &info) {
  Flags f;
  std::string e = with_leak_check("cabinet", [&] { return body(s, f); });
  if (!e.empty()) return e;
  info.cls_if(f.stale_after_reuse, "stale_token_after_slot_reuse");
  info.cls_if(f.preclear_after_realloc, "preclear_token_after_realloc");
  info.cls_if(f.cleared, "clear");
  info.cls_if(f.forged_hit, "forged_token_hits_live");
  info.cls_if(f.forged_miss, "forged_token_miss");
  info.cls_if(f.foreach_rm_current, "foreach_removes_current");
  info.cls_if(f.foreach_rm_other, "foreach_removes_other");
  info.cls_if(f.foreach_rm_unvisited, "foreach_removes_unvisited");
  info.cls_if(f.null_obj, "null_object_entry");
  info.cls_if(f.deep_free_list, "free_list_depth>=3_then_alloc");
  info.cls_if(f.max_live >= 8, "live>=8");
  info.nontrivial = f.stale_after_reuse;
  return "";
}

SubDef def = [] {
  SubDef d; d.name = "cabinet";
  d.op_names = {"alloc", "update", "free", "at", "size", "clear", "foreach", "reserve", "sweep"};
  d.op_arity = {1, 4, 3, 3, 0, 0, 2, 1, 0};
  d.nt_rule = "a stale token (freed or invalidated by clear) is presented to at/free/update after its slot has been re-allocated at least once";
  d.run = run;
#ifndef VERIF_ENGINE_FUZZ
  d.gen = [] {
    auto small = rc::gen::weightedOneOf<int64_t>({{6, range(0, 3)}, {3, range(0, 20)}, {1, range(0, 1000)}});
    auto aux = range(0, 5000);
    auto mode_lookup = rc::gen::weightedOneOf<int64_t>({{2, rc::gen::just<int64_t>(0)}, {4, rc::gen::just<int64_t>(1)}, {6, rc::gen::just<int64_t>(2)},
                                                        {1, rc::gen::just<int64_t>(3)}, {3, rc::gen::just<int64_t>(4)}, {3, rc::gen::just<int64_t>(5)}});
    auto mode_free = rc::gen::weightedOneOf<int64_t>({{1, rc::gen::just<int64_t>(0)}, {10, rc::gen::just<int64_t>(1)}, {2, rc::gen::just<int64_t>(2)},
                                                      {1, rc::gen::just<int64_t>(3)}, {1, rc::gen::just<int64_t>(4)}, {1, rc::gen::just<int64_t>(5)}});
    auto opg = rc::gen::weightedOneOf<Op>({
      {16, mkop(ALLOC, {range(0, 199)})},
      {4, mkop(UPDATE, {mode_lookup, small, aux, range(0, 9)})},
      {11, mkop(FREE, {mode_free, small, aux})},
      {12, mkop(AT, {mode_lookup, small, aux})},
      {1, mkop(SIZE, {})},
      {1, mkop(CLEAR, {})},
      {2, mkop(FOREACH, {range(0, 3), range(0, 1000)})},
      {1, mkop(RESERVE, {range(0, 200)})},
      {1, mkop(SWEEP, {})},
    });
    return scenarioOf(rc::gen::just(std::vector<Op>()), opsOf(opg));
  };
#endif
  return d;
}();
VERIF_REGISTER(&def);
}  // namespace cab

// =====================================================================================================
// object pool
// =====================================================================================================
namespace pool {
using tbox::ObjectPool;

enum { CFG, ALLOC, FREE, ALLOCN, FREEN, CHECK, NOPS };
const int64_t kKeep[] = {0, 1, 2, 64, -1};   // -1: default constructor (unbounded retention)

struct Counters { int64_t ctor = 0, dtor = 0; };
Counters g;

inline uint8_t pat(uint64_t id, size_t i) { uint64_t v = (id + 1) * 0x9E3779B97F4A7C15ull + i * 0xC2B2AE3D27D4EB4Full; return (uint8_t)(v >> 32) | 1; }

template <size_t N> struct Probe {
  uint8_t bytes[N];
  Probe() { fill(0); ++g.ctor; }
  explicit Probe(uint64_t id) { fill(id); ++g.ctor; }
  Probe(uint64_t id, std::unique_ptr<uint64_t> salt) { fill(id ^ *salt); ++g.ctor; }   // move-only argument: perfect forwarding
  Probe(const Probe &) = delete;
  ~Probe() { ++g.dtor; memset(bytes, 0, N); }   // pat() is never 0: a destroyed object cannot pass ok()
  void fill(uint64_t id) { for (size_t i = 0; i < N; ++i) bytes[i] = pat(id, i); }
  bool ok(uint64_t id) const { for (size_t i = 0; i < N; ++i) if (bytes[i] != pat(id, i)) return false; return true; }
};

struct Flags { bool recycled_with_live = false, hit_keep_limit = false, released_to_malloc = false; size_t max_live = 0, max_parked = 0; int64_t keep = 0; size_t psize = 0; };

template <size_t N>
std::string body(const Scenario &s, int64_t keep, Flags &f) {
  using P = Probe<N>;
  struct Live { P *p; uint64_t id; };
  g = Counters();
  std::unique_ptr<ObjectPool<P>> pool(keep < 0 ? new ObjectPool<P>() : new ObjectPool<P>((size_t)keep));
  std::vector<Live> live;
  std::map<uintptr_t, size_t> by_addr;          // start address of every live object
  std::set<uintptr_t> parked;                   // addresses the model believes are parked in the pool
  size_t keep_n = keep < 0 ? std::numeric_limits<size_t>::max() : (size_t)keep;
  size_t m_parked = 0, m_allocs = 0, m_frees = 0, m_peak_alloc = 0, m_peak_free = 0;
  uint64_t next_id = 1;
  f.keep = keep; f.psize = N;

  auto verify_all = [&](const char *after, size_t step) -> std::string {
    for (auto &l : live) if (!l.p->ok(l.id)) return fmt("step %zu after %s: the pattern of live object id %llu at %p was disturbed", step, after, (unsigned long long)l.id, (void*)l.p);
    return "";
  };
  auto invariants = [&](const char *after, size_t step) -> std::string {
    if (g.ctor - g.dtor != (int64_t)live.size()) return fmt("step %zu after %s: constructors-destructors=%lld but %zu objects are live", step, after, (long long)(g.ctor - g.dtor), live.size());
    if (g.ctor != (int64_t)m_allocs || g.dtor != (int64_t)m_frees) return fmt("step %zu after %s: %lld ctor / %lld dtor calls for %zu alloc / %zu free", step, after, (long long)g.ctor, (long long)g.dtor, m_allocs, m_frees);
    auto st = pool->getStat();
    if (st.total_alloc_times != m_allocs || st.total_free_times != m_frees)
      return fmt("step %zu after %s: stat alloc/free times %zu/%zu, performed %zu/%zu", step, after, st.total_alloc_times, st.total_free_times, m_allocs, m_frees);
    if (st.peak_alloc_number != m_peak_alloc) return fmt("step %zu after %s: stat peak_alloc_number=%zu, real peak %zu", step, after, st.peak_alloc_number, m_peak_alloc);
    if (st.peak_free_number != m_peak_free) return fmt("step %zu after %s: stat peak_free_number=%zu, expected %zu with retention limit %lld", step, after, st.peak_free_number, m_peak_free, (long long)keep);
    if (live.size() <= 96) return verify_all(after, step);
    return "";
  };
  auto do_alloc = [&](int64_t variant, size_t step) -> std::string {
    uint64_t id = next_id++, want = id;
    P *p;
    switch (variant) {
      case 0: p = pool->alloc(); want = 0; break;
      case 1: { std::unique_ptr<uint64_t> salt(new uint64_t(0x5a5a)); p = pool->alloc(id, std::move(salt)); want = id ^ 0x5a5a; break; }
      default: p = pool->alloc(id);
    }
    if (!p) return fmt("step %zu: alloc returned nullptr", step);
    ++m_allocs;
    uintptr_t a = (uintptr_t)p;
    // no overlap with any live object
    auto it = by_addr.lower_bound(a);
    if (it != by_addr.end() && it->first < a + sizeof(P)) return fmt("step %zu: alloc handed out %p which overlaps live object id %llu", step, (void*)p, (unsigned long long)live[it->second].id);
    if (it != by_addr.begin()) { auto pv = std::prev(it); if (pv->first + sizeof(P) > a) return fmt("step %zu: alloc handed out %p which overlaps live object id %llu", step, (void*)p, (unsigned long long)live[pv->second].id); }
    bool from_parked = parked.erase(a) > 0;
    if (m_parked > 0) { --m_parked; if (from_parked && !live.empty()) f.recycled_with_live = true; }
    live.push_back({p, want});
    by_addr[a] = live.size() - 1;
    m_peak_alloc = std::max(m_peak_alloc, live.size());
    f.max_live = std::max(f.max_live, live.size());
    if (!p->ok(want)) return fmt("step %zu: freshly constructed object does not carry its pattern", step);
    return "";
  };
  auto do_free = [&](size_t idx, size_t step) -> std::string {
    Live l = live[idx];
    if (!l.p->ok(l.id)) return fmt("step %zu: pattern of live object id %llu was disturbed before free", step, (unsigned long long)l.id);
    by_addr.erase((uintptr_t)l.p);
    if (idx != live.size() - 1) { live[idx] = live.back(); by_addr[(uintptr_t)live[idx].p] = idx; }
    live.pop_back();
    pool->free(l.p);
    ++m_frees;
    if (m_parked < keep_n) { ++m_parked; parked.insert((uintptr_t)l.p); m_peak_free = std::max(m_peak_free, m_parked); if (m_parked == keep_n) f.hit_keep_limit = true; }
    else f.released_to_malloc = true;
    f.max_parked = std::max(f.max_parked, m_parked);
    return "";
  };
  auto pick_idx = [&](int64_t mode, size_t r) -> size_t {
    switch (mode) { case 0: return live.size() - 1; case 1: return 0; default: return r % live.size(); }
  };

  std::string e;
  for (size_t k = 0; k < s.ops.size(); ++k) {
    const Op &op = s.ops[k];
    const char *name = "?";
    switch (op.code) {
      case ALLOC: name = "alloc"; e = do_alloc(op.in(0, 0, 5), k); break;
      case FREE: name = "free"; if (!live.empty()) e = do_free(pick_idx(op.in(0, 0, 3), (size_t)op.in(1, 0, 1 << 20)), k); break;
      case ALLOCN: { name = "allocn"; int64_t n = op.in(0, 1, 90); for (int64_t i = 0; i < n && e.empty() && live.size() < 400; ++i) e = do_alloc(2 + (i & 1), k); break; }
      case FREEN: { name = "freen"; int64_t n = op.in(0, 1, 90), mode = op.in(1, 0, 3); size_t r = (size_t)op.in(2, 0, 1 << 20);
        for (int64_t i = 0; i < n && e.empty() && !live.empty(); ++i) { e = do_free(pick_idx(mode, r), k); r = r * 31 + 7; } break; }
      case CHECK: name = "check"; e = verify_all("check", k); break;
      default: continue;
    }
    if (!e.empty()) return e;
    e = invariants(name, k);
    if (!e.empty()) return e;
  }
  e = verify_all("end of history", s.ops.size());
  if (!e.empty()) return e;
  while (!live.empty()) { e = do_free(live.size() - 1, s.ops.size()); if (!e.empty()) return e; }
  e = invariants("drain", s.ops.size());
  if (!e.empty()) return e;
  pool.reset();   // releases the parked blocks; the heap balance of the case is checked by the caller
  return "";
}

std::string run(const Scenario &s, CaseInfo &info) {
  int64_t keep = -1, sz = 2;
  if (!s.ops.empty() && s.ops[0].code == CFG) { keep = kKeep[s.ops[0].in(0, 0, 4)]; sz = s.ops[0].in(1, 0, 3); }
  Flags f;
  std::string e = with_leak_check("pool", [&] {
    switch (sz) { case 0: return body<1>(s, keep, f); case 1: return body<13>(s, keep, f); case 2: return body<56>(s, keep, f); default: return body<200>(s, keep, f); }
  });
  if (!e.empty()) return e;
  info.cls(keep == 0 ? "keep=0" : keep == 1 ? "keep=1" : keep == 2 ? "keep=2" : keep == 64 ? "keep=64" : "keep=unbounded");
  info.cls(sz == 0 ? "sizeof=1" : sz == 1 ? "sizeof=13" : sz == 2 ? "sizeof=56" : "sizeof=200");
  info.cls_if(f.recycled_with_live, "block_recycled_while_others_live");
  info.cls_if(f.hit_keep_limit, "retention_limit_reached");
  info.cls_if(f.released_to_malloc, "block_released_beyond_limit");
  info.cls_if(f.max_parked >= 64, "parked>=64");
  info.cls_if(f.max_live >= 65, "live>=65");
  info.nontrivial = f.recycled_with_live;
  return "";
}

SubDef def = [] {
  SubDef d; d.name = "pool";
  d.op_names = {"cfg", "alloc", "free", "allocn", "freen", "check"};
  d.op_arity = {2, 1, 2, 1, 3, 0};
  d.nt_rule = "an alloc is served from a parked block (a block freed earlier in the history) while at least one other object is live";
  d.run = run;
#ifndef VERIF_ENGINE_FUZZ
  d.gen = [] {
    auto opg = rc::gen::weightedOneOf<Op>({
      {10, mkop(ALLOC, {range(0, 5)})},
      {9, mkop(FREE, {range(0, 3), range(0, 5000)})},
      {2, mkop(ALLOCN, {rc::gen::weightedOneOf<int64_t>({{3, range(1, 8)}, {2, range(1, 90)}, {1, range(60, 70)}})})},
      {2, mkop(FREEN, {rc::gen::weightedOneOf<int64_t>({{3, range(1, 8)}, {2, range(1, 90)}, {1, range(60, 70)}}), range(0, 3), range(0, 5000)})},
      {1, mkop(CHECK, {})},
    });
    return scenarioOf(fixedOps({mkop(CFG, {range(0, 4), range(0, 3)})}), opsOf(opg));
  };
#endif
  return d;
}();
VERIF_REGISTER(&def);
}  // namespace pool

// =====================================================================================================
// object pool used re-entrantly: nodes whose constructor allocates, and whose destructor frees, further
// nodes of the SAME pool; constructors may throw
// =====================================================================================================
namespace ptree {
using tbox::ObjectPool;

enum { CFG, BUILD, DROP, PRUNE, GROW, LEAVES, CHECK, NOPS };
const int64_t kKeep[] = {0, 1, 2, 64, -1};
const int kMaxDepth = 3, kMaxKids = 3;
const size_t kMaxLive = 500, kMaxRoots = 48;

struct Ctx;
struct Node;
struct Abort {};   // thrown by a constructor that cannot complete

inline uint64_t mix(uint64_t x) { x ^= x >> 33; x *= 0xff51afd7ed558ccdull; x ^= x >> 33; x *= 0xc4ceb9fe1a85ec53ull; x ^= x >> 33; return x; }
inline int nkids(uint64_t seed, int depth) { if (depth <= 0) return 0; uint64_t h = mix(seed); return (h & 7) == 0 ? 0 : 1 + (int)((h >> 3) % kMaxKids); }
inline uint64_t childseed(uint64_t seed, int i) { return mix(seed * 31 + (uint64_t)i + 1); }
inline size_t plan_count(uint64_t seed, int depth) { size_t n = 1; int k = nkids(seed, depth); for (int i = 0; i < k; ++i) n += plan_count(childseed(seed, i), depth - 1); return n; }
inline uint8_t npat(uint64_t id, size_t i) { return (uint8_t)(mix(id * 131 + i) >> 24) | 1; }

// The pattern is the FIRST member: a free-list link written into a block that is in use lands on it.
struct Node {
  uint8_t pat[16];
  uint64_t id;
  Ctx *c;
  int depth, nchild;
  Node *child[kMaxKids];
  Node(Ctx *cx, int depth, uint64_t seed);
  ~Node();
  Node(const Node &) = delete;
  bool intact() const { for (size_t i = 0; i < sizeof pat; ++i) if (pat[i] != npat(id, i)) return false; return true; }
};

struct Flags { bool nested_on_recycled = false, nested = false, threw = false, threw_with_children = false, grew = false, pruned = false, hit_limit = false;
               size_t max_live = 0; int64_t keep = 0; uint64_t reclaimed = 0; };

struct Ctx {
  std::unique_ptr<ObjectPool<Node>> pool;
  std::vector<void*> orphans;             // storage that was handed to a constructor which then threw (see reclaim_orphans)
  size_t keep = 0;
  std::map<uintptr_t, Node*> inuse;       // storage in use: from constructor entry to destructor exit (or constructor abort)
  std::vector<Node*> roots;
  std::vector<bool> frames;               // allocs in flight (outermost first): was a parked block available at entry
  std::string err;                        // first violation observed inside a constructor / destructor
  uint64_t next_id = 1;
  int64_t entered = 0, completed = 0, aborted = 0, dtor = 0;   // constructor entries / normal returns / exits by exception; destructor calls
  size_t m_allocs = 0, m_frees = 0, peak_alloc = 0;
  // number of parked blocks: [lo, hi].  lo: an alloc takes its block at entry and a failed alloc does not give it back;
  // hi: the block leaves the free list only when the alloc has succeeded.  Both coincide unless a constructor threw.
  size_t lo = 0, hi = 0, peak_lo = 0, peak_hi = 0;
  int64_t build_ordinal = 0, throw_at = -1;
  Flags f;
};

Node *tree_alloc(Ctx &c, int depth, uint64_t seed) {
  bool reuse_lo = c.lo > 0, reuse_hi = c.hi > 0;
  if (reuse_lo) --c.lo;
  if (!c.frames.empty()) { c.f.nested = true; for (bool b : c.frames) if (b) c.f.nested_on_recycled = true; }
  c.frames.push_back(reuse_lo);
  Node *n;
  try { n = c.pool->alloc(&c, depth, seed); }
  catch (...) { c.frames.pop_back(); throw; }
  c.frames.pop_back();
  if (reuse_hi && c.hi > 0) --c.hi;
  ++c.m_allocs;
  c.peak_alloc = std::max(c.peak_alloc, c.m_allocs - c.m_frees);
  return n;
}

void tree_free(Ctx &c, Node *n) {
  c.pool->free(n);
  ++c.m_frees;
  if (c.lo < c.keep) ++c.lo;
  if (c.hi < c.keep) ++c.hi;
  if (c.lo == c.keep && c.keep > 0) c.f.hit_limit = true;
  c.peak_lo = std::max(c.peak_lo, c.lo); c.peak_hi = std::max(c.peak_hi, c.hi);
}

Node::Node(Ctx *cx, int d, uint64_t seed) {
  // nothing of *this is written before the storage has been found unused
  Ctx &c = *cx;
  ++c.entered;
  uintptr_t a = (uintptr_t)this;
  if (c.err.empty()) {
    auto it = c.inuse.lower_bound(a);
    const Node *clash = nullptr;
    if (it != c.inuse.end() && it->first < a + sizeof(Node)) clash = it->second;
    else if (it != c.inuse.begin() && std::prev(it)->first + sizeof(Node) > a) clash = std::prev(it)->second;
    if (clash) c.err = fmt("alloc handed out %p which overlaps node id %llu at %p that is still in use (%s)", (void*)this, (unsigned long long)clash->id, (void*)clash,
                           c.frames.size() > 1 ? "requested from inside a constructor" : "top-level request");
  }
  if (!c.err.empty()) return;
  c.inuse[a] = this;
  id = c.next_id++; for (size_t i = 0; i < sizeof pat; ++i) pat[i] = npat(id, i);
  this->c = cx; depth = d; nchild = 0; for (auto &k : child) k = nullptr;
  int64_t ordinal = c.build_ordinal++;
  int want = nkids(seed, d);
  int throw_after = ordinal == c.throw_at ? (int)((mix(seed) >> 20) % (uint64_t)(want + 1)) : -1;
  try {
    for (int i = 0; i < want; ++i) {
      if (i == throw_after) throw Abort();
      Node *k = tree_alloc(c, d - 1, childseed(seed, i));
      if (!c.err.empty()) return;
      child[nchild++] = k;
      if (!intact()) { c.err = fmt("node id %llu at %p was overwritten while its constructor allocated a child", (unsigned long long)id, (void*)this); return; }
    }
    if (throw_after == want) throw Abort();
  } catch (const Abort &) {
    // a constructor that cannot complete releases what it acquired; its own storage is no longer in use
    if (nchild > 0) c.f.threw_with_children = true;
    for (int i = nchild - 1; i >= 0; --i) tree_free(c, child[i]);
    c.inuse.erase(a);
    c.orphans.push_back(this);
    ++c.aborted; c.f.threw = true;
    throw;
  }
  ++c.completed;
}

Node::~Node() {
  Ctx &cx = *c;
  ++cx.dtor;
  if (!intact() && cx.err.empty()) cx.err = fmt("node id %llu at %p was disturbed before its destructor ran", (unsigned long long)id, (void*)this);
  for (int i = nchild - 1; i >= 0; --i) tree_free(cx, child[i]);
  cx.inuse.erase((uintptr_t)this);
  memset(pat, 0, sizeof pat);
}

// What happens to the block of an alloc() whose constructor threw is OUTSIDE the property statement (the statement
// promises "no storage handed out while in use" and "one ctor / one dtor per alloc/free pair", nothing about releasing
// memory on a constructor exception); the unmodified ObjectPool simply loses it.  Model: after a constructor abort the
// block belongs to nobody, and the harness reclaims it, so that the heap balance of the case stays exact and
// LeakSanitizer has nothing to report.  To be valid for every admissible implementation (block lost / released at once
// / put back on the free list), reclaiming happens only AFTER the pool has been destroyed, and only for a block that
// the allocator still reports as a live allocation of exactly the pool's block size: a pool that released it or kept
// it parked has freed it by then (freed chunks stay in ASan's quarantine, so the address cannot have been re-issued
// within the case).
size_t reclaim_orphans(Ctx &c) {
  size_t n = 0;
  std::sort(c.orphans.begin(), c.orphans.end());
  c.orphans.erase(std::unique(c.orphans.begin(), c.orphans.end()), c.orphans.end());
  for (void *p : c.orphans)
    if (__sanitizer_get_ownership(p) && __sanitizer_get_allocated_size(p) == sizeof(ObjectPool<Node>::Block)) { ::free(p); ++n; }
  c.orphans.clear();
  return n;
}

// walks one tree; membership of a pointer in `inuse` is decided before it is dereferenced
std::string walk(Ctx &c, Node *n, std::set<Node*> &seen, size_t &count) {
  auto it = c.inuse.find((uintptr_t)n);
  if (it == c.inuse.end() || it->second != n) return fmt("tree links to %p which is not a live node", (void*)n);
  if (!seen.insert(n).second) return fmt("node id %llu at %p is reachable twice (storage handed out twice)", (unsigned long long)n->id, (void*)n);
  if (!n->intact()) return fmt("the pattern of live node id %llu at %p was disturbed", (unsigned long long)n->id, (void*)n);
  if (n->nchild < 0 || n->nchild > kMaxKids) return fmt("live node id %llu has %d children", (unsigned long long)n->id, n->nchild);
  ++count;
  for (int i = 0; i < n->nchild; ++i) { std::string e = walk(c, n->child[i], seen, count); if (!e.empty()) return e; }
  return "";
}

std::string invariants(Ctx &c, const char *after, size_t step) {
  if (!c.err.empty()) return fmt("step %zu (%s): ", step, after) + c.err;
  std::set<Node*> seen; size_t count = 0;
  for (Node *r : c.roots) { std::string e = walk(c, r, seen, count); if (!e.empty()) return fmt("step %zu after %s: ", step, after) + e; }
  if (count != c.inuse.size()) return fmt("step %zu after %s: %zu nodes reachable from the roots, %zu blocks in use", step, after, count, c.inuse.size());
  if (c.completed - c.dtor != (int64_t)count) return fmt("step %zu after %s: completed constructors-destructors=%lld but %zu nodes are live", step, after, (long long)(c.completed - c.dtor), count);
  if (c.entered != c.completed + c.aborted) return fmt("step %zu after %s: %lld constructor entries, %lld completed + %lld aborted", step, after, (long long)c.entered, (long long)c.completed, (long long)c.aborted);
  if (c.completed != (int64_t)c.m_allocs || c.dtor != (int64_t)c.m_frees)
    return fmt("step %zu after %s: %lld completed ctor / %lld dtor calls for %zu successful alloc / %zu free", step, after, (long long)c.completed, (long long)c.dtor, c.m_allocs, c.m_frees);
  auto st = c.pool->getStat();
  if (st.total_alloc_times != c.m_allocs || st.total_free_times != c.m_frees)
    return fmt("step %zu after %s: stat alloc/free times %zu/%zu, performed %zu/%zu", step, after, st.total_alloc_times, st.total_free_times, c.m_allocs, c.m_frees);
  if (st.peak_alloc_number != c.peak_alloc) return fmt("step %zu after %s: stat peak_alloc_number=%zu, real peak %zu", step, after, st.peak_alloc_number, c.peak_alloc);
  if (st.peak_free_number < c.peak_lo || st.peak_free_number > c.peak_hi)
    return fmt("step %zu after %s: stat peak_free_number=%zu, expected %zu..%zu with retention limit %lld", step, after, st.peak_free_number, c.peak_lo, c.peak_hi, (long long)c.f.keep);
  c.f.max_live = std::max(c.f.max_live, count);
  return "";
}

// node reached from `root` by following `path` digits as far as children exist
Node *descend(Node *root, uint64_t path, int steps) {
  Node *n = root;
  for (int i = 0; i < steps && n->nchild > 0; ++i) { n = n->child[path % (uint64_t)n->nchild]; path /= 3; }
  return n;
}

std::string body(const Scenario &s, Flags &out) {
  Ctx c;
  int64_t keep = -1;
  if (!s.ops.empty() && s.ops[0].code == CFG) keep = kKeep[s.ops[0].in(0, 0, 4)];
  c.keep = keep < 0 ? std::numeric_limits<size_t>::max() : (size_t)keep;
  c.f.keep = keep;
  c.pool.reset(keep < 0 ? new ObjectPool<Node>() : new ObjectPool<Node>((size_t)keep));
  // once a violation has been seen the pool's internal state cannot be trusted: it is abandoned, not destroyed
  auto fail = [&](std::string e) { (void)c.pool.release(); out = c.f; return e; };

  // one guarded build: all or nothing
  auto build = [&](int depth, uint64_t seed, int64_t throw_at, Node *&result, const char *what, size_t step) -> std::string {
    size_t planned = plan_count(seed, depth);
    size_t live0 = c.inuse.size();
    c.build_ordinal = 0; c.throw_at = throw_at;
    bool threw = false; result = nullptr;
    try { result = tree_alloc(c, depth, seed); } catch (const Abort &) { threw = true; }
    c.throw_at = -1;
    if (!c.err.empty()) return fmt("step %zu (%s): ", step, what) + c.err;
    if (!c.frames.empty()) return "harness: alloc frames not unwound";
    bool expect_throw = throw_at >= 0 && (size_t)throw_at < planned;
    if (threw != expect_throw) return fmt("step %zu (%s): constructor exception %s", step, what, threw ? "escaped although none was thrown" : "was swallowed by alloc");
    if (threw) { if (c.inuse.size() != live0) return fmt("step %zu (%s): %zu blocks in use after a failed alloc, %zu before", step, what, c.inuse.size(), live0); return ""; }
    if (!result) return fmt("step %zu (%s): alloc returned nullptr", step, what);
    std::set<Node*> seen; size_t count = 0;
    std::string e = walk(c, result, seen, count);
    if (!e.empty()) return fmt("step %zu (%s): ", step, what) + e;
    if (count != planned) return fmt("step %zu (%s): new tree has %zu nodes, %zu were constructed by design", step, what, count, planned);
    return "";
  };

  std::string e;
  for (size_t k = 0; k < s.ops.size(); ++k) {
    const Op &op = s.ops[k];
    const char *name = "?";
    switch (op.code) {
      case BUILD: { name = "build";
        if (c.inuse.size() > kMaxLive || c.roots.size() >= kMaxRoots) continue;
        Node *r; e = build((int)op.in(1, 0, kMaxDepth), (uint64_t)op.in(0, 0, 1 << 30), op.in(2, 0, 15) - 1, r, name, k);
        if (!e.empty()) return fail(e);
        if (r) c.roots.push_back(r);
        break; }
      case DROP: { name = "drop";
        if (c.roots.empty()) continue;
        size_t i = (size_t)op.in(0, 0, 1 << 20) % c.roots.size();
        Node *r = c.roots[i]; c.roots.erase(c.roots.begin() + (long)i);
        tree_free(c, r);
        break; }
      case PRUNE: { name = "prune";
        if (c.roots.empty()) continue;
        Node *n = descend(c.roots[(size_t)op.in(0, 0, 1 << 20) % c.roots.size()], (uint64_t)op.in(1, 0, 1 << 20), (int)op.in(2, 0, kMaxDepth));
        if (n->nchild == 0) continue;
        int i = (int)(op.in(1, 0, 1 << 20) % n->nchild);
        Node *k2 = n->child[i];
        for (int j = i; j + 1 < n->nchild; ++j) n->child[j] = n->child[j + 1];
        n->child[--n->nchild] = nullptr;
        tree_free(c, k2); c.f.pruned = true;
        break; }
      case GROW: { name = "grow";
        if (c.roots.empty() || c.inuse.size() > kMaxLive) continue;
        Node *n = descend(c.roots[(size_t)op.in(0, 0, 1 << 20) % c.roots.size()], (uint64_t)op.in(1, 0, 1 << 20), (int)op.in(2, 0, kMaxDepth));
        if (n->nchild >= kMaxKids) continue;
        Node *r; e = build((int)op.in(4, 0, kMaxDepth - 1), (uint64_t)op.in(3, 0, 1 << 30), op.in(5, 0, 15) - 1, r, name, k);
        if (!e.empty()) return fail(e);
        if (r) { n->child[n->nchild++] = r; c.f.grew = true; }
        break; }
      case LEAVES: { name = "leaves";
        int64_t n = op.in(0, 1, 70);
        for (int64_t i = 0; i < n && c.roots.size() < kMaxRoots + 70 && c.inuse.size() <= kMaxLive; ++i) {
          Node *r; e = build(0, (uint64_t)i, -1, r, name, k);
          if (!e.empty()) return fail(e);
          c.roots.push_back(r);
        }
        break; }
      case CHECK: name = "check"; break;
      default: continue;
    }
    e = invariants(c, name, k);
    if (!e.empty()) return fail(e);
  }
  while (!c.roots.empty()) { Node *r = c.roots.back(); c.roots.pop_back(); tree_free(c, r); }
  e = invariants(c, "drain", s.ops.size());
  if (!e.empty()) return fail(e);
  if (!c.inuse.empty()) return fail("harness: blocks in use after drain");
  c.pool.reset();
  c.f.reclaimed = reclaim_orphans(c);
  if (c.f.reclaimed > (uint64_t)c.aborted) return fail("harness: more blocks reclaimed than constructors aborted");
  out = c.f;
  return "";
}

std::string run(const Scenario &s, CaseInfo &info) {
  Flags f;
  std::string e = with_leak_check("pool_tree", [&] { return body(s, f); });
  if (!e.empty()) return e;
  info.cls(f.keep == 0 ? "keep=0" : f.keep == 1 ? "keep=1" : f.keep == 2 ? "keep=2" : f.keep == 64 ? "keep=64" : "keep=unbounded");
  info.cls_if(f.nested, "alloc_from_inside_constructor");
  info.cls_if(f.nested_on_recycled, "constructor_on_recycled_block_allocates");
  if (f.reclaimed) stats().counters["blocks_lost_by_pool_on_constructor_abort_reclaimed_by_harness"] += f.reclaimed;
  info.cls_if(f.reclaimed > 0, "pool_lost_block_on_constructor_abort(outside_statement)");
  info.cls_if(f.threw, "constructor_throws");
  info.cls_if(f.threw_with_children, "constructor_throws_after_allocating_children");
  info.cls_if(f.grew, "subtree_grown_from_outside");
  info.cls_if(f.pruned, "subtree_pruned_from_outside");
  info.cls_if(f.hit_limit, "retention_limit_reached");
  info.cls_if(f.max_live >= 40, "live>=40");
  info.nontrivial = f.nested_on_recycled;
  return "";
}

SubDef def = [] {
  SubDef d; d.name = "pool_tree";
  d.op_names = {"cfg", "build", "drop", "prune", "grow", "leaves", "check"};
  d.op_arity = {1, 3, 1, 3, 6, 1, 0};
  d.nt_rule = "a constructor that runs on a recycled (previously parked) block allocates further objects from the same pool";
  d.run = run;
#ifndef VERIF_ENGINE_FUZZ
  d.gen = [] {
    auto seed = range(0, 1 << 30), idx = range(0, 5000);
    auto thr = rc::gen::weightedOneOf<int64_t>({{4, rc::gen::just<int64_t>(0)}, {1, range(1, 4)}, {1, range(1, 15)}});   // 0: no constructor throws, n: the n-th constructed node throws
    auto opg = rc::gen::weightedOneOf<Op>({
      {10, mkop(BUILD, {seed, range(0, kMaxDepth), thr})},
      {8, mkop(DROP, {idx})},
      {3, mkop(PRUNE, {idx, idx, range(0, kMaxDepth)})},
      {3, mkop(GROW, {idx, idx, range(0, kMaxDepth), seed, range(0, kMaxDepth - 1), thr})},
      {1, mkop(LEAVES, {rc::gen::weightedOneOf<int64_t>({{3, range(1, 8)}, {1, range(60, 70)}})})},
      {1, mkop(CHECK, {})},
    });
    return scenarioOf(fixedOps({mkop(CFG, {range(0, 4)})}), opsOf(opg));
  };
#endif
  return d;
}();
VERIF_REGISTER(&def);
}  // namespace ptree

// =====================================================================================================
// shared descriptor handle
// =====================================================================================================
namespace fdh {
using tbox::util::Fd;

enum { CONSTRUCT, COPY, MOVE, COPYASSIGN, MOVEASSIGN, SWAP, RESET, CLOSE, DESTROY, CHAIN, INJECT, NOPS };
const int kSlots = 6;
const size_t kMaxReal = 8;

struct Cell { int fd = -1; bool real = false; int refs = 0; bool closed = false; };
struct Slot { std::unique_ptr<Fd> h; int cell = -1; int depth = 0; };
struct Rec { std::vector<int> calls; };
struct Flags { bool eintr = false, eintr_recycled = false, eintr_armed = false; bool chain3_last_release = false, explicit_close_shared = false, self_assign = false, real_fd = false, last_release_by_assign = false, close_then_release = false; int max_refs = 0; };

struct Ctx {
  Slot s[kSlots];
  std::vector<Slot> bystanders;          // unrelated handles adopted for descriptors opened by the close() interposer
  std::vector<Cell> cells;
  Rec rec;
  std::vector<int> expect_fake, expect_real;   // descriptors that the current step must close
  int next_fake = 1000;
  bool zero_used = false;
  Flags f;

  size_t real_open() const { size_t n = 0; for (auto &c : cells) if (c.real && c.refs > 0 && !c.closed) ++n; return n; }

  // model: one handle lets go of its cell
  void release(int cell, int depth, bool by_assign) {
    if (cell < 0) return;
    Cell &c = cells[cell];
    if (--c.refs == 0) {
      if (!c.closed && c.fd >= 0) {
        (c.real ? expect_real : expect_fake).push_back(c.fd);
        if (depth >= 3) f.chain3_last_release = true;
        if (by_assign) f.last_release_by_assign = true;
      } else if (c.closed) f.close_then_release = true;
      c.closed = true;
    }
  }
  void model_close(int cell) {
    if (cell < 0) return;
    Cell &c = cells[cell];
    if (!c.closed && c.fd >= 0) { (c.real ? expect_real : expect_fake).push_back(c.fd); if (c.refs >= 2) f.explicit_close_shared = true; }
    if (c.fd >= 0) c.closed = true;
  }
  void attach(Slot &sl, int cell, int depth) { sl.cell = cell; sl.depth = depth; if (cell >= 0) { ++cells[cell].refs; f.max_refs = std::max(f.max_refs, cells[cell].refs); } }
  int model_get(const Slot &sl) const { if (sl.cell < 0) return -1; const Cell &c = cells[sl.cell]; return c.closed ? -1 : c.fd; }
};

static bool fd_is_open(int fd) { return ::fcntl(fd, F_GETFD) != -1 || errno != EBADF; }

std::string settle(Ctx &x, const char *after, size_t step) {
  // exactly the expected descriptors were closed by this step (fake ones through the recording function)
  // (calls with a negative argument are ignored: -1 is not a descriptor and the statement says nothing about it)
  std::vector<int> got, want = x.expect_fake;
  for (int v : x.rec.calls) if (v >= 0) got.push_back(v);
  std::sort(got.begin(), got.end()); std::sort(want.begin(), want.end());
  if (got != want) {
    for (int v : got) if (!std::count(want.begin(), want.end(), v)) {
      bool known = false; for (auto &c : x.cells) if (!c.real && c.fd == v) known = c.refs > 0 && !c.closed;
      return fmt("step %zu %s: descriptor %d was closed %s", step, after, v, known ? "while handles still share it (closed early)" : "again or without owning it (closed more than once)");
    }
    for (int v : want) if (std::count(got.begin(), got.end(), v) != 1)
      return fmt("step %zu %s: descriptor %d was %s", step, after, v, std::count(got.begin(), got.end(), v) ? "closed more than once" : "not closed although it was explicitly closed / its last handle went away");
    return fmt("step %zu %s: close calls differ from the model", step, after);
  }
  for (int fd : x.expect_real) {
    // counted BEFORE anything else looks at the number: it may already belong to the bystander
    if (c08fault::watched(fd) && c08fault::closes[fd] != 1)
      return fmt("step %zu %s: %d real close() calls on descriptor %d, which its handle had to close exactly once%s", step, after, c08fault::closes[fd], fd,
                 c08fault::fired_fd == fd ? " (the first close() reported EINTR after closing the descriptor)" : "");
    if (fd >= 0 && fd < c08fault::kMax) { c08fault::watch[fd] = false; c08fault::closes[fd] = 0; }
  }
  if (c08fault::fired) { x.f.eintr = true; c08fault::fired = false; }
  int by = c08fault::bystander_fd; c08fault::bystander_fd = -1;
  if (by >= 0) {
    // the descriptor opened while close() was "interrupted" becomes an unrelated plain handle of its own
    if (by == c08fault::fired_fd) x.f.eintr_recycled = true;
    Cell c; c.fd = by; c.real = true; x.cells.push_back(c);
    Slot sl; sl.h.reset(new Fd(by)); x.bystanders.push_back(std::move(sl));
    x.attach(x.bystanders.back(), (int)x.cells.size() - 1, 0);
    if (by < c08fault::kMax) { c08fault::watch[by] = true; c08fault::closes[by] = 0; }
  }
  for (int fd : x.expect_real) if (fd != by && fd_is_open(fd)) return fmt("step %zu %s: real descriptor %d is still open after its last handle went away / close()", step, after, fd);
  x.rec.calls.clear(); x.expect_fake.clear(); x.expect_real.clear();
  for (auto &c : x.cells) if (c.real && c.refs > 0 && !c.closed && c08fault::watched(c.fd) && c08fault::closes[c.fd] != 0)
    return fmt("step %zu %s: %d real close() calls on descriptor %d while %d handles still share it", step, after, c08fault::closes[c.fd], c.fd, c.refs);
  for (auto &c : x.cells) if (c.real && c.refs > 0 && !c.closed && !fd_is_open(c.fd)) return fmt("step %zu %s: real descriptor %d was closed while %d handles still share it", step, after, c.fd, c.refs);
  for (int i = 0; i < kSlots; ++i) {
    Slot &sl = x.s[i];
    if (!sl.h) continue;
    int want_fd = x.model_get(sl);
    if (sl.h->get() != want_fd) return fmt("step %zu %s: handle %d get()=%d, model %d", step, after, i, sl.h->get(), want_fd);
    if (sl.h->isNull() != (want_fd == -1)) return fmt("step %zu %s: handle %d isNull()=%d but get()=%d", step, after, i, (int)sl.h->isNull(), want_fd);
  }
  return "";
}

void destroy_slot(Ctx &x, Slot &sl, bool by_assign = false) {
  if (!sl.h) return;
  x.release(sl.cell, sl.depth, by_assign);
  sl.h.reset(); sl.cell = -1; sl.depth = 0;
}
void ensure(Ctx &, Slot &sl) { if (!sl.h) { sl.h.reset(new Fd()); sl.cell = -1; sl.depth = 0; } }

std::string body(const Scenario &s, Flags &out) {
  c08fault::reset();
  struct Disarm { ~Disarm() { c08fault::reset(); } } disarm;   // nothing stays watched or armed after the case, whatever its outcome
  Ctx x;
  std::shared_ptr<int> guard = std::make_shared<int>(0);   // captured by every close function: leaked functions show up in the heap balance
  Rec *rec = &x.rec;
  auto closer = [rec, guard](int fd) { rec->calls.push_back(fd); };
  std::string e;
  for (size_t k = 0; k < s.ops.size(); ++k) {
    const Op &op = s.ops[k];
    Slot &a = x.s[op.in(0, 0, kSlots - 1)];
    Slot &b = x.s[op.in(1, 0, kSlots - 1)];
    const char *name = "?";
    switch (op.code) {
      case CONSTRUCT: { name = "after construct";
        destroy_slot(x, a);
        e = settle(x, "destroying the previous handle of the slot", k); if (!e.empty()) return e;
        int64_t kind = op.in(1, 0, 9);
        if (kind >= 2 && kind <= 4 && x.real_open() >= kMaxReal) kind = 0;
        Cell c;
        switch (kind) {
          case 2: case 3: case 4: {
            c.real = true; x.f.real_fd = true;
            if (kind == 4) { a.h.reset(new Fd(Fd::Open("/dev/null", O_RDONLY))); c.fd = a.h->get(); }
            else { c.fd = ::open("/dev/null", O_RDONLY | O_CLOEXEC); if (kind == 2) a.h.reset(new Fd(c.fd)); else a.h.reset(new Fd(c.fd, Fd::CloseFunc())); }
            if (c.fd < 0) return "harness: cannot open /dev/null";
            if (c.fd < c08fault::kMax) { c08fault::watch[c.fd] = true; c08fault::closes[c.fd] = 0; }
            break; }
          case 5: a.h.reset(new Fd()); break;
          case 6: c.fd = -1; a.h.reset(new Fd(-1, closer)); break;
          case 7: if (!x.zero_used) { x.zero_used = true; c.fd = 0; a.h.reset(new Fd(0, closer)); break; }
            // fallthrough
          default: c.fd = x.next_fake++; a.h.reset(new Fd(c.fd, closer));
        }
        if (kind == 5) { a.cell = -1; a.depth = 0; }
        else { x.cells.push_back(c); x.attach(a, (int)x.cells.size() - 1, 0); }
        break; }
      case COPY: { name = "after copy-construct";
        if (!a.h) continue;
        if (&a == &b) { Fd tmp(*a.h); if (tmp.get() != a.h->get()) return fmt("step %zu: a temporary copy reports get()=%d, the original %d", k, tmp.get(), a.h->get()); break; }
        destroy_slot(x, b);
        e = settle(x, "destroying the previous handle of the slot", k); if (!e.empty()) return e;
        b.h.reset(new Fd(*a.h)); x.attach(b, a.cell, a.depth + 1);
        break; }
      case MOVE: { name = "after move-construct";
        if (!a.h || &a == &b) continue;
        destroy_slot(x, b);
        e = settle(x, "destroying the previous handle of the slot", k); if (!e.empty()) return e;
        b.h.reset(new Fd(std::move(*a.h)));
        b.cell = a.cell; b.depth = a.depth + 1; a.cell = -1; a.depth = 0;
        break; }
      case COPYASSIGN: { name = "after copy-assign";
        ensure(x, a); ensure(x, b);
        Fd &src = *a.h;
        *b.h = src;
        if (&a == &b) { x.f.self_assign = true; break; }
        int cell = a.cell, depth = a.depth + 1;
        // attach first, then release: assigning a handle of the same cell must not close it
        int old = b.cell, old_depth = b.depth;
        x.attach(b, cell, depth);
        x.release(old, old_depth, true);
        break; }
      case MOVEASSIGN: { name = "after move-assign";
        ensure(x, a); ensure(x, b);
        Fd &src = *a.h;
        *b.h = std::move(src);
        if (&a == &b) { x.f.self_assign = true; break; }
        int old = b.cell, old_depth = b.depth;
        b.cell = a.cell; b.depth = a.depth + 1; a.cell = -1; a.depth = 0;
        x.release(old, old_depth, true);
        break; }
      case SWAP: { name = "after swap";
        ensure(x, a); ensure(x, b);
        a.h->swap(*b.h);
        if (&a != &b) { std::swap(a.cell, b.cell); std::swap(a.depth, b.depth); }
        break; }
      case RESET: name = "after reset"; if (!a.h) continue; a.h->reset(); x.release(a.cell, a.depth, false); a.cell = -1; a.depth = 0; break;
      case CLOSE: name = "after close"; if (!a.h) continue; a.h->close(); x.model_close(a.cell); break;
      case DESTROY: name = "after destroy"; if (!a.h) continue; destroy_slot(x, a); break;
      case INJECT: { name = "after arming the close() fault";
        // the next close() of one open plain descriptor really closes it and then reports EINTR; arg1: open a bystander in between
        int start = (int)op.in(0, 0, kSlots - 1);
        for (int i = 0; i < kSlots; ++i) { Slot &sl = x.s[(start + i) % kSlots];
          if (sl.h && sl.cell >= 0 && x.cells[sl.cell].real && !x.cells[sl.cell].closed && x.real_open() < kMaxReal) {
            c08fault::inject_fd = x.cells[sl.cell].fd; c08fault::inject_reopen = op.in(1, 0, 3) != 0; x.f.eintr_armed = true; break; } }
        break; }
      case CHAIN: { name = "after a chain of temporaries";
        // t0 copies the handle, every further temporary is produced from its predecessor by copy-construction,
        // copy-assignment or move; optionally the named handle is destroyed first, so that the scope exit of
        // the temporaries performs the last release.
        if (!a.h) continue;
        int64_t n = op.in(1, 1, 6), how = op.in(2, 0, 2); bool drop = op.in(3, 0, 1) == 1;
        int cell = a.cell, depth = a.depth;
        {
          std::vector<std::unique_ptr<Fd>> t;
          t.emplace_back(new Fd(*a.h));
          if (drop) { if (cell >= 0) ++x.cells[cell].refs; destroy_slot(x, a); }
          for (int64_t i = 1; i < n; ++i) {
            Fd &prev = *t.back();
            std::unique_ptr<Fd> nx;
            switch ((how + i) % 3) { case 0: nx.reset(new Fd(prev)); break; case 1: nx.reset(new Fd()); *nx = prev; break; default: nx.reset(new Fd(std::move(prev))); }
            if (nx->get() != (cell >= 0 && !x.cells[cell].closed ? x.cells[cell].fd : -1)) return fmt("step %zu: temporary %lld of the chain reports get()=%d", k, (long long)i, nx->get());
            t.push_back(std::move(nx));
          }
          if (drop) { e = settle(x, "inside a chain of temporaries (descriptor still referenced)", k); if (!e.empty()) return e; }
          while (!t.empty()) t.pop_back();
        }
        if (drop) x.release(cell, depth + (int)n, false);
        break; }
      default: continue;
    }
    e = settle(x, name, k);
    if (!e.empty()) return e;
  }
  for (int i = 0; i < kSlots; ++i) {
    destroy_slot(x, x.s[i]);
    e = settle(x, "final destruction of the handles", s.ops.size()); if (!e.empty()) return e;
  }
  while (!x.bystanders.empty()) {
    Slot &sl = x.bystanders.back();
    if (sl.h->get() != x.model_get(sl)) return fmt("final: bystander handle get()=%d, model %d", sl.h->get(), x.model_get(sl));
    destroy_slot(x, sl); x.bystanders.pop_back();
    e = settle(x, "final destruction of a bystander handle", s.ops.size()); if (!e.empty()) return e;
  }
  for (auto &c : x.cells) if (c.refs != 0) return "harness: model reference count not zero at the end";
  out = x.f;
  return "";
}

std::string run(const Scenario &s, CaseInfo &info) {
  Flags f;
  std::string e = with_leak_check("fd", [&] { return body(s, f); });
  if (!e.empty()) return e;
  info.cls_if(f.eintr_armed, "close_fault_armed");
  info.cls_if(f.eintr, "close_reports_EINTR_after_closing");
  info.cls_if(f.eintr_recycled, "EINTR_and_number_recycled_by_bystander");
  info.cls_if(f.chain3_last_release, "chain>=3_ending_in_last_release");
  info.cls_if(f.explicit_close_shared, "explicit_close_of_shared_descriptor");
  info.cls_if(f.close_then_release, "last_release_after_explicit_close");
  info.cls_if(f.last_release_by_assign, "last_release_by_assignment");
  info.cls_if(f.self_assign, "self_assignment");
  info.cls_if(f.real_fd, "real_descriptor");
  info.cls_if(f.max_refs >= 4, "refs>=4");
  info.nontrivial = f.chain3_last_release;
  return "";
}

SubDef def = [] {
  SubDef d; d.name = "fd";
  d.op_names = {"construct", "copy", "move", "copyassign", "moveassign", "swap", "reset", "close", "destroy", "chain", "inject"};
  d.op_arity = {2, 2, 2, 2, 2, 2, 1, 1, 1, 4, 2};
  d.nt_rule = "a descriptor is closed by the last release of a handle that is at least three copy/move/assign hops away from the constructed one";
  d.run = run;
#ifndef VERIF_ENGINE_FUZZ
  d.gen = [] {
    auto sl = range(0, kSlots - 1);
    auto kind = rc::gen::weightedOneOf<int64_t>({{8, range(0, 1)}, {3, range(2, 4)}, {1, range(5, 7)}});
    auto opg = rc::gen::weightedOneOf<Op>({
      {6, mkop(CONSTRUCT, {sl, kind})},
      {5, mkop(COPY, {sl, sl})},
      {3, mkop(MOVE, {sl, sl})},
      {5, mkop(COPYASSIGN, {sl, sl})},
      {4, mkop(MOVEASSIGN, {sl, sl})},
      {2, mkop(SWAP, {sl, sl})},
      {3, mkop(RESET, {sl})},
      {2, mkop(CLOSE, {sl})},
      {4, mkop(DESTROY, {sl})},
      {2, mkop(CHAIN, {sl, range(1, 6), range(0, 2), range(0, 1)})},
    });
    // about one case in four arms the close() fault once, early in the history
    auto head = rc::gen::weightedOneOf<std::vector<Op>>({{3, rc::gen::just(std::vector<Op>())},
      {1, fixedOps({mkop(CONSTRUCT, {sl, range(2, 4)}), opg, mkop(INJECT, {sl, range(0, 3)})})}});
    return scenarioOf(head, opsOf(opg));
  };
#endif
  return d;
}();
VERIF_REGISTER(&def);
}  // namespace fdh

// =====================================================================================================
// lifetime tag
// =====================================================================================================
namespace lt {
using tbox::LifetimeTag;
using Watcher = tbox::LifetimeTag::Watcher;

enum { TNEW, TDEL, TCOPY, TMOVE, TASSIGN, TMOVEASSIGN, WNEW, WFROM, WGET, WASSIGNTAG, WCOPY, WMOVE, WCOPYASSIGN, WMOVEASSIGN, WSWAP, WRESET, WDEL, NOPS };
const int kTags = 3, kWatchers = 5;

// Copying / copy-assigning a watcher that watches nothing (default-constructed, moved-from or reset) dereferences a
// null pointer on the unfixed tree (proposed-fixes/02).  The switch keeps those shapes out of generated histories when
// the fix is not applied; it is off because the fix is expected to be in the tree.
static const bool kAvoid_null_watcher_copy = false;

struct TagSlot { std::unique_ptr<LifetimeTag> t; int uid = -1; };
struct WSlot { std::unique_ptr<Watcher> w; int uid = -1; };   // uid of the watched tag, -1: watches nothing
struct Flags { bool dead_seen = false, detail_freed_by_watcher = false, null_copy = false, tag_copied = false, rewatch = false; uint64_t avoided = 0; };

std::string body(const Scenario &s, Flags &out) {
  TagSlot tg[kTags]; WSlot ws[kWatchers];
  std::vector<bool> alive;                // by uid
  std::vector<int> watchers_of;           // by uid: model count of watchers
  Flags f;
  auto new_uid = [&] { alive.push_back(true); watchers_of.push_back(0); return (int)alive.size() - 1; };
  auto unwatch = [&](int uid) { if (uid >= 0 && --watchers_of[uid] == 0 && !alive[uid]) f.detail_freed_by_watcher = true; };
  auto watch = [&](WSlot &w, int uid) { w.uid = uid; if (uid >= 0) ++watchers_of[uid]; };
  auto kill_tag = [&](TagSlot &t) { if (!t.t) return; t.t.reset(); alive[t.uid] = false; t.uid = -1; };
  auto kill_w = [&](WSlot &w) { if (!w.w) return; w.w.reset(); unwatch(w.uid); w.uid = -1; };
  auto check = [&](const char *after, size_t step) -> std::string {
    for (int i = 0; i < kWatchers; ++i) {
      WSlot &w = ws[i]; if (!w.w) continue;
      bool want = w.uid >= 0 && alive[w.uid];
      if (w.uid >= 0 && !alive[w.uid]) f.dead_seen = true;
      if (w.w->isAlive() != want || (bool)*w.w != want)
        return fmt("step %zu after %s: watcher %d reports alive=%d, but the tag it was taken from %s", step, after, i, (int)w.w->isAlive(),
                   w.uid < 0 ? "does not exist (watches nothing)" : alive[w.uid] ? "still exists" : "was destroyed");
    }
    return "";
  };
  std::string e;
  for (size_t k = 0; k < s.ops.size(); ++k) {
    const Op &op = s.ops[k];
    const char *name = "?";
    switch (op.code) {
      case TNEW: { name = "tag construct"; TagSlot &t = tg[op.in(0, 0, kTags - 1)]; kill_tag(t); t.t.reset(new LifetimeTag()); t.uid = new_uid(); break; }
      case TDEL: { name = "tag destroy"; kill_tag(tg[op.in(0, 0, kTags - 1)]); break; }
      case TCOPY: case TMOVE: { name = "tag copy/move-construct";   // the new tag has its own life; watchers of the source keep watching the source
        TagSlot &a = tg[op.in(0, 0, kTags - 1)], &b = tg[op.in(1, 0, kTags - 1)];
        if (!a.t || &a == &b) continue;
        kill_tag(b);
        if (op.code == TCOPY) b.t.reset(new LifetimeTag(*a.t)); else b.t.reset(new LifetimeTag(std::move(*a.t)));
        b.uid = new_uid(); f.tag_copied = true; break; }
      case TASSIGN: case TMOVEASSIGN: { name = "tag assign";      // assignment does not change what either tag stands for
        TagSlot &a = tg[op.in(0, 0, kTags - 1)], &b = tg[op.in(1, 0, kTags - 1)];
        if (!a.t || !b.t) continue;
        LifetimeTag &src = *a.t;
        if (op.code == TASSIGN) *b.t = src; else *b.t = std::move(src);
        f.tag_copied = true; break; }
      case WNEW: { name = "watcher default-construct"; WSlot &w = ws[op.in(0, 0, kWatchers - 1)]; kill_w(w); w.w.reset(new Watcher()); w.uid = -1; break; }
      case WFROM: case WGET: { name = "watcher from tag";
        WSlot &w = ws[op.in(0, 0, kWatchers - 1)]; TagSlot &t = tg[op.in(1, 0, kTags - 1)];
        if (!t.t) continue;
        kill_w(w);
        if (op.code == WFROM) w.w.reset(new Watcher(*t.t)); else w.w.reset(new Watcher(t.t->get()));
        watch(w, t.uid); break; }
      case WASSIGNTAG: { name = "watcher = tag";
        WSlot &w = ws[op.in(0, 0, kWatchers - 1)]; TagSlot &t = tg[op.in(1, 0, kTags - 1)];
        if (!t.t) continue;
        if (!w.w) { w.w.reset(new Watcher()); w.uid = -1; }
        if (w.uid == t.uid) f.rewatch = true;
        *w.w = *t.t;
        int old = w.uid; watch(w, t.uid); unwatch(old); break; }
      case WCOPY: { name = "watcher copy-construct";
        WSlot &a = ws[op.in(0, 0, kWatchers - 1)], &b = ws[op.in(1, 0, kWatchers - 1)];
        if (!a.w || &a == &b) continue;
        if (a.uid < 0) { if (kAvoid_null_watcher_copy) { ++f.avoided; continue; } f.null_copy = true; }
        kill_w(b);
        b.w.reset(new Watcher(*a.w)); watch(b, a.uid); break; }
      case WMOVE: { name = "watcher move-construct";
        WSlot &a = ws[op.in(0, 0, kWatchers - 1)], &b = ws[op.in(1, 0, kWatchers - 1)];
        if (!a.w || &a == &b) continue;
        kill_w(b);
        b.w.reset(new Watcher(std::move(*a.w))); b.uid = a.uid; a.uid = -1; break; }
      case WCOPYASSIGN: { name = "watcher copy-assign";
        WSlot &a = ws[op.in(0, 0, kWatchers - 1)], &b = ws[op.in(1, 0, kWatchers - 1)];
        if (!a.w) continue;
        if (a.uid < 0 && &a != &b) { if (kAvoid_null_watcher_copy) { ++f.avoided; continue; } f.null_copy = true; }
        if (!b.w) { b.w.reset(new Watcher()); b.uid = -1; }
        Watcher &src = *a.w;
        *b.w = src;
        if (&a != &b) { int old = b.uid; watch(b, a.uid); unwatch(old); }
        break; }
      case WMOVEASSIGN: { name = "watcher move-assign";
        WSlot &a = ws[op.in(0, 0, kWatchers - 1)], &b = ws[op.in(1, 0, kWatchers - 1)];
        if (!a.w) continue;
        if (!b.w) { b.w.reset(new Watcher()); b.uid = -1; }
        Watcher &src = *a.w;
        *b.w = std::move(src);
        if (&a != &b) { int old = b.uid; b.uid = a.uid; a.uid = -1; unwatch(old); }
        break; }
      case WSWAP: { name = "watcher swap";
        WSlot &a = ws[op.in(0, 0, kWatchers - 1)], &b = ws[op.in(1, 0, kWatchers - 1)];
        if (!a.w || !b.w) continue;
        a.w->swap(*b.w); if (&a != &b) std::swap(a.uid, b.uid); break; }
      case WRESET: { name = "watcher reset"; WSlot &w = ws[op.in(0, 0, kWatchers - 1)]; if (!w.w) continue; w.w->reset(); unwatch(w.uid); w.uid = -1; break; }
      case WDEL: { name = "watcher destroy"; kill_w(ws[op.in(0, 0, kWatchers - 1)]); break; }
      default: continue;
    }
    e = check(name, k);
    if (!e.empty()) return e;
  }
  // tear down in a history-dependent order: tags first or watchers first
  bool tags_first = s.ops.size() % 2 == 0;
  if (tags_first) for (auto &t : tg) kill_tag(t);
  e = check("final tag destruction", s.ops.size()); if (!e.empty()) return e;
  for (auto &w : ws) kill_w(w);
  for (auto &t : tg) kill_tag(t);
  out = f;
  return "";
}

std::string run(const Scenario &s, CaseInfo &info) {
  Flags f;
  std::string e = with_leak_check("lifetime_tag", [&] { return body(s, f); });
  if (!e.empty()) return e;
  if (f.avoided) stats().counters["avoided_null_watcher_copy"] += f.avoided;
  info.cls_if(f.dead_seen, "watcher_outlives_tag");
  info.cls_if(f.detail_freed_by_watcher, "record_released_by_last_watcher");
  info.cls_if(f.null_copy, "copy_of_empty_watcher");
  info.cls_if(f.tag_copied, "tag_copied_or_assigned");
  info.cls_if(f.rewatch, "watcher_reassigned_same_tag");
  info.nontrivial = f.detail_freed_by_watcher;
  return "";
}

SubDef def = [] {
  SubDef d; d.name = "lifetime_tag";
  d.op_names = {"tnew", "tdel", "tcopy", "tmove", "tassign", "tmoveassign", "wnew", "wfrom", "wget", "wassigntag", "wcopy", "wmove", "wcopyassign", "wmoveassign", "wswap", "wreset", "wdel"};
  d.op_arity = {1, 1, 2, 2, 2, 2, 1, 2, 2, 2, 2, 2, 2, 2, 2, 1, 1};
  d.nt_rule = "a tag is destroyed while watched and the shared record is later released by its last watcher";
  d.run = run;
#ifndef VERIF_ENGINE_FUZZ
  d.gen = [] {
    auto t = range(0, kTags - 1); auto w = range(0, kWatchers - 1);
    auto opg = rc::gen::weightedOneOf<Op>({
      {6, mkop(TNEW, {t})}, {4, mkop(TDEL, {t})}, {1, mkop(TCOPY, {t, t})}, {1, mkop(TMOVE, {t, t})}, {1, mkop(TASSIGN, {t, t})}, {1, mkop(TMOVEASSIGN, {t, t})},
      {1, mkop(WNEW, {w})}, {5, mkop(WFROM, {w, t})}, {2, mkop(WGET, {w, t})}, {3, mkop(WASSIGNTAG, {w, t})},
      {4, mkop(WCOPY, {w, w})}, {3, mkop(WMOVE, {w, w})}, {4, mkop(WCOPYASSIGN, {w, w})}, {3, mkop(WMOVEASSIGN, {w, w})},
      {2, mkop(WSWAP, {w, w})}, {2, mkop(WRESET, {w})}, {3, mkop(WDEL, {w})},
    });
    return scenarioOf(rc::gen::just(std::vector<Op>()), opsOf(opg));
  };
#endif
  return d;
}();
VERIF_REGISTER(&def);
}  // namespace lt

}  // namespace
