// C15 (a) — processing any datagram as a DNS reply is total, bounded and reports only what the datagram encodes.
//
// Sub `reply_parser`, built twice from this file: libFuzzer target (c15_reply_fuzz: input = [control byte][datagram])
// and rapidcheck target (c15_reply_rc: structure-aware generator, see gen below; it also replays the *.txt regressions).
//
// Every case creates a Loop and a DnsRequest (through a probe SUBCLASS that exposes the protected onUdpRecv — the
// sanctioned exception of DESIGN.md 3.10) with one outstanding lookup for "www.example.com"; the server list is one
// loopback address nobody listens on, so the query is discarded.  The datagram (exact-size heap copy, so that ASan
// sees any over-read) gets the id of the outstanding lookup patched into its first two bytes for 3 of 4 inputs, is
// handed to onUdpRecv, and the callback is recorded.
//
// ops:  cfg idmode preissue | raw b... | hdr qr opcode bits rcode dqd dan dns dar | name term targ lab... |
//       q type class | rr sec type class ttl rdkind rdarg | trunc n | poke pos val | sweep | tmpl ncname naddr style
//
// Oracle (dnsref.h holds the independent RFC 1035 reader):
//   * returns: no crash / stack exhaustion / sanitizer report; at most 1 s of CPU per datagram; at most one callback;
//   * a callback only for a datagram that carries id and flags (>= 4 bytes), whose id is the outstanding lookup's and
//     whose QR bit is set; kSuccess only with RCODE 0, kDomainError only with RCODE 3, never kTimeout;
//   * containment: every reported (address, ttl) is the RDATA of an A record, every reported (cname, ttl) the name of a
//     CNAME record that the LENIENT reference reading locates in this datagram (multiset inclusion);
//   * equality: if the STRICT reading accepts the datagram and it is a plain reply to the question asked, the lookup
//     completes with exactly the status the RCODE dictates and (RCODE 0) exactly the answer section's A / CNAME lists;
//   * isRunning(id) is false after a callback and true otherwise.
#define VERIF_MAIN
#include "../common/verif.h"
#include "dnsref.h"
#include <tbox/event/loop.h>
#include <tbox/network/dns_request.h>
#include <deque>
#include <memory>
#include <time.h>
#include <pthread.h>

using namespace verif;
using namespace c15;
using tbox::network::DnsRequest;
using tbox::network::DomainName;
using tbox::network::IPAddress;
using tbox::network::SockAddr;

namespace {

enum { CFG, RAW, HDR, NAME, Q, RR, TRUNC, POKE, SWEEP, TMPL, NOPS };
const char *const kQName = "www.example.com";
const size_t kMaxDatagram = 4096;                 // UdpSocket's receive buffer: nothing longer ever reaches onUdpRecv
const uint16_t kPatternId = 0xAAAA;               // what an uninitialised uint16_t reads as under -ftrivial-auto-var-init=pattern

struct Probe : public DnsRequest {
  using DnsRequest::DnsRequest;
  void feed(const void *p, size_t n, const SockAddr &from) { onUdpRecv(p, n, from); }
};

const std::string kLabels[] = {
  "www", "example", "com", "a", "b", "cdn", "net", "mail", "WWW", "Example", std::string(63, 'x'), "e.x",
  std::string("n\0l", 3), "-", "xn--p1ai", std::string(40, 'y'),
};
const int kNLabels = sizeof kLabels / sizeof kLabels[0];
const uint8_t kAddrs[][4] = {{1, 2, 3, 4}, {10, 0, 0, 1}, {192, 168, 1, 1}, {8, 8, 8, 8}, {255, 255, 255, 255}, {0, 0, 0, 0}, {127, 0, 0, 1}, {93, 184, 216, 34}};
const int kNAddrs = sizeof kAddrs / sizeof kAddrs[0];
const unsigned kTypes[] = {T_A, T_CNAME, T_NS, T_MX, T_TXT, T_AAAA, T_SOA, T_OPT, T_PTR, 0, 255, 65535};
const int kNTypes = sizeof kTypes / sizeof kTypes[0];
const unsigned kClasses[] = {C_IN, C_IN, C_IN, 3, 255, 0};
const int64_t kDeltas[] = {0, 0, 0, 0, 0, 0, 1, 2, 7, 1000, 70000, -1};   // 70000: count field forced to 65535
const int kNDeltas = sizeof kDeltas / sizeof kDeltas[0];

// ------------------------------------------------------------------------------------------- ops -> datagram
struct NameSpec { int term = 0; int64_t targ = 0; std::vector<int> labs; };
struct Build {
  Wire w;
  bool hdr = false;
  int64_t delta[4] = {0, 0, 0, 0};
  unsigned actual[4] = {0, 0, 0, 0};
  int cur_sec = 0;
  std::vector<size_t> name_at, ptr_at;
  std::vector<size_t> fix_fwd;                          // pointers waiting for the next name to be emitted
  std::vector<std::pair<size_t, int64_t>> fix_out;      // pointers that must end up outside the final datagram
  std::deque<NameSpec> pending;
  bool sweep = false;
  std::vector<int64_t> truncs; std::vector<std::pair<int64_t, int64_t>> pokes;

  void needHdr() { if (!hdr) { w.header(0, 0x8180, 0, 0, 0, 0); hdr = true; } }
  void emitPtr(size_t target) { ptr_at.push_back(w.b.size()); w.ptr((unsigned)std::min<size_t>(target, 0x3fff)); }
  size_t emitName(const NameSpec &s) {
    size_t start = w.b.size();
    for (size_t f : fix_fwd) w.put16(f, 0xc000 | (unsigned)std::min<size_t>(start, 0x3fff));
    fix_fwd.clear();
    name_at.push_back(start);
    for (int l : s.labs) w.label(kLabels[((l % kNLabels) + kNLabels) % kNLabels]);
    Op t; t.a = {s.targ};
    switch (s.term) {
      default: case 0: w.u8(0); break;
      case 1: emitPtr(name_at.size() > 1 ? name_at[(size_t)t.in(0, 0, (int64_t)name_at.size() - 2)] : 12); break;
      case 2: {   // into the middle of an earlier name: skip its first label
        size_t base = name_at.size() > 1 ? name_at[(size_t)t.in(0, 0, (int64_t)name_at.size() - 2)] : 12;
        size_t skip = base < w.b.size() && w.b[base] < 64 ? 1 + (size_t)w.b[base] : 0;
        emitPtr(base + skip); break; }
      case 3: emitPtr(w.b.size()); break;                       // the pointer points at itself
      case 4: emitPtr(start); break;                            // back to this name's first label: a loop through labels
      case 5: fix_fwd.push_back(w.b.size()); emitPtr(0); break; // forward, resolved when the next name is emitted
      case 6: fix_out.push_back({w.b.size(), s.targ}); emitPtr(0x3fff); break;
      case 7: emitPtr((size_t)t.in(0, 0, 63)); break;           // some absolute offset near the start (header, question)
      case 8: break;                                            // no terminator at all
      case 9: w.u8(((s.targ & 1) ? 0x40 : 0x80) | (unsigned)t.in(0, 0, 63)); w.u8(0); break;   // reserved label type
      case 10: emitPtr(ptr_at.empty() ? start : ptr_at[(size_t)t.in(0, 0, (int64_t)ptr_at.size() - 1)]); break;   // pointer to a pointer
    }
    return start;
  }
  NameSpec popName(bool *had) {
    if (pending.empty()) { *had = false; return NameSpec(); }
    *had = true; NameSpec s = pending.front(); pending.pop_front(); return s;
  }
  void ownerOrDefault() {
    bool had; NameSpec s = popName(&had);
    if (had) emitName(s);
    else if (w.b.size() > 12) { name_at.push_back(w.b.size()); emitPtr(12); }
    else { NameSpec d; d.labs = {0, 1, 2}; emitName(d); }
  }
  void question(unsigned type, unsigned klass) {
    needHdr();
    bool had; NameSpec s = popName(&had);
    if (!had) { s.labs = {0, 1, 2}; }
    emitName(s);
    w.u16(type); w.u16(klass);
    actual[0]++;
  }
  void record(int sec, unsigned type, unsigned klass, uint32_t ttl, int rdkind, int64_t rdarg) {
    needHdr();
    if (sec < 1) sec = 1;
    if (sec < cur_sec) sec = cur_sec;
    cur_sec = sec;
    ownerOrDefault();
    size_t fixed = w.b.size();
    w.rrFixed(type, klass, ttl, 0);
    size_t rd = w.b.size();
    Op t; t.a = {rdarg};
    if (rdkind != 2) {
      if (type == T_A) { const uint8_t *ad = kAddrs[t.in(0, 0, kNAddrs - 1)]; for (int i = 0; i < 4; ++i) w.u8(ad[i]); }
      else if (type == T_CNAME || type == T_NS || type == T_PTR || type == T_MX) {
        if (type == T_MX) w.u16(10);
        bool had; NameSpec s = popName(&had);
        if (!had) { s.labs = {5, (int)t.in(0, 0, kNLabels - 1)}; s.term = 1; s.targ = 0; }
        emitName(s);
      } else { size_t n = (size_t)t.in(0, 0, 40); for (size_t i = 0; i < n; ++i) w.u8(0x30 + (unsigned)(i % 10)); }
    }
    size_t natural = w.b.size() - rd;
    int64_t len = (int64_t)natural;
    if (rdkind == 1) { static const int64_t d[] = {-1, 1, 4, -4, 2, 100, 60000}; len += d[t.in(0, 0, 6)]; }
    if (rdkind == 3) len = 0;
    if (len < 0) len = 0;
    if (len > 65535) len = 65535;
    w.put16(fixed + 8, (unsigned)len);
    actual[sec]++;
  }
  void tmpl(int ncname, int naddr, int style) {
    needHdr();
    bool compress = (style & 1) != 0, qcase = (style & 2) != 0, extra = (style & 4) != 0;
    size_t qat = w.b.size();
    { NameSpec s; s.labs = {qcase ? 8 : 0, qcase ? 9 : 1, 2}; emitName(s); w.u16(T_A); w.u16(C_IN); actual[0]++; }
    if (cur_sec < 1) cur_sec = 1;
    size_t owner_at = qat;                       // where the current owner name is spelled out
    std::vector<int> owner_labs = {qcase ? 8 : 0, qcase ? 9 : 1, 2};
    size_t suffix_at = qat + 1 + kLabels[owner_labs[0]].size();   // "example.com"
    for (int i = 0; i < ncname; ++i) {
      if (compress) { name_at.push_back(w.b.size()); emitPtr(owner_at); } else { NameSpec s; s.labs = owner_labs; emitName(s); }
      size_t fixed = w.b.size(); w.rrFixed(T_CNAME, C_IN, 300 + (uint32_t)i, 0);
      size_t rd = w.b.size();
      std::vector<int> tl = {5, 3 + (i & 1), 1, 2};           // cdn.a.example.com / cdn.b.example.com
      owner_at = rd;
      if (compress) { name_at.push_back(rd); w.label(kLabels[5]); w.label(kLabels[3 + (i & 1)]); emitPtr(suffix_at); } else { NameSpec s; s.labs = tl; emitName(s); }
      owner_labs = tl;
      w.put16(fixed + 8, (unsigned)(w.b.size() - rd));
      actual[1]++;
    }
    for (int i = 0; i < naddr; ++i) {
      if (compress) { name_at.push_back(w.b.size()); emitPtr(owner_at); } else { NameSpec s; s.labs = owner_labs; emitName(s); }
      w.rrFixed(T_A, C_IN, 60 + (uint32_t)i, 4);
      const uint8_t *ad = kAddrs[(i * 3 + ncname) % kNAddrs]; for (int k = 0; k < 4; ++k) w.u8(ad[k]);
      actual[1]++;
    }
    if (extra) {   // authority NS + additional glue A: located by the reference, never to be reported as an answer
      cur_sec = 2; name_at.push_back(w.b.size()); emitPtr(suffix_at);
      size_t fixed = w.b.size(); w.rrFixed(T_NS, C_IN, 3600, 0); size_t rd = w.b.size();
      w.label("ns1"); emitPtr(suffix_at); w.put16(fixed + 8, (unsigned)(w.b.size() - rd)); actual[2]++;
      cur_sec = 3; name_at.push_back(w.b.size()); emitPtr(rd);
      w.rrFixed(T_A, C_IN, 3600, 4); w.u8(198); w.u8(51); w.u8(100); w.u8(7); actual[3]++;
    }
  }

  Bytes finish() {
    if (hdr) for (int i = 0; i < 4; ++i) {
      int64_t c = (int64_t)actual[i] + delta[i];
      if (delta[i] >= 70000) c = 65535;
      if (c < 0) c = 0;
      if (c > 65535) c = 65535;
      w.put16(4 + 2 * (size_t)i, (unsigned)c);
    }
    Bytes b = w.b;
    for (auto v : truncs) { Op t; t.a = {v}; b.resize((size_t)t.in(0, 0, (int64_t)b.size())); }
    for (auto &pv : pokes) if (!b.empty()) { Op t; t.a = {pv.first}; b[(size_t)t.in(0, 0, (int64_t)b.size() - 1)] = (uint8_t)pv.second; }
    for (size_t f : fix_fwd) if (f + 1 < b.size()) { unsigned v = 0xc000 | (unsigned)std::min<size_t>(b.size(), 0x3fff); b[f] = (uint8_t)(v >> 8); b[f + 1] = (uint8_t)v; }
    for (auto &fo : fix_out) if (fo.first + 1 < b.size()) {
      Op t; t.a = {fo.second};
      unsigned v = 0xc000 | (unsigned)std::min<size_t>(t.in(0, 0, 3) == 3 ? 0x3fff : b.size() + (size_t)t.in(0, 0, 3), 0x3fff);
      b[fo.first] = (uint8_t)(v >> 8); b[fo.first + 1] = (uint8_t)v;
    }
    if (b.size() > kMaxDatagram) b.resize(kMaxDatagram);
    return b;
  }
};

struct Cfg { int idmode = 1; bool preissue = false; };

Bytes buildDatagram(const Scenario &s, Cfg &cfg, bool &sweep) {
  Build B;
  for (auto &op : s.ops) {
    switch (op.code) {
      case CFG: cfg.idmode = (int)op.in(0, 0, 3); cfg.preissue = op.in(1, 0, 1) == 1; break;
      case RAW: for (auto v : op.a) if (B.w.b.size() < kMaxDatagram) B.w.u8((unsigned)(uint8_t)v); break;
      case HDR: {
        unsigned flags = (op.in(0, 0, 1) ? 0x8000u : 0) | ((unsigned)op.in(1, 0, 15) << 11) | (((unsigned)op.in(2, 0, 127) & 0x7f) << 4) | (unsigned)op.in(3, 0, 15);
        if (!B.hdr) { B.w.header(0, (uint16_t)flags, 0, 0, 0, 0); B.hdr = true; }
        else B.w.put16(2, flags);
        for (int i = 0; i < 4; ++i) B.delta[i] = kDeltas[op.in(4 + (size_t)i, 0, kNDeltas - 1)];
        break; }
      case NAME: {
        NameSpec n; n.term = (int)op.in(0, 0, 10); n.targ = op.arg(1);
        for (size_t i = 2; i < op.a.size() && n.labs.size() < 12; ++i) n.labs.push_back((int)op.in(i, 0, kNLabels - 1));
        if (B.pending.size() < 8) B.pending.push_back(n);
        break; }
      case Q: B.question(kTypes[op.in(0, 0, kNTypes - 1)], kClasses[op.in(1, 0, 5)]); break;
      case RR: B.record((int)op.in(0, 1, 3), kTypes[op.in(1, 0, kNTypes - 1)], kClasses[op.in(2, 0, 5)], (uint32_t)op.in(3, 0, 0x7fffffff), (int)op.in(4, 0, 3), op.arg(5)); break;
      case TRUNC: B.truncs.push_back(op.arg(0)); break;
      case POKE: B.pokes.push_back({op.arg(0), op.arg(1) & 0xff}); break;
      case SWEEP: sweep = true; break;
      case TMPL: B.tmpl((int)op.in(0, 0, 3), (int)op.in(1, 0, 4), (int)op.in(2, 0, 7)); break;
      default: break;
    }
    if (B.w.b.size() > 2 * kMaxDatagram) break;
  }
  return B.finish();
}

// ----------------------------------------------------------------------------------------------- the real thing
IPAddress deadServer() {
  unsigned pid = (unsigned)getpid();
  char buf[32]; snprintf(buf, sizeof buf, "127.%u.%u.200", 64 + (pid >> 8) % 128, pid & 0xff);   // nobody binds host .200
  return IPAddress::FromString(buf);
}

struct World {
  std::unique_ptr<tbox::event::Loop> loop;
  std::unique_ptr<Probe> dns;
  bool outstanding = false, preissued = false; uint16_t id = 0;
  int cbs = 0; DnsRequest::Result last;
  World() : loop(tbox::event::Loop::New()) { dns.reset(new Probe(loop.get(), DnsRequest::IPAddressVec{deadServer()})); }
  ~World() { dns.reset(); loop.reset(); }
  std::string ensureLookup(bool preissue) {
    if (outstanding) return "";
    if (preissue && !preissued) {
      preissued = true;   // once per case: ~43 000 request()/cancel() pairs
      // make the outstanding lookup's id equal to the byte pattern an uninitialised id reads as
      std::vector<uint16_t> ids;
      while ((uint16_t)(id + 1) != kPatternId) { id = dns->request(DomainName("x.example"), [](const DnsRequest::Result &) {}); ids.push_back(id); if (ids.size() > 70000) break; }
      for (auto i : ids) dns->cancel(i);
    }
    id = dns->request(DomainName(kQName), [this](const DnsRequest::Result &r) { ++cbs; last = r; });
    if (id == 0) return "request() returned 0 although a server is configured";
    outstanding = true;
    return "";
  }
};

// Non-termination is part of the property, so it must become an ordinary captured failure quickly and independently of the
// machine's load: a helper thread watches the CPU time the main thread spends inside one onUdpRecv call and, after 5 s,
// saves the case as a hang (exit status 3, like the common per-case watchdog).
struct CpuWatchdog {
  std::atomic<int64_t> armed_ns{0};
  clockid_t cid;
  bool started = false;
  static int64_t ns(clockid_t c) { struct timespec ts; clock_gettime(c, &ts); return (int64_t)ts.tv_sec * 1000000000ll + ts.tv_nsec; }
  void arm() {
    if (!started) {
      started = true;
      pthread_getcpuclockid(pthread_self(), &cid);
      std::thread([this] {
        for (;;) {
          std::this_thread::sleep_for(std::chrono::milliseconds(100));
          int64_t a = armed_ns.load();
          if (a != 0 && ns(cid) - a > 5000000000ll) {
            fprintf(stderr, "\nC15: onUdpRecv has used more than 5 s of CPU on one datagram: treated as non-termination\n");
            dump_current_case("hang");
            syscall(SYS_exit_group, 3);
          }
        }
      }).detach();
    }
    armed_ns.store(ns(cid) | 1);
  }
  void disarm() { armed_ns.store(0); }
};
CpuWatchdog &cpuWatchdog() { static CpuWatchdog w; return w; }

double cpuSeconds() { struct timespec ts; clock_gettime(CLOCK_THREAD_CPUTIME_ID, &ts); return (double)ts.tv_sec + (double)ts.tv_nsec * 1e-9; }

const char *statusName(DnsRequest::Result::Status s) {
  switch (s) {
    case DnsRequest::Result::Status::kSuccess: return "kSuccess";
    case DnsRequest::Result::Status::kDomainError: return "kDomainError";
    case DnsRequest::Result::Status::kAllDnsFail: return "kAllDnsFail";
    case DnsRequest::Result::Status::kTimeout: return "kTimeout";
    case DnsRequest::Result::Status::kFail: return "kFail";
  }
  return "?";
}

struct FeedStats { bool callback = false, strict = false, plain = false, ptr = false, cut = false, matched = false, loopy = false, outside = false, tiny = false, data = false; };

// One datagram through the real code + oracle.  Returns "" or the diagnosis.
std::string feedOne(World &W, const Bytes &dg, const Cfg &cfg, CaseInfo &info, FeedStats &fs) {
  std::string e = W.ensureLookup(cfg.preissue);
  if (!e.empty()) return e;
  size_t n = dg.size();
  std::unique_ptr<uint8_t[]> buf(new uint8_t[n]);          // exact size: any over-read is an ASan report
  if (n) memcpy(buf.get(), dg.data(), n);
  if (cfg.idmode != 0) { if (n > 0) buf[0] = (uint8_t)(W.id >> 8); if (n > 1) buf[1] = (uint8_t)W.id; }
  RefMsg ref = refParse(buf.get(), n);
  const char *whynot = "";
  bool plain = plainAnswerTo(ref, kQName, &whynot);
  bool matched = ref.has_flags && ref.id == W.id;
  fs.strict = ref.strict; fs.plain = plain && matched; fs.ptr = ref.pointers > 0; fs.cut = ref.cut_in_record; fs.matched = matched; fs.tiny = n < 12;
  fs.loopy = ref.why.find("loop") != std::string::npos; fs.outside = ref.why.find("outside") != std::string::npos;

  W.cbs = 0;
  double t0 = cpuSeconds();
  cpuWatchdog().arm();
  W.dns->feed(buf.get(), n, SockAddr(deadServer(), 53));
  cpuWatchdog().disarm();
  double cpu = cpuSeconds() - t0;
  auto where = [&]() { return " [datagram " + std::to_string(n) + " bytes: " + hexOf(buf.get(), n) + "; reference: " + (ref.strict ? "well-formed" : ref.why) + "]"; };
  if (getenv("C15_TRACE")) {
    fprintf(stderr, "TRACE datagram %zu bytes %s\n  reference: strict=%d complete=%d recs=%zu why=%s plain=%d(%s)\n  callbacks=%d", n, hexOf(buf.get(), n, 4096).c_str(), (int)ref.strict, (int)ref.complete,
            ref.recs.size(), ref.why.c_str(), (int)plain, whynot, W.cbs);
    if (W.cbs) { fprintf(stderr, " status=%s", statusName(W.last.status)); for (auto &a : W.last.a_vec) fprintf(stderr, " A %s/%u", a.ip.toString().c_str(), a.ttl);
                 for (auto &c : W.last.cname_vec) fprintf(stderr, " CNAME %s/%u", showBytes(c.cname.toString()).c_str(), c.ttl); }
    fprintf(stderr, "\n");
  }
  if (cpu > 1.0) return "processing one datagram took " + std::to_string(cpu) + " s of CPU" + where();
  if (W.cbs > 1) return "callback invoked " + std::to_string(W.cbs) + " times for one datagram" + where();
  bool running = W.dns->isRunning(W.id);
  if (W.cbs == 0) {
    if (!running) return "the lookup is no longer running although its callback was not invoked" + where();
    if (plain && matched) return "a well-formed reply to the outstanding lookup was ignored" + where();
    return "";
  }
  fs.callback = true;
  W.outstanding = false;
  auto st = W.last.status;
  std::string got = std::string("callback with ") + statusName(st) + ", " + std::to_string(W.last.a_vec.size()) + " address(es), " + std::to_string(W.last.cname_vec.size()) + " cname(s)";
  if (n < 4) return got + " for a datagram that is too short to carry id and flags (they were read uninitialised)" + where();
  if (!matched) return got + " although the datagram's id " + std::to_string(ref.id) + " is not the outstanding lookup's id " + std::to_string(W.id) + where();
  if (!ref.qr()) return got + " for a datagram whose QR bit is clear (not a reply)" + where();
  if (running) return "isRunning() is still true after the callback" + where();
  int rcode = ref.rcode();
  typedef DnsRequest::Result::Status S;
  if (st == S::kTimeout) return got + ": a datagram cannot time a lookup out" + where();
  if (st == S::kSuccess && rcode != 0) return got + " although RCODE is " + std::to_string(rcode) + where();
  if (st == S::kDomainError && rcode != 3) return got + " although RCODE is " + std::to_string(rcode) + where();
  std::vector<RepA> as; std::vector<RepC> cs;
  for (auto &a : W.last.a_vec) { RepA x; x.ttl = a.ttl; uint32_t v = a.ip; memcpy(x.ip, &v, 4); as.push_back(x); }
  for (auto &c : W.last.cname_vec) { RepC x; x.ttl = c.ttl; x.name = c.cname.toString(); cs.push_back(x); }
  fs.data = !as.empty() || !cs.empty();
  std::string ce = checkContained(ref, as, cs);
  if (!ce.empty()) return ce + where();
  if (plain) {
    S exp = rcode == 0 ? S::kSuccess : rcode == 3 ? S::kDomainError : rcode == 1 ? S::kFail : S::kAllDnsFail;
    if (st != exp) return got + ", expected " + statusName(exp) + " for RCODE " + std::to_string(rcode) + " from the only server" + where();
    if (rcode == 0) {
      std::vector<RepA> ea; std::vector<RepC> ec; refAnswers(ref, ea, ec);
      bool same = ea.size() == as.size() && ec.size() == cs.size();
      for (size_t i = 0; same && i < ea.size(); ++i) same = ea[i] == as[i];
      for (size_t i = 0; same && i < ec.size(); ++i) same = ec[i].ttl == cs[i].ttl && undot(ec[i].name) == undot(cs[i].name);
      if (!same) {
        std::string exps, gots;
        for (auto &a : ea) exps += " A " + showIp(a.ip) + "/" + std::to_string(a.ttl);
        for (auto &c : ec) exps += " CNAME " + showBytes(c.name) + "/" + std::to_string(c.ttl);
        for (auto &a : as) gots += " A " + showIp(a.ip) + "/" + std::to_string(a.ttl);
        for (auto &c : cs) gots += " CNAME " + showBytes(c.name) + "/" + std::to_string(c.ttl);
        return "well-formed reply: reported" + gots + ", the answer section holds" + exps + where();
      }
    }
  }
  (void)info;
  return "";
}

std::string run(const Scenario &s, CaseInfo &info) {
  Cfg cfg; bool sweep = false;
  Bytes dg = buildDatagram(s, cfg, sweep);
  if (const char *dir = getenv("C15_DUMP_SEEDS")) {   // seed-corpus writer (harness/C15/NOTES.md): one libFuzzer input per generated datagram
    std::string f(1, (char)1); f.append((const char *)dg.data(), dg.size());
    char name[512]; snprintf(name, sizeof name, "%s/g-%016llx.bin", dir, (unsigned long long)fnv1a(f));
    write_file(name, f);
  }
  World W;
  if (sweep) {   // every proper prefix first (shortest first, so that with `preissue` lookup 0xAAAA is still outstanding for the 0..3 byte ones)
    info.cls("truncation_sweep");
    size_t step = dg.size() > 700 ? dg.size() / 350 : 1;
    for (size_t len = 0; len < dg.size(); len += step) {
      Bytes part(dg.begin(), dg.begin() + (long)len);
      FeedStats f2;
      std::string e2 = feedOne(W, part, cfg, info, f2);
      if (!e2.empty()) return "truncated to " + std::to_string(len) + " of " + std::to_string(dg.size()) + " bytes: " + e2;
      if (f2.cut) info.nontrivial = true;
    }
  }
  FeedStats fs;
  std::string err = feedOne(W, dg, cfg, info, fs);
  if (!err.empty()) return err;
  info.cls_if(fs.callback, "callback");
  info.cls_if(fs.data, "data_reported");
  info.cls_if(fs.strict, "strict_wellformed");
  info.cls_if(fs.plain, "equality_checked");
  info.cls_if(fs.ptr, "compression_pointer");
  info.cls_if(fs.cut, "cut_inside_record");
  info.cls_if(fs.loopy, "pointer_loop");
  info.cls_if(fs.outside, "pointer_outside");
  info.cls_if(fs.tiny, "shorter_than_header");
  info.cls_if(!fs.matched, "id_mismatch");
  info.cls_if(cfg.preissue, "id_is_0xAAAA");
  if (fs.ptr || fs.cut) info.nontrivial = true;
  return "";
}

Scenario decodeBytes(const uint8_t *data, size_t size) {
  Scenario s;
  Op c; c.code = CFG; c.a = {size ? (int64_t)(data[0] & 3) : 1, 0};
  s.ops.push_back(c);
  Op r; r.code = RAW;
  for (size_t i = 1; i < size; ++i) r.a.push_back(data[i]);
  s.ops.push_back(r);
  return s;
}

SubDef def = [] {
  SubDef d; d.name = "reply_parser";
  d.op_names = {"cfg", "raw", "hdr", "name", "q", "rr", "trunc", "poke", "sweep", "tmpl"};
  d.op_arity = {2, 8, 8, 5, 2, 6, 1, 2, 0, 3};
  d.nt_rule = "the datagram holds at least one compression pointer in a name the reference reading reaches, or ends / breaks inside a question or record";
  d.run = run;
  d.decode = decodeBytes;
#ifndef VERIF_ENGINE_FUZZ
  d.gen = [] {
    auto lab = range(0, kNLabels - 1);
    auto labs = [lab](int lo, int hi) {
      return rc::gen::mapcat(range(lo, hi), [lab](int64_t n) { return rc::gen::container<std::vector<int64_t>>((size_t)n, lab); });
    };
    auto nameOp = [labs](rc::Gen<int64_t> term) {
      return rc::gen::apply([](int64_t t, int64_t targ, std::vector<int64_t> l) { Op o; o.code = NAME; o.a = {t, targ}; for (auto x : l) o.a.push_back(x); return o; },
                            term, range(0, 40), labs(0, 4));
    };
    auto termCommon = rc::gen::weightedOneOf<int64_t>({{6, rc::gen::just<int64_t>(0)}, {5, rc::gen::just<int64_t>(1)}, {2, rc::gen::just<int64_t>(2)}});
    auto termHostile = rc::gen::weightedOneOf<int64_t>({{2, rc::gen::just<int64_t>(3)}, {2, rc::gen::just<int64_t>(4)}, {2, rc::gen::just<int64_t>(5)}, {2, rc::gen::just<int64_t>(6)},
                                                         {2, rc::gen::just<int64_t>(7)}, {1, rc::gen::just<int64_t>(8)}, {1, rc::gen::just<int64_t>(9)}, {2, rc::gen::just<int64_t>(10)}});
    auto delta = rc::gen::weightedOneOf<int64_t>({{12, rc::gen::just<int64_t>(0)}, {1, range(6, kNDeltas - 1)}});
    auto hdrOp = mkop(HDR, {rc::gen::weightedOneOf<int64_t>({{12, rc::gen::just<int64_t>(1)}, {1, rc::gen::just<int64_t>(0)}}),
                            rc::gen::weightedOneOf<int64_t>({{12, rc::gen::just<int64_t>(0)}, {1, range(1, 15)}}),
                            rc::gen::weightedOneOf<int64_t>({{6, rc::gen::just<int64_t>(0x18)}, {2, range(0, 127)}}),
                            rc::gen::weightedOneOf<int64_t>({{10, rc::gen::just<int64_t>(0)}, {1, rc::gen::just<int64_t>(3)}, {1, rc::gen::just<int64_t>(2)}, {1, rc::gen::just<int64_t>(1)}, {1, range(4, 15)}}),
                            delta, delta, delta, delta});
    auto typeSel = rc::gen::weightedOneOf<int64_t>({{6, rc::gen::just<int64_t>(0)}, {4, rc::gen::just<int64_t>(1)}, {3, range(2, kNTypes - 1)}});
    auto rrOp = mkop(RR, {rc::gen::weightedOneOf<int64_t>({{6, rc::gen::just<int64_t>(1)}, {1, range(2, 3)}}), typeSel, range(0, 5),
                          rc::gen::weightedOneOf<int64_t>({{3, range(0, 86400)}, {1, range(0, 0x7fffffff)}}),
                          rc::gen::weightedOneOf<int64_t>({{10, rc::gen::just<int64_t>(0)}, {1, range(1, 3)}}), range(0, 40)});
    auto qOp = mkop(Q, {rc::gen::weightedOneOf<int64_t>({{8, rc::gen::just<int64_t>(0)}, {1, range(1, kNTypes - 1)}}), range(0, 2)});
    auto byteg = rc::gen::weightedOneOf<int64_t>({{4, range(0, 255)}, {2, rc::gen::elementOf(std::vector<int64_t>{0, 1, 0xc0, 0xc0, 0x0c, 0xff, 0x3f, 0x40, 0x80, 5, 4})}});
    auto rawOp = rc::gen::map(rc::gen::mapcat(range(0, 24), [byteg](int64_t n) { return rc::gen::container<std::vector<int64_t>>((size_t)n, byteg); }),
                              [](std::vector<int64_t> v) { Op o; o.code = RAW; o.a = std::move(v); return o; });
    auto truncOp = mkop(TRUNC, {range(0, 400)});
    auto pokeOp = mkop(POKE, {range(0, 400), byteg});
    auto tmplOp = mkop(TMPL, {range(0, 3), range(0, 4), range(0, 7)});
    auto sweepOp = mkop(SWEEP, {});
    auto cfgOp = mkop(CFG, {rc::gen::weightedOneOf<int64_t>({{3, range(1, 3)}, {1, rc::gen::just<int64_t>(0)}}),
                            rc::gen::weightedOneOf<int64_t>({{1500, rc::gen::just<int64_t>(0)}, {1, rc::gen::just<int64_t>(1)}})});
    // (i) a canonical reply, possibly followed by more records and then damaged
    auto tail = rc::gen::weightedOneOf<Op>({{3, rrOp}, {3, nameOp(termCommon)}, {3, nameOp(termHostile)}, {2, truncOp}, {2, pokeOp}, {1, hdrOp}, {1, rawOp}, {1, sweepOp}});
    auto shapeTmpl = scenarioOf(fixedOps({cfgOp, hdrOp, tmplOp}), rc::gen::resize(6, opsOf(tail)));
    auto shapeClean = scenarioOf(fixedOps({cfgOp, tmplOp}), rc::gen::just(std::vector<Op>()));
    // (ii) free-form structure
    auto freeOp = rc::gen::weightedOneOf<Op>({{5, rrOp}, {4, nameOp(termCommon)}, {4, nameOp(termHostile)}, {2, qOp}, {1, truncOp}, {1, pokeOp}, {1, rawOp}, {1, sweepOp}, {1, hdrOp}});
    auto shapeFree = scenarioOf(fixedOps({cfgOp, hdrOp, qOp}), rc::gen::resize(14, opsOf(freeOp)));
    // (iii) header + raw bytes / tiny datagrams
    auto shapeRaw = scenarioOf(fixedOps({cfgOp}), rc::gen::resize(4, opsOf(rc::gen::weightedOneOf<Op>({{3, rawOp}, {1, hdrOp}, {1, truncOp}, {1, sweepOp}}))));
    auto shapeTiny = scenarioOf(fixedOps({cfgOp, hdrOp}), fixedOps({mkop(TRUNC, {range(0, 13)})}));
    return rc::gen::weightedOneOf<Scenario>({{4, shapeTmpl}, {1, shapeClean}, {5, shapeFree}, {1, shapeRaw}, {1, shapeTiny}});
  };
#endif
  return d;
}();
VERIF_REGISTER(&def);
}  // namespace
