// C15 — shared by reply_parser.cpp and lookup_lifecycle.cpp:
//   * an independent reference reader of DNS messages written from RFC 1035 (4.1 message format, 4.1.4 compression):
//     iterative, bounded name decompression (no recursion; every pointer position is followed at most once),
//   * a small wire builder for replies,
//   * the comparison of what DnsRequest reported with what the reference finds in the datagram.
//
// The reference reads every datagram twice in one go:
//   LENIENT  = the most permissive reasonable reading (pointers may point anywhere inside the packet as long as the
//              chain ends; label types 01/10 are taken as plain length bytes; names may exceed 255 octets; RDLENGTH
//              delimits a record whatever the RDATA holds; trailing bytes are ignored).  Everything this reading can
//              locate is something the implementation MAY report (containment oracle).
//   STRICT   = RFC 1035 to the letter (pointers point to a prior position, names <= 255 octets, label length <= 63,
//              A RDLENGTH == 4, a CNAME's name fills its RDATA exactly, counts match the content, nothing trails).
//              Only for datagrams that pass STRICT (and are a plain reply to the question asked) the implementation
//              MUST report exactly what the reference reads (equality oracle).
#pragma once
#include <cstdint>
#include <cstring>
#include <string>
#include <vector>
#include <algorithm>

namespace c15 {

typedef std::vector<uint8_t> Bytes;

enum { T_A = 1, T_NS = 2, T_CNAME = 5, T_SOA = 6, T_PTR = 12, T_MX = 15, T_TXT = 16, T_AAAA = 28, T_OPT = 41 };
enum { C_IN = 1 };
enum { SEC_QD = 0, SEC_AN = 1, SEC_NS = 2, SEC_AR = 3 };

// ------------------------------------------------------------------------------------------------ reference: names
struct NameDec {
  bool ok = false;          // lenient reading succeeded
  bool strict = false;      // ... and it is RFC-conformant (meaningful only when ok)
  std::string text;         // labels joined with '.', raw bytes, root = ""
  size_t next = 0;          // offset of the byte after the name in the original stream
  int pointers = 0;         // compression pointers followed
  bool fwd = false;         // some pointer did not point backwards
  const char *why = "";
};

inline NameDec refName(const uint8_t *p, size_t n, size_t at) {
  NameDec r; r.strict = true;
  std::vector<bool> seen;               // pointer positions already followed (loop detection; bounds the work by n/2 jumps)
  size_t pos = at, seg_start = at, wire = 1;
  bool jumped = false, first = true;
  const size_t kTextCap = 1u << 16;
  for (;;) {
    if (pos >= n) { r.why = "name runs past the end of the datagram"; return r; }
    uint8_t b = p[pos];
    if ((b & 0xc0) == 0xc0) {
      if (pos + 1 >= n) { r.why = "compression pointer cut off"; return r; }
      size_t target = ((size_t)(b & 0x3f) << 8) | p[pos + 1];
      if (seen.empty()) seen.assign(n, false);
      if (seen[pos]) { r.why = "compression pointers form a loop"; return r; }
      seen[pos] = true;
      if (!jumped) { r.next = pos + 2; jumped = true; }
      if (target >= n) { r.why = "compression pointer outside the datagram"; return r; }
      if (target >= seg_start) { r.strict = false; r.fwd = true; }   // RFC 1035 4.1.4: "a prior occurance"
      ++r.pointers;
      pos = seg_start = target;
      continue;
    }
    if (b == 0) { if (!jumped) r.next = pos + 1; break; }
    if (b & 0xc0) r.strict = false;                                   // 01 / 10: reserved label types
    size_t len = b;
    if (pos + 1 + len > n) { r.why = "label runs past the end of the datagram"; return r; }
    if (!first) r.text += '.';
    first = false;
    r.text.append((const char *)p + pos + 1, len);
    if (r.text.size() > kTextCap) { r.why = "name longer than 64 KiB"; return r; }
    wire += 1 + len;
    pos += 1 + len;
  }
  if (wire > 255) r.strict = false;                                  // RFC 1035 2.3.4: 255 octets or less
  r.ok = true;
  return r;
}

// ---------------------------------------------------------------------------------------------- reference: message
struct RefQ { std::string name; bool name_strict = false; uint16_t type = 0, klass = 0; };
struct RefRec {
  int sec = 0; size_t at = 0;
  std::string owner; bool owner_strict = false;
  uint16_t type = 0, klass = 0, rdlen = 0; uint32_t ttl = 0; size_t rd_at = 0;
  bool has_addr = false; uint8_t addr[4] = {0, 0, 0, 0};              // type A, RDLENGTH >= 4: the first four RDATA bytes
  bool has_name = false; std::string rname; bool rname_strict = false, rname_fits = false;   // type CNAME
};
struct RefMsg {
  size_t size = 0;
  bool has_flags = false;      // >= 4 bytes: id and flags are in the datagram
  bool has_header = false;     // >= 12 bytes
  uint16_t id = 0, flags = 0, cnt[4] = {0, 0, 0, 0};
  std::vector<RefQ> qs;
  std::vector<RefRec> recs;    // every record the lenient reading located, in order
  bool complete = false;       // lenient reading consumed all four sections
  bool strict = false;         // RFC-conformant as a whole
  std::string why;             // first thing that is wrong (lenient or strict)
  size_t end = 0;              // offset after the last thing read
  int pointers = 0;            // compression pointers seen in located names
  int max_hops = 0;            // most pointers followed for one single name
  bool cut_in_record = false;  // the datagram ends inside a question / record
  bool qr() const { return (flags & 0x8000) != 0; }
  int opcode() const { return (flags >> 11) & 15; }
  int rcode() const { return flags & 15; }
  bool tc() const { return (flags & 0x0200) != 0; }
};

inline uint16_t rd16(const uint8_t *p) { return (uint16_t)(p[0] << 8 | p[1]); }
inline uint32_t rd32(const uint8_t *p) { return (uint32_t)p[0] << 24 | (uint32_t)p[1] << 16 | (uint32_t)p[2] << 8 | p[3]; }

inline RefMsg refParse(const uint8_t *p, size_t n) {
  RefMsg m; m.size = n;
  auto notstrict = [&](const char *w) { if (m.why.empty()) m.why = w; };
  if (n >= 4) { m.has_flags = true; m.id = rd16(p); m.flags = rd16(p + 2); }
  if (n < 12) { m.why = "header incomplete"; m.end = n; return m; }
  m.has_header = true;
  for (int i = 0; i < 4; ++i) m.cnt[i] = rd16(p + 4 + 2 * i);
  bool strict = true;
  size_t pos = 12;
  for (unsigned i = 0; i < m.cnt[0]; ++i) {
    NameDec nd = refName(p, n, pos);
    if (!nd.ok) { m.why = std::string("question: ") + nd.why; m.cut_in_record = true; m.end = pos; return m; }
    if (nd.next + 4 > n) { m.why = "question cut off"; m.cut_in_record = true; m.end = pos; return m; }
    RefQ q; q.name = nd.text; q.name_strict = nd.strict; q.type = rd16(p + nd.next); q.klass = rd16(p + nd.next + 2);
    if (!nd.strict) { strict = false; notstrict("question name not RFC-conformant"); }
    m.pointers += nd.pointers; m.max_hops = std::max(m.max_hops, nd.pointers);
    m.qs.push_back(q);
    pos = nd.next + 4;
  }
  for (int sec = SEC_AN; sec <= SEC_AR; ++sec) {
    for (unsigned i = 0; i < m.cnt[sec]; ++i) {
      NameDec nd = refName(p, n, pos);
      if (!nd.ok) { m.why = std::string("record owner: ") + nd.why; m.cut_in_record = true; m.end = pos; return m; }
      if (nd.next + 10 > n) { m.why = "record cut off in its fixed part"; m.cut_in_record = true; m.end = pos; return m; }
      RefRec r; r.sec = sec; r.at = pos; r.owner = nd.text; r.owner_strict = nd.strict;
      const uint8_t *f = p + nd.next;
      r.type = rd16(f); r.klass = rd16(f + 2); r.ttl = rd32(f + 4); r.rdlen = rd16(f + 8); r.rd_at = nd.next + 10;
      if (r.rd_at + r.rdlen > n) { m.why = "record data cut off"; m.cut_in_record = true; m.end = pos; return m; }
      if (!nd.strict) { strict = false; notstrict("owner name not RFC-conformant"); }
      m.pointers += nd.pointers; m.max_hops = std::max(m.max_hops, nd.pointers);
      if (r.type == T_A) {
        if (r.rdlen >= 4) { r.has_addr = true; memcpy(r.addr, p + r.rd_at, 4); }
        if (r.rdlen != 4) { strict = false; notstrict("A record whose RDLENGTH is not 4"); }
      } else if (r.type == T_CNAME) {
        NameDec rn = refName(p, n, r.rd_at);
        if (rn.ok) {
          r.has_name = true; r.rname = rn.text; r.rname_strict = rn.strict; r.rname_fits = rn.next == r.rd_at + r.rdlen;
          m.pointers += rn.pointers; m.max_hops = std::max(m.max_hops, rn.pointers);
        }
        if (!rn.ok || !rn.strict || !r.rname_fits) { strict = false; notstrict("CNAME data is not exactly one RFC-conformant name"); }
      }
      m.recs.push_back(r);
      pos = r.rd_at + r.rdlen;
    }
  }
  m.end = pos;
  m.complete = true;
  if (pos != n) { strict = false; notstrict("bytes after the last record"); }
  m.strict = strict;
  return m;
}

// What the reference expects DnsRequest to make of an answer section (strict datagrams): A and CNAME records in order.
struct RepA { uint32_t ttl; uint8_t ip[4]; };
struct RepC { uint32_t ttl; std::string name; };
inline bool operator==(const RepA &x, const RepA &y) { return x.ttl == y.ttl && !memcmp(x.ip, y.ip, 4); }
inline bool operator==(const RepC &x, const RepC &y) { return x.ttl == y.ttl && x.name == y.name; }

inline std::string lower(std::string s) { for (auto &c : s) if (c >= 'A' && c <= 'Z') c = (char)(c + 32); return s; }
// "www." and "www" are two spellings of one name (DnsRequest spells a name that ends in a pointer to the root with a dot)
inline std::string undot(std::string s) { if (!s.empty() && s.back() == '.') s.pop_back(); return s; }

inline std::string showBytes(const std::string &s) {
  std::string o; char b[8];
  for (unsigned char c : s) { if (c >= 0x20 && c < 0x7f && c != '\\') o += (char)c; else { snprintf(b, sizeof b, "\\x%02x", c); o += b; } }
  return o;
}
inline std::string showIp(const uint8_t *ip) { char b[32]; snprintf(b, sizeof b, "%u.%u.%u.%u", ip[0], ip[1], ip[2], ip[3]); return b; }
inline std::string hexOf(const uint8_t *p, size_t n, size_t cap = 96) {
  std::string o; char b[4];
  for (size_t i = 0; i < n && i < cap; ++i) { snprintf(b, sizeof b, "%02x", p[i]); o += b; }
  if (n > cap) o += "...";
  return o;
}

// Answer-section view of a strict datagram.
inline void refAnswers(const RefMsg &m, std::vector<RepA> &as, std::vector<RepC> &cs) {
  for (auto &r : m.recs) {
    if (r.sec != SEC_AN) continue;
    if (r.type == T_A && r.has_addr) { RepA a; a.ttl = r.ttl; memcpy(a.ip, r.addr, 4); as.push_back(a); }
    if (r.type == T_CNAME && r.has_name) { RepC c; c.ttl = r.ttl; c.name = r.rname; cs.push_back(c); }
  }
}

// Is this strict datagram a plain, complete answer to (qname, A, IN)?  Only then must the implementation report exactly
// the answer section (a careful client may legitimately ignore replies that do not echo the question, carry TC, use
// another opcode, another class, or answer records that do not belong to the CNAME chain of the question).
inline bool plainAnswerTo(const RefMsg &m, const std::string &qname, const char **why) {
  *why = "";
  if (!m.strict) { *why = "not strict"; return false; }
  if (!m.qr()) { *why = "QR clear"; return false; }
  if (m.opcode() != 0) { *why = "opcode"; return false; }
  if (m.tc()) { *why = "TC set"; return false; }
  if (m.flags & 0x0040) { *why = "Z bit"; return false; }
  if (m.max_hops > 8) { *why = "a name needs more than 8 pointer hops"; return false; }   // a decoder may cap the hops (all real encoders stay far below)
  if (m.qs.size() != 1 || m.qs[0].type != T_A || m.qs[0].klass != C_IN || lower(m.qs[0].name) != lower(qname)) { *why = "question differs"; return false; }
  std::string cur = lower(qname);
  for (auto &r : m.recs) {
    if (r.sec != SEC_AN) continue;
    if ((r.type == T_A || r.type == T_CNAME) && r.klass != C_IN) { *why = "class"; return false; }
    if (lower(r.owner) != cur) { *why = "owner outside the CNAME chain"; return false; }
    if ((r.type == T_A || r.type == T_CNAME) && (r.ttl & 0x80000000u)) { *why = "ttl with the top bit set"; return false; }   // RFC 2181 8: may be read as 0
    if (r.type == T_CNAME) cur = lower(r.rname);
  }
  return true;
}

// Containment: every reported address / name must be locatable by the lenient reading (multiset inclusion).
inline std::string checkContained(const RefMsg &m, const std::vector<RepA> &as, const std::vector<RepC> &cs) {
  std::vector<bool> used(m.recs.size(), false);
  for (auto &a : as) {
    bool found = false;
    for (size_t i = 0; i < m.recs.size() && !found; ++i) {
      auto &r = m.recs[i];
      if (used[i] || r.type != T_A || !r.has_addr || memcmp(r.addr, a.ip, 4) != 0 || (r.ttl != a.ttl && !(r.ttl & 0x80000000u))) continue;
      used[i] = found = true;
    }
    if (!found) {
      bool addr_only = false;
      for (auto &r : m.recs) if (r.type == T_A && r.has_addr && !memcmp(r.addr, a.ip, 4)) addr_only = true;
      return "reported address " + showIp(a.ip) + " (ttl " + std::to_string(a.ttl) + ") " +
             (addr_only ? "carries a ttl that no A record with this address has (or is reported more often than it occurs)"
                        : "is not the RDATA of any A record in the datagram");
    }
  }
  std::fill(used.begin(), used.end(), false);
  for (auto &c : cs) {
    bool found = false;
    for (size_t i = 0; i < m.recs.size() && !found; ++i) {
      auto &r = m.recs[i];
      if (used[i] || r.type != T_CNAME || !r.has_name || undot(r.rname) != undot(c.name) || (r.ttl != c.ttl && !(r.ttl & 0x80000000u))) continue;
      used[i] = found = true;
    }
    if (!found) return "reported cname \"" + showBytes(c.name) + "\" (ttl " + std::to_string(c.ttl) + ") is not the name of any CNAME record in the datagram";
  }
  return "";
}

// ------------------------------------------------------------------------------------------------------ wire builder
struct Wire {
  Bytes b;
  void u8(unsigned v) { b.push_back((uint8_t)v); }
  void u16(unsigned v) { u8(v >> 8); u8(v); }
  void u32(uint32_t v) { u16(v >> 16); u16(v & 0xffff); }
  void put16(size_t at, unsigned v) { if (at + 1 < b.size()) { b[at] = (uint8_t)(v >> 8); b[at + 1] = (uint8_t)v; } }
  void header(uint16_t id, uint16_t flags, unsigned qd, unsigned an, unsigned ns, unsigned ar) { u16(id); u16(flags); u16(qd); u16(an); u16(ns); u16(ar); }
  void label(const std::string &l) { u8((unsigned)l.size()); b.insert(b.end(), l.begin(), l.end()); }
  // dotted text -> labels (no terminator)
  void labels(const std::string &dotted) {
    size_t i = 0;
    while (i < dotted.size()) { size_t j = dotted.find('.', i); if (j == std::string::npos) j = dotted.size(); if (j > i) label(dotted.substr(i, j - i)); i = j + 1; }
  }
  void name(const std::string &dotted) { labels(dotted); u8(0); }
  void ptr(unsigned off) { u8(0xc0 | ((off >> 8) & 0x3f)); u8(off & 0xff); }
  void rrFixed(unsigned type, unsigned klass, uint32_t ttl, unsigned rdlen) { u16(type); u16(klass); u32(ttl); u16(rdlen); }
};

}  // namespace c15
