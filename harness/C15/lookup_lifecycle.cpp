// C15 (b) — every lookup's callback is invoked exactly once (first acceptable reply / error status / timeout) unless the
// lookup was cancelled (then never); datagrams that match no outstanding lookup are ignored; isRunning() agrees.
//
// Sub `lookup_lifecycle` (rapidcheck).  One real DnsRequest on a real Loop under the virtual clock (vloop, hook H1) and
// REAL UDP over loopback: the harness binds 1..3 "servers" to 127.A.B.{1,2,3}:53 (A,B from the pid; DnsRequest always
// sends to port 53), reads the real queries there (and thereby learns the client's address), and answers from those
// sockets.  Only public API is used (request / cancel / isRunning).
//
// ops:  cfg nservers | request domain then | cancel sel mode | reply server lookup kind variant | dup k | advance ms
//       (argument tables in NOTES.md)
//
// Synchronisation with the kernel (no oracle depends on it): the client socket is found among the process's fds by the
// source port of the first query; SO_MEMINFO on it tells when a datagram has arrived / has been read.  One datagram is
// in flight at a time; after sending it the loop runs passes until the queue is empty again (bounded).
//
// Oracle (adopted rules are spelled out in NOTES.md):
//   * a callback never runs twice, never for a cancelled lookup;
//   * a callback that runs while datagram d is being delivered must be the one d calls for: d carries the id of that
//     lookup, has QR set, the lookup was outstanding; RCODE 0 -> kSuccess with exactly the reply's A/CNAME lists,
//     3 -> kDomainError, 1 -> kFail, any other RCODE is a server failure: the lookup completes with kAllDnsFail when
//     EVERY configured server has sent a server-failure reply for it, and not before;
//   * a datagram that calls for a completion completes the lookup during its delivery; any other datagram (QR clear,
//     unknown id, id of a completed or cancelled lookup, duplicate) causes no callback;
//   * a callback outside any delivery is the timeout: kTimeout, later than 4 s after request() and in the first loop
//     pass at or after 5 s (5 checks, 1 s apart; the clock moves in steps <= 1 s followed by idle passes);
//   * cancel(id) returns true iff the lookup was outstanding; isRunning(id) == outstanding after every step;
//   * after the final drain (clock 6 s beyond the last request) every lookup has completed exactly once or was cancelled.
#define VERIF_MAIN
#include "../common/verif.h"
#include "../common/vloop.h"
#include "dnsref.h"
#include <tbox/event/loop.h>
#include <tbox/network/dns_request.h>
#include <deque>
#include <memory>
#include <set>
#include <arpa/inet.h>
#include <netinet/in.h>
#include <sys/socket.h>
#include <sched.h>
#include <errno.h>

using namespace verif;
using namespace c15;
using tbox::network::DnsRequest;
using tbox::network::DomainName;
using tbox::network::IPAddress;

namespace {

// Adopted rule for server-failure replies (NOTES.md): kAllDnsFail needs a failure reply from every configured server;
// a duplicate from one server does not stand in for another server.  false = count datagrams (the pre-fix behaviour).
static const bool kServfailPerServer = true;

enum { CFG, REQUEST, CANCEL, REPLY, DUP, ADVANCE, NOPS };
enum { K_VALID, K_NXDOMAIN, K_SERVFAIL, K_FORMERR, K_REFUSED, K_NOTREPLY, K_UNKNOWNID, K_OVERSIZED, NKINDS };
const char *const kKindName[] = {"valid", "NXDOMAIN", "SERVFAIL", "FORMERR", "REFUSED/NOTIMP", "QR-clear", "unknown-id", "oversized"};
// UdpSocket hands DnsRequest at most this many bytes of a datagram (RECV_BUFF_SIZE in udp_socket.cpp; plain recvfrom() cuts the rest off)
const size_t kRecvBuf = 4096;
const size_t kOverSizes[] = {4096, 4097, 4098, 4100, 4112, 4200, 5000, 6000, 8192, 9000, 4095, 4090};
const char *const kDomains[] = {"www.example.com", "a.b", "localhost", "mail.example.org", "x.y.z.example.net"};
const int kNDomains = 5, kMaxLookups = 32, kMaxDatagrams = 60;
// What a completion callback does (reply path and timeout path alike), chosen per lookup by `request _ then`:
enum { A_REQ, A_CANCEL_SELF, A_CANCEL_OTHER };
const std::vector<int> kScripts[] = {
  /*0*/ {}, /*1*/ {A_REQ}, /*2*/ {A_CANCEL_OTHER}, /*3*/ {A_CANCEL_SELF}, /*4*/ {A_CANCEL_SELF, A_REQ}, /*5*/ {A_REQ, A_CANCEL_SELF},
  /*6*/ {A_CANCEL_SELF, A_REQ, A_REQ}, /*7*/ {A_REQ, A_REQ}, /*8*/ {A_CANCEL_OTHER, A_CANCEL_SELF, A_REQ}, /*9*/ {A_REQ, A_CANCEL_SELF, A_REQ},
  /*10*/ {A_CANCEL_SELF, A_CANCEL_OTHER}, /*11*/ {A_CANCEL_SELF, A_CANCEL_SELF},
};
const int kNScripts = 12;
const int kNestedThen[kNScripts] = {0, 0, 0, 0, 3, 3, 4, 1, 3, 5, 0, 0};   // script of a lookup started by a callback running script i (chains end after 3 levels)
// server-list modes (`cfg n mode`): 0 n loopback servers; 1 only 255.255.255.255 (sendto on the non-broadcast socket fails with EACCES for every server);
// 2 / 3 the loopback servers plus 255.255.255.255 first / last (some sends fail); 4 no server configured
enum { M_NORMAL, M_ALLFAIL, M_MIXED_FIRST, M_MIXED_LAST, M_EMPTY, NMODES };
const char *const kUnsendable = "255.255.255.255";
inline std::string longName() { std::string n; while (n.size() < 70000) n += "abcdefghijklmnopqrstuvwxyz0123456789."; return n + "test"; }   // query > 64 KB: sendto fails with EMSGSIZE
typedef DnsRequest::Result::Status S;

const char *statusName(S s) {
  switch (s) { case S::kSuccess: return "kSuccess"; case S::kDomainError: return "kDomainError"; case S::kAllDnsFail: return "kAllDnsFail";
               case S::kTimeout: return "kTimeout"; case S::kFail: return "kFail"; }
  return "?";
}

struct Lookup {
  uint16_t id = 0; int domain = 0, then = 0;
  int64_t t_issue = 0;
  bool cancelled = false; int done = 0; bool nested = false;
  std::set<int> failed_servers; int failure_datagrams = 0;
  std::set<int> replied_servers;
  bool timed_out = false;
  bool started = true;         // request() returned an id (0 = "no lookup started": no callback may ever come, nothing may be outstanding)
  bool longname = false;       // 70 KB name: the query cannot be sent to anybody
  uint16_t would_be = 0;       // not started: the id the lookup would have got
  int depth = 0;
  bool cut_ignored = false;    // a reply cut off by the receive buffer was (rightly) ignored for this lookup
};
struct Datagram {
  int server = 0, lookup = -1, kind = 0; Bytes bytes; uint16_t id = 0;
  // expectation computed when it is delivered
  bool exp_optional = false;   // the datagram may complete the lookup (then exactly as predicted) or be ignored
  bool exp_complete = false; S exp_status = S::kSuccess; std::vector<RepA> exp_a; std::vector<RepC> exp_c;
  bool observed = false;
};

int rmemOf(int fd) { uint32_t mi[16]; socklen_t l = sizeof mi; memset(mi, 0, sizeof mi); if (getsockopt(fd, SOL_SOCKET, SO_MEMINFO, mi, &l) != 0) return -1; return (int)mi[0]; }

struct World {
  vloop::Clock clk;
  std::unique_ptr<tbox::event::Loop> loop;
  std::unique_ptr<DnsRequest> dns;
  int nsrv = 2;                // harness servers on loopback
  int nconf = 2, mode = M_NORMAL;   // servers configured in the DnsRequest
  uint16_t last_id = 0;
  int sfd[3] = {-1, -1, -1};
  sockaddr_in saddr[3];
  bool have_client = false; sockaddr_in client; int cfd = -1;
  std::deque<Lookup> lk;
  std::deque<Datagram> sent;
  Datagram *cur = nullptr;
  int64_t prev_now = 0;
  std::string err;
  // statistics
  bool st_timeout = false, st_cancel = false, st_cancel_stale = false, st_dup = false, st_multi = false, st_stale = false, st_unknown = false, st_notreply = false,
       st_allfail = false, st_partfail = false, st_nested = false, st_success = false, st_domainerr = false, st_fail = false, st_queued_while_idle = false, st_dupfail = false,
       st_cancel_in_cb = false, st_over = false, st_over_cut = false, st_over_whole = false, st_over_then_done = false,
       st_cancel_self = false, st_cancel_self_then_req = false, st_req_then_cancel_self = false, st_self_timeout = false, st_self_reply = false, st_chain3 = false,
       st_not_started = false, st_unsendable_all = false, st_unsendable_some = false, st_longname = false;
  int unconfirmed = 0;

  World() : clk(1000000) {}
  ~World() { dns.reset(); loop.reset(); for (int i = 0; i < 3; ++i) if (sfd[i] >= 0) ::close(sfd[i]); }

  void fail(const std::string &m) { if (err.empty()) { err = m; fprintf(stderr, "VERIF-FAIL-DIAG lookup_lifecycle: %s\n", m.c_str()); } }
  int64_t now() const { return (int64_t)clk.now; }
  bool outstanding(const Lookup &l) const { return l.started && !l.cancelled && l.done == 0; }
  bool anyOutstanding() const { for (auto &l : lk) if (outstanding(l)) return true; return false; }
  std::string nameOf(int j) const { return "lookup #" + std::to_string(j) + " (id " + std::to_string(lk[(size_t)j].id) + ", \"" + (lk[(size_t)j].longname ? "<70 KB name>" : kDomains[lk[(size_t)j].domain]) + "\")"; }

  // ------------------------------------------------------------------------------------------------- set-up
  std::string setup(int n, int m) {
    mode = m;
    nsrv = (m == M_ALLFAIL || m == M_EMPTY) ? 0 : n;
    unsigned pid = (unsigned)getpid();
    for (int attempt = 0; attempt < 40; ++attempt) {
      unsigned A = 1 + (pid >> 8) % 250, B = (pid + (unsigned)attempt * 7) & 0xff;
      bool ok = true;
      for (int k = 0; k < nsrv && ok; ++k) {
        sfd[k] = ::socket(AF_INET, SOCK_DGRAM | SOCK_NONBLOCK | SOCK_CLOEXEC, 0);
        memset(&saddr[k], 0, sizeof saddr[k]);
        saddr[k].sin_family = AF_INET; saddr[k].sin_port = htons(53);
        saddr[k].sin_addr.s_addr = htonl(0x7f000000u | A << 16 | B << 8 | (unsigned)(k + 1));
        if (sfd[k] < 0 || ::bind(sfd[k], (sockaddr *)&saddr[k], sizeof saddr[k]) != 0) ok = false;
      }
      if (ok) break;
      for (int k = 0; k < 3; ++k) if (sfd[k] >= 0) { ::close(sfd[k]); sfd[k] = -1; }
      if (attempt == 39) return std::string("harness environment: cannot bind loopback servers to port 53: ") + strerror(errno);
    }
    loop.reset(tbox::event::Loop::New());
    DnsRequest::IPAddressVec ips;
    if (mode == M_MIXED_FIRST) ips.push_back(IPAddress::FromString(kUnsendable));
    for (int k = 0; k < nsrv; ++k) ips.push_back(IPAddress(saddr[k].sin_addr.s_addr));
    if (mode == M_MIXED_LAST) ips.push_back(IPAddress::FromString(kUnsendable));
    if (mode == M_ALLFAIL) for (int k = 0; k < 1 + n % 2; ++k) ips.push_back(IPAddress::FromString(kUnsendable));
    nconf = (int)ips.size();
    st_unsendable_all = mode == M_ALLFAIL; st_unsendable_some = mode == M_MIXED_FIRST || mode == M_MIXED_LAST;
    dns.reset(new DnsRequest(loop.get(), ips));
    return "";
  }

  void passes(int n) { vloop::passes(loop.get(), n); }

  void findClientFd() {
    for (int fd = 3; fd < 256 && cfd < 0; ++fd) {
      if (fd == sfd[0] || fd == sfd[1] || fd == sfd[2]) continue;
      int type = 0; socklen_t tl = sizeof type;
      if (getsockopt(fd, SOL_SOCKET, SO_TYPE, &type, &tl) != 0 || type != SOCK_DGRAM) continue;
      sockaddr_in a; socklen_t al = sizeof a; memset(&a, 0, sizeof a);
      if (getsockname(fd, (sockaddr *)&a, &al) != 0 || a.sin_family != AF_INET) continue;
      if (a.sin_port == client.sin_port) cfd = fd;
    }
  }

  // ---------------------------------------------------------------------------------------------- request side
  void onDone(int j, const DnsRequest::Result &r) {
    Lookup &L = lk[(size_t)j];
    std::string got = std::string(statusName(r.status)) + " with " + std::to_string(r.a_vec.size()) + " address(es), " + std::to_string(r.cname_vec.size()) + " cname(s)";
    if (!L.started) { L.done++; fail("callback invoked (" + got + ") for " + nameOf(j) + ", which request() reported as not started (it returned 0, the caller has no id to cancel)"); return; }
    if (L.done++ > 0) { fail("callback of " + nameOf(j) + " invoked a second time (" + got + ")"); return; }
    if (L.cancelled) { fail("callback of " + nameOf(j) + " invoked (" + got + ") although the lookup had been cancelled"); return; }
    if (cur) {
      Datagram &d = *cur;
      std::string what = std::string(kKindName[d.kind]) + " datagram from server " + std::to_string(d.server) + " carrying id " + std::to_string(d.id);
      if (d.exp_optional && d.lookup == j) d.exp_complete = true;
      if (!d.exp_complete || d.lookup != j) {
        fail(nameOf(j) + " completed (" + got + ") during the delivery of a " + what + ", which must not complete it" +
             (d.bytes.size() > kRecvBuf ? " (the datagram has " + std::to_string(d.bytes.size()) + " bytes; the " + std::to_string(kRecvBuf) + " bytes the socket's receive buffer holds end inside a record, i.e. what was received is a cut-off reply)" : std::string()) +
             (d.kind == K_SERVFAIL || d.kind == K_REFUSED ? " (server-failure replies so far from " + std::to_string(L.failed_servers.size()) + " of " + std::to_string(nconf) + " servers)" : ""));
      } else {
        d.observed = true;
        if (L.cut_ignored && d.kind == K_VALID) st_over_then_done = true;
        if (r.status != d.exp_status) fail(nameOf(j) + " completed with " + got + " by a " + what + ", expected " + statusName(d.exp_status));
        else if (d.exp_status == S::kSuccess) {
          bool same = r.a_vec.size() == d.exp_a.size() && r.cname_vec.size() == d.exp_c.size();
          for (size_t i = 0; same && i < d.exp_a.size(); ++i) { uint32_t v = r.a_vec[i].ip; same = r.a_vec[i].ttl == d.exp_a[i].ttl && !memcmp(&v, d.exp_a[i].ip, 4); }
          for (size_t i = 0; same && i < d.exp_c.size(); ++i) same = r.cname_vec[i].ttl == d.exp_c[i].ttl && undot(r.cname_vec[i].cname.toString()) == undot(d.exp_c[i].name);
          if (!same) {
            std::string gs, es;
            for (auto &a : r.a_vec) gs += " A " + a.ip.toString() + "/" + std::to_string(a.ttl);
            for (auto &c : r.cname_vec) gs += " CNAME " + showBytes(c.cname.toString()) + "/" + std::to_string(c.ttl);
            for (auto &a : d.exp_a) es += " A " + showIp(a.ip) + "/" + std::to_string(a.ttl);
            for (auto &c : d.exp_c) es += " CNAME " + showBytes(c.name) + "/" + std::to_string(c.ttl);
            fail(nameOf(j) + " completed by the " + what + " with" + gs + ", but that reply holds" + es);
          }
        }
      }
    } else {
      st_timeout = true; L.timed_out = true;
      int64_t waited = now() - L.t_issue;
      if (r.status != S::kTimeout) fail(nameOf(j) + " completed with " + got + " although no datagram was being delivered (only a timeout can do that)");
      else if (waited <= 4000) fail(nameOf(j) + " timed out " + std::to_string(waited) + " ms after request(); the documented timeout is 5 checks 1 s apart (more than 4 s)");
      else if (prev_now - L.t_issue >= 5000) fail(nameOf(j) + " timed out " + std::to_string(waited) + " ms after request(), but was already due one clock step earlier (" + std::to_string(prev_now - L.t_issue) + " ms)");
    }
    // scripted follow-up actions from inside the callback (the closure of the callback is not touched after this point: cancelling the
    // lookup that is being completed destroys the std::function that is executing)
    const bool in_delivery = cur != nullptr;
    int self_cancels = 0, reqs = 0; bool req_after_self = false, self_after_req = false;
    for (int act : kScripts[L.then]) {
      if (!err.empty()) break;
      if (act == A_REQ) {
        if ((int)lk.size() >= kMaxLookups) continue;
        st_nested = true; ++reqs; if (self_cancels) req_after_self = true;
        if (L.depth >= 1) st_chain3 = true;
        issue((j + 1 + reqs - 1) % kNDomains, kNestedThen[L.then], true, false, L.depth + 1);
      } else if (act == A_CANCEL_SELF) {
        // Not fixed by the statement what the first call returns (the lookup is just being completed); a second call finds nothing.
        bool ok = dns->cancel(L.id);
        if (self_cancels > 0 && ok) fail("the second cancel() of " + nameOf(j) + " from inside its own callback returned true");
        ++self_cancels; st_cancel_self = true; if (reqs) self_after_req = true;
        (in_delivery ? st_self_reply : st_self_timeout) = true;
      } else {
        for (size_t k = 0; k < lk.size(); ++k) if ((int)k != j && outstanding(lk[k])) {
          st_cancel_in_cb = true;
          bool ok = dns->cancel(lk[k].id);
          lk[k].cancelled = true;
          if (!ok) fail("cancel() of outstanding " + nameOf((int)k) + " (from inside another lookup's callback) returned false");
          break;
        }
      }
    }
    if (req_after_self) st_cancel_self_then_req = true;
    if (self_after_req) st_req_then_cancel_self = true;
  }

  void issue(int domain, int then, bool nested, bool longname, int depth) {
    int j = (int)lk.size();
    lk.push_back(Lookup());
    lk.back().domain = domain; lk.back().then = then; lk.back().t_issue = now(); lk.back().nested = nested; lk.back().longname = longname; lk.back().depth = depth;
    if (longname) st_longname = true;
    // the lambda copies its captures into the call before anything can destroy the closure (see onDone)
    uint16_t id = dns->request(DomainName(longname ? longName() : std::string(kDomains[domain])), [this, j](const DnsRequest::Result &r) { onDone(j, r); });
    lk[(size_t)j].id = id;
    if (id == 0) {
      // "no lookup started": allowed when nothing is configured or the query could not be sent to anybody; then nothing may exist
      Lookup &L = lk[(size_t)j];
      L.started = false; L.would_be = (uint16_t)(last_id + 1); st_not_started = true;
      if (nsrv > 0 && !longname) { fail("request() returned 0 although the query can be sent to " + std::to_string(nsrv) + " configured server(s)"); return; }
      if (dns->isRunning(L.would_be)) fail("request() returned 0 (no lookup started), yet isRunning(" + std::to_string(L.would_be) + "), the id it would have had, is true");
      return;
    }
    if (id > last_id) last_id = id;
    for (int k = 0; k < j; ++k) if (lk[(size_t)k].id == id) fail("request() returned id " + std::to_string(id) + " twice");
    // every reachable server must have got the query (a 70 KB query reaches nobody)
    for (int s = 0; s < nsrv && !longname; ++s) {
      uint8_t buf[600]; sockaddr_in from; socklen_t fl = sizeof from; ssize_t n = -1;
      for (int spin = 0; spin < 20000; ++spin) {
        n = ::recvfrom(sfd[s], buf, sizeof buf, 0, (sockaddr *)&from, &fl);
        if (n >= 0 || (errno != EAGAIN && errno != EWOULDBLOCK)) break;
        if (spin > 50) usleep(20); else sched_yield();
      }
      if (n < 0) { fail("server " + std::to_string(s) + " did not receive the query of " + nameOf(j)); return; }
      RefMsg q = refParse(buf, (size_t)n);
      if (!q.has_header || q.id != id) { fail("the query server " + std::to_string(s) + " received carries id " + std::to_string(q.id) + ", request() returned " + std::to_string(id)); return; }
      if (!have_client) { client = from; have_client = true; findClientFd(); }
    }
  }

  // ------------------------------------------------------------------------------------------------ reply side
  // Datagrams around and beyond the receive buffer of UdpSocket, with DNS content that extends past byte 4096.
  //   shape 0: one TXT answer whose RDATA ends exactly at byte S          shape 1: two A answers, then that TXT record
  //   shape 2: a TXT answer up to byte 4090, then A answers (the first one straddles byte 4096) up to ~S
  //   shape 3: a complete two-address reply followed by padding up to S   shape 4: A answers only, up to S
  // S from kOverSizes (4090, 4095 and 4096 are the controls that still fit).
  Bytes buildOversized(uint16_t id, int variant, int server, int domain) {
    const int shape = variant % 5; const size_t S = kOverSizes[(variant / 5) % 12];
    Wire w; unsigned an = 0;
    w.header(id, 0x8180, 1, 0, 0, 0);
    w.name(kDomains[domain]); w.u16(T_A); w.u16(C_IN);
    auto addA = [&](unsigned i) { w.ptr(12); w.rrFixed(T_A, C_IN, 60 + (i & 0xff), 4); w.u8(10); w.u8(1 + (unsigned)server); w.u8(200 + (unsigned)shape); w.u8(1 + i % 250); ++an; };
    auto addTxtTo = [&](size_t end) {
      if (end < w.b.size() + 13) end = w.b.size() + 13;
      w.ptr(12); w.rrFixed(T_TXT, C_IN, 60, (unsigned)(end - (w.b.size() + 10)));
      while (w.b.size() < end) { size_t n = std::min<size_t>(end - w.b.size() - 1, 255); w.u8((unsigned)n); for (size_t i = 0; i < n; ++i) w.u8('x'); }
      ++an;
    };
    switch (shape) {
      case 0: addTxtTo(S); break;
      case 1: addA(0); addA(1); addTxtTo(S); break;
      case 2: addTxtTo(4090); for (unsigned i = 0; w.b.size() + 16 <= std::max<size_t>(S, 4122); ++i) addA(i); break;
      case 3: addA(0); addA(1); while (w.b.size() < S) w.u8('p'); break;
      default: for (unsigned i = 0; w.b.size() + 16 <= S; ++i) addA(i); break;
    }
    w.put16(6, an);
    return w.b;
  }

  Bytes buildReply(uint16_t id, int kind, int variant, int server, int domain) {
    if (kind == K_OVERSIZED) return buildOversized(id, variant, server, domain);
    Wire w;
    const std::string qn = kDomains[domain];
    unsigned rcode = kind == K_NXDOMAIN ? 3 : kind == K_SERVFAIL ? 2 : kind == K_FORMERR ? 1 : kind == K_REFUSED ? ((variant & 1) ? 5 : 4) : 0;
    unsigned flags = (kind == K_NOTREPLY ? 0x0100u : 0x8180u) | rcode;
    bool withdata = rcode == 0;
    int ncname = withdata ? variant % 3 : 0, naddr = withdata ? (variant / 3) % 4 : 0; bool compress = ((variant / 12) & 1) != 0;
    w.header(id, (uint16_t)flags, 1, (unsigned)(ncname + naddr), 0, 0);
    w.name(qn); w.u16(T_A); w.u16(C_IN);
    size_t owner_at = 12;
    std::string owner = qn;
    for (int i = 0; i < ncname; ++i) {
      if (compress) w.ptr((unsigned)owner_at); else w.name(owner);
      size_t fixed = w.b.size(); w.rrFixed(T_CNAME, C_IN, 100 + (uint32_t)(server * 10 + i), 0);
      size_t rd = w.b.size();
      std::string target = std::string(i ? "edge" : "cdn") + std::to_string(server) + "." + qn;
      if (compress) { w.label(std::string(i ? "edge" : "cdn") + std::to_string(server)); w.ptr(12); } else w.name(target);
      w.put16(fixed + 8, (unsigned)(w.b.size() - rd));
      owner_at = rd; owner = target;
    }
    for (int i = 0; i < naddr; ++i) {
      if (compress) w.ptr((unsigned)owner_at); else w.name(owner);
      w.rrFixed(T_A, C_IN, 60 + (uint32_t)i, 4);
      w.u8(10); w.u8(1 + (unsigned)server); w.u8((unsigned)variant & 0x7f); w.u8(1 + (unsigned)i);
    }
    return w.b;
  }

  void predict(Datagram &d) {
    d.exp_complete = false;
    d.exp_optional = false;
    const size_t seen = std::min(d.bytes.size(), kRecvBuf);       // what UdpSocket's receive buffer holds of it
    RefMsg m = refParse(d.bytes.data(), seen);
    if (d.bytes.size() > kRecvBuf) st_over = true;
    int j = -1;
    for (size_t k = 0; k < lk.size(); ++k) if (lk[k].id == m.id) j = (int)k;
    d.lookup = j;
    if (j < 0) { st_unknown = true; return; }
    Lookup &L = lk[(size_t)j];
    if (!outstanding(L)) { st_stale = true; return; }
    if (!m.qr()) { st_notreply = true; return; }
    L.replied_servers.insert(d.server);
    if (L.replied_servers.size() >= 2) st_multi = true;
    int rc = m.rcode();
    if (rc == 0 && !m.complete) {          // cut off inside a question / record (only oversized datagrams): a malformed reply, ignored
      st_over_cut = true; L.cut_ignored = true;
    } else if (rc == 0 && m.end != seen) { // a complete reply followed by other bytes: may be taken or dropped, but only with its own data
      d.exp_optional = true; d.exp_status = S::kSuccess; d.exp_a.clear(); d.exp_c.clear(); refAnswers(m, d.exp_a, d.exp_c); st_over_whole = true;
    } else if (rc == 0) { d.exp_complete = true; d.exp_status = S::kSuccess; d.exp_a.clear(); d.exp_c.clear(); refAnswers(m, d.exp_a, d.exp_c); st_success = true; }
    else if (rc == 3) { d.exp_complete = true; d.exp_status = S::kDomainError; st_domainerr = true; }
    else if (rc == 1) { d.exp_complete = true; d.exp_status = S::kFail; st_fail = true; }
    else {
      if (L.failed_servers.count(d.server)) st_dupfail = true;
      L.failed_servers.insert(d.server); L.failure_datagrams++;
      size_t have = kServfailPerServer ? L.failed_servers.size() : (size_t)L.failure_datagrams;
      if (have >= (size_t)nconf) { d.exp_complete = true; d.exp_status = S::kAllDnsFail; st_allfail = true; } else st_partfail = true;
    }
  }

  void deliver(Datagram d) {
    if (!have_client || (int)sent.size() >= kMaxDatagrams) return;
    sent.push_back(std::move(d));
    Datagram &D = sent.back();
    bool enabled = anyOutstanding();           // DnsRequest reads its socket only while a lookup is outstanding
    if (enabled) predict(D); else { st_queued_while_idle = true; D.exp_complete = false; D.exp_optional = false; RefMsg m = refParse(D.bytes.data(), std::min(D.bytes.size(), kRecvBuf)); D.lookup = -1; for (size_t k = 0; k < lk.size(); ++k) if (lk[k].id == m.id) D.lookup = (int)k; }
    int before = cfd >= 0 ? rmemOf(cfd) : -1;
    ssize_t n = ::sendto(sfd[D.server], D.bytes.data(), D.bytes.size(), 0, (sockaddr *)&client, sizeof client);
    if (n != (ssize_t)D.bytes.size()) { fail(std::string("harness environment: sendto failed: ") + strerror(errno)); return; }
    if (cfd >= 0) {
      bool arrived = false;
      for (int spin = 0; spin < 20000 && !arrived; ++spin) { arrived = rmemOf(cfd) > before; if (!arrived) { if (spin > 50) usleep(20); else sched_yield(); } }
      if (!arrived) ++unconfirmed;
    }
    cur = &D;
    int maxp = 8 + 2 * (int)sent.size();
    for (int p = 0; p < maxp; ++p) {
      passes(1);
      if (p >= 1 && (cfd < 0 ? p >= 6 : rmemOf(cfd) == 0)) break;
      if (!anyOutstanding() && p >= 2) break;          // socket disabled again: the rest stays queued
    }
    passes(1);
    cur = nullptr;
    if (D.exp_complete && !D.observed)
      fail(std::string("a ") + kKindName[D.kind] + " reply from server " + std::to_string(D.server) + " for outstanding " + nameOf(D.lookup) + " did not complete it" +
           (D.exp_status == S::kAllDnsFail ? " (every one of the " + std::to_string(nconf) + " servers has now reported a failure)" : ""));
  }

  void checkRunning(const char *after) {
    if (!err.empty()) return;
    for (size_t k = 0; k < lk.size(); ++k) {
      bool r = dns->isRunning(lk[k].id), o = outstanding(lk[k]);
      if (r != o) { fail(std::string("after ") + after + ": isRunning() of " + nameOf((int)k) + " is " + (r ? "true" : "false") + ", but the lookup is " + (o ? "outstanding" : lk[k].cancelled ? "cancelled" : "completed")); return; }
    }
  }

  void advance(int64_t ms) {
    while (ms > 0 && err.empty()) {
      int64_t step = std::min<int64_t>(ms, 1000);
      prev_now = now();
      clk.now += (uint64_t)step; ms -= step;
      passes(3);
      for (size_t k = 0; k < lk.size(); ++k)
        if (outstanding(lk[k]) && now() - lk[k].t_issue >= 5000) { fail(nameOf((int)k) + " is still outstanding " + std::to_string(now() - lk[k].t_issue) + " ms after request() (no reply completed it; the timeout is 5 s)"); return; }
    }
  }
};

std::string run(const Scenario &s, CaseInfo &info) {
  World W;
  int nsrv = 2;
  size_t first = 0;
  int mode = M_NORMAL;
  if (!s.ops.empty() && s.ops[0].code == CFG) { nsrv = (int)s.ops[0].in(0, 1, 3); mode = (int)s.ops[0].in(1, 0, NMODES - 1); first = 1; }
  std::string e = W.setup(nsrv, mode);
  if (!e.empty()) return e;
  W.prev_now = W.now();
  for (size_t i = first; i < s.ops.size() && W.err.empty(); ++i) {
    const Op &op = s.ops[i];
    const char *what = "?";
    switch (op.code) {
      case REQUEST: what = "request";
        if ((int)W.lk.size() < kMaxLookups) W.issue((int)op.in(0, 0, kNDomains - 1), (int)op.in(1, 0, kNScripts - 1), false, op.in(2, 0, 1) == 1, 0);
        W.passes(2);
        break;
      case CANCEL: { what = "cancel";
        if (op.in(1, 0, 3) == 3 || W.lk.empty()) {          // an id that was never issued
          uint16_t id = (uint16_t)(W.lk.size() + 1000 + (size_t)op.in(0, 0, 50));
          if (W.dns->cancel(id)) W.fail("cancel() of id " + std::to_string(id) + ", which was never issued, returned true");
        } else {
          size_t j = W.lk.size() - 1 - (size_t)op.in(0, 0, (int64_t)W.lk.size() - 1);
          Lookup &L = W.lk[j];
          bool was = W.outstanding(L);
          bool ok = W.dns->cancel(L.id);
          if (was) { L.cancelled = true; W.st_cancel = true; } else W.st_cancel_stale = true;
          if (ok != was) W.fail(std::string("cancel() of ") + (was ? "outstanding " : L.cancelled ? "already cancelled " : "already completed ") + W.nameOf((int)j) + " returned " + (ok ? "true" : "false"));
        }
        W.passes(2);
        break; }
      case REPLY: { what = "reply";
        if (W.lk.empty() || W.nsrv == 0) break;
        Datagram d; d.server = (int)op.in(0, 0, W.nsrv - 1); d.kind = (int)op.in(2, 0, NKINDS - 1);
        size_t j = W.lk.size() - 1 - (size_t)op.in(1, 0, (int64_t)W.lk.size() - 1);
        int variant = (int)op.in(3, 0, 59);
        uint16_t id = W.lk[j].started ? W.lk[j].id : W.lk[j].would_be;   // not started: the id it would have had must be nobody's
        if (d.kind == K_UNKNOWNID) { static const uint16_t odd[] = {0, 0xffff, 0xaaaa}; id = variant % 4 == 3 ? (uint16_t)(W.lk.size() + 1000) : odd[variant % 4]; }
        d.id = id;
        d.bytes = W.buildReply(id, d.kind == K_UNKNOWNID ? K_VALID : d.kind, variant, d.server, W.lk[j].domain);
        W.deliver(std::move(d));
        break; }
      case DUP: { what = "duplicate";
        if (W.sent.empty()) break;
        Datagram d = W.sent[W.sent.size() - 1 - (size_t)op.in(0, 0, (int64_t)W.sent.size() - 1)];
        d.observed = false; W.st_dup = true;
        W.deliver(std::move(d));
        break; }
      case ADVANCE: what = "advance"; W.advance(op.in(0, 0, 6000)); break;
      default: continue;
    }
    W.checkRunning(what);
  }
  // final drain: well past every deadline
  for (int round = 0; round < 5 && W.err.empty() && (round == 0 || W.anyOutstanding()); ++round) W.advance(6000);   // a timeout callback may issue one more lookup
  W.checkRunning("the final drain");
  if (W.err.empty())
    for (size_t k = 0; k < W.lk.size(); ++k)
      if (W.lk[k].started && !W.lk[k].cancelled && W.lk[k].done != 1) { W.fail("after the final drain " + W.nameOf((int)k) + " has completed " + std::to_string(W.lk[k].done) + " times"); break; }
  if (!W.err.empty()) return W.err;
  info.cls_if(W.st_timeout, "timeout"); info.cls_if(W.st_cancel, "cancel_outstanding"); info.cls_if(W.st_cancel_stale, "cancel_completed");
  info.cls_if(W.st_cancel_in_cb, "cancel_inside_callback"); info.cls_if(W.st_nested, "request_inside_callback");
  info.cls_if(W.st_dup, "duplicate_datagram"); info.cls_if(W.st_multi, "replies_from_2+_servers"); info.cls_if(W.st_stale, "late_reply_ignored");
  info.cls_if(W.st_unknown, "unknown_id"); info.cls_if(W.st_notreply, "qr_clear"); info.cls_if(W.st_allfail, "all_servers_failed");
  info.cls_if(W.st_partfail, "some_servers_failed"); info.cls_if(W.st_dupfail, "duplicate_failure_from_one_server");
  info.cls_if(W.st_success, "success"); info.cls_if(W.st_domainerr, "nxdomain"); info.cls_if(W.st_fail, "formerr");
  info.cls_if(W.st_queued_while_idle, "datagram_while_idle");
  info.cls_if(W.st_cancel_self, "callback_cancels_own_lookup"); info.cls_if(W.st_self_reply, "own_cancel_on_reply_path"); info.cls_if(W.st_self_timeout, "own_cancel_on_timeout_path");
  info.cls_if(W.st_cancel_self_then_req, "own_cancel_then_request"); info.cls_if(W.st_req_then_cancel_self, "request_then_own_cancel"); info.cls_if(W.st_chain3, "callback_chain_3_deep");
  info.cls_if(W.st_unsendable_all, "all_servers_unsendable"); info.cls_if(W.st_unsendable_some, "some_servers_unsendable"); info.cls_if(W.st_longname, "query_too_long_to_send");
  info.cls_if(W.st_not_started, "request_returned_0");
  info.cls_if(W.st_over, "oversized_datagram"); info.cls_if(W.st_over_cut, "oversized_cut_in_record_ignored"); info.cls_if(W.st_over_whole, "complete_reply_plus_trailing_bytes");
  info.cls_if(W.st_over_then_done, "valid_reply_completes_after_cut_off_one");
  if (W.unconfirmed) stats().counters["arrival_unconfirmed"] += (uint64_t)W.unconfirmed;
  if (W.cfd < 0 && W.have_client) stats().counters["client_fd_not_found"]++;
  info.nontrivial = W.st_multi && (W.st_cancel || W.st_timeout);
  return "";
}

SubDef def = [] {
  SubDef d; d.name = "lookup_lifecycle";
  d.op_names = {"cfg", "request", "cancel", "reply", "dup", "advance"};
  d.op_arity = {2, 3, 2, 4, 1, 1};
  d.nt_rule = "history in which one lookup gets replies from at least two servers and some lookup is cancelled while outstanding or times out";
  d.run = run;
#ifndef VERIF_ENGINE_FUZZ
  d.gen = [] {
    auto recent = rc::gen::weightedOneOf<int64_t>({{6, rc::gen::just<int64_t>(0)}, {2, rc::gen::just<int64_t>(1)}, {1, range(2, 8)}});
    auto kind = rc::gen::weightedOneOf<int64_t>({{4, rc::gen::just<int64_t>(K_VALID)}, {2, rc::gen::just<int64_t>(K_NXDOMAIN)}, {8, rc::gen::just<int64_t>(K_SERVFAIL)}, {1, rc::gen::just<int64_t>(K_FORMERR)},
                                                  {4, rc::gen::just<int64_t>(K_REFUSED)}, {2, rc::gen::just<int64_t>(K_NOTREPLY)}, {2, rc::gen::just<int64_t>(K_UNKNOWNID)}, {4, rc::gen::just<int64_t>(K_OVERSIZED)}});
    auto adv = rc::gen::weightedOneOf<int64_t>({{3, range(0, 1000)}, {2, range(900, 1100)}, {2, range(3000, 4200)}, {1, range(4900, 5100)}, {1, range(0, 6000)}});
    auto thenG = rc::gen::weightedOneOf<int64_t>({{6, rc::gen::just<int64_t>(0)}, {2, range(1, 2)}, {6, range(3, kNScripts - 1)}});
    auto longG = rc::gen::weightedOneOf<int64_t>({{15, rc::gen::just<int64_t>(0)}, {1, rc::gen::just<int64_t>(1)}});
    auto modeG = rc::gen::weightedOneOf<int64_t>({{20, rc::gen::just<int64_t>(M_NORMAL)}, {2, rc::gen::just<int64_t>(M_ALLFAIL)}, {2, rc::gen::just<int64_t>(M_MIXED_FIRST)},
                                                   {2, rc::gen::just<int64_t>(M_MIXED_LAST)}, {1, rc::gen::just<int64_t>(M_EMPTY)}});
    auto opg = rc::gen::weightedOneOf<Op>({
      {6, mkop(REQUEST, {range(0, kNDomains - 1), thenG, longG})},
      {2, mkop(CANCEL, {recent, range(0, 3)})},
      {12, mkop(REPLY, {range(0, 2), recent, kind, range(0, 59)})},
      {3, mkop(DUP, {rc::gen::weightedOneOf<int64_t>({{4, rc::gen::just<int64_t>(0)}, {1, range(1, 5)}})})},
      {4, mkop(ADVANCE, {adv})},
    });
    return scenarioOf(fixedOps({mkop(CFG, {rc::gen::weightedOneOf<int64_t>({{1, rc::gen::just<int64_t>(0)}, {3, rc::gen::just<int64_t>(1)}, {3, rc::gen::just<int64_t>(2)}}), modeG}), mkop(REQUEST, {range(0, kNDomains - 1), thenG, longG})}), opsOf(opg));
  };
#endif
  return d;
}();
VERIF_REGISTER(&def);
}  // namespace
