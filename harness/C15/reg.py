_LIBS = ["network", "eventx", "event", "util", "base"]
TARGETS = {
    "c15_reply_fuzz": {"src": "C15/reply_parser.cpp", "variant": "asan", "engine": "fuzz", "libs": _LIBS},
    "c15_reply_rc":   {"src": "C15/reply_parser.cpp", "variant": "asan", "engine": "rc", "libs": _LIBS},
    "c15_lifecycle_rc": {"src": "C15/lookup_lifecycle.cpp", "variant": "asan", "engine": "rc", "libs": _LIBS},
}
PROP = {
    "subchecks": [
        {"target": "c15_reply_rc", "sub": "reply_parser",
         "quick": {"cases": 1000, "max_size": 100, "workers": 4, "case_alarm": 60},
         "thorough": {"cases": 1000, "max_size": 100, "workers": 4, "case_alarm": 60}},
    ],
    "assumptions": [],
}
META = {"design_ref": "DESIGN.md section 4, C15", "technique": "", "level_text": "", "level_note": ""}
