_LIBS = ["network", "eventx", "event", "util", "base"]
_DICT = "harness/C15/dns.dict"
TARGETS = {
    "c15_reply_fuzz":   {"src": "C15/reply_parser.cpp", "variant": "asan", "engine": "fuzz", "libs": _LIBS},
    "c15_reply_rc":     {"src": "C15/reply_parser.cpp", "variant": "asan", "engine": "rc", "libs": _LIBS},
    "c15_lifecycle_rc": {"src": "C15/lookup_lifecycle.cpp", "variant": "asan", "engine": "rc", "libs": _LIBS},
}
PROP = {
    "subchecks": [
        # (a) reply_parser, structure-aware generator (rapidcheck).  Must stay the FIRST rapidcheck sub-check named reply_parser:
        # the *.txt regression inputs of (a) are replayed through it (their first line names the sub).
        {"target": "c15_reply_rc", "sub": "reply_parser",
         "quick": {"cases": 6000, "max_size": 100, "workers": 4, "case_alarm": 60},
         "thorough": {"cases": 150000, "max_size": 100, "workers": 4, "case_alarm": 60}},
        # (b) lookup_lifecycle (rapidcheck + virtual clock + real UDP over loopback)
        {"target": "c15_lifecycle_rc", "sub": "lookup_lifecycle",
         "quick": {"cases": 2000, "max_size": 100, "workers": 4, "case_alarm": 60},
         "thorough": {"cases": 80000, "max_size": 100, "workers": 4, "case_alarm": 60}},
        # (a) reply_parser, libFuzzer (even workers start from corpus/C15/reply_parser, odd ones from an empty corpus).
        # Non-termination is part of the property: the harness's own CPU-time watchdog (5 s of CPU inside one onUdpRecv call) saves the
        # case as a text replay and exits with status 3 (hang_is_violation: the saved text case is replayed by the rapidcheck sub);
        # a libFuzzer timeout-* artifact (25 s wall for a datagram of <= 4 KiB) counts as well.
        {"target": "c15_reply_fuzz", "sub": "reply_parser", "dict": _DICT, "timeout_is_violation": True, "hang_is_violation": True,
         "quick": {"runs": 125000, "max_len": 600, "workers": 4, "unit_timeout": 25},
         "thorough": {"runs": 1000000, "max_len": 1000, "workers": 8, "unit_timeout": 25}},
    ],
    "assumptions": [
        "(a) datagrams are at most 4096 bytes (UdpSocket's receive buffer: nothing longer reaches onUdpRecv); one server is configured, so the first server-failure reply completes the lookup with kAllDnsFail",
        "(a) what a reply that is NOT well-formed by RFC 1035 does to the lookup is left free (ignored, kFail, kAllDnsFail, or kSuccess with part of the data) as long as everything reported is locatable in the datagram by the lenient reference reading; "
        "equality is asserted only for RFC-conformant datagrams that are a plain reply to the question asked (QR, opcode 0, TC and Z clear, question echoed, class IN, answer owners on the CNAME chain, nothing after the last record)",
        "(a) 'www' and 'www.' are one name (the spelling of a name that ends in a pointer to the root label is not fixed by the statement); A/CNAME records outside the answer section may but need not be reported",
        "(b) adopted completion rule: a datagram is acceptable for a lookup iff it carries the lookup's id, has QR set and the lookup is outstanding when the datagram is read; RCODE 0 -> kSuccess with the reply's data, 3 -> kDomainError, "
        "1 -> kFail, every other RCODE is a server failure which completes the lookup with kAllDnsFail only once EVERY configured server has sent one (a duplicate from one server does not stand in for another server); "
        "the source address of a datagram is otherwise not part of the rule (all generated datagrams come from configured servers)",
        "(b) the timeout is the documented 5 checks 1 s apart: asserted window = later than 4 s after request() and in the first loop pass at or after 5 s; the virtual clock advances in steps of at most 1 s, each followed by idle passes",
        "(b) request ids are not reused within a history (at most 32 lookups); setDnsIPAddresses() with lookups outstanding and destroying the DnsRequest inside a callback are not generated; "
        "a completion callback may cancel() the lookup it is being invoked for (harmless on the unmodified tree; the result of that first cancel() is not asserted) and may start further lookups before and after doing so",
        "(b) when the query cannot be sent to any configured server (255.255.255.255 on the non-broadcast socket, a 70 KB name) request() may return an id (the unmodified tree does: the lookup then times out or is completed by a datagram "
        "carrying its id) or 0; 0 means no lookup was started: no callback ever, isRunning(the id it would have had) false, nothing outstanding; with an empty server list request() returns 0",
        "(b) a datagram longer than UdpSocket's 4096-byte receive buffer reaches DnsRequest as its first 4096 bytes (plain recvfrom()); if those end inside a question or record the reply is cut off = malformed and must be ignored "
        "(the lookup stays outstanding and the next acceptable reply completes it); a complete reply followed by padding may be taken (with its own data) or dropped",
        "(b) loopback UDP keeps the order of datagrams sent to one socket; the harness waits (SO_MEMINFO on the client's socket) until each datagram has arrived before it runs the loop",
    ],
}
META = {
    "design_ref": "DESIGN.md section 4, C15",
    "technique": "coverage-guided fuzzing (libFuzzer) and property-based testing with a structure-aware generator (rapidcheck) of DnsRequest's reply parser against an independent, "
                 "iterative RFC 1035 reference reader (differential containment / equality oracle, ASan/UBSan, exact-size datagram copies, pattern-initialised locals so that "
                 "uninitialised reads surface as 0xAA data), plus model-based stateful PBT (rapidcheck) of lookup histories on a real event loop under a virtual monotonic clock "
                 "(hook H1) with real UDP datagrams exchanged over loopback with scripted servers",
    "level_text": "(a) Datagrams built from a DNS op language (canonical CNAME/A replies with and without compression; free-form questions and records of 12 types in all sections; names "
                  "ending in pointers that go backward, into the middle of a name, forward, to themselves, into a loop through labels, to another pointer, into the header, outside the "
                  "packet, names without terminator, reserved label types, labels with NUL and dots; RDLENGTH that lies; count fields inflated up to 65535; truncation at a generated offset "
                  "and, for a share of the cases, at EVERY offset; overwritten bytes; raw bytes; ids that do and do not match; 0-3 byte datagrams while lookup 0xAAAA is outstanding) and "
                  "libFuzzer mutations of a 267-file seed corpus produced by that generator are handed to DnsRequest::onUdpRecv (probe subclass) of a fresh DnsRequest with one outstanding lookup: "
                  "it returns (no crash, no stack exhaustion, no sanitizer report, < 1 s CPU), calls back at most once and only for a datagram that carries the lookup's id with QR set, "
                  "the status agrees with the RCODE, every reported address/ttl and cname/ttl is located in that datagram by the reference reader, and RFC-conformant plain replies are "
                  "reported exactly. (b) Histories of up to 32 lookups against 1-3 loopback servers, optionally with an unsendable 255.255.255.255 entry, only such entries, or no server at all (requests, also of a 70 KB name, also from inside callbacks in scripted chains up to three deep; completion callbacks on the reply and the timeout path that cancel their own id, other ids, and start 0-2 new lookups before/after; cancels of "
                  "outstanding / completed / never issued ids; replies valid / NXDOMAIN / SERVFAIL / FORMERR / REFUSED / NOTIMP / QR clear / unknown id / over-long (4090-9000 bytes, DNS content running past the 4096-byte receive buffer) from any server in any order; "
                  "duplicated datagrams; datagrams sent while no lookup is outstanding; clock advances around the 4-5 s window): every callback runs exactly once, during the delivery of "
                  "the first acceptable datagram with that datagram's data, or as kTimeout inside the window, never after cancel; no other datagram causes a callback; cancel() and "
                  "isRunning() agree with the model after every step. Exploration only: no counter-example among N generated cases.",
    "level_note": "Trusted: the harness's RFC 1035 reference reader and wire builder (dnsref.h), ASan/UBSan, -ftrivial-auto-var-init=pattern, Linux loopback UDP ordering, the virtual clock hook. "
                  "Six genuine defects were found and are fixed by harness/C15/proposed-fixes/01..06 (regression inputs in corpus/C15/regress; the check reports them again if they return). "
                  "Not asserted: what a malformed reply does to the lookup beyond containment; the text of the query; replies from addresses that are not configured servers; "
                  "id reuse after 65535 lookups; the return value of a callback's cancel() of its own lookup.",
}
