# The driver's default ASAN_OPTIONS (malloc_context_size=12, 256 MB quarantine) make a rapidcheck worker grow by ~15-30 KB per case
# (ASan stack depot): 100 000 cases = 1.6 GB.  Detection is unaffected by shorter allocation stacks and a smaller quarantine.
_ASAN = ("detect_leaks=1:detect_stack_use_after_return=0:allocator_may_return_null=1:handle_abort=0:symbolize=1:"
         "malloc_context_size=3:quarantine_size_mb=32")
TARGETS = {
    "c20_alarm_rc": {"src": "C20/alarm.cpp", "variant": "asan", "engine": "rc", "libs": ["alarm", "event", "util", "base"]},
}
PROP = {
    "subchecks": [
        # (a) next-instant function through probe subclasses vs. an independent brute-force reference
        {"target": "c20_alarm_rc", "sub": "next_instant", "env": {"ASAN_OPTIONS": _ASAN},
         "quick": {"cases": 20000, "max_size": 100, "workers": 8, "case_alarm": 60},
         "thorough": {"cases": 900000, "max_size": 100, "workers": 8, "case_alarm": 60}},
        # (b) alarm life-cycle under a virtual wall clock (H2) and a virtual monotonic clock (H1)
        {"target": "c20_alarm_rc", "sub": "lifecycle", "env": {"ASAN_OPTIONS": _ASAN},
         "quick": {"cases": 8000, "max_size": 100, "workers": 8, "case_alarm": 60},
         "thorough": {"cases": 350000, "max_size": 100, "workers": 8, "case_alarm": 60}},
    ],
    "assumptions": [
        "wall clock restricted to [2 days, 2^32 - 5 years] (UTC and local): wrap-around at the ends of the 32-bit epoch is undocumented and excluded",
        "time-zone offset always set explicitly (setTimezone), -720..+840 minutes",
        "cron expressions come from a grammar over the documented 6-field shape (*, values, month/day names, ranges, lists, */n and a-b/n steps); "
        "at most one of day-of-month / day-of-week is restricted (the header does not say whether both are AND-ed or OR-ed)",
        "horizons as the code documents them: weekly 8 days, workday 'i < 367' days, cron CRON_MAX_YEARS_DIFF = 4 years; an instant at the very edge "
        "of a horizon (workday: more than 365 days ahead; cron: 4 or more calendar years ahead) may be reported or not, beyond that 'not found' is required",
        "lifecycle: the loop is responsive (every deadline is approached to 1 ms before and overshot by at most 900 ms), so no instant is legitimately "
        "skipped; a fire counts as due at most 1000 ms after the armed delay elapsed",
        "lifecycle: enable/refresh/clock-step/calendar-update are not issued in the few milliseconds between a skew-induced early wake-up and the "
        "instant itself (recomputing from a wall clock that is still before the instant is ambiguous); the harness first lets the wall clock reach the instant",
        "a wall-clock step is always followed by refresh(), as alarm.h documents",
    ],
}
META = {
    "design_ref": "DESIGN.md section 4, C20",
    "technique": "property-based testing (rapidcheck) under ASan/UBSan: (a) differential test of the protected next-instant computation of all four alarm "
                 "kinds, reached through probe subclasses, against an independent brute-force reference with its own civil-calendar arithmetic and cron "
                 "field sets; (b) model-based stateful test of real alarms on the real event loop under a virtual wall clock (hook H2) and a virtual "
                 "monotonic clock (hook H1) with enable/disable/refresh/advance/skew/clock-step/calendar-update histories",
    "level_text": "Generated configurations (time of day, 7-bit weekday masks, workday calendars with up to 24 special days, cron expressions from a "
                  "grammar with lists, ranges, steps and names), current times biased to day/week/month/year ends and leap days over the 32-bit epoch, "
                  "and time-zone offsets of -12h..+14h are checked against a brute-force reference: the answer must be strictly later than now, satisfy "
                  "the configuration, have no earlier satisfying instant, and be 'not found' exactly when nothing exists inside the documented horizon. "
                  "Generated life-cycle histories check that the callback fires exactly once per reference instant inside enabled periods, never before "
                  "the monotonic delay reached the wall-clock distance measured at arming (targets up to several years away), never twice under a skewed "
                  "monotonic clock, never while disabled, that a one-shot alarm reports disabled after firing, and that remainSeconds() equals target - now. "
                  "Exploration only: no counter-example among N generated cases.",
    "level_note": "Trusted: the reference (days-from-civil arithmetic, weekday anchor 2000-01-01 = Saturday, cron sets built from the generated items, "
                  "not from the expression text), hooks H1/H2 and the vloop driver. Not covered: system time zone (no setTimezone call), wrap-around at "
                  "the ends of the 32-bit epoch, cron expressions restricting both day-of-month and day-of-week, real-time blocking of the loop "
                  "(epoll_wait timeout conversion for waits longer than 24.8 days cannot be observed under a virtual clock), loops blocked for more than a second.",
}
