// C20 — Alarms pick the earliest matching future instant and fire once per instant.
//
// sub next_instant : probe subclasses expose the protected calculateNextLocalTimeSec() of Weekly/Oneshot/
//                    Workday/Cron alarms; every answer is compared with an independent brute-force reference
//                    (own civil-calendar arithmetic, own cron field sets built from the generated grammar items).
// sub lifecycle    : real alarms on a real loop under a virtual wall clock (hook H2) and a virtual monotonic clock
//                    (hook H1, vloop driver); enable/disable/refresh/advance/skew/step/calendar-update histories;
//                    oracle = reference instant sequence + "delay waited >= wall-clock distance measured at arming".
#define VERIF_MAIN
#include "../common/verif.h"
#include "../common/vloop.h"
#include <tbox/event/loop.h>
#include <tbox/alarm/weekly_alarm.h>
#include <tbox/alarm/oneshot_alarm.h>
#include <tbox/alarm/workday_alarm.h>
#include <tbox/alarm/workday_calendar.h>
#include <tbox/alarm/cron_alarm.h>
#include <memory>
#include <deque>

namespace tbox { namespace alarm { extern bool (*verif_utc_hook)(uint32_t &utc_sec, uint32_t &utc_usec); } }

using namespace verif;

namespace {

// ------------------------------------------------------------------------------------------------
// calendar arithmetic of the reference (independent of libc's gmtime/timegm)
// ------------------------------------------------------------------------------------------------
int64_t days_from_civil(int64_t y, unsigned m, unsigned d) {
  y -= m <= 2;
  const int64_t era = (y >= 0 ? y : y - 399) / 400;
  const unsigned yoe = (unsigned)(y - era * 400);
  const unsigned doy = (153 * (m > 2 ? m - 3 : m + 9) + 2) / 5 + d - 1;
  const unsigned doe = yoe * 365 + yoe / 4 - yoe / 100 + doy;
  return era * 146097 + (int64_t)doe - 719468;
}
void civil_from_days(int64_t z, int &y, unsigned &m, unsigned &d) {
  z += 719468;
  const int64_t era = (z >= 0 ? z : z - 146096) / 146097;
  const unsigned doe = (unsigned)(z - era * 146097);
  const unsigned yoe = (doe - doe / 1460 + doe / 36524 - doe / 146096) / 365;
  y = (int)yoe + (int)era * 400;
  const unsigned doy = doe - (365 * yoe + yoe / 4 - yoe / 100);
  const unsigned mp = (5 * doy + 2) / 153;
  d = doy - (153 * mp + 2) / 5 + 1;
  m = mp < 10 ? mp + 3 : mp - 9;
  y += (m <= 2);
}
// 0 = Sunday.  Anchor: 2000-01-01 (day 10957 since 1970-01-01) was a Saturday.
int weekday_of(int64_t day) { int64_t w = (6 + (day - 10957)) % 7; return (int)(w < 0 ? w + 7 : w); }

const int64_t kDay = 86400;
const int64_t kMinUtc = 2 * kDay;                                  // domain of the generated wall clock
const int64_t kMaxUtc = 4294967296LL - 5LL * 366 * kDay;           // 2^32 - 5 years (DESIGN.md C20)
const int64_t kMinDay = 3, kMaxDay = kMaxUtc / kDay - 2;           // local day range that keeps utc inside the domain
const int64_t kFarSec = 4294967;                                   // 2^32 ms

// ------------------------------------------------------------------------------------------------
// configuration shared by both subs
// ------------------------------------------------------------------------------------------------
enum { TZ, WEEKLY, ONESHOT, WORKDAY, DAY, CRON, CF, TIME,         // common prefix of both op tables
       /* lifecycle only: */ EN, DIS, REF, ADV, EARLY, SKEW, STEP, CALMASK, DAYCLR, CBMODE,
       /* both subs: re-initialise the SAME alarm object with a new configuration of its kind */ RECONF,
       /* lifecycle: several alarm objects at once */ SEL, SPAWN, DESTROY };
enum Kind { K_WEEKLY, K_ONESHOT, K_WORKDAY, K_CRON };
const char *kKindName[] = {"kind_weekly", "kind_oneshot", "kind_workday", "kind_cron"};

// System time zones the lifecycle sub runs under (POSIX TZ strings that need no tzdata; minutes east of UTC).  Restricted to
// (-12 h, +12 h): GetSystemTimezoneOffsetSeconds() derives the offset from the local time of day at 12:00 UTC, which is a day off
// for zones at or beyond +12 h (outside the property statement, which speaks of explicit offsets; see NOTES.md).
struct SysZone { const char *tz; int min; };
const SysZone kSysZones[] = {{"UTC0", 0}, {"CST-8", 480}, {"EST5", -300}, {"XXX-5:45", 345}, {"YYY3:30", -210}, {"ZZZ-11", 660}, {"WWW11", -660}, {"VVV-1", 60}};
const int kNumSysZones = 8;

// content of a WorkdayCalendar shared by several alarms (lifecycle); a Config that points to one uses it instead of its own fields
struct CalModel { int mask = 0x3e; std::map<int, bool> special; };

struct Config {
  const CalModel *calp = nullptr;
  int kind = K_WEEKLY;
  int tz_min = 0;             // effective offset: the explicit one, or the system zone's if setTimezone() is never called
  bool tz_explicit = true;
  int sys_idx = 0;            // system zone of the process while the case runs (lifecycle)
  int sod = 0;
  int mask = 0x7f;            // weekly: bit i = weekday i may fire (0 = Sunday)
  int mask_style = 0;
  bool workday_flag = true;   // workday alarm: fire on workdays (true) / on holidays (false)
  int cal_mask = 0x3e;        // calendar's weekly workdays
  std::map<int, bool> special;
  // cron field sets of the reference, built from the generated items (not from the expression text)
  uint64_t c_sec = 0, c_min = 0;
  uint32_t c_hour = 0, c_dom = 0, c_mon = 0, c_dow = 0;
  std::string cron_text;
  bool cron_step = false, cron_list = false, cron_names = false, cron_dow_dropped = false;
  bool cron_start_step = false, cron_ss_in_list = false, cron_ss_start_is_max = false, cron_step_gt_field = false;
  bool cron_invalid = false;   // contains a step item the parser must reject (step 0, missing step): initialize() must return false
  int64_t tz_sec() const { return (int64_t)tz_min * 60; }
};

const uint64_t kFull60 = (1ULL << 60) - 1;
const uint32_t kFullHour = (1u << 24) - 1, kFullDom = 0xfffffffeu, kFullMon = 0x1ffeu, kFullDow = 0x7fu;

const char *kMonNames[] = {"", "JAN", "FEB", "MAR", "APR", "MAY", "JUN", "JUL", "AUG", "SEP", "OCT", "NOV", "DEC"};
const char *kDowNames[] = {"SUN", "MON", "TUE", "WED", "THU", "FRI", "SAT"};

std::string cron_value_text(int field, int v, int style) {
  const char *n = nullptr;
  if (style && field == 4) n = kMonNames[v];
  if (style && field == 5 && v < 7) n = kDowNames[v];
  if (!n) return std::to_string(v);
  std::string s = n;
  if (style == 2) for (auto &ch : s) ch = (char)tolower(ch);
  if (style == 3) for (size_t i = 1; i < s.size(); ++i) s[i] = (char)tolower(s[i]);
  return s;
}

// Builds the configuration from the ops [0, end) of a scenario.  anchor_local = the local time the case starts at
// (used for the boundary-biased seconds-of-day modes and for calendar days given relative to "today").
void build_config(const Scenario &s, size_t end, int64_t anchor_local, Config &c) {
  const int anchor_tod = (int)(anchor_local % kDay);
  const int64_t anchor_day = anchor_local / kDay;
  auto sod_of = [&](const Op &op) -> int {
    switch (op.in(0, 0, 5)) {
      case 0: return (int)op.in(1, 0, 86399);
      case 1: return anchor_tod;
      case 2: return (anchor_tod + 1) % 86400;
      case 3: return (anchor_tod + 86399) % 86400;
      case 4: return 0;
      default: return 86399;
    }
  };
  static const int lo[6] = {0, 0, 0, 1, 1, 0}, hi[6] = {59, 59, 23, 31, 12, 7};
  uint64_t set[6] = {0, 0, 0, 0, 0, 0};
  std::string text[6];
  int items[6] = {0, 0, 0, 0, 0, 0};
  bool bad[6] = {false, false, false, false, false, false}, ss[6] = {false, false, false, false, false, false};
  for (size_t k = 0; k < end && k < s.ops.size(); ++k) {
    const Op &op = s.ops[k];
    switch (op.code) {
      case TZ:   // tz offset [mode [system-zone]]: mode 1 = no setTimezone() call, the alarm follows the system zone
        c.sys_idx = (int)op.in(2, 0, kNumSysZones - 1);
        c.tz_explicit = op.in(1, 0, 1) == 0;
        c.tz_min = c.tz_explicit ? (int)op.in(0, -720, 840) : kSysZones[c.sys_idx].min;
        break;
      case WEEKLY: c.kind = K_WEEKLY; c.sod = sod_of(op); c.mask = (int)op.in(2, 0, 127); c.mask_style = (int)op.in(3, 0, 2); break;
      case ONESHOT: c.kind = K_ONESHOT; c.sod = sod_of(op); break;
      case WORKDAY: c.kind = K_WORKDAY; c.sod = sod_of(op); c.workday_flag = op.in(2, 0, 1) != 0; c.cal_mask = (int)op.in(3, 0, 127); break;
      case DAY: if (c.special.size() < 24) c.special[(int)(anchor_day + op.in(0, -3, 420))] = op.in(1, 0, 1) != 0; break;
      case CRON: c.kind = K_CRON; break;
      case CF: {
        int f = (int)op.in(0, 0, 5);
        if (items[f] >= 4) break;
        int kind = (int)op.in(1, 0, 6);
        int a = (int)op.in(2, lo[f], hi[f]), b = (int)op.in(3, lo[f], hi[f]);
        if (a > b && (kind == 2 || kind == 4)) std::swap(a, b);
        const int span = hi[f] - lo[f] + 1;
        int step = (int)op.in(4, 1, 2 * span);   // steps larger than the field are valid (only the start value remains)
        int style = (int)op.in(5, 0, 3);
        std::string t; uint64_t bits = 0;
        auto add = [&](int v) { bits |= 1ULL << ((f == 5 && v == 7) ? 0 : v); };   // day-of-week 7 = Sunday = 0
        switch (kind) {
          case 0: t = "*"; for (int v = lo[f]; v <= hi[f]; ++v) add(v); break;
          case 1: t = cron_value_text(f, a, style); add(a); break;
          case 2: t = cron_value_text(f, a, style) + "-" + cron_value_text(f, b, style); for (int v = a; v <= b; ++v) add(v); break;
          case 3: t = "*/" + std::to_string(step); for (int v = lo[f]; v <= hi[f]; v += step) add(v); c.cron_step = true; break;
          case 4: t = cron_value_text(f, a, style) + "-" + cron_value_text(f, b, style) + "/" + std::to_string(step);
                  for (int v = a; v <= b; v += step) add(v); c.cron_step = true; break;
          case 5: // "<start>/<step>": from start to the END OF THE FIELD in steps (ccronexpr set_number_hits(): a start without
                  // '-' gets range[1] = max - 1; day-of-week runs to 7, and 7 is Sunday)
                  t = cron_value_text(f, a, style) + "/" + std::to_string(step);
                  for (int v = a; v <= hi[f]; v += step) add(v);
                  c.cron_step = true; c.cron_start_step = true; ss[f] = true;
                  if (a == hi[f]) c.cron_ss_start_is_max = true;
                  break;
          default: // step items every parser of this grammar must reject: zero step, missing step
                  switch (step % 4) {
                    case 0: t = cron_value_text(f, a, style) + "/0"; break;
                    case 1: t = "*/0"; break;
                    case 2: t = cron_value_text(f, a, style) + "/"; break;
                    default: t = cron_value_text(f, a, style) + "-" + cron_value_text(f, std::max(a, b), style) + "/0"; break;
                  }
                  add(a); bad[f] = true; break;
        }
        if ((kind == 3 || kind == 4 || kind == 5) && step > span) c.cron_step_gt_field = true;
        if (style && (f == 4 || (f == 5)) && kind != 0 && kind != 3) c.cron_names = true;
        if (items[f]++) { text[f] += ","; c.cron_list = true; }
        text[f] += t; set[f] |= bits;
        break; }
      default: break;
    }
  }
  const uint64_t full[6] = {kFull60, kFull60, kFullHour, kFullDom, kFullMon, kFullDow};
  for (int f = 0; f < 6; ++f) if (!items[f]) { text[f] = "*"; set[f] = full[f]; }
  // supported shape: at most one of day-of-month / day-of-week restricted (DESIGN.md C20)
  if (set[3] != kFullDom && set[5] != kFullDow) { text[5] = "*"; set[5] = kFullDow; c.cron_dow_dropped = true; bad[5] = false; ss[5] = false; }
  for (int f = 0; f < 6; ++f) { if (bad[f]) c.cron_invalid = true; if (ss[f] && items[f] >= 2) c.cron_ss_in_list = true; }
  c.c_sec = set[0]; c.c_min = set[1]; c.c_hour = (uint32_t)set[2]; c.c_dom = (uint32_t)set[3]; c.c_mon = (uint32_t)set[4]; c.c_dow = (uint32_t)set[5];
  c.cron_text = text[0] + " " + text[1] + " " + text[2] + " " + text[3] + " " + text[4] + " " + text[5];
}

// ------------------------------------------------------------------------------------------------
// reference: earliest instant strictly after `now` (UTC seconds) that satisfies the configuration
// ------------------------------------------------------------------------------------------------
bool cal_is_workday(const Config &c, int64_t day) {
  const std::map<int, bool> &sp = c.calp ? c.calp->special : c.special;
  auto it = sp.find((int)day);
  if (it != sp.end()) return it->second;
  return ((c.calp ? c.calp->mask : c.cal_mask) >> weekday_of(day)) & 1;
}
bool cron_day_ok(const Config &c, int64_t day) {
  int y; unsigned m, d; civil_from_days(day, y, m, d);
  return ((c.c_mon >> m) & 1) && ((c.c_dom >> d) & 1) && ((c.c_dow >> weekday_of(day)) & 1);
}
// earliest time of day >= from that the h/m/s sets allow
bool cron_earliest_tod(const Config &c, int from, int &out) {
  if (from >= 86400) return false;
  const int fh = from / 3600, fm = (from % 3600) / 60, fs = from % 60;
  for (int h = fh; h < 24; ++h) {
    if (!((c.c_hour >> h) & 1)) continue;
    for (int m = (h == fh ? fm : 0); m < 60; ++m) {
      if (!((c.c_min >> m) & 1)) continue;
      for (int sc = (h == fh && m == fm ? fs : 0); sc < 60; ++sc)
        if ((c.c_sec >> sc) & 1) { out = h * 3600 + m * 60 + sc; return true; }
    }
  }
  return false;
}
bool day_ok(const Config &c, int64_t local_day) {
  switch (c.kind) {
    case K_WEEKLY: return (c.mask >> weekday_of(local_day)) & 1;
    case K_ONESHOT: return true;
    case K_WORKDAY: return cal_is_workday(c, local_day) == c.workday_flag;
    default: return cron_day_ok(c, local_day);
  }
}
// does the UTC instant t satisfy the configuration?  (direct predicate, used to cross-check answers)
bool satisfies(const Config &c, int64_t t) {
  int64_t local = t + c.tz_sec();
  int64_t day = local / kDay; int tod = (int)(local % kDay);
  if (!day_ok(c, day)) return false;
  if (c.kind != K_CRON) return tod == c.sod;
  return ((c.c_hour >> (tod / 3600)) & 1) && ((c.c_min >> ((tod % 3600) / 60)) & 1) && ((c.c_sec >> (tod % 60)) & 1);
}

int local_year(const Config &c, int64_t utc) { int y; unsigned m, d; civil_from_days((utc + c.tz_sec()) / kDay, y, m, d); return y; }
enum Zone { Z_NONE, Z_MUST, Z_FREE };
struct Ref { Zone z; int64_t t; };

// Horizon the code documents: weekly 8 days (always enough), workday "for (i < 367)" days, cron CRON_MAX_YEARS_DIFF = 4
// years.  An instant comfortably inside the horizon MUST be found; at/after the edge of the horizon both "not found"
// and the correct instant are accepted (Z_FREE); if nothing exists far beyond the horizon "not found" is required.
Ref next_after(const Config &c, int64_t now) {
  const int64_t local = now + c.tz_sec();
  const int64_t day0 = local / kDay; const int tod0 = (int)(local % kDay);
  const int64_t span = c.kind == K_CRON ? 9 * 366 + 10 : (c.kind == K_WORKDAY ? 800 : 8);
  int y0 = 0; unsigned mm, dd;
  if (c.kind == K_CRON) civil_from_days(day0, y0, mm, dd);
  for (int64_t d = 0; d <= span; ++d) {
    if (!day_ok(c, day0 + d)) continue;
    int tod;
    if (c.kind == K_CRON) { if (!cron_earliest_tod(c, d == 0 ? tod0 + 1 : 0, tod)) continue; }
    else { tod = c.sod; if (d == 0 && tod <= tod0) continue; }
    Ref r; r.t = (day0 + d) * kDay + tod - c.tz_sec(); r.z = Z_MUST;
    if (c.kind == K_WORKDAY && d > 365) r.z = Z_FREE;
    // ccronexpr gives up when a month roll-over reaches calendar year (start year + 5): `tm_year - dot > 4`.  An instant in
    // start year + 4 (leap day asked at/after 29 Feb of a leap year) IS found; later ones (across 2100) may be reported or not.
    if (c.kind == K_CRON) { int y; civil_from_days(day0 + d, y, mm, dd); if (y - y0 > 4) r.z = Z_FREE; }
    return r;
  }
  return Ref{Z_NONE, 0};
}

// ------------------------------------------------------------------------------------------------
// the real alarms (probe subclasses only re-export the protected next-instant function)
// ------------------------------------------------------------------------------------------------
struct WeeklyProbe : tbox::alarm::WeeklyAlarm { using WeeklyAlarm::WeeklyAlarm; using WeeklyAlarm::calculateNextLocalTimeSec; };
struct OneshotProbe : tbox::alarm::OneshotAlarm { using OneshotAlarm::OneshotAlarm; using OneshotAlarm::calculateNextLocalTimeSec; };
struct WorkdayProbe : tbox::alarm::WorkdayAlarm { using WorkdayAlarm::WorkdayAlarm; using WorkdayAlarm::calculateNextLocalTimeSec; };
struct CronProbe : tbox::alarm::CronAlarm { using CronAlarm::CronAlarm; using CronAlarm::calculateNextLocalTimeSec; };

struct Subject {
  std::unique_ptr<tbox::event::Loop> loop;
  std::unique_ptr<tbox::alarm::WorkdayCalendar> cal;     // declared before the alarms: must outlive them
  std::unique_ptr<WeeklyProbe> w; std::unique_ptr<OneshotProbe> o; std::unique_ptr<WorkdayProbe> wd; std::unique_ptr<CronProbe> cr;
  tbox::alarm::Alarm *a = nullptr;
  tbox::alarm::WorkdayCalendar *calp = nullptr;   // calendar the workday alarm watches (owned `cal` or a shared one)
  int kind = 0;

  // standalone form (next_instant): own loop, own calendar.  Returns "" or why the documented-valid configuration was rejected
  std::string create(const Config &c) {
    loop.reset(tbox::event::Loop::New());
    if (c.kind == K_WORKDAY) cal.reset(new tbox::alarm::WorkdayCalendar);
    return create_shared(loop.get(), cal.get(), c, true);
  }
  // alarm object on an external loop, watching an external (possibly shared) calendar whose content the caller manages
  std::string create_shared(tbox::event::Loop *lp, tbox::alarm::WorkdayCalendar *cp, const Config &c, bool set_cal = false) {
    kind = c.kind; calp = cp;
    switch (c.kind) {
      case K_WEEKLY: w.reset(new WeeklyProbe(lp)); a = w.get(); break;
      case K_ONESHOT: o.reset(new OneshotProbe(lp)); a = o.get(); break;
      case K_WORKDAY: wd.reset(new WorkdayProbe(lp)); a = wd.get(); break;
      default: cr.reset(new CronProbe(lp)); a = cr.get(); break;
    }
    std::string e = init_(c, set_cal);
    if (c.tz_explicit) a->setTimezone(c.tz_min);
    return e;
  }
  // initialize() of the EXISTING object with configuration c (same kind); also used to reconfigure it later
  std::string init(const Config &c) { return init_(c, true); }
  std::string reinit(const Config &c, tbox::alarm::WorkdayCalendar *cp) { calp = cp; return init_(c, false); }
  void destroy_alarm() { w.reset(); o.reset(); wd.reset(); cr.reset(); a = nullptr; }
  std::string init_(const Config &c, bool set_cal) {
    bool ok = false;
    switch (kind) {
      case K_WEEKLY: {
        std::string m(7, '0');
        for (int i = 0; i < 7; ++i) m[i] = ((c.mask >> i) & 1) ? '1' : (c.mask_style == 0 ? '0' : (c.mask_style == 1 ? '-' : 'x'));
        ok = w->initialize(c.sod, m); break; }
      case K_ONESHOT: ok = o->initialize(c.sod); break;
      case K_WORKDAY:
        if (set_cal) { calp->updateWeekMask((uint8_t)c.cal_mask); calp->updateSpecialDays(c.special); }
        ok = wd->initialize(c.sod, calp, c.workday_flag); break;
      default: ok = cr->initialize(c.cron_text); break;
    }
    if (kind == K_CRON && c.cron_invalid)
      return ok ? "initialize() accepted the invalid cron expression \"" + c.cron_text + "\" (zero or missing step)" : std::string();
    if (!ok) return "initialize() rejected a configuration of the documented shape" + (c.kind == K_CRON ? " (cron \"" + c.cron_text + "\")" : std::string());
    return "";
  }
  bool calc(uint32_t cur, uint32_t &next) {
    switch (kind) {
      case K_WEEKLY: return w->calculateNextLocalTimeSec(cur, next);
      case K_ONESHOT: return o->calculateNextLocalTimeSec(cur, next);
      case K_WORKDAY: return wd->calculateNextLocalTimeSec(cur, next);
      default: return cr->calculateNextLocalTimeSec(cur, next);
    }
  }
  void destroy(bool ran = true) {
    destroy_alarm();
    if (loop && ran) vloop::passes(loop.get(), 2);   // let the loop run the deferred timer releases
    cal.reset(); loop.reset();
  }
};

std::string describe(const Config &c) {
  char b[400];
  switch (c.kind) {
    case K_WEEKLY: snprintf(b, sizeof b, "weekly sod=%d mask=0x%02x tz=%+dmin", c.sod, c.mask, c.tz_min); break;
    case K_ONESHOT: snprintf(b, sizeof b, "oneshot sod=%d tz=%+dmin", c.sod, c.tz_min); break;
    case K_WORKDAY: snprintf(b, sizeof b, "workday sod=%d on_%s calmask=0x%02x special=%zu tz=%+dmin", c.sod, c.workday_flag ? "workdays" : "holidays", c.calp ? c.calp->mask : c.cal_mask, c.calp ? c.calp->special.size() : c.special.size(), c.tz_min); break;
    default: snprintf(b, sizeof b, "cron \"%s\" tz=%+dmin", c.cron_text.c_str(), c.tz_min); break;
  }
  return b;
}

void cron_classes(const Config &c, CaseInfo &info) {
  if (c.kind != K_CRON) return;
  info.cls_if(c.cron_step, "cron_step"); info.cls_if(c.cron_list, "cron_list"); info.cls_if(c.cron_names, "cron_names");
  info.cls_if(c.cron_start_step, "cron_start_slash_step"); info.cls_if(c.cron_ss_in_list, "cron_start_slash_step_in_list");
  info.cls_if(c.cron_ss_start_is_max, "cron_start_slash_step_start_is_field_max"); info.cls_if(c.cron_step_gt_field, "cron_step_larger_than_field");
  info.cls_if(c.cron_invalid, "cron_invalid_step_rejected");
}

int64_t time_of(const Op &op) {   // local time of a TIME op: day, time of day, small delta
  int64_t t = op.in(1, kMinDay, kMaxDay) * kDay + op.in(2, 0, 86399) + op.in(3, -3, 3);
  return t;
}
int64_t clamp_utc(int64_t u) { return u < kMinUtc ? kMinUtc : (u > kMaxUtc ? kMaxUtc : u); }

// RECONF op at index k: `reconf via sodmode sod p1 p2 enable` describes a NEW configuration of the same kind and time zone for the
// existing alarm object (weekly: p1 = mask, p2 = mask style; workday: p1 = workdays/holidays, p2 = calendar week mask).  The cf ops
// (cron) / day ops (workday) that follow it immediately belong to it: they form the new expression / the new calendar content (days
// relative to the local day at the moment of the reconfiguration).  Returns the index of the first op that is not consumed.
// The spawn op (`spawn kind sodmode sod p1 p2 calendar`) uses the same argument positions; a spawned workday alarm watches an
// existing calendar, so it consumes no day ops (follow_days = false).
size_t derive_config(const Scenario &s, size_t k, int kind, int tz_min, int64_t anchor_local, Config &nc, bool follow_days) {
  const Op &op = s.ops[k];
  Scenario t;
  Op o; o.code = TZ; o.a = {tz_min + 720}; t.ops.push_back(o);
  o.code = kind == K_WEEKLY ? WEEKLY : (kind == K_ONESHOT ? ONESHOT : (kind == K_WORKDAY ? WORKDAY : CRON));
  o.a = {op.arg(1), op.arg(2), op.arg(3), op.arg(4)};
  t.ops.push_back(o);
  size_t e = k + 1;
  const int follow = kind == K_CRON ? CF : (kind == K_WORKDAY && follow_days ? DAY : -1);
  while (e < s.ops.size() && s.ops[e].code == follow) t.ops.push_back(s.ops[e++]);
  nc = Config();
  build_config(t, t.ops.size(), anchor_local, nc);
  return e;
}

// ================================================================================================
// sub next_instant
// ================================================================================================
std::string run_next(const Scenario &s, CaseInfo &info) {
  size_t first_q = s.ops.size();
  for (size_t k = 0; k < s.ops.size(); ++k) if (s.ops[k].code == TIME) { first_q = k; break; }
  if (first_q == s.ops.size()) return "";
  Config c;
  // TZ is needed to turn the anchor into local time; the anchor op itself is given in local time
  build_config(s, first_q, time_of(s.ops[first_q]), c);
  Subject sub;
  std::string e = sub.create(c);
  if (!e.empty()) { sub.destroy(false); return e; }
  info.cls(kKindName[c.kind]);
  info.cls_if(c.tz_min != 0, "tz_nonzero");
  cron_classes(c, info);
  if (c.kind == K_CRON) info.cls_if(c.cron_dow_dropped, "cron_dow_dropped_both_restricted");
  if (c.kind == K_CRON && c.cron_invalid) { sub.destroy(false); return ""; }   // correctly rejected: nothing to ask this object
  const int64_t tz = c.tz_sec();
  int64_t prev_now = -1, prev_res = -1;
  int queries = 0;
  bool reconfigured = false;
  std::string err;
  for (size_t k = first_q; k < s.ops.size() && queries < 12 && err.empty(); ++k) {
    const Op &op = s.ops[k];
    if (op.code == RECONF && queries > 0) {
      // the same object is re-initialised (after disable() or after cleanup()); later answers must follow the NEW configuration only
      Config nc;
      size_t e2 = derive_config(s, k, c.kind, c.tz_min, prev_now + tz, nc, true);
      int via = (int)op.in(0, 0, 1);
      if (via == 0) sub.a->disable(); else sub.a->cleanup();
      info.cls(via == 0 ? "reconf_after_disable" : "reconf_after_cleanup");
      if (c.kind == K_WEEKLY) { info.cls_if((c.mask & ~nc.mask) != 0, "reconf_weekly_mask_drops_a_day"); info.cls_if(c.mask == nc.mask, "reconf_weekly_same_mask"); }
      if (c.kind == K_WORKDAY) info.cls_if(c.workday_flag != nc.workday_flag, "reconf_workday_mode_flipped");
      c = nc;
      std::string ie = sub.init(c);
      c.tz_explicit = true;                    // (next_instant applies the offset itself; the system zone plays no role here)
      sub.a->setTimezone(c.tz_min);           // cleanup() drops the explicit time zone
      if (!ie.empty()) { err = ie + " when re-initialising an existing alarm"; break; }
      cron_classes(c, info);
      if (c.kind == K_CRON && c.cron_invalid) break;   // correctly rejected: the object has no valid configuration any more
      reconfigured = true;
      k = e2 - 1;
      continue;
    }
    if (op.code != TIME) continue;
    int64_t now;
    int mode = (int)op.in(0, 0, 4);
    if (mode == 1 && prev_res >= 0) now = prev_res;
    else if (mode == 2 && prev_res >= 0) now = prev_res - 1;
    else if (mode == 3 && prev_res >= 0) now = prev_res + 1;
    else if (mode == 4 && prev_now >= 0) now = prev_now + op.in(3, -3, 3) * 3600;
    else now = time_of(op) - tz;
    now = clamp_utc(now);
    ++queries; prev_now = now;
    // exactly as Alarm::activeTimer() applies the offset
    uint32_t cur_local = (uint32_t)now + (uint32_t)(int32_t)tz;
    uint32_t next_local = 0;
    bool found = sub.calc(cur_local, next_local);
    int64_t next_utc = (int64_t)(uint32_t)(next_local - (uint32_t)(int32_t)tz);
    Ref r = next_after(c, now);
    if (getenv("VERIF_C20_TRACE")) fprintf(stderr, "query %s now=%lld found=%d next_local=%u next_utc=%lld ref.z=%d ref.t=%lld\n", describe(c).c_str(), (long long)now, (int)found, next_local, (long long)next_utc, (int)r.z, (long long)r.t);
    char b[600];
    auto fail = [&](const char *what) {
      snprintf(b, sizeof b, "%s: now_utc=%lld (local day %lld, tod %lld, wday %d): %s; alarm says %s next_utc=%lld, reference %s%lld",
               describe(c).c_str(), (long long)now, (long long)((now + tz) / kDay), (long long)((now + tz) % kDay), weekday_of((now + tz) / kDay), what,
               found ? "found" : "NOT found", (long long)next_utc, r.z == Z_NONE ? "none " : (r.z == Z_FREE ? "(horizon edge) " : ""), (long long)r.t);
      err = b;
    };
    if (r.z == Z_NONE) { info.cls("not_found_expected"); if (found) fail("no instant exists but one is reported"); prev_res = -1; continue; }
    if (r.z == Z_FREE) info.cls("horizon_edge");
    if (c.kind == K_CRON && r.z == Z_MUST) { int dy = local_year(c, r.t) - local_year(c, now); info.cls_if(dy == 4, "cron_next_in_calendar_year_plus_4"); info.cls_if(dy == 3, "cron_next_in_calendar_year_plus_3"); }
    if (!found) { if (r.z == Z_MUST) fail("an instant exists inside the documented horizon but none is reported"); prev_res = -1; continue; }
    if (next_utc <= now) { fail("reported instant is not strictly after the current time"); continue; }
    if (!satisfies(c, next_utc)) { fail("reported instant does not satisfy the configuration"); continue; }
    if (next_utc != r.t) { fail(next_utc > r.t ? "an earlier matching instant exists" : "reference and predicate disagree (harness bug?)"); continue; }
    prev_res = next_utc;
    info.cls_if(reconfigured, "answer_checked_after_reconf");
    // shape labels
    int64_t l0 = now + tz, l1 = next_utc + tz;
    bool cross_day = l1 / kDay != l0 / kDay;
    bool cross_week = (l1 / kDay + 4) / 7 != (l0 / kDay + 4) / 7;     // weeks starting on Sunday
    info.cls_if(cross_day, "cross_day"); info.cls_if(cross_week, "cross_week"); info.cls_if(!cross_day, "same_day");
    info.cls_if(satisfies(c, now), "now_is_an_instant");
    info.cls_if(next_utc - now > kFarSec, "distance_gt_49d");
    info.cls_if(next_utc - now == 1, "distance_1s");
    if (c.kind != K_CRON) info.cls_if(l0 % kDay == c.sod, "tod_equals_sod");
    if ((cross_week && c.tz_min != 0) || (c.kind == K_CRON && c.cron_step && c.cron_list)) info.nontrivial = true;
  }
  sub.destroy(false);
  return err;
}

// ================================================================================================
// sub lifecycle
// ================================================================================================
struct Wall {
  static int64_t &us() { static int64_t v = 0; return v; }
  static bool read(uint32_t &sec, uint32_t &usec) { sec = (uint32_t)(us() / 1000000); usec = (uint32_t)(us() % 1000000); return true; }
  Wall() { tbox::alarm::verif_utc_hook = &Wall::read; }
  ~Wall() { tbox::alarm::verif_utc_hook = nullptr; }
};

struct Micro { enum { ADVANCE, SKEWM, DO_OP } kind; int64_t a = 0, b = 0; size_t op = 0; };

// Known defect outside the property statement (memory safety, see NOTES.md): a WorkdayAlarm that is destroyed while it is still
// subscribed to its calendar (enabled, or enable()/re-arm failed) leaves a dangling pointer in the calendar.  The destroy op avoids
// exactly that shape and counts what it avoided.
static const bool kAvoid_workday_destroy_subscribed = true;

const int kMaxUnits = 4;

// one alarm object with its own model
struct Unit {
  bool alive = false, used = false;   // a slot is used once per case (never recycled)
  Config c; Subject sub; int cal = 0;
  // model
  bool armed = false, free_pending = false;
  int64_t T = 0; uint64_t M_arm = 0; int64_t W_arm = 0; bool skewed_since_arm = false;
  int64_t last_fired_T = -1;
  int cbmode = 0;
  bool subscribed = false;      // bookkeeping for kAvoid_workday_destroy_subscribed only (never part of an oracle)
  bool reconfigured = false;
  int fires = 0;
  uint64_t need_ms() const { int64_t d = T * 1000000 - W_arm; return (uint64_t)((d + 999) / 1000); }
  uint64_t deadline() const { return M_arm + need_ms(); }
};

struct Life {
  const Scenario &s; CaseInfo &info; uint64_t &M; int64_t &W;
  std::unique_ptr<tbox::event::Loop> loop;
  std::unique_ptr<tbox::alarm::WorkdayCalendar> cal[2];   // declared before the units: calendars outlive the alarms
  CalModel calm[2];
  Unit u[kMaxUnits];
  int cur = 0, tz_min = 0, created = 0, sys_idx = 0;
  bool tz_explicit = true;
  size_t pc = 0, ops_done = 0;
  std::string err;
  std::deque<Micro> q;
  int settle = 0;
  // statistics
  int fires = 0; bool far_target = false, early_wake = false;
  int stops = 0;

  Life(const Scenario &sc, CaseInfo &ci, uint64_t &m, int64_t &w) : s(sc), info(ci), M(m), W(w) {}

  Unit &U() { return u[cur]; }
  int64_t wsec() const { return W / 1000000; }
  int alive_count() const { int n = 0; for (auto &x : u) n += x.alive; return n; }
  void fail(const Unit &x, const std::string &m) {
    if (!err.empty()) return;
    char b[200]; snprintf(b, sizeof b, " [wall=%lld.%06lld mono_ms=%llu fires=%d]", (long long)wsec(), (long long)(W % 1000000), (unsigned long long)M, fires);
    std::string who;
    if (created > 1) { char w[64]; snprintf(w, sizeof w, "alarm #%d of %d: ", (int)(&x - u), created); who = w; }
    err = who + describe(x.c) + ": " + m + b;
  }

  // the model arms for the earliest instant strictly after `start`
  void model_arm(Unit &x, int64_t start) {
    Ref r = next_after(x.c, start);
    x.free_pending = false;
    if (r.z == Z_NONE) { x.armed = false; info.cls("no_instant_exists"); return; }
    x.armed = true; x.free_pending = r.z == Z_FREE;
    x.T = r.t; x.M_arm = M; x.W_arm = W; x.skewed_since_arm = false;
    if (x.T - wsec() > kFarSec) { far_target = true; info.cls("target_gt_49d"); }
    if (x.T - wsec() > 366 * kDay) info.cls("target_gt_1y");
    if (x.c.kind == K_CRON && r.z == Z_MUST && local_year(x.c, x.T) - local_year(x.c, start) == 4) info.cls("cron_armed_for_calendar_year_plus_4");
  }

  // disable() with the subscription bookkeeping
  void real_disable(Unit &x) { bool running = x.sub.a->isEnabled(); x.sub.a->disable(); if (running) x.subscribed = false; }
  bool real_enable(Unit &x) { if (!x.sub.a->isEnabled()) x.subscribed = true; return x.sub.a->enable(); }

  void on_fire(Unit &x) {
    on_fire_checked(x);
    // a violation ends the case; make sure a run-away alarm (e.g. one re-arming itself with a zero delay inside the
    // loop's timer dispatch) cannot keep the loop busy forever
    if (!err.empty()) x.sub.a->disable();
  }
  void on_fire_checked(Unit &x) {
    ++fires; ++x.fires;
    if (!x.armed) { fail(x, "callback fired while the alarm is disabled"); return; }
    uint64_t waited = M - x.M_arm;
    char b[300];
    if ((int64_t)waited * 1000 < x.T * 1000000 - x.W_arm) {
      snprintf(b, sizeof b, "callback fired early: armed at wall %lld.%06lld for instant %lld (distance %lld s) but waited only %llu ms",
               (long long)(x.W_arm / 1000000), (long long)(x.W_arm % 1000000), (long long)x.T, (long long)(x.T - x.W_arm / 1000000), (unsigned long long)waited);
      fail(x, b); return;
    }
    if (!x.skewed_since_arm && W < x.T * 1000000) { fail(x, "callback fired while wall time < target although the clocks ran in lock-step"); return; }
    if (W < x.T * 1000000) { early_wake = true; info.cls("early_wake_by_skew"); }
    if (x.T - x.W_arm / 1000000 > kFarSec) info.cls("target_gt_49d_fired");
    if (x.c.kind == K_CRON && ((x.c.c_dom >> 29) & 1) && x.c.c_dom != kFullDom && x.c.c_mon == (1u << 2)) info.cls("leap_day_alarm_fired");
    x.last_fired_T = x.T;
    info.cls_if(x.reconfigured, "fired_after_reconf");
    info.cls_if(created > 1, "fired_with_several_alarms");
    if (x.c.kind == K_ONESHOT) { x.armed = false; info.cls("oneshot_fired"); }
    else model_arm(x, std::max(x.T, wsec()));
    if (x.cbmode == 1) { real_disable(x); x.armed = false; x.free_pending = false; info.cls("disable_in_callback"); }
  }

  // invariants that hold between loop passes, for every alarm that is alive
  void post_check() {
    for (auto &x : u) {
      if (!err.empty()) return;
      if (!x.alive) continue;
      bool en = x.sub.a->isEnabled();
      if (x.free_pending) { x.armed = en; x.free_pending = false; info.cls("horizon_edge"); }
      if (en != x.armed) { fail(x, en ? "isEnabled() is true although the alarm must be disabled (one-shot fired / disabled / no instant exists)" : "isEnabled() is false although an instant exists and the alarm was enabled"); return; }
      if (!x.armed) continue;
      uint32_t rem = x.sub.a->remainSeconds(), exp = (uint32_t)(x.T - wsec());
      if (rem != exp) { char b[200]; snprintf(b, sizeof b, "remainSeconds()=%u but next instant %lld - now %lld = %u", rem, (long long)x.T, (long long)wsec(), exp); fail(x, b); return; }
      if (M >= x.deadline() + 1000) { char b[200]; snprintf(b, sizeof b, "no callback for instant %lld although %llu ms passed since arming (needed %llu)", (long long)x.T, (unsigned long long)(M - x.M_arm), (unsigned long long)x.need_ms()); fail(x, b); }
    }
  }

  void lock_advance(uint64_t ms) {
    int64_t room = (kMaxUtc * 1000000 - W) / 1000;
    if (room < 0) room = 0;
    if ((int64_t)ms > room) { ms = (uint64_t)room; info.cls("clamped_at_domain_end"); }
    M += ms; W += (int64_t)ms * 1000;
  }

  // ms until the wall clock has reached the instant of every skew-induced early wake-up (0 = not inside such a window)
  int64_t skew_window_ms() const {
    int64_t amt = 0;
    for (auto &x : u) if (x.alive && x.last_fired_T >= 0 && wsec() < x.last_fired_T) amt = std::max(amt, (x.last_fired_T * 1000000 - W + 999) / 1000);
    return amt;
  }
  // earliest deadline among the armed alarms
  bool earliest_deadline(uint64_t &dl) const {
    bool any = false;
    for (auto &x : u) if (x.alive && x.armed) { uint64_t d = x.deadline(); if (!any || d < dl) dl = d; any = true; }
    return any;
  }

  void push_op(size_t k) {
    const Op &op = s.ops[k];
    Micro m;
    switch (op.code) {
      case EN: case REF: case STEP: case DAY: case DAYCLR: case CALMASK: case RECONF: case SPAWN:
        // recomputing inside the few ms between a skew-induced early wake-up and the instant itself is ambiguous
        // (the instant is "still ahead" by the wall clock): first let the wall clock reach the instant
        m.kind = Micro::ADVANCE; m.a = -1; q.push_back(m);
        m.kind = Micro::DO_OP; m.op = k; q.push_back(m); break;
      case DIS: case CBMODE: case SEL: case DESTROY: m.kind = Micro::DO_OP; m.op = k; q.push_back(m); break;
      case SKEW: m.kind = Micro::SKEWM; m.a = op.in(0, 1, 20); q.push_back(m); break;
      case EARLY:   // lock-step to delta ms before the selected alarm's deadline, then let the monotonic clock run ahead
        m.kind = Micro::ADVANCE; m.a = -2; m.b = op.in(0, 1, 20); q.push_back(m);
        m.kind = Micro::SKEWM; m.a = op.in(1, 1, 20); q.push_back(m); break;
      case ADV: {
        int mode = (int)op.in(0, 0, 6);
        m.kind = Micro::ADVANCE; m.b = op.in(2, 0, 900);
        switch (mode) {
          case 0: m.a = op.in(1, 0, 5000); break;
          case 1: m.a = op.in(1, 0, 200000) * 1000; break;
          case 2: m.a = -3; break;                         // to 1 s before the deadline
          case 3: m.a = -4; m.b = 0; break;                // exactly to the deadline
          case 4: m.a = -4; m.b = op.in(2, 1, 900); break; // to deadline + eps
          case 5: m.a = op.in(1, 50, 120) * kDay * 1000 + op.in(2, 0, 86399) * 1000; info.cls("advance_gt_49d"); break;
          default: m.a = op.in(1, 366, 800) * kDay * 1000 + op.in(2, 0, 86399) * 1000; info.cls("advance_gt_1y"); break;
        }
        if (m.a < 0 && !(U().alive && U().armed)) m.a = op.in(1, 0, 200000) * 1000;
        q.push_back(m); break; }
      default: break;
    }
  }

  // resolves the symbolic advance amounts once the micro-step reaches the front of the queue
  void resolve(Micro &m) {
    if (m.a >= 0) return;
    int64_t amt = 0;
    if (m.a == -1) { amt = skew_window_ms(); if (amt > 0) info.cls("left_skew_window_before_op"); }
    else if (U().alive && U().armed) {
      int64_t d = (int64_t)U().deadline() - (int64_t)M;
      if (m.a == -2) amt = d - m.b;
      else if (m.a == -3) amt = d - 1000;
      else amt = d + m.b;
    }
    m.a = amt < 0 ? 0 : amt;
  }

  // one chunk of a lock-step advance: never jumps over the earliest deadline without stopping 1 ms before it and at most
  // 900 ms after it (a responsive loop; a loop blocked for more than a second may legitimately skip instants)
  bool advance_chunk(Micro &m) {
    uint64_t remaining = (uint64_t)m.a, step, dl = 0;
    if (!earliest_deadline(dl)) step = remaining;
    else {
      uint64_t eps = (uint64_t)((m.b + 37 * stops) % 901);
      if (M + 1 < dl) step = std::min<uint64_t>(remaining, dl - 1 - M);
      else if (M < dl + eps) step = std::min<uint64_t>(remaining, dl + eps - M);
      else step = M < dl + 1000 ? std::min<uint64_t>(remaining, dl + 1000 - M) : remaining;
      ++stops;
    }
    uint64_t before = M;
    lock_advance(step);
    if (M - before < step) remaining = step;   // clamped at the end of the domain: stop here
    m.a = (int64_t)(remaining - step);
    if (stops >= 48) { m.a = 0; info.cls("advance_truncated_after_48_stops"); }
    return m.a > 0;
  }

  // the content of calendar ci changed through the calendar's own update functions: every enabled alarm watching it must
  // now be armed for the earliest instant under the CURRENT calendar
  void cal_changed(int ci) {
    int n = 0;
    for (auto &x : u) if (x.alive && x.c.kind == K_WORKDAY && x.cal == ci && x.armed) {
      // an arming at the edge of the horizon that has not been resolved yet (two updates within one op): the alarm may or may
      // not have been running before this update, so after it only "not running" or "running for the new instant" are possible
      bool unresolved = x.free_pending, en = x.sub.a->isEnabled();
      model_arm(x, wsec()); ++n;
      if (unresolved && x.armed && !x.free_pending && !en) x.armed = false;
    }
    info.cls_if(n >= 1, "calendar_update_while_enabled");
    info.cls_if(n >= 2, "calendar_update_with_2plus_enabled_watchers");
    info.cls_if(n >= 3, "calendar_update_with_3plus_enabled_watchers");
  }
  void apply_cal(int ci, bool mask, bool days) {
    if (mask) cal[ci]->updateWeekMask((uint8_t)calm[ci].mask);
    if (days) cal[ci]->updateSpecialDays(calm[ci].special);
    cal_changed(ci);
  }

  // creates the alarm object of unit x for configuration x.c (not enabled)
  std::string make_unit(Unit &x) {
    if (x.c.kind == K_WORKDAY) x.c.calp = &calm[x.cal];
    std::string e = x.sub.create_shared(loop.get(), cal[x.cal].get(), x.c);
    if (!e.empty()) return e;
    cron_classes(x.c, info);
    if (x.c.kind == K_CRON && x.c.cron_invalid) { x.sub.destroy_alarm(); x.used = true; return ""; }   // correctly rejected
    x.alive = true; x.used = true; ++created;
    Unit *px = &x;
    x.sub.a->setCallback([this, px] { on_fire(*px); });
    info.cls(kKindName[x.c.kind]);
    int n = alive_count();
    info.cls(n == 1 ? "alarms_alive_1" : (n == 2 ? "alarms_alive_2" : "alarms_alive_3plus"));
    int same = 0;
    for (auto &y : u) if (y.alive && y.c.kind == K_WORKDAY && x.c.kind == K_WORKDAY && y.cal == x.cal) ++same;
    info.cls_if(same >= 2, "workday_alarms_share_a_calendar");
    info.cls_if(x.c.kind == K_WORKDAY && x.cal == 1, "second_calendar_used");
    return "";
  }

  void do_op(size_t k) {
    const Op &op = s.ops[k];
    Unit &x = U();
    switch (op.code) {
      case SEL: cur = (int)op.in(0, 0, kMaxUnits - 1); break;
      case SPAWN: {
        // another alarm object of any kind on the same loop; workday alarms watch calendar 0 or 1 (shared objects)
        int slot = -1;
        for (int i = 0; i < kMaxUnits; ++i) if (!u[i].used) { slot = i; break; }
        if (slot < 0) break;
        Unit &n = u[slot];
        int kind = (int)op.in(0, 0, 3);
        pc = derive_config(s, k, kind, tz_min, wsec() + (int64_t)tz_min * 60, n.c, false);
        n.c.tz_explicit = tz_explicit; n.c.sys_idx = sys_idx;
        n.cal = kind == K_WORKDAY ? (int)op.in(5, 0, 1) : 0;
        std::string e = make_unit(n);
        if (!e.empty()) { fail(n, e); break; }
        cur = slot;
        break; }
      case DESTROY: {
        if (!x.alive || alive_count() < 2) break;
        if (x.c.kind == K_WORKDAY && kAvoid_workday_destroy_subscribed) {
          if (x.sub.a->isEnabled()) { real_disable(x); x.armed = false; x.free_pending = false; stats().counters["avoided_destroy_of_enabled_workday_alarm"]++; }
          if (x.subscribed) { stats().counters["avoided_destroy_of_subscribed_workday_alarm"]++; break; }
        }
        info.cls(x.armed ? "destroyed_enabled_alarm" : "destroyed_disabled_alarm");
        x.sub.destroy_alarm();
        x.alive = false; x.armed = false; x.free_pending = false;
        break; }
      case RECONF: {
        // disable() or cleanup(), initialize() the SAME object with a new configuration, optionally enable(): from now on the
        // instants and the firings follow the new configuration only
        if (!x.alive) break;
        Config nc;
        pc = derive_config(s, k, x.c.kind, tz_min, wsec() + x.c.tz_sec(), nc, true);
        int via = (int)op.in(0, 0, 3);
        if (x.armed && x.T > wsec()) info.cls("reconf_with_pending_instant");
        if ((via & 1) == 0) real_disable(x); else { bool running = x.sub.a->isEnabled(); x.sub.a->cleanup(); if (running) x.subscribed = false; }
        x.armed = false; x.free_pending = false;
        info.cls((via & 1) == 0 ? "reconf_after_disable" : "reconf_after_cleanup");
        if (x.c.kind == K_WEEKLY) info.cls_if((x.c.mask & ~nc.mask) != 0, "reconf_weekly_mask_drops_a_day");
        if (x.c.kind == K_WORKDAY) info.cls_if(x.c.workday_flag != nc.workday_flag, "reconf_workday_mode_flipped");
        if (x.c.kind == K_WORKDAY) {
          // the new calendar content goes into the (possibly shared, possibly other) calendar object through its update functions
          if ((via & 2) && !x.subscribed) { x.cal ^= 1; info.cls("reconf_workday_other_calendar"); }
          // (two separate updates: an enabled watcher is refreshed after each of them, and one that finds no instant under
          // the intermediate content stays disabled)
          nc.calp = &calm[x.cal];
          calm[x.cal].mask = nc.cal_mask; apply_cal(x.cal, true, false);
          calm[x.cal].special = nc.special; apply_cal(x.cal, false, true);
        }
        x.c = nc;
        std::string ie = x.sub.reinit(x.c, cal[x.cal].get());
        x.c.tz_explicit = tz_explicit; x.c.sys_idx = sys_idx;
        if (via & 1) { if (tz_explicit) x.sub.a->setTimezone(x.c.tz_min); Unit *px = &x; x.sub.a->setCallback([this, px] { on_fire(*px); }); }   // cleanup() dropped both
        if (!ie.empty()) { fail(x, ie + " when re-initialising an existing alarm"); break; }
        cron_classes(x.c, info);
        if (x.c.kind == K_CRON && x.c.cron_invalid) { x.sub.destroy_alarm(); x.alive = false; break; }   // correctly rejected: no valid configuration any more
        x.reconfigured = true;
        if (op.in(5, 0, 3) != 0) {
          bool ret = real_enable(x);
          model_arm(x, wsec());
          if (!x.free_pending && ret != x.armed) fail(x, ret ? "enable() after re-initialisation returned true although no instant exists" : "enable() after re-initialisation returned false although an instant exists");
        }
        break; }
      case EN: {
        if (!x.alive) break;
        bool was = x.armed;
        bool ret = real_enable(x);
        if (!was) {
          model_arm(x, wsec());
          info.cls("enable");
          if (!x.free_pending && ret != x.armed) fail(x, ret ? "enable() returned true although no instant exists" : "enable() returned false although an instant exists");
        }
        break; }
      case DIS: if (!x.alive) break; if (x.armed && x.T > wsec()) info.cls("disable_with_pending_instant"); real_disable(x); x.armed = false; x.free_pending = false; break;
      case REF: if (!x.alive) break; x.sub.a->refresh(); if (x.armed) { model_arm(x, wsec()); info.cls("refresh_while_enabled"); } break;
      case STEP: {
        int64_t d;
        switch (op.in(0, 0, 2)) {
          case 0: d = op.in(1, -3000000, 3000000); break;
          case 1: d = op.in(1, -100000, 100000) * 1000000; break;
          default: d = op.in(1, -400, 400) * kDay * 1000000 + op.in(2, 0, 86399) * 1000000; break;
        }
        int64_t nw = W + d;
        if (nw < kMinUtc * 1000000) nw = kMinUtc * 1000000;
        if (nw > kMaxUtc * 1000000) nw = kMaxUtc * 1000000;
        info.cls(nw < W ? "wall_step_back" : "wall_step_forward");
        W = nw;
        for (auto &y : u) if (y.alive) {
          y.last_fired_T = -1;
          y.sub.a->refresh();                       // documented usage: refresh after the clock was corrected
          if (y.armed) model_arm(y, wsec());
        }
        break; }
      case DAY: case DAYCLR: case CALMASK: {
        // calendar of the selected alarm if it is a workday alarm, else calendar 0
        int ci = (x.alive && x.c.kind == K_WORKDAY) ? x.cal : 0;
        if (op.code == DAY) { if (calm[ci].special.size() < 24) calm[ci].special[(int)((wsec() + (int64_t)tz_min * 60) / kDay + op.in(0, -3, 420))] = op.in(1, 0, 1) != 0; apply_cal(ci, false, true); }
        else if (op.code == DAYCLR) { calm[ci].special.clear(); apply_cal(ci, false, true); }
        else { calm[ci].mask = (int)op.in(0, 0, 127); apply_cal(ci, true, false); }
        break; }
      case CBMODE: if (x.alive) x.cbmode = (int)op.in(0, 0, 1); break;
      default: break;
    }
  }

  bool step(int) {
    if (!err.empty()) return false;
    if (settle > 0) { if (--settle == 0) post_check(); return err.empty(); }
    while (q.empty()) {
      if (pc >= s.ops.size() || ops_done >= 64) return false;
      ++ops_done; stops = 0;
      push_op(pc++);
    }
    Micro &m = q.front();
    switch (m.kind) {
      case Micro::ADVANCE: resolve(m); if (m.a == 0 || !advance_chunk(m)) q.pop_front(); break;
      case Micro::SKEWM: M += (uint64_t)m.a; for (auto &x : u) x.skewed_since_arm = true; q.pop_front(); break;
      case Micro::DO_OP: { size_t k = m.op; q.pop_front(); do_op(k); break; }
    }
    settle = 2;
    return err.empty();
  }

  void teardown() {
    for (auto &x : u) x.sub.destroy_alarm();
    if (loop) vloop::passes(loop.get(), 2);   // let the loop run the deferred timer releases
    cal[0].reset(); cal[1].reset(); loop.reset();
  }
};

std::string run_life(const Scenario &s, CaseInfo &info) {
  size_t start = s.ops.size();
  for (size_t k = 0; k < s.ops.size(); ++k) if (s.ops[k].code == TIME) { start = k; break; }
  if (start == s.ops.size()) return "";
  const Op &st = s.ops[start];
  vloop::Clock clk((uint64_t)st.in(4, 0, 2000000000));
  Wall wall;
  Life L(s, info, clk.now, Wall::us());
  Unit &p = L.u[0];
  build_config(s, start, time_of(st), p.c);
  L.tz_min = p.c.tz_min; L.tz_explicit = p.c.tz_explicit; L.sys_idx = p.c.sys_idx;
  // the process runs in the generated system zone while this case executes (glibc re-reads TZ on tzset())
  setenv("TZ", kSysZones[L.sys_idx].tz, 1); tzset();
  info.cls_if(L.sys_idx != 0, "system_zone_not_utc");
  info.cls_if(!L.tz_explicit, "tz_follows_system_zone");
  info.cls_if(L.tz_explicit && L.tz_min == 0, "tz_explicit_zero");
  info.cls_if(L.tz_explicit && L.tz_min == 0 && L.sys_idx != 0, "tz_explicit_zero_under_non_utc_system_zone");
  info.cls_if(L.tz_explicit && L.tz_min != 0 && L.tz_min == kSysZones[L.sys_idx].min, "tz_explicit_equals_system_zone");
  L.W = clamp_utc(time_of(st) - p.c.tz_sec()) * 1000000 + st.in(5, 0, 999999);
  L.loop.reset(tbox::event::Loop::New());
  for (int i = 0; i < 2; ++i) L.cal[i].reset(new tbox::alarm::WorkdayCalendar);
  if (p.c.kind == K_WORKDAY) {   // the initial calendar content of the primary alarm goes into calendar 0
    L.calm[0].mask = p.c.cal_mask; L.calm[0].special = p.c.special;
    L.cal[0]->updateWeekMask((uint8_t)L.calm[0].mask); L.cal[0]->updateSpecialDays(L.calm[0].special);
  }
  std::string e = L.make_unit(p);
  if (!e.empty()) { L.teardown(); return e; }
  L.pc = start + 1;
  vloop::drive(L.loop.get(), [&L](int q) { return L.step(q); });
  if (L.err.empty()) L.post_check();
  L.teardown();
  info.cls_if(L.fires > 0, "fired"); info.cls_if(L.fires >= 3, "fired_3_or_more");
  info.cls_if(L.created == 1, "single_alarm_case");
  info.nontrivial = L.far_target || L.early_wake;
  return L.err;
}

// ================================================================================================
// generators
// ================================================================================================
#ifndef VERIF_ENGINE_FUZZ
using rc::Gen;
Gen<int64_t> pick(std::initializer_list<std::pair<std::size_t, Gen<int64_t>>> w) { return rc::gen::weightedOneOf<int64_t>(w); }
Gen<int64_t> just(int64_t v) { return rc::gen::just<int64_t>(std::move(v)); }
Op op_of(int code, std::vector<int64_t> a) { Op o; o.code = code; o.a = std::move(a); return o; }

// raw (offset-from-lower-bound) encodings, see Op::in()
int64_t g_tz() {   // minutes offset + 720
  return *pick({{2, just(720)}, {4, rc::gen::map(range(-12, 14), [](int64_t h) { return h * 60 + 720; })},
                {2, rc::gen::elementOf(std::vector<int64_t>{720 + 330, 720 + 345, 720 - 210, 720 + 765, 720 + 570})}, {2, range(0, 1560)}});
}
int64_t g_day() {  // raw local day offset from kMinDay, biased to month/year ends, leap days, Saturdays
  int64_t y = *range(1971, 2099);
  int64_t d = *pick({{4, range(0, kMaxDay - kMinDay)},
                     {2, just(days_from_civil(y, 12, 31) - kMinDay)}, {1, just(days_from_civil(y, 1, 1) - kMinDay)},
                     {2, just(days_from_civil(y - y % 4, 2, 29 - (y - y % 4 == 2100)) - kMinDay)}, {1, just(days_from_civil(y, 2, 28) - kMinDay)},
                     {2, just(days_from_civil(y, (unsigned)*range(1, 12), 1) - 1 - kMinDay)},
                     {2, just(19000 + *range(0, 3000))},
                     // anywhere in the four years after a leap day, dense right after it (leap-day cron alarms: next instant 4 years away)
                     {2, just(days_from_civil(y - y % 4, 2, 28) + *pick({{2, range(0, 3)}, {1, range(0, 320)}, {2, range(0, 1461)}}) - kMinDay)}});
  if (*range(0, 3) == 0) { int64_t abs = d + kMinDay; abs += 6 - weekday_of(abs); d = abs - kMinDay; }   // a Saturday
  if (d < 0) d = 0;
  if (d > kMaxDay - kMinDay) d = kMaxDay - kMinDay;
  return d;
}
int64_t g_tod() { return *pick({{3, range(0, 86399)}, {2, just(0)}, {1, just(1)}, {2, just(86399)}, {1, just(86398)}, {1, just(43200)}}); }
std::vector<int64_t> g_sod() {
  int64_t m = *pick({{3, just(0)}, {2, just(1)}, {2, just(2)}, {2, just(3)}, {1, just(4)}, {1, just(5)}});
  return {m, *range(0, 86399)};
}
int64_t g_mask() { return *pick({{1, just(0)}, {5, rc::gen::map(range(0, 6), [](int64_t b) { return (int64_t)1 << b; })}, {1, just(127)}, {1, just(0x3e)}, {6, range(0, 127)}}); }

void g_config(Scenario &s, int64_t kind, bool far_bias) {
  if (far_bias) {   // lifecycle: the system zone matters (alarms without setTimezone(), explicit offset 0 under a non-UTC zone)
    int64_t sys = *pick({{1, just(0)}, {4, range(1, kNumSysZones - 1)}});
    int64_t mode = *pick({{6, just(0)}, {1, just(1)}});
    s.ops.push_back(op_of(TZ, {mode == 0 && *range(0, 9) == 0 ? (int64_t)kSysZones[sys].min + 720 : g_tz(), mode, sys}));
  } else s.ops.push_back(op_of(TZ, {g_tz()}));
  switch (kind) {
    case K_WEEKLY: { auto sd = g_sod(); s.ops.push_back(op_of(WEEKLY, {sd[0], sd[1], g_mask(), *range(0, 2)})); break; }
    case K_ONESHOT: { auto sd = g_sod(); s.ops.push_back(op_of(ONESHOT, {sd[0], sd[1]})); break; }
    case K_WORKDAY: {
      auto sd = g_sod();
      int64_t flag = *range(0, 1);
      bool sparse = far_bias ? *range(0, 2) != 0 : *range(0, 5) == 0;   // only special days can match: far / missing instants
      int64_t cm = sparse ? (flag ? 0 : 127) : *pick({{3, just(0x3e)}, {1, just(0)}, {1, just(127)}, {3, range(0, 127)}});
      s.ops.push_back(op_of(WORKDAY, {sd[0], sd[1], flag, cm}));
      int64_t n = sparse ? *range(0, 3) : *range(0, 20);
      for (int64_t i = 0; i < n; ++i) {
        int64_t rel = sparse ? *pick({{3, range(45, 380)}, {1, range(360, 372)}, {1, range(0, 14)}}) : *pick({{8, range(-3, 12)}, {1, range(13, 60)}, {1, range(355, 420)}});
        int64_t fl = sparse ? (*range(0, 5) ? flag : 1 - flag) : *range(0, 1);
        s.ops.push_back(op_of(DAY, {rel + 3, fl}));
      }
      break; }
    default: {
      s.ops.push_back(op_of(CRON, {}));
      static const int lo[6] = {0, 0, 0, 1, 1, 0}, hi[6] = {59, 59, 23, 31, 12, 7};
      auto item = [&](int f, int64_t kindsel) {
        int64_t a = *range(0, hi[f] - lo[f]), b = *range(0, hi[f] - lo[f]);
        int64_t step = *pick({{8, range(1, 6)}, {3, range(0, hi[f] - lo[f])}, {1, range(hi[f] - lo[f] + 1, 2 * (hi[f] - lo[f]) + 1)}}) - 1; if (step < 0) step = 0;
        if (kindsel == 5) { int64_t m = *range(0, 9); if (m == 0) a = hi[f] - lo[f]; else if (m <= 4) a = *range(0, (hi[f] - lo[f]) / 3); }   // start at the field maximum / small starts (several values)
        s.ops.push_back(op_of(CF, {f, kindsel, a, b, step, (f >= 4 ? *pick({{2, just(0)}, {1, range(1, 3)}}) : 0)}));
      };
      int64_t tmpl = far_bias ? *pick({{1, just(0)}, {5, just(1)}, {1, just(2)}}) : *pick({{6, just(0)}, {3, just(1)}, {1, just(2)}});
      if (tmpl == 0) {          // free form: every field 0..3 items
        for (int f = 0; f < 6; ++f) {
          int64_t n = *pick({{5, just(0)}, {4, just(1)}, {2, just(2)}, {1, just(3)}});
          for (int64_t i = 0; i < n; ++i) item(f, *pick({{1, just(0)}, {4, just(1)}, {3, just(2)}, {2, just(3)}, {2, just(4)}, {3, just(5)}}));
        }
        if (*range(0, 49) == 0) item((int)*range(0, 5), 6);   // a step item that must be rejected (zero / missing step)
      } else if (tmpl == 1) {   // sparse: one h:m:s per matching day, day restricted by day-of-month/month or day-of-week
        for (int f = 0; f < 3; ++f) { item(f, *pick({{5, just(1)}, {1, just(5)}})); if (*range(0, 11) == 0) item(f, *pick({{1, just(1)}, {1, just(5)}})); }
        int64_t shape = *range(0, 4);
        if (shape <= 2) { item(3, *pick({{3, just(1)}, {1, just(2)}, {1, just(4)}, {1, just(5)}})); if (shape >= 1) item(4, *pick({{3, just(1)}, {1, just(2)}, {1, just(4)}, {1, just(5)}})); if (shape == 2 && *range(0, 1)) item(4, 1); }
        else if (shape == 3) { item(5, *pick({{2, just(1)}, {1, just(2)}, {1, just(5)}})); item(4, 1); }
        else item(5, *pick({{3, just(1)}, {1, just(5)}}));
      } else {                  // leap day / impossible dates
        for (int f = 0; f < 3; ++f) item(f, 1);
        int64_t which = *pick({{3, just(0)}, {1, just(1)}, {2, range(2, 3)}});
        int64_t dom = which == 0 ? 29 : (which == 1 ? 30 : 31), mon = which <= 1 ? 2 : *rc::gen::elementOf(std::vector<int64_t>{2, 4, 6, 9, 11});
        s.ops.push_back(op_of(CF, {3, 1, dom - 1, 0, 0, 0}));
        s.ops.push_back(op_of(CF, {4, 1, mon - 1, 0, 0, *range(0, 3)}));
      }
      break; }
  }
}

// a reconfiguration of the same kind: the kind op of a fresh g_config() becomes the argument list of the reconf op, the cf / day ops
// generated after it follow the reconf op (and are consumed by it)
void g_reconf(Scenario &s, int64_t kind, bool far_bias) {
  Scenario t;
  g_config(t, kind, far_bias);
  const Op &ko = t.ops[1];
  int64_t via = *pick({{4, range(0, 1)}, {1, range(2, 3)}}), en = *range(0, 3);
  s.ops.push_back(op_of(RECONF, {via, ko.arg(0), ko.arg(1), ko.arg(2), ko.arg(3), en}));
  for (size_t i = 2; i < t.ops.size(); ++i) s.ops.push_back(t.ops[i]);
}

rc::Gen<Scenario> gen_next() {
  return rc::gen::exec([]() {
    Scenario s;
    int64_t kind = *range(0, 3);
    g_config(s, kind, false);
    int64_t nq = *range(1, 6);
    for (int64_t i = 0; i < nq; ++i) {
      if (i > 0 && *range(0, 3) == 0) g_reconf(s, kind, false);
      int64_t mode = i == 0 ? 0 : *pick({{2, just(0)}, {4, just(1)}, {2, just(2)}, {1, just(3)}, {1, just(4)}});
      s.ops.push_back(op_of(TIME, {mode, g_day(), g_tod(), *range(0, 6)}));
    }
    return s;
  });
}

// another alarm object: `spawn kind sodmode sod p1 p2 calendar`; a cron alarm's cf ops follow, a workday alarm watches calendar 0 or 1
void g_spawn(Scenario &s, int64_t kind, int64_t calsel) {
  Scenario t;
  g_config(t, kind, true);
  const Op &ko = t.ops[1];
  s.ops.push_back(op_of(SPAWN, {kind, ko.arg(0), ko.arg(1), ko.arg(2), ko.arg(3), calsel}));
  if (kind == K_CRON) for (size_t i = 2; i < t.ops.size(); ++i) s.ops.push_back(t.ops[i]);
}

rc::Gen<Scenario> gen_life() {
  return rc::gen::exec([]() {
    Scenario s;
    int64_t kind = *pick({{3, just(K_WEEKLY)}, {2, just(K_ONESHOT)}, {3, just(K_WORKDAY)}, {4, just(K_CRON)}});
    g_config(s, kind, true);
    s.ops.push_back(op_of(TIME, {0, g_day(), g_tod(), 3, *range(0, 2000000000), *pick({{1, just(0)}, {3, range(0, 999999)}})}));
    // 55 % of the cases keep a single alarm object (all earlier shapes); the others run 2..4 alarms on one loop, workday alarms
    // sharing calendar 0 (mostly) or 1
    const bool multi = *range(0, 99) < 45;
    std::vector<int64_t> kinds = {kind};     // generator's view of the slots (the harness ignores ops on missing alarms)
    std::vector<int64_t> cals = {0};
    size_t sel = 0;
    auto workdays_on = [&](int64_t c) { int n = 0; for (size_t i = 0; i < kinds.size(); ++i) n += kinds[i] == K_WORKDAY && cals[i] == c; return n; };
    auto spawn = [&]() {
      int64_t k2 = (kind == K_WORKDAY || workdays_on(0) > 0) ? *pick({{3, just(K_WORKDAY)}, {1, range(0, 3)}}) : *pick({{2, just(K_WORKDAY)}, {3, range(0, 3)}});
      int64_t c2 = k2 == K_WORKDAY ? *pick({{5, just(0)}, {1, just(1)}}) : 0;
      g_spawn(s, k2, c2);
      kinds.push_back(k2); cals.push_back(c2); sel = kinds.size() - 1;
      if (*range(0, 6)) s.ops.push_back(op_of(EN, {}));
    };
    int64_t n = *range(3, 24);
    for (int64_t i = 0; i < n; ++i) {
      if (i == 0 && *range(0, 9)) {
        s.ops.push_back(op_of(EN, {}));
        if (multi) { int64_t extra = *range(1, 3); for (int64_t j = 0; j < extra; ++j) spawn(); }
        continue;
      }
      if (multi) {
        if (*range(0, 3) == 0) { sel = (size_t)*range(0, (int64_t)kinds.size() - 1); s.ops.push_back(op_of(SEL, {(int64_t)sel})); }
        int64_t r = *range(0, 99);
        if (r < 3 && kinds.size() < 4) { spawn(); continue; }
        if (r < 5) { s.ops.push_back(op_of(DESTROY, {})); continue; }
        if (r < 22 && workdays_on(cals[sel]) >= 2 && kinds[sel] == K_WORKDAY) {   // calendar updates with several watchers
          int64_t c = *range(0, 9);
          if (c < 7) s.ops.push_back(op_of(DAY, {*pick({{6, range(3, 6)}, {3, range(0, 12)}, {1, range(40, 400)}}), *range(0, 1)}));
          else if (c < 8) s.ops.push_back(op_of(DAYCLR, {}));
          else s.ops.push_back(op_of(CALMASK, {g_mask()}));
          continue;
        }
      }
      int64_t w = *range(0, 99);
      if (w < 12) s.ops.push_back(op_of(EN, {}));
      else if (w < 19) s.ops.push_back(op_of(DIS, {}));
      else if (w < 25) s.ops.push_back(op_of(REF, {}));
      else if (w < 60) {
        int64_t mode = *pick({{1, just(0)}, {2, just(1)}, {2, just(2)}, {3, just(3)}, {3, just(4)}, {2, just(5)}, {1, just(6)}});
        int64_t amt = mode == 0 ? *range(0, 5000) : (mode == 1 ? *pick({{2, range(0, 200)}, {2, range(0, 200000)}}) : (mode == 5 ? *range(0, 70) : (mode == 6 ? *range(0, 434) : *range(0, 200000))));
        s.ops.push_back(op_of(ADV, {mode, amt, *range(0, 900)}));
      }
      else if (w < 71) s.ops.push_back(op_of(EARLY, {*range(0, 19), *range(0, 19)}));
      else if (w < 74) s.ops.push_back(op_of(SKEW, {*range(0, 19)}));
      else if (w < 83) {
        int64_t mode = *range(0, 2);
        int64_t amt = mode == 0 ? *range(0, 6000000) : (mode == 1 ? *pick({{1, range(99990, 100010)}, {2, range(0, 200000)}}) : *range(0, 800));
        s.ops.push_back(op_of(STEP, {mode, amt, *range(0, 86399)}));
      }
      else if (w < 87) s.ops.push_back(op_of(CBMODE, {*range(0, 1)}));
      else if (w < 93) g_reconf(s, kinds[sel], true);
      else if (kinds[sel] == K_WORKDAY) {
        if (w < 97) s.ops.push_back(op_of(DAY, {*pick({{3, range(0, 12)}, {2, range(40, 400)}}), *range(0, 1)}));
        else if (w < 98) s.ops.push_back(op_of(DAYCLR, {}));
        else s.ops.push_back(op_of(CALMASK, {g_mask()}));
      }
      else s.ops.push_back(op_of(EN, {}));
    }
    return s;
  });
}
#endif

const std::vector<const char*> kOpNames = {"tz", "weekly", "oneshot", "workday", "day", "cron", "cf", "time",
                                           "enable", "disable", "refresh", "advance", "early", "skew", "step", "calmask", "dayclr", "cbmode", "reconf", "sel", "spawn", "destroy"};
const std::vector<int> kOpArity = {3, 4, 2, 4, 2, 0, 6, 6, 0, 0, 0, 3, 2, 1, 3, 1, 0, 1, 6, 1, 6, 0};

SubDef def_next = [] {
  SubDef d; d.name = "next_instant";
  d.op_names = kOpNames; d.op_arity = kOpArity;
  d.nt_rule = "a next-instant computation that crosses a (Sunday-based) week boundary, hence a day boundary, with a non-zero time-zone offset, or a cron expression containing both a step and a list";
  d.run = run_next;
#ifndef VERIF_ENGINE_FUZZ
  d.gen = gen_next;
#endif
  return d;
}();
VERIF_REGISTER(&def_next);

SubDef def_life = [] {
  SubDef d; d.name = "lifecycle";
  d.op_names = kOpNames; d.op_arity = kOpArity;
  d.nt_rule = "a history in which the alarm is armed for an instant more than 4 294 967 s (49.7 days) away, or in which a skewed monotonic clock wakes the alarm before the wall clock reaches the instant";
  d.run = run_life;
#ifndef VERIF_ENGINE_FUZZ
  d.gen = gen_life;
#endif
  return d;
}();
VERIF_REGISTER(&def_life);

}  // namespace
